// Shared pieces of the read-path drivers (c03, c13): write histories through the real Backend,
// sequencer parking, key / value pools, Coq rendering of key-values.
package lib

import (
	"context"
	"fmt"
	"sync"
	"sync/atomic"
	"time"

	proto "github.com/kubewharf/kubebrain-client/api/v2rpc"

	"github.com/kubewharf/kubebrain/pkg/backend"
	"github.com/kubewharf/kubebrain/pkg/storage"
)

const (
	RSPrefix  = "/r"
	RSBaseRev = 100
)

var RSCompactKey = []byte(RSPrefix + "/compact_key")

// ---------- sequencer parking: one live backend at a time; sequencers of finished backends are parked ----------

var (
	epoch    int64
	seqEpoch sync.Map
)

func RSInstallHook() {
	backend.VerifYieldHook = func(point string) {
		if point != "seq.idle" {
			return
		}
		id := GoID()
		e, _ := seqEpoch.LoadOrStore(id, atomic.LoadInt64(&epoch))
		if e.(int64) < atomic.LoadInt64(&epoch) {
			select {} // backend finished: park its sequencer for good
		}
		time.Sleep(40 * time.Microsecond)
	}
}

func RSRetire() {
	time.Sleep(300 * time.Microsecond)
	atomic.AddInt64(&epoch, 1)
}

// ---------- history ----------

type RSOp struct {
	Kind string // create | update | delete
	Key  []byte
	Val  []byte
	Prev uint64
	Rev  uint64 // revision in the response header (allocated revision)
	OK   bool
	Err  string
}

func (o RSOp) Coq() string {
	switch o.Kind {
	case "create":
		return App("WCreate", Bytes(o.Key), Bytes(o.Val), N(o.Rev), Bool(o.OK))
	case "update":
		return App("WUpdate", Bytes(o.Key), Bytes(o.Val), N(o.Prev), N(o.Rev), Bool(o.OK))
	default:
		return App("WDelete", Bytes(o.Key), N(o.Prev), N(o.Rev), Bool(o.OK))
	}
}
func (o RSOp) JSON() map[string]interface{} {
	return map[string]interface{}{"op": o.Kind, "key": string(o.Key), "val": Q(o.Val), "prev": o.Prev, "rev": o.Rev, "ok": o.OK, "err": o.Err}
}

type RSNode struct {
	B    backend.Backend
	KV   storage.KvStorage
	Next uint64 // next revision the allocator will deal
}

// NewRSNode builds a backend over kv (prefix /r, etcd compatibility on so that Count scans) at the fixed base revision.
func NewRSNode(kv storage.KvStorage, identity string) *RSNode {
	b := backend.NewBackend(kv, backend.Config{Prefix: RSPrefix, Identity: identity, EnableEtcdCompatibility: true, WatchCacheSize: 64}, &NopMetrics{})
	b.SetCurrentRevision(RSBaseRev)
	return &RSNode{B: b, KV: kv, Next: RSBaseRev + 1}
}

func (n *RSNode) Settle() error {
	want := n.Next - 1
	if !WaitUntil(3*time.Second, func() bool { return n.B.GetCurrentRevision() >= want }) {
		return fmt.Errorf("stalled: committed revision %d never reached %d", n.B.GetCurrentRevision(), want)
	}
	return nil
}

// Apply runs one write, checks the allocated revision and waits until it is published.
func (n *RSNode) Apply(o *RSOp) error {
	expect := n.Next
	n.Next++
	if err := n.DoAt(o, expect); err != nil {
		return err
	}
	return n.Settle()
}

// DoAt runs one write that is expected to be dealt revision `expect`; it neither advances Next nor waits.
func (n *RSNode) DoAt(o *RSOp, expect uint64) error {
	ctx := context.Background()
	switch o.Kind {
	case "create":
		resp, err := n.B.Create(ctx, &proto.CreateRequest{Key: o.Key, Value: o.Val})
		if err != nil {
			o.Rev, o.OK, o.Err = expect, false, "err"
		} else {
			o.Rev, o.OK = resp.Header.Revision, resp.Succeeded
		}
	case "update":
		resp, err := n.B.Update(ctx, &proto.UpdateRequest{Kv: &proto.KeyValue{Key: o.Key, Value: o.Val, Revision: o.Prev}})
		if err != nil {
			o.Rev, o.OK, o.Err = expect, false, "err"
		} else {
			o.Rev, o.OK = resp.Header.Revision, resp.Succeeded
			if !o.OK {
				o.Rev = expect // header may be max(allocated, latest); failed ops leave nothing behind
			}
		}
	case "delete":
		resp, err := n.B.Delete(ctx, &proto.DeleteRequest{Key: o.Key, Revision: o.Prev})
		if err != nil {
			o.Rev, o.OK, o.Err = expect, false, "err"
		} else {
			o.Rev, o.OK = resp.Header.Revision, resp.Succeeded
			if !o.OK {
				o.Rev = expect
			}
		}
	}
	if o.OK && o.Rev != expect {
		return fmt.Errorf("%s %q: header revision %d, expected allocated revision %d", o.Kind, o.Key, o.Rev, expect)
	}
	return nil
}

// ---------- generation ----------

var RSKeyPool = []string{"/r/a", "/r/a/b", "/r/a-b", "/r/ab", "/r/a/", "/r/b", "/r/a/b/c", "/r/a0", "/r/\xff", "/r/a\xff", "/r/a.b", "/r/%"}

var RSValPool = [][]byte{[]byte("v1"), []byte("v2"), []byte("value-3"), {0}, {0xff}, {0xff, 0xff, 0x00}, []byte("tombston"), []byte("tombstone!"), []byte("x"), []byte("$"), {87, 251, 128, 139}}

var RSMarker = []byte("tombstone")

func RSBoundPool(keys []string) [][]byte {
	out := [][]byte{[]byte("/r/"), []byte("/r0"), []byte("/"), []byte("0"), []byte("/r/a/"), []byte("/r/a0"), []byte("/r/a"), []byte("/r/b"), []byte("/r/a/b0"), []byte("/r/\xff\xff"), []byte("/r")}
	for _, k := range keys {
		out = append(out, []byte(k))
		out = append(out, backend.PrefixEnd([]byte(k)))
		out = append(out, append([]byte(k), '%')) // just after k, inside the alphabet
	}
	return out
}

type RSLive struct {
	Rev  uint64
	Live bool
}

func RSGenOps(r *Rand, keys []string, st map[string]*RSLive, next *uint64, n int, markerChance int) []RSOp {
	var ops []RSOp
	for i := 0; i < n; i++ {
		k := keys[r.Intn(len(keys))]
		s := st[k]
		if s == nil {
			s = &RSLive{}
			st[k] = s
		}
		val := RSValPool[r.Intn(len(RSValPool))]
		if markerChance > 0 && r.Chance(1, markerChance) {
			val = RSMarker
		}
		var o RSOp
		c := r.Intn(10)
		switch {
		case !s.Live && c < 7:
			o = RSOp{Kind: "create", Key: []byte(k), Val: val}
		case !s.Live && c < 8:
			o = RSOp{Kind: "delete", Key: []byte(k), Prev: 0} // missing key
		case !s.Live:
			o = RSOp{Kind: "update", Key: []byte(k), Val: val, Prev: uint64(RSBaseRev + r.Intn(20))} // guarded update of a missing key
		case c < 4:
			o = RSOp{Kind: "update", Key: []byte(k), Val: val, Prev: s.Rev}
		case c < 5:
			o = RSOp{Kind: "update", Key: []byte(k), Val: val, Prev: s.Rev - 1} // stale
		case c < 6:
			o = RSOp{Kind: "create", Key: []byte(k), Val: val} // exists
		case c < 8:
			o = RSOp{Kind: "delete", Key: []byte(k), Prev: s.Rev}
		case c < 9:
			o = RSOp{Kind: "delete", Key: []byte(k), Prev: 0} // unconditional
		default:
			o = RSOp{Kind: "delete", Key: []byte(k), Prev: s.Rev + 1000} // wrong revision
		}
		// predicted effect (only used to steer generation; the real outcome is recorded)
		rev := *next
		*next++
		switch o.Kind {
		case "create":
			if !s.Live {
				s.Live, s.Rev = true, rev
			}
		case "update":
			if s.Live && o.Prev == s.Rev {
				s.Rev = rev
			}
		case "delete":
			if s.Live && (o.Prev == 0 || o.Prev == s.Rev) {
				s.Live = false
			}
		}
		ops = append(ops, o)
	}
	return ops
}
