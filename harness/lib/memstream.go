package lib

import (
	"context"
	"io"
	"sync"

	"go.etcd.io/etcd/api/v3/etcdserverpb"
	"google.golang.org/grpc/metadata"
)

// MemStream is the grpc.ServerStream part of an in-memory server stream.
type MemStream struct {
	Ctx    context.Context
	Cancel context.CancelFunc
}

func NewMemStream() MemStream {
	ctx, cancel := context.WithCancel(context.Background())
	return MemStream{Ctx: ctx, Cancel: cancel}
}
func (m MemStream) SetHeader(metadata.MD) error  { return nil }
func (m MemStream) SendHeader(metadata.MD) error { return nil }
func (m MemStream) SetTrailer(metadata.MD)       {}
func (m MemStream) Context() context.Context     { return m.Ctx }
func (m MemStream) SendMsg(interface{}) error    { return nil }
func (m MemStream) RecvMsg(interface{}) error    { return nil }

// MemEtcdWatch is an in-memory etcdserverpb.Watch_WatchServer: requests are pushed into In,
// responses are collected.
type MemEtcdWatch struct {
	MemStream
	In  chan *etcdserverpb.WatchRequest
	mu  sync.Mutex
	out []*etcdserverpb.WatchResponse
}

func NewMemEtcdWatch() *MemEtcdWatch {
	return &MemEtcdWatch{MemStream: NewMemStream(), In: make(chan *etcdserverpb.WatchRequest, 8)}
}
func (m *MemEtcdWatch) Send(r *etcdserverpb.WatchResponse) error {
	// marshalled at Send time, as gRPC does
	b, err := r.Marshal()
	if err != nil {
		return err
	}
	c := &etcdserverpb.WatchResponse{}
	if err := c.Unmarshal(b); err != nil {
		return err
	}
	m.mu.Lock()
	m.out = append(m.out, c)
	m.mu.Unlock()
	return nil
}
func (m *MemEtcdWatch) Recv() (*etcdserverpb.WatchRequest, error) {
	select {
	case r := <-m.In:
		return r, nil
	case <-m.Ctx.Done():
		return nil, io.EOF
	}
}
func (m *MemEtcdWatch) Snapshot() []*etcdserverpb.WatchResponse {
	m.mu.Lock()
	defer m.mu.Unlock()
	return append([]*etcdserverpb.WatchResponse{}, m.out...)
}
