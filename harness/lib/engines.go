package lib

import (
	"bytes"
	"context"
	"flag"
	"fmt"
	"io"
	"net/http"
	"os"
	"path/filepath"
	"runtime"
	"strconv"
	"sync"
	"sync/atomic"
	"time"

	"github.com/tikv/client-go/v2/testutils"
	"github.com/tikv/client-go/v2/tikv"
	"google.golang.org/grpc"
	"k8s.io/klog/v2"

	"github.com/kubewharf/kubebrain/pkg/metrics"
	"github.com/kubewharf/kubebrain/pkg/storage"
	ibadger "github.com/kubewharf/kubebrain/pkg/storage/badger"
	imemkv "github.com/kubewharf/kubebrain/pkg/storage/memkv"
	imetrics "github.com/kubewharf/kubebrain/pkg/storage/metrics"
	itikv "github.com/kubewharf/kubebrain/pkg/storage/tikv"
)

// QuietLogs sends klog output to nowhere (by default it writes to stderr and to files under /tmp).
func QuietLogs() {
	fs := flag.NewFlagSet("klog", flag.ContinueOnError)
	klog.InitFlags(fs)
	_ = fs.Set("logtostderr", "false")
	_ = fs.Set("alsologtostderr", "false")
	_ = fs.Set("stderrthreshold", "FATAL")
	klog.SetOutput(io.Discard)
}

// ---------- metrics ----------

// NopMetrics implements metrics.Metrics; Hook (optional) sees every emission (used as a yield point).
type NopMetrics struct {
	Hook func(kind, name string, tags []metrics.T)
	// HookV (optional) also sees the emitted value
	HookV func(kind, name string, v interface{}, tags []metrics.T)
}

func (m *NopMetrics) GetGrpcServerOption() []grpc.ServerOption    { return nil }
func (m *NopMetrics) GetHttpHandlers() map[string]http.Handler     { return nil }
func (m *NopMetrics) EmitCounter(name string, v interface{}, t ...metrics.T) error {
	if m.Hook != nil {
		m.Hook("counter", name, t)
	}
	if m.HookV != nil {
		m.HookV("counter", name, v, t)
	}
	return nil
}
func (m *NopMetrics) EmitGauge(name string, v interface{}, t ...metrics.T) error {
	if m.Hook != nil {
		m.Hook("gauge", name, t)
	}
	if m.HookV != nil {
		m.HookV("gauge", name, v, t)
	}
	return nil
}
func (m *NopMetrics) EmitHistogram(name string, v interface{}, t ...metrics.T) error {
	if m.Hook != nil {
		m.Hook("histogram", name, t)
	}
	if m.HookV != nil {
		m.HookV("histogram", name, v, t)
	}
	return nil
}

// ---------- engines ----------

const (
	EngMem     = "memkv"
	EngBadger  = "badger"
	EngTiKV    = "tikv"
	EngWrapMem = "wrap-memkv"
	EngWrapBadger = "wrap-badger"
)

var engSeq int64

// TiKVCluster is returned for the mock TiKV so that callers can split regions.
type TiKVCluster = testutils.Cluster

// NewEngine opens a fresh, empty engine. scratch is a directory outside /repo and /verif.
// The returned closer closes the engine and removes its files.
func NewEngine(kind, scratch string) (storage.KvStorage, func(), error) {
	kv, _, cl, err := NewEngineX(kind, scratch)
	return kv, cl, err
}

// NewEngineX is NewEngine that also returns the mock cluster for TiKV (nil otherwise).
func NewEngineX(kind, scratch string) (storage.KvStorage, TiKVCluster, func(), error) {
	switch kind {
	case EngMem:
		kv := imemkv.NewKvStorage()
		return kv, nil, func() { _ = kv.Close() }, nil
	case EngBadger:
		dir := filepath.Join(scratch, fmt.Sprintf("badger-%d-%d", os.Getpid(), atomic.AddInt64(&engSeq, 1)))
		if err := os.MkdirAll(dir, 0o755); err != nil {
			return nil, nil, nil, err
		}
		kv, err := ibadger.NewKvStorage(ibadger.Config{Dir: dir})
		if err != nil {
			return nil, nil, nil, err
		}
		return kv, nil, func() { _ = kv.Close(); _ = os.RemoveAll(dir) }, nil
	case EngTiKV:
		rpcClient, cluster, pdClient, err := testutils.NewMockTiKV("", nil)
		if err != nil {
			return nil, nil, nil, err
		}
		testutils.BootstrapWithMultiRegions(cluster)
		st, err := tikv.NewTestTiKVStore(rpcClient, pdClient, nil, nil, 0)
		if err != nil {
			return nil, nil, nil, err
		}
		kv := itikv.NewKvStoreWithStorage([]*tikv.KVStore{st})
		return kv, cluster, func() { _ = kv.Close() }, nil
	case EngWrapMem:
		kv, _, cl, err := NewEngineX(EngMem, scratch)
		if err != nil {
			return nil, nil, nil, err
		}
		return imetrics.NewKvStorage(kv, &NopMetrics{}), nil, cl, nil
	case EngWrapBadger:
		kv, _, cl, err := NewEngineX(EngBadger, scratch)
		if err != nil {
			return nil, nil, nil, err
		}
		return imetrics.NewKvStorage(kv, &NopMetrics{}), nil, cl, nil
	}
	return nil, nil, nil, fmt.Errorf("unknown engine %q", kind)
}

// NewTiKVSplit opens a mock TiKV whose key space is split at the given keys.
func NewTiKVSplit(splitKeys ...[]byte) (storage.KvStorage, func(), error) {
	rpcClient, cluster, pdClient, err := testutils.NewMockTiKV("", nil)
	if err != nil {
		return nil, nil, err
	}
	testutils.BootstrapWithMultiRegions(cluster, splitKeys...)
	st, err := tikv.NewTestTiKVStore(rpcClient, pdClient, nil, nil, 0)
	if err != nil {
		return nil, nil, err
	}
	kv := itikv.NewKvStoreWithStorage([]*tikv.KVStore{st})
	return kv, func() { _ = kv.Close() }, nil
}

// KV is one stored record.
type KV struct{ K, V []byte }

// Dump returns every record of the engine in key order (raw internal keys).
func Dump(kv storage.KvStorage) ([]KV, error) {
	ctx := context.Background()
	it, err := kv.Iter(ctx, []byte{0}, bytes.Repeat([]byte{0xff}, 64), 0, 0)
	if err != nil {
		return nil, err
	}
	defer it.Close()
	var out []KV
	for {
		err := it.Next(ctx)
		if err == io.EOF {
			return out, nil
		}
		if err != nil {
			return out, err
		}
		out = append(out, KV{K: append([]byte{}, it.Key()...), V: append([]byte{}, it.Val()...)})
	}
}

// CoqDump renders a dump as a Coq list of (key, value) pairs.
func CoqDump(d []KV) string {
	xs := make([]string, len(d))
	for i, kv := range d {
		xs[i] = Pair(Bytes(kv.K), Bytes(kv.V))
	}
	return List(xs)
}

// ---------- goroutine identity (used by the gate to attribute engine calls to logical threads) ----------

func GoID() int64 {
	var buf [64]byte
	n := runtime.Stack(buf[:], false)
	// "goroutine 123 [running]:"
	s := buf[len("goroutine "):n]
	i := bytes.IndexByte(s, ' ')
	id, _ := strconv.ParseInt(string(s[:i]), 10, 64)
	return id
}

// ---------- wrappers around a KvStorage ----------

// Wrap is a KvStorage wrapper with optional interception points. Unset fields pass through.
// It also implements the iterator/batch unwrapping DelCurrent needs.
type Wrap struct {
	storage.KvStorage
	// Before is called before every engine call with its kind ("get","iter","batch","del","delcur","parts","tso")
	// and key; a non-nil error is returned to the caller instead of performing the call.
	Before func(kind string, key []byte) error
	// CommitFault is consulted at Commit: returns (err, apply). If err != nil the commit returns err;
	// apply tells whether the batch is nevertheless applied to the engine first.
	CommitFault func() (err error, apply bool)
	// Partitions, when set, replaces GetPartitions.
	Partitions func(start, end []byte) []storage.Partition
	// NoTTL makes SupportTTL return false and drops ttl arguments.
	NoTTL bool
}

func (w *Wrap) before(kind string, key []byte) error {
	if w.Before != nil {
		return w.Before(kind, key)
	}
	return nil
}

func (w *Wrap) SupportTTL() bool {
	if w.NoTTL {
		return false
	}
	return w.KvStorage.SupportTTL()
}
func (w *Wrap) GetTimestampOracle(ctx context.Context) (uint64, error) {
	if err := w.before("tso", nil); err != nil {
		return 0, err
	}
	return w.KvStorage.GetTimestampOracle(ctx)
}
func (w *Wrap) GetPartitions(ctx context.Context, start, end []byte) ([]storage.Partition, error) {
	if err := w.before("parts", start); err != nil {
		return nil, err
	}
	if w.Partitions != nil {
		return w.Partitions(start, end), nil
	}
	return w.KvStorage.GetPartitions(ctx, start, end)
}
func (w *Wrap) Get(ctx context.Context, key []byte) ([]byte, error) {
	if err := w.before("get", key); err != nil {
		return nil, err
	}
	return w.KvStorage.Get(ctx, key)
}

type wrapIter struct{ storage.Iter }

func (w *Wrap) Iter(ctx context.Context, start, end []byte, ts, limit uint64) (storage.Iter, error) {
	if err := w.before("iter", start); err != nil {
		return nil, err
	}
	it, err := w.KvStorage.Iter(ctx, start, end, ts, limit)
	if err != nil {
		return nil, err
	}
	return &wrapIter{it}, nil
}
func (w *Wrap) Del(ctx context.Context, key []byte) error {
	if err := w.before("del", key); err != nil {
		return err
	}
	return w.KvStorage.Del(ctx, key)
}
func (w *Wrap) DelCurrent(ctx context.Context, it storage.Iter) error {
	if err := w.before("delcur", it.Key()); err != nil {
		return err
	}
	if wi, ok := it.(*wrapIter); ok {
		it = wi.Iter
	}
	return w.KvStorage.DelCurrent(ctx, it)
}

type wrapBatch struct {
	w     *Wrap
	inner storage.BatchWrite
	err   error
}

func (w *Wrap) BeginBatchWrite() storage.BatchWrite {
	if err := w.before("batch", nil); err != nil {
		return &wrapBatch{w: w, err: err}
	}
	return &wrapBatch{w: w, inner: w.KvStorage.BeginBatchWrite()}
}
func (b *wrapBatch) ttl(t int64) int64 {
	if b.w.NoTTL {
		return 0
	}
	return t
}
func (b *wrapBatch) PutIfNotExist(k, v []byte, ttl int64) {
	if b.inner != nil {
		b.inner.PutIfNotExist(k, v, b.ttl(ttl))
	}
}
func (b *wrapBatch) CAS(k, n, o []byte, ttl int64) {
	if b.inner != nil {
		b.inner.CAS(k, n, o, b.ttl(ttl))
	}
}
func (b *wrapBatch) Put(k, v []byte, ttl int64) {
	if b.inner != nil {
		b.inner.Put(k, v, b.ttl(ttl))
	}
}
func (b *wrapBatch) Del(k []byte) {
	if b.inner != nil {
		b.inner.Del(k)
	}
}
func (b *wrapBatch) DelCurrent(it storage.Iter) {
	if wi, ok := it.(*wrapIter); ok {
		it = wi.Iter
	}
	if b.inner != nil {
		b.inner.DelCurrent(it)
	}
}
func (b *wrapBatch) Commit(ctx context.Context) error {
	if b.inner == nil {
		return b.err
	}
	if b.w.CommitFault != nil {
		if err, apply := b.w.CommitFault(); err != nil {
			if apply {
				_ = b.inner.Commit(ctx)
			} else {
				// the engine batch must still be released (memkv holds its lock until Commit):
				// commit an emptied batch is impossible, so abort through a cancelled no-op
				abortBatch(b.inner)
			}
			return err
		}
	}
	return b.inner.Commit(ctx)
}

// abortBatch releases an engine batch without applying it. memkv keeps the store mutex from
// BeginBatchWrite until Commit, so the batch is poisoned with a failing condition first
// (a compare-and-swap on a key that cannot exist), then committed: nothing is applied.
func abortBatch(b storage.BatchWrite) {
	b.CAS([]byte("\x00verif-abort-\x00"), []byte{1}, []byte{2}, 0)
	_ = b.Commit(context.Background())
}

// ---------- a small deterministic scheduler for logical threads ----------

// Sched parks registered goroutines at yield points and resumes them one at a time.
type Sched struct {
	mu      sync.Mutex
	threads map[int64]*Thread // by goroutine id
	byName  map[string]*Thread
}

type Thread struct {
	Name   string
	goid   int64
	resume chan struct{}
	parked chan string // receives the yield point name when the thread parks
	done   chan struct{}
	Point  string
	Free   bool // when true the thread is not parked any more (runs to completion)
}

func NewSched() *Sched {
	return &Sched{threads: map[int64]*Thread{}, byName: map[string]*Thread{}}
}

// Go starts f as logical thread `name`; it is parked immediately at point "start".
func (s *Sched) Go(name string, f func()) *Thread {
	t := &Thread{Name: name, resume: make(chan struct{}), parked: make(chan string, 1), done: make(chan struct{})}
	s.mu.Lock()
	s.byName[name] = t
	s.mu.Unlock()
	ready := make(chan struct{})
	go func() {
		t.goid = GoID()
		s.mu.Lock()
		s.threads[t.goid] = t
		s.mu.Unlock()
		close(ready)
		s.Yield("start")
		defer func() {
			s.mu.Lock()
			delete(s.threads, t.goid)
			s.mu.Unlock()
			close(t.done)
		}()
		f()
	}()
	<-ready
	<-t.parked
	t.Point = "start"
	return t
}

// Yield parks the calling goroutine if it is a registered logical thread.
func (s *Sched) Yield(point string) {
	id := GoID()
	s.mu.Lock()
	t := s.threads[id]
	s.mu.Unlock()
	if t == nil || t.Free {
		return
	}
	t.parked <- point
	<-t.resume
}

// Adopt registers the calling goroutine as logical thread `name` (for goroutines the code under
// test starts itself); it returns the thread. The goroutine is not parked by Adopt.
func (s *Sched) Adopt(name string) *Thread {
	t := &Thread{Name: name, goid: GoID(), resume: make(chan struct{}), parked: make(chan string, 1), done: make(chan struct{})}
	s.mu.Lock()
	s.threads[t.goid] = t
	s.byName[name] = t
	s.mu.Unlock()
	return t
}

// Step resumes thread t and waits until it parks again (returns the point name, false) or
// finishes (returns "", true). If neither happens within d it returns ("<blocked>", false).
func (s *Sched) Step(t *Thread, d time.Duration) (string, bool) {
	select {
	case <-t.done:
		return "", true
	default:
	}
	t.resume <- struct{}{}
	select {
	case p := <-t.parked:
		t.Point = p
		return p, false
	case <-t.done:
		return "", true
	case <-time.After(d):
		return "<blocked>", false
	}
}

// Wait waits for a thread that was reported blocked to park or finish.
func (s *Sched) Wait(t *Thread, d time.Duration) (string, bool) {
	select {
	case p := <-t.parked:
		t.Point = p
		return p, false
	case <-t.done:
		return "", true
	case <-time.After(d):
		return "<blocked>", false
	}
}

// Release lets the thread run to completion without further parking and waits for it.
func (s *Sched) Release(t *Thread, d time.Duration) bool {
	select {
	case <-t.done:
		return true
	default:
	}
	t.Free = true
	select {
	case t.resume <- struct{}{}:
	case <-t.done:
		return true
	case <-time.After(d):
		return false
	}
	select {
	case <-t.done:
		return true
	case <-time.After(d):
		return false
	}
}

// GateBefore returns a Wrap.Before function that yields before the listed engine-call kinds.
func (s *Sched) GateBefore(kinds ...string) func(kind string, key []byte) error {
	set := map[string]bool{}
	for _, k := range kinds {
		set[k] = true
	}
	return func(kind string, key []byte) error {
		if set[kind] {
			s.Yield("engine." + kind)
		}
		return nil
	}
}

// WaitUntil polls cond every 200µs up to d.
func WaitUntil(d time.Duration, cond func() bool) bool {
	deadline := time.Now().Add(d)
	for {
		if cond() {
			return true
		}
		if time.Now().After(deadline) {
			return false
		}
		time.Sleep(200 * time.Microsecond)
	}
}
