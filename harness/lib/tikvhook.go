package lib

// Mock TiKV with an interceptor on the RPC and PD clients: drivers place faults below the adapter
// (a failed point read, a scan continuation that fails or comes back empty, a commit of secondary keys
// held back, a prewrite answered with a key error, a timestamp delivered late) the way a real cluster
// produces them, instead of at the KvStorage interface where lib.Wrap sits.

import (
	"context"
	"time"

	"github.com/tikv/client-go/v2/testutils"
	"github.com/tikv/client-go/v2/tikv"
	"github.com/tikv/client-go/v2/tikvrpc"
	pd "github.com/tikv/pd/client"

	"github.com/kubewharf/kubebrain/pkg/storage"
	itikv "github.com/kubewharf/kubebrain/pkg/storage/tikv"
)

// TiKVRPCHook sees every request the store sends. next performs the real call (it may be called zero,
// one or several times); what the hook returns is what the client library gets.
type TiKVRPCHook func(ctx context.Context, addr string, req *tikvrpc.Request,
	next func() (*tikvrpc.Response, error)) (*tikvrpc.Response, error)

// TiKVTSHook sees every timestamp request of the PD client (GetTS); next fetches the real timestamp.
type TiKVTSHook func(ctx context.Context, next func() (int64, int64, error)) (int64, int64, error)

type hookedRPC struct {
	tikv.Client
	hook TiKVRPCHook
}

func (h *hookedRPC) SendRequest(ctx context.Context, addr string, req *tikvrpc.Request, timeout time.Duration) (*tikvrpc.Response, error) {
	next := func() (*tikvrpc.Response, error) { return h.Client.SendRequest(ctx, addr, req, timeout) }
	if h.hook == nil {
		return next()
	}
	return h.hook(ctx, addr, req, next)
}

type hookedPD struct {
	pd.Client
	hook TiKVTSHook
}

func (h *hookedPD) GetTS(ctx context.Context) (int64, int64, error) {
	next := func() (int64, int64, error) { return h.Client.GetTS(ctx) }
	if h.hook == nil {
		return next()
	}
	return h.hook(ctx, next)
}

type hookedTSFuture struct {
	f func() (int64, int64, error)
}

func (t hookedTSFuture) Wait() (int64, int64, error) { return t.f() }

func (h *hookedPD) GetTSAsync(ctx context.Context) pd.TSFuture {
	return hookedTSFuture{f: func() (int64, int64, error) { return h.GetTS(ctx) }}
}

func (h *hookedPD) GetLocalTS(ctx context.Context, dc string) (int64, int64, error) {
	return h.GetTS(ctx)
}

func (h *hookedPD) GetLocalTSAsync(ctx context.Context, dc string) pd.TSFuture {
	return h.GetTSAsync(ctx)
}

// TiKVHooked is one mock cluster with any number of client stores on it, each with its own hooks.
type TiKVHooked struct {
	Cluster TiKVCluster
	rpc     tikv.Client
	pd      pd.Client
	closers []func()
}

// NewTiKVHooked boots a mock cluster split at splitKeys (none: one region).
func NewTiKVHooked(splitKeys ...[]byte) (*TiKVHooked, error) {
	rpcClient, cluster, pdClient, err := testutils.NewMockTiKV("", nil)
	if err != nil {
		return nil, err
	}
	testutils.BootstrapWithMultiRegions(cluster, splitKeys...)
	return &TiKVHooked{Cluster: cluster, rpc: rpcClient, pd: pdClient}, nil
}

// Open returns a KvStorage (the repository's TiKV adapter) over n client stores on the cluster, all of
// them seeing rpcHook / tsHook (either may be nil).
func (t *TiKVHooked) Open(n int, rpcHook TiKVRPCHook, tsHook TiKVTSHook) (storage.KvStorage, error) {
	if n < 1 {
		n = 1
	}
	stores := make([]*tikv.KVStore, 0, n)
	for i := 0; i < n; i++ {
		st, err := tikv.NewTestTiKVStore(t.rpc, t.pd,
			func(c tikv.Client) tikv.Client { return &hookedRPC{Client: c, hook: rpcHook} },
			func(c pd.Client) pd.Client { return &hookedPD{Client: c, hook: tsHook} }, 0)
		if err != nil {
			return nil, err
		}
		stores = append(stores, st)
	}
	kv := itikv.NewKvStoreWithStorage(stores)
	t.closers = append(t.closers, func() { _ = kv.Close() })
	return kv, nil
}

// Close closes every store opened on the cluster.
func (t *TiKVHooked) Close() {
	for _, c := range t.closers {
		c()
	}
	t.closers = nil
}
