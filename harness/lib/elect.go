package lib

// Shared helpers of the leader-lock / hand-over drivers (c14, c15): a KvStorage tap that records what
// the lock object asked the engine's timestamp oracle, sequencer parking by epoch, error classes
// of resourcelock.Interface results, the lock records the drivers write.

import (
	"context"
	"encoding/json"
	"errors"
	"fmt"
	"sync"
	"sync/atomic"
	"time"

	apierrors "k8s.io/apimachinery/pkg/api/errors"
	metav1 "k8s.io/apimachinery/pkg/apis/meta/v1"
	"k8s.io/client-go/tools/leaderelection/resourcelock"

	"github.com/kubewharf/kubebrain/pkg/backend"
	"github.com/kubewharf/kubebrain/pkg/storage"
)

// ElTap sits between a lock object (or a whole Backend) and the engine and records timestamp-oracle
// reads. It is used by one logical thread at a time (the scheduler runs one thread at a time).
type ElTap struct {
	storage.KvStorage
	mu       sync.Mutex
	TsoCalls int
	LastTs   uint64
	LastErr  error
	// engine reads of single keys (the lock object reads only its record)
	GetCalls  int
	LastGet   []byte
	LastGetOK bool
	// fault injection: when armed, the first timestamp-oracle read that follows a committed batch fails
	// (and every further read, until Disarm) — the engine write has landed, the clock is unreachable
	armed   bool
	failing bool
}

// ArmTsoFaultAfterCommit makes the timestamp oracle fail from the next committed batch on, until DisarmTsoFault.
func (t *ElTap) ArmTsoFaultAfterCommit() {
	t.mu.Lock()
	t.armed, t.failing = true, false
	t.mu.Unlock()
}

// DisarmTsoFault ends the injected outage.
func (t *ElTap) DisarmTsoFault() {
	t.mu.Lock()
	t.armed, t.failing = false, false
	t.mu.Unlock()
}

type tapBatch struct {
	storage.BatchWrite
	t *ElTap
}

func (b *tapBatch) Commit(ctx context.Context) error {
	err := b.BatchWrite.Commit(ctx)
	if err == nil {
		b.t.mu.Lock()
		if b.t.armed {
			b.t.failing = true
		}
		b.t.mu.Unlock()
	}
	return err
}

func (t *ElTap) BeginBatchWrite() storage.BatchWrite {
	return &tapBatch{BatchWrite: t.KvStorage.BeginBatchWrite(), t: t}
}

func (t *ElTap) Get(ctx context.Context, key []byte) ([]byte, error) {
	v, err := t.KvStorage.Get(ctx, key)
	t.mu.Lock()
	t.GetCalls++
	t.LastGetOK = err == nil
	t.LastGet = nil
	if err == nil {
		t.LastGet = append([]byte{}, v...)
	}
	t.mu.Unlock()
	return v, err
}

// GetSnapshot returns (number of engine reads so far, bytes of the last one, whether it found the key).
func (t *ElTap) GetSnapshot() (int, []byte, bool) {
	t.mu.Lock()
	defer t.mu.Unlock()
	return t.GetCalls, t.LastGet, t.LastGetOK
}

func (t *ElTap) GetTimestampOracle(ctx context.Context) (uint64, error) {
	t.mu.Lock()
	failing := t.failing
	t.mu.Unlock()
	if failing {
		t.mu.Lock()
		t.TsoCalls++
		t.LastTs, t.LastErr = 0, ErrInjected
		t.mu.Unlock()
		return 0, ErrInjected
	}
	ts, err := t.KvStorage.GetTimestampOracle(ctx)
	t.mu.Lock()
	t.TsoCalls++
	t.LastTs, t.LastErr = ts, err
	t.mu.Unlock()
	return ts, err
}

// Snapshot returns (number of oracle reads so far, last value, last error).
func (t *ElTap) Snapshot() (int, uint64, error) {
	t.mu.Lock()
	defer t.mu.Unlock()
	return t.TsoCalls, t.LastTs, t.LastErr
}

// ---------- sequencer parking ----------

var (
	elEpoch    int64
	elSeqEpoch sync.Map
	elHookOnce sync.Once
)

// ElInstallHook makes idle sequencers sleep instead of spinning and parks, for good, the sequencers
// of backends created before the last ElRetire call.
func ElInstallHook() {
	elHookOnce.Do(func() {
		backend.VerifYieldHook = func(point string) {
			if point != "seq.idle" {
				return
			}
			id := GoID()
			e, _ := elSeqEpoch.LoadOrStore(id, atomic.LoadInt64(&elEpoch))
			if e.(int64) < atomic.LoadInt64(&elEpoch) {
				select {}
			}
			time.Sleep(40 * time.Microsecond)
		}
	})
}

// ElRetire retires every backend created so far.
func ElRetire() {
	time.Sleep(300 * time.Microsecond)
	atomic.AddInt64(&elEpoch, 1)
}

// ---------- result classes (constructors of Model/Election.v `res`) ----------

var ErrInjected = errors.New("injected engine fault")

// ElClassGet classifies the error of resourcelock.Interface.Get.
func ElClassGet(err error) string {
	if err == nil {
		return "ROk"
	}
	if apierrors.IsNotFound(err) {
		return "RNotFound"
	}
	var se *json.SyntaxError
	var te *json.UnmarshalTypeError
	if errors.As(err, &se) || errors.As(err, &te) {
		return "RDecode"
	}
	return "RErr"
}

// ElClassWrite classifies the error of Create / Update; engineCall tells whether the operation
// reached the engine (an Update on an uninitialised lock does not).
func ElClassWrite(err error, engineCall bool) string {
	if err == nil {
		return "ROk"
	}
	if errors.Is(err, storage.ErrCASFailed) {
		return "RConflict"
	}
	if !engineCall && !errors.Is(err, ErrInjected) {
		return "RUninit"
	}
	return "RErr"
}

// ElRecord builds a leader election record the way client-go's elector does (identity, lease
// duration, acquire/renew time, transitions) with deterministic times: n seconds after a fixed date.
func ElRecord(holder string, n int, transitions int) resourcelock.LeaderElectionRecord {
	t := metav1.Unix(1700000000+int64(n), 0)
	return resourcelock.LeaderElectionRecord{
		HolderIdentity:       holder,
		LeaseDurationSeconds: 8,
		AcquireTime:          t,
		RenewTime:            t,
		LeaderTransitions:    transitions,
	}
}

// ElMarshal is json.Marshal of a record: the bytes the lock object will store for it.
func ElMarshal(r resourcelock.LeaderElectionRecord) []byte {
	b, err := json.Marshal(r)
	if err != nil {
		panic(err)
	}
	return b
}

// ElKey is the engine key of the lock record for a backend prefix.
func ElKey(prefix string) []byte { return []byte(fmt.Sprintf("%s/election", prefix)) }

// ElStored reads the lock record straight from the engine.
func ElStored(kv storage.KvStorage, prefix string) ([]byte, bool, error) {
	v, err := kv.Get(context.Background(), ElKey(prefix))
	if err == storage.ErrKeyNotFound {
		return nil, false, nil
	}
	if err != nil {
		return nil, false, err
	}
	return append([]byte{}, v...), true, nil
}

// ElBytes prints a byte string for a Coq case: printable ASCII as `(bs "...")` (Model/Election.v; Coq
// parses a string literal far faster than a list of numbers), anything else as a list.
func ElBytes(b []byte) string {
	if len(b) == 0 {
		return "[]"
	}
	for _, x := range b {
		if x < 32 || x > 126 {
			return Bytes(b)
		}
	}
	s := string(b)
	out := make([]byte, 0, len(s)+8)
	for i := 0; i < len(s); i++ {
		if s[i] == '"' {
			out = append(out, '"', '"')
		} else {
			out = append(out, s[i])
		}
	}
	return "(bs \"" + string(out) + "\")"
}

// ElOptBytes is OptBytes with ElBytes.
func ElOptBytes(b []byte, present bool) string {
	if !present {
		return None()
	}
	return Some(ElBytes(b))
}
