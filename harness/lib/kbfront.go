package lib

// kbfront.go — the real front ends in front of a KBNode's Backend: the etcd-compatible RPCServer (Txn with
// the request shapes kube-apiserver sends), the native brain server, and a follower's etcd proxy in front of a
// leader whose link loses replies. The same schedules and oracles as for the Backend interface apply: the
// properties are about what clients see.

import (
	"context"
	"fmt"
	"net"
	"strings"
	"sync/atomic"
	"time"

	proto "github.com/kubewharf/kubebrain-client/api/v2rpc"
	"go.etcd.io/etcd/api/v3/etcdserverpb"
	"google.golang.org/grpc"
	"google.golang.org/grpc/codes"
	"google.golang.org/grpc/status"

	"github.com/kubewharf/kubebrain/pkg/backend"
	"github.com/kubewharf/kubebrain/pkg/server/brain"
	"github.com/kubewharf/kubebrain/pkg/server/etcd"
	"github.com/kubewharf/kubebrain/pkg/server/service/etcdproxy"
	"github.com/kubewharf/kubebrain/pkg/server/service/leader"
)

// kbPeers is a PeerService with a fixed role.
type kbPeers struct {
	*leader.Stub
	etcdproxy.EtcdProxy
	sync func() error
}

func (p kbPeers) SyncReadRevision() error {
	if p.sync != nil {
		return p.sync()
	}
	return nil
}
func (p kbPeers) Close() error { return nil }

func kbLeaderPeers() kbPeers {
	return kbPeers{Stub: &leader.Stub{ElectionInfo: leader.ElectionInfo{IsLeader: true}}, EtcdProxy: etcdproxy.NewDisabledEtcdProxy()}
}

// ---------- etcd request shapes (what kube-apiserver sends) ----------

func etcdCmpMod(key []byte, rev int64) *etcdserverpb.Compare {
	return &etcdserverpb.Compare{Target: etcdserverpb.Compare_MOD, Result: etcdserverpb.Compare_EQUAL, Key: key,
		TargetUnion: &etcdserverpb.Compare_ModRevision{ModRevision: rev}}
}
func etcdPut(key, val []byte) *etcdserverpb.RequestOp {
	return &etcdserverpb.RequestOp{Request: &etcdserverpb.RequestOp_RequestPut{RequestPut: &etcdserverpb.PutRequest{Key: key, Value: val}}}
}
func etcdGet(key []byte) *etcdserverpb.RequestOp {
	return &etcdserverpb.RequestOp{Request: &etcdserverpb.RequestOp_RequestRange{RequestRange: &etcdserverpb.RangeRequest{Key: key}}}
}
func etcdDel(key []byte) *etcdserverpb.RequestOp {
	return &etcdserverpb.RequestOp{Request: &etcdserverpb.RequestOp_RequestDeleteRange{RequestDeleteRange: &etcdserverpb.DeleteRangeRequest{Key: key}}}
}

// EtcdTxnFor builds the Txn for a request.
func EtcdTxnFor(q KReq, key []byte) *etcdserverpb.TxnRequest {
	switch q.Op {
	case OpCreate:
		return &etcdserverpb.TxnRequest{Compare: []*etcdserverpb.Compare{etcdCmpMod(key, 0)}, Success: []*etcdserverpb.RequestOp{etcdPut(key, q.Val)}}
	case OpUpdate:
		return &etcdserverpb.TxnRequest{Compare: []*etcdserverpb.Compare{etcdCmpMod(key, int64(q.Rev))},
			Success: []*etcdserverpb.RequestOp{etcdPut(key, q.Val)}, Failure: []*etcdserverpb.RequestOp{etcdGet(key)}}
	default:
		if q.Rev == 0 {
			return &etcdserverpb.TxnRequest{Success: []*etcdserverpb.RequestOp{etcdGet(key), etcdDel(key)}}
		}
		return &etcdserverpb.TxnRequest{Compare: []*etcdserverpb.Compare{etcdCmpMod(key, int64(q.Rev))},
			Success: []*etcdserverpb.RequestOp{etcdDel(key)}, Failure: []*etcdserverpb.RequestOp{etcdGet(key)}}
	}
}

// EtcdTxnResp turns a TxnResponse into the canonical response. The header is the smallest header revision found
// in the answer (outer header and the headers of the nested responses): each of them must cover the returned kv.
func EtcdTxnResp(q KReq, resp *etcdserverpb.TxnResponse, err error) KResp {
	r := KResp{Op: q.Op}
	if err != nil || resp == nil || resp.Header == nil {
		r.Err = true
		return r
	}
	r.Hdr, r.Succ = uint64(resp.Header.Revision), resp.Succeeded
	for _, op := range resp.Responses {
		if rr := op.GetResponseRange(); rr != nil {
			if rr.Header != nil && uint64(rr.Header.Revision) < r.Hdr {
				r.Hdr = uint64(rr.Header.Revision)
			}
			if len(rr.Kvs) > 0 {
				r.HasKv, r.KvVal, r.KvRev = true, rr.Kvs[0].Value, uint64(rr.Kvs[0].ModRevision)
			}
		}
		if pr := op.GetResponsePut(); pr != nil && pr.Header != nil && uint64(pr.Header.Revision) < r.Hdr {
			r.Hdr = uint64(pr.Header.Revision)
		}
	}
	return r
}

// KBEtcdFront sends requests through etcd.RPCServer.Txn.
type KBEtcdFront struct{ srv *etcd.RPCServer }

func NewKBEtcdFront(b backend.Backend) *KBEtcdFront {
	return &KBEtcdFront{srv: etcd.New(b, &NopMetrics{}, kbLeaderPeers())}
}
func (f *KBEtcdFront) Do(ctx context.Context, q KReq, key []byte) KResp {
	resp, err := f.srv.Txn(ctx, EtcdTxnFor(q, key))
	return EtcdTxnResp(q, resp, err)
}

// KBBrainFront sends requests through the write handlers of brain.Server.
type KBBrainFront struct{ srv *brain.Server }

func NewKBBrainFront(b backend.Backend, leaderRole bool, sync func() error) *KBBrainFront {
	p := kbPeers{Stub: &leader.Stub{ElectionInfo: leader.ElectionInfo{IsLeader: leaderRole}}, EtcdProxy: etcdproxy.NewDisabledEtcdProxy(), sync: sync}
	return &KBBrainFront{srv: brain.New(b, &NopMetrics{}, p)}
}
func (f *KBBrainFront) Do(ctx context.Context, q KReq, key []byte) (r KResp) {
	r.Op = q.Op
	switch q.Op {
	case OpCreate:
		resp, err := f.srv.Create(ctx, &proto.CreateRequest{Key: key, Value: q.Val})
		if err != nil || resp == nil {
			r.Err = true
			return
		}
		r.Hdr, r.Succ = resp.GetHeader().GetRevision(), resp.Succeeded
	case OpUpdate:
		resp, err := f.srv.Update(ctx, &proto.UpdateRequest{Kv: &proto.KeyValue{Key: key, Value: q.Val, Revision: q.Rev}})
		if err != nil || resp == nil {
			r.Err = true
			return
		}
		r.Hdr, r.Succ = resp.GetHeader().GetRevision(), resp.Succeeded
		if resp.Kv != nil {
			r.HasKv, r.KvVal, r.KvRev = true, resp.Kv.Value, resp.Kv.Revision
		}
	default:
		resp, err := f.srv.Delete(ctx, &proto.DeleteRequest{Key: key, Revision: q.Rev})
		if err != nil || resp == nil {
			r.Err = true
			return
		}
		r.Hdr, r.Succ = resp.GetHeader().GetRevision(), resp.Succeeded
		if resp.Kv != nil {
			r.HasKv, r.KvVal, r.KvRev = true, resp.Kv.Value, resp.Kv.Revision
		}
	}
	return
}

// ---------- two nodes over one store: a leader and a follower behind real brain servers (C02) ----------

// TwoNodeStamps: leader A and follower B share one store; writes are sent to A, a follower read syncs B, one
// write of each kind is sent to B. Returns, per node, the revisions of the writes that node acknowledged as
// successful, and all of them in the order the requests completed.
func TwoNodeStamps(scratch string) (perNode [][]uint64, realtime []uint64, detail interface{}, err error) {
	kbInstallHook()
	inner, closer, err := NewEngine(EngMem, scratch)
	if err != nil {
		return nil, nil, nil, err
	}
	defer closer()
	a := backend.NewBackend(inner, backend.Config{Prefix: KBPrefix, Identity: "node-a"}, &NopMetrics{})
	b := backend.NewBackend(inner, backend.Config{Prefix: KBPrefix, Identity: "node-b"}, &NopMetrics{})
	a.SetCurrentRevision(5000) // what winning the election does
	fa := NewKBBrainFront(a, true, nil)
	// a follower read copies the leader's read revision into the follower, as the revision syncer does
	syncB := func() error { b.SetCurrentRevision(a.GetCurrentRevision()); return nil }
	fb := NewKBBrainFront(b, false, syncB)
	ctx := context.Background()
	perNode = [][]uint64{nil, nil}
	log := []interface{}{}
	do := func(node int, q KReq, key string) KResp {
		f := fa
		if node == 1 {
			f = fb
		}
		r := f.Do(ctx, q, []byte(KBPrefix+"/two/"+key))
		log = append(log, map[string]interface{}{"node": []string{"leader", "follower"}[node], "req": q.JSON(), "key": key, "resp": r.JSON()})
		if !r.Err && r.Succ {
			perNode[node] = append(perNode[node], r.Hdr)
			realtime = append(realtime, r.Hdr)
			WaitUntil(2*time.Second, func() bool { return a.GetCurrentRevision() >= r.Hdr || node == 1 })
		}
		return r
	}
	p1 := do(0, KReq{Op: OpCreate, Val: v("1")}, "p1")
	do(0, KReq{Op: OpCreate, Val: v("2")}, "p2")
	_ = syncB()
	do(0, KReq{Op: OpCreate, Val: v("3")}, "p3")
	do(0, KReq{Op: OpCreate, Val: v("4")}, "p4")
	// misrouted writes: a non-leader must turn them away
	do(1, KReq{Op: OpCreate, Val: v("5")}, "p5")
	do(1, KReq{Op: OpUpdate, Val: v("1b"), Rev: p1.Hdr}, "p1")
	do(1, KReq{Op: OpDelete, Rev: 0}, "p2")
	do(0, KReq{Op: OpCreate, Val: v("6")}, "p6")
	do(0, KReq{Op: OpUpdate, Val: v("3b"), Sym: SymLit, Rev: perNodeLast(perNode[0], 3)}, "p3")
	return perNode, realtime, log, nil
}

func perNodeLast(xs []uint64, i int) uint64 {
	if i-1 < len(xs) && i >= 1 {
		return xs[i-1]
	}
	return 0
}

// ---------- a follower's etcd proxy in front of a leader whose link loses replies (C01) ----------

// KProxyCase: one conditional write sent through the follower; the leader executes it and its reply is lost.
type KProxyCase struct {
	D0     uint64
	Init   KState
	Req    KReq
	Resp   KResp
	Final  KState
	Lost   int // replies lost on the link
	Execs  int // Txn executions on the leader for this request
	Engine string
}

func (c *KProxyCase) Coq() string {
	return App("C1Proxy", App("Build_proxy_case", N(c.D0), c.Init.Coq(), c.Req.Coq(), c.Resp.Coq(), c.Final.Coq()))
}
func (c *KProxyCase) JSON() interface{} {
	return map[string]interface{}{"engine": c.Engine, "d0": c.D0, "key_before": c.Init.JSON(), "request_through_follower_proxy": c.Req.JSON(),
		"replies_lost_after_execution": c.Lost, "executions_on_leader": c.Execs, "answer": c.Resp.JSON(), "key_after": c.Final.JSON()}
}

// RunProxyCases: leader = node n behind the real etcd front end on a loopback gRPC listener with an interceptor
// that executes the Txn and then answers Unavailable for chosen requests; follower = etcdproxy.NewEtcdProxy.
func (n *KBNode) RunProxyCases() ([]*KProxyCase, error) {
	var drop, executed int32
	lossy := func(ctx context.Context, req interface{}, info *grpc.UnaryServerInfo, handler grpc.UnaryHandler) (interface{}, error) {
		resp, err := handler(ctx, req)
		if strings.HasSuffix(info.FullMethod, "/Txn") {
			atomic.AddInt32(&executed, 1)
			if atomic.LoadInt32(&drop) > 0 {
				atomic.AddInt32(&drop, -1)
				return nil, status.Error(codes.Unavailable, "transport is closing")
			}
		}
		return resp, err
	}
	lis, err := net.Listen("tcp", "127.0.0.1:0")
	if err != nil {
		return nil, err
	}
	srv := grpc.NewServer(grpc.UnaryInterceptor(lossy))
	etcd.New(n.B, &NopMetrics{}, kbLeaderPeers()).Register(srv)
	go func() { _ = srv.Serve(lis) }()
	defer srv.Stop()
	follower := etcdproxy.NewEtcdProxy(&leader.Stub{ElectionInfo: leader.ElectionInfo{LeaderAddress: lis.Addr().String(), IsLeader: false}}, nil)
	txn := func(q KReq, key []byte) KResp {
		ctx, cancel := context.WithTimeout(context.Background(), 5*time.Second)
		defer cancel()
		resp, err := follower.Txn(ctx, EtcdTxnFor(q, key))
		return EtcdTxnResp(q, resp, err)
	}
	n.caseNo++
	// wait for the proxy to connect: a healthy create through the follower
	var first KResp
	deadline := time.Now().Add(10 * time.Second)
	for {
		first = txn(KReq{Op: OpCreate, Val: v("p0")}, n.Key(0))
		if !first.Err || time.Now().After(deadline) {
			break
		}
		time.Sleep(100 * time.Millisecond)
	}
	if first.Err || !first.Succ {
		return nil, fmt.Errorf("the follower's proxy never reached the leader")
	}
	n.WaitRev(first.Hdr, 2*time.Second)
	var out []*KProxyCase
	run := func(keyIdx int, q KReq) error {
		st, err := n.KeyStates(keyIdx + 1)
		if err != nil {
			return err
		}
		c := &KProxyCase{Engine: n.Engine, D0: n.B.GetCurrentRevision(), Init: st[keyIdx], Req: q, Lost: 1}
		c.Req.Key = 0
		atomic.StoreInt32(&executed, 0)
		atomic.StoreInt32(&drop, 1)
		c.Resp = txn(q, n.Key(keyIdx))
		atomic.StoreInt32(&drop, 0)
		c.Execs = int(atomic.LoadInt32(&executed))
		time.Sleep(20 * time.Millisecond)
		n.WaitRev(c.D0+uint64(c.Execs), 2*time.Second)
		if st, err = n.KeyStates(keyIdx + 1); err != nil {
			return err
		}
		c.Final = st[keyIdx]
		out = append(out, c)
		return nil
	}
	// a guaranteed update, a create and a guarded delete whose replies are lost after the leader executed them
	if err := run(0, KReq{Op: OpUpdate, Val: v("p1"), Rev: first.Hdr}); err != nil {
		return out, err
	}
	if err := run(1, KReq{Op: OpCreate, Val: v("q0")}); err != nil {
		return out, err
	}
	st, err := n.KeyStates(1)
	if err != nil {
		return out, err
	}
	if err := run(0, KReq{Op: OpDelete, Rev: st[0].IdxRev}); err != nil {
		return out, err
	}
	if pm := n.panicMsg(); pm != "" {
		return out, fmt.Errorf("%s", pm)
	}
	return out, nil
}
