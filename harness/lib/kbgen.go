package lib

// kbgen.go — case generation for the schedule drivers c01 / c02 / c04.

import (
	"fmt"
	"os"
	"time"

	"github.com/kubewharf/kubebrain/pkg/backend"
)

// KBDoubleSuccessStress runs the aligned-commit stress of c01 (probabilistic: a check-then-write window inside
// an engine's Commit can only be hit by true concurrency).
func KBDoubleSuccessStress(w *Writer, args Args, engines []string) {
	rounds := map[string]int{"quick": 300, "thorough": 2000, "search": 1000}[args.Tier]
	if rounds == 0 {
		rounds = 300
	}
	for _, e := range engines {
		n, err := NewKBNode(e, args.Scratch)
		if err != nil {
			w.Fail(ImplFailure{CaseID: -1, What: "cannot open engine " + e + ": " + err.Error()})
			continue
		}
		what, detail, err := n.DoubleSuccessStress(4, rounds)
		if err != nil {
			w.Fail(ImplFailure{CaseID: -1, What: fmt.Sprintf("double-success stress on %s: %v", e, err)})
		} else if what != "" {
			w.Fail(ImplFailure{CaseID: -1, What: "two writers conditioned on the same revision both succeeded on " + e + " — " + what, Case: detail})
		}
		w.Stats.Extra["double_success_stress_rounds_"+e] = rounds
		n.Close()
	}
}

// KBListHeaderStress runs the List(rev=0)-vs-writer race of c02 (probabilistic).
func KBListHeaderStress(w *Writer, args Args, engines []string) {
	d := map[string]time.Duration{"quick": 1200 * time.Millisecond, "thorough": 15 * time.Second, "search": 5 * time.Second}[args.Tier]
	if d == 0 {
		d = 1200 * time.Millisecond
	}
	for _, e := range engines {
		n, err := NewKBNode(e, args.Scratch)
		if err != nil {
			w.Fail(ImplFailure{CaseID: -1, What: "cannot open engine " + e + ": " + err.Error()})
			continue
		}
		lists, what, detail, err := n.ListHeaderStress(d)
		if err != nil {
			w.Fail(ImplFailure{CaseID: -1, What: fmt.Sprintf("list/header stress on %s: %v", e, err)})
		} else if what != "" {
			w.Fail(ImplFailure{CaseID: -1, What: "a List at revision 0 returned data newer than its header on " + e + " — " + what, Case: detail})
		}
		w.Stats.Extra["list_header_stress_lists_"+e] = lists
		n.Close()
	}
}

// KBProxyCases adds the lost-reply cases of a follower's etcd proxy (c01).
func KBProxyCases(w *Writer, args Args) {
	n, err := NewKBNode(EngMem, args.Scratch)
	if err != nil {
		w.Fail(ImplFailure{CaseID: -1, What: "cannot open proxy leader node: " + err.Error()})
		return
	}
	defer n.Close()
	cs, err := n.RunProxyCases()
	for _, c := range cs {
		w.Add(Case{Coq: c.Coq(), JSON: c.JSON(), Kind: "etcd-proxy-lost-reply/memkv", Trivial: false, Outcomes: []string{"proxy_" + c.Resp.Class()}})
	}
	if err != nil {
		w.Fail(ImplFailure{CaseID: -1, What: "etcd proxy cases: " + err.Error()})
	}
}

// KBTwoNodeCase adds the leader/follower stamping case (c02) as an allocator case: the revisions of all
// acknowledged writes in the order the requests completed must strictly increase.
func KBTwoNodeCase(w *Writer, args Args) {
	perNode, realtime, detail, err := TwoNodeStamps(args.Scratch)
	if err != nil {
		w.Fail(ImplFailure{CaseID: -1, What: "two-node case: " + err.Error()})
		return
	}
	xs := make([]string, len(realtime))
	for i, r := range realtime {
		xs[i] = N(r)
	}
	outs := []string{"two_node_ok"}
	if len(perNode) > 1 && len(perNode[1]) > 0 {
		outs = []string{"follower_admitted_a_write"}
	}
	w.Add(Case{Coq: App("C2Tso", List([]string{List(xs)})), JSON: map[string]interface{}{"two_nodes_one_store_brain_front_end": detail, "acknowledged_revisions_in_completion_order": realtime, "per_node": perNode},
		Kind: "two-node-brain", Trivial: false, Outcomes: outs})
}

// KBCompactRaces adds the compaction-vs-create race (c01) on the given engines.
func KBCompactRaces(w *Writer, args Args, engines []string) {
	for _, e := range engines {
		n, err := NewKBNode(e, args.Scratch)
		if err != nil {
			w.Fail(ImplFailure{CaseID: -1, What: "cannot open engine " + e + ": " + err.Error()})
			continue
		}
		c, err := n.RunCompactRace()
		if err != nil {
			w.Fail(ImplFailure{CaseID: w.Len(), What: fmt.Sprintf("compaction race on %s: %v", e, err), Case: c.JSON()})
		} else {
			w.Add(Case{Coq: c.Coq(), JSON: c.JSON(), Kind: "compact-race/" + e, Trivial: false, Outcomes: []string{"compact_race"}})
		}
		n.Close()
	}
}

// symbolic expected revisions, resolved against the initial state of the case
const (
	SymLit     = iota
	SymCorrect // the key's live revision (0 if not live -> literal 0)
	SymStale   // an older revision
	SymNear    // a revision that will be dealt during the case: d0+1 .. d0+3
	SymHuge    // 2^40
	SymNeg1    // uint64(-1)
	SymNegBig  // uint64(-(2^62))
	SymZero
	SymFar // current revision + 1000
)

func kbFix(live []uint64, cur uint64, progs [][]KReq) {
	n := 0
	for _, p := range progs {
		for j := range p {
			q := &p[j]
			n++
			switch q.Sym {
			case SymCorrect:
				q.Rev = live[q.Key]
			case SymStale:
				if live[q.Key] > 1 {
					q.Rev = live[q.Key] - 1
				} else {
					q.Rev = cur - 1
				}
			case SymNear:
				q.Rev = cur + 1 + uint64(n%3)
			case SymHuge:
				q.Rev = 1 << 40
			case SymNeg1:
				q.Rev = ^uint64(0)
			case SymNegBig:
				q.Rev = ^uint64(0) - (1 << 62) + 1
			case SymZero:
				q.Rev = 0
			case SymFar:
				q.Rev = cur + 1000
			}
			if q.Op == OpCreate {
				q.Rev = 0
			}
		}
	}
}

// KBProfile tunes a driver's mix.
type KBProfile struct {
	Prop       string
	Malformed  int // percent of expected revisions drawn from the malformed pool
	ErrPct     int // percent of engine steps with an injected storage error
	AbortPct   int // percent of batch steps with an injected conflict abort
	Quick      int // random cases on memkv in the quick tier
	QuickOther int // random cases on each other engine in the quick tier
	Thorough   int
	Search     int
	Exhaustive bool                // thorough: all interleavings of 2 writers x 2 ops
	WrapCoq    func(string) string // optional constructor around the sched_case term
	Fronts     bool                // also run the fixed corpus through the etcd RPCServer and the brain server (memkv)
	SmallCache bool                // also run the out-of-order case on a node with watch cache size 64
}

func genReq(r *Rand, nkeys int, t, j int, malformed int) KReq {
	q := KReq{Key: r.Intn(nkeys), Val: []byte(fmt.Sprintf("v%d%d", t, j))}
	switch x := r.Intn(10); {
	case x < 3:
		q.Op = OpCreate
	case x < 7:
		q.Op = OpUpdate
	default:
		q.Op = OpDelete
	}
	if q.Op != OpCreate {
		if r.Intn(100) < malformed {
			q.Sym = []int{SymHuge, SymNeg1, SymNegBig, SymNear, SymFar}[r.Intn(5)]
		} else {
			q.Sym = []int{SymCorrect, SymCorrect, SymCorrect, SymStale, SymNear, SymZero}[r.Intn(6)]
		}
	}
	return q
}

func genSpec(r *Rand, prof KBProfile) KBSpec {
	nkeys := 1 + r.Intn(2)
	nthreads := 2 + r.Intn(3)
	spec := KBSpec{Fix: kbFix}
	for i := 0; i < nkeys; i++ {
		spec.Init = append(spec.Init, r.Intn(NumInit))
	}
	for t := 0; t < nthreads; t++ {
		nreq := 1 + r.Intn(3)
		if nthreads == 4 && nreq == 3 {
			nreq = 2
		}
		p := []KReq{}
		for j := 0; j < nreq; j++ {
			p = append(p, genReq(r, nkeys, t, j, prof.Malformed))
		}
		spec.Progs = append(spec.Progs, p)
	}
	spec.Pick = RandomPick(r.Fork(), prof.ErrPct, prof.AbortPct)
	return spec
}

// FixedPick follows the listed (thread, env) pairs, then the lowest alive thread.
func FixedPick(sched [][2]int) func(step int, alive []int, at []string) (int, int) {
	return func(step int, alive []int, at []string) (int, int) {
		if step < len(sched) {
			for _, a := range alive {
				if a == sched[step][0] {
					return a, sched[step][1]
				}
			}
		}
		return alive[0], EnvOk
	}
}

func v(s string) []byte { return []byte(s) }

// KBCorpus: fixed regression cases, run first on every engine.
func KBCorpus() []KBSpec {
	o := [][2]int{}
	_ = o
	cs := []KBSpec{}
	// every path that allocates a revision, with an expected revision that makes the drift test fire
	for _, init := range []int{InitNever, InitDeleted, InitCompacted, InitLive} {
		for _, sym := range []int{SymFar, SymHuge, SymNeg1} {
			for _, op := range []int{OpDelete, OpUpdate} {
				cs = append(cs, KBSpec{Note: fmt.Sprintf("drift paths: %s of a key in state %s with expected revision class %d, then a create must become readable and watchable",
					[]string{"create", "update", "delete"}[op], InitNames[init], sym),
					Init: []int{init, InitNever}, Fix: kbFix,
					Progs: [][]KReq{{{Op: op, Key: 0, Val: v("x"), Sym: sym}, {Op: OpCreate, Key: 1, Val: v("y")}}},
					Pick:  FixedPick(nil)})
			}
		}
	}
	// the asynchronous repair of an uncertain write allocates a revision of its own
	cs = append(cs,
		KBSpec{Note: "async rewrite loses its compare-and-swap to a client update that lands between its read and its batch: the revision it allocated must still be resolved",
			Init: []int{InitLive}, Fix: kbFix, Rewrite: true,
			Progs: [][]KReq{{{Op: OpUpdate, Key: 0, Val: v("cl"), Sym: SymCorrect}}},
			Pick:  FixedPick([][2]int{{1, 0}, {1, 0}, {0, 0}, {0, 0}, {1, 0}})},
		KBSpec{Note: "async rewrite succeeds; a client update conditioned on the uncertain revision then fails",
			Init: []int{InitLive}, Fix: kbFix, Rewrite: true,
			Progs: [][]KReq{{{Op: OpUpdate, Key: 0, Val: v("cl"), Sym: SymCorrect}}},
			Pick:  FixedPick([][2]int{{1, 0}, {1, 0}, {0, 0}, {1, 0}, {0, 0}})},
		KBSpec{Note: "async rewrite finds the key already overwritten: nothing to repair, no revision allocated",
			Init: []int{InitLive2}, Fix: kbFix, Rewrite: true,
			Progs: [][]KReq{{{Op: OpDelete, Key: 0, Sym: SymCorrect}}},
			Pick:  FixedPick([][2]int{{0, 0}, {0, 0}, {0, 0}, {1, 0}, {1, 0}})},
	)
	// lost-update interleavings (each runs on every engine)
	cs = append(cs,
		KBSpec{Note: "unconditional delete reads R and is dealt d, an update naming R is dealt u > d and commits first: the delete's compare-and-swap against R must fail",
			Init: []int{InitLive}, Fix: kbFix,
			Progs: [][]KReq{{{Op: OpDelete, Sym: SymZero}}, {{Op: OpUpdate, Val: v("u"), Sym: SymCorrect}}},
			Pick:  FixedPick([][2]int{{0, 0}, {0, 0}, {1, 0}, {1, 0}, {0, 0}, {0, 0}})},
		KBSpec{Note: "guarded delete naming R is dealt d, an update naming R is dealt u > d and commits first",
			Init: []int{InitLive2}, Fix: kbFix,
			Progs: [][]KReq{{{Op: OpDelete, Sym: SymCorrect}}, {{Op: OpUpdate, Val: v("u"), Sym: SymCorrect}}},
			Pick:  FixedPick([][2]int{{0, 0}, {0, 0}, {1, 0}, {1, 0}, {0, 0}, {0, 0}})},
		KBSpec{Note: "two updates naming the same revision, the later-dealt one commits first",
			Init: []int{InitLive}, Fix: kbFix,
			Progs: [][]KReq{{{Op: OpUpdate, Val: v("a"), Sym: SymCorrect}}, {{Op: OpUpdate, Val: v("b"), Sym: SymCorrect}}},
			Pick:  FixedPick([][2]int{{0, 0}, {1, 0}, {1, 0}, {0, 0}, {0, 0}})},
		KBSpec{Note: "guarded delete commits between the deal and the batch of an update naming the same revision; then a create over the tombstone",
			Init: []int{InitLive}, Fix: kbFix,
			Progs: [][]KReq{{{Op: OpUpdate, Val: v("a"), Sym: SymCorrect}, {Op: OpCreate, Val: v("c")}}, {{Op: OpDelete, Sym: SymCorrect}}},
			Pick:  FixedPick([][2]int{{0, 0}, {1, 0}, {1, 0}, {1, 0}, {0, 0}, {0, 0}})},
	)
	// a refused delete answers with the key-value it read: the revision in its header must not be older than that read
	cs = append(cs,
		KBSpec{Note: "guarded delete with a stale revision overlaps an update and an unconditional delete of its key: whatever key-value its refusal carries, the header revision is not below it",
			Init: []int{InitLive2}, Fix: kbFix,
			Progs: [][]KReq{{{Op: OpDelete, Sym: SymStale}}, {{Op: OpUpdate, Val: v("u"), Sym: SymCorrect}}, {{Op: OpDelete, Sym: SymZero}}},
			Pick:  FixedPick([][2]int{{0, 0}, {1, 0}, {1, 0}, {0, 0}, {2, 0}, {2, 0}, {2, 0}, {0, 0}, {0, 0}})},
		KBSpec{Note: "the same with the stale delete's first read done before the update runs",
			Init: []int{InitLive2}, Fix: kbFix,
			Progs: [][]KReq{{{Op: OpDelete, Sym: SymStale}}, {{Op: OpUpdate, Val: v("u"), Sym: SymCorrect}}, {{Op: OpDelete, Sym: SymZero}}},
			Pick:  FixedPick([][2]int{{0, 0}, {0, 0}, {1, 0}, {1, 0}, {2, 0}, {2, 0}, {2, 0}, {0, 0}, {0, 0}})})
	cs = append(cs,
		KBSpec{Note: "async rewrite re-stamps a tombstone (uncertain delete) with a revision above a waiting creator's: the create is refused although the key was deleted all the time",
			Init: []int{InitLive}, Fix: kbFix, Rewrite: true, RewriteDelete: true,
			Progs: [][]KReq{{{Op: OpCreate, Key: 0, Val: v("cr")}}},
			Pick:  FixedPick([][2]int{{0, 0}, {1, 0}, {1, 0}, {1, 0}, {0, 0}})})
	// a write whose storage transaction is still running must not become readable, whatever the request context does
	cs = append(cs,
		KBSpec{Note: "update with a 100 ms request deadline whose commit is held inside the engine for 150 ms: the read revision stays below it until the commit returns",
			Init: []int{InitLive}, Fix: kbFix, Hold: true, HoldThread: 0, HoldDeadline: 100 * time.Millisecond,
			Progs: [][]KReq{{{Op: OpUpdate, Val: v("held"), Sym: SymCorrect}}},
			Pick:  FixedPick(nil)},
		KBSpec{Note: "delete with a 100 ms request deadline whose commit is held inside the engine for 150 ms, a create on another key meanwhile",
			Init: []int{InitLive, InitNever}, Fix: kbFix, Hold: true, HoldThread: 0, HoldDeadline: 100 * time.Millisecond,
			Progs: [][]KReq{{{Op: OpDelete, Sym: SymCorrect}}, {{Op: OpCreate, Key: 1, Val: v("other")}}},
			Pick:  FixedPick([][2]int{{0, 0}, {0, 0}, {1, 0}, {0, 0}})},
	)
	// a second yield point inside the batch, right before the engine Commit: compare and write must be one
	// critical section on every engine
	cs = append(cs,
		KBSpec{Note: "update A stages its batch and parks before the engine Commit, update B naming the same revision runs meanwhile: at most one of them is applied",
			Init: []int{InitLive}, Fix: kbFix, ParkCommit: []int{0},
			Progs: [][]KReq{{{Op: OpUpdate, Val: v("A"), Sym: SymCorrect}}, {{Op: OpUpdate, Val: v("B"), Sym: SymCorrect}}},
			Pick:  FixedPick([][2]int{{0, 0}, {0, 0}, {1, 0}, {1, 0}, {0, 0}})},
		KBSpec{Note: "create A stages its batch and parks before the engine Commit, create B of the same absent key runs meanwhile",
			Init: []int{InitNever}, Fix: kbFix, ParkCommit: []int{0},
			Progs: [][]KReq{{{Op: OpCreate, Val: v("A")}}, {{Op: OpCreate, Val: v("B")}}},
			Pick:  FixedPick([][2]int{{0, 0}, {0, 0}, {1, 0}, {1, 0}, {0, 0}})},
		KBSpec{Note: "guarded delete A parks before the engine Commit, update B naming the same revision runs meanwhile",
			Init: []int{InitLive2}, Fix: kbFix, ParkCommit: []int{0},
			Progs: [][]KReq{{{Op: OpDelete, Sym: SymCorrect}}, {{Op: OpUpdate, Val: v("B"), Sym: SymCorrect}}},
			Pick:  FixedPick([][2]int{{0, 0}, {0, 0}, {0, 0}, {1, 0}, {1, 0}, {0, 0}})},
		KBSpec{Note: "both updates naming one revision park before the engine Commit, then commit one after the other",
			Init: []int{InitLive}, Fix: kbFix, ParkCommit: []int{0, 1},
			Progs: [][]KReq{{{Op: OpUpdate, Val: v("A"), Sym: SymCorrect}}, {{Op: OpUpdate, Val: v("B"), Sym: SymCorrect}}},
			Pick:  FixedPick([][2]int{{0, 0}, {0, 0}, {1, 0}, {1, 0}, {1, 0}, {0, 0}})},
	)
	// an explicit compaction revision above the read revision must not collect what an in-flight write depends on
	cs = append(cs,
		KBSpec{Note: "create A of a live key is dealt c and held before its batch; delete B succeeds at d > c; Compact(d) is called (d is above the read revision); A resumes and must be refused",
			Init: []int{InitLive}, Fix: kbFix, HasCompact: true, CompactAtStep: 4,
			Progs: [][]KReq{{{Op: OpCreate, Val: v("A")}}, {{Op: OpDelete, Sym: SymCorrect}}},
			Pick:  FixedPick([][2]int{{0, 0}, {1, 0}, {1, 0}, {1, 0}, {0, 0}})},
	)
	return append(cs, []KBSpec{
		{Note: "two creators on one absent key, commits interleaved",
			Init: []int{InitNever}, Fix: kbFix,
			Progs: [][]KReq{{{Op: OpCreate, Val: v("a")}}, {{Op: OpCreate, Val: v("b")}}},
			Pick:  FixedPick([][2]int{{0, 0}, {1, 0}, {1, 0}, {0, 0}})},
		{Note: "create over a tombstone while another create does the same",
			Init: []int{InitDeleted}, Fix: kbFix,
			Progs: [][]KReq{{{Op: OpCreate, Val: v("a")}}, {{Op: OpCreate, Val: v("b")}}},
			Pick:  FixedPick([][2]int{{0, 0}, {1, 0}, {0, 0}, {1, 0}, {0, 0}, {1, 0}})},
		{Note: "create meets a tombstone newer than its own revision",
			Init: []int{InitLive}, Fix: kbFix,
			Progs: [][]KReq{{{Op: OpCreate, Val: v("a")}}, {{Op: OpDelete, Sym: SymZero}}},
			Pick:  FixedPick([][2]int{{0, 0}, {1, 0}, {1, 0}, {1, 0}, {0, 0}})},
		{Note: "update and delete conditioned on the same revision",
			Init: []int{InitLive2}, Fix: kbFix,
			Progs: [][]KReq{{{Op: OpUpdate, Val: v("u"), Sym: SymCorrect}}, {{Op: OpDelete, Sym: SymCorrect}}},
			Pick:  FixedPick([][2]int{{1, 0}, {0, 0}, {1, 0}, {0, 0}, {1, 0}})},
		{Note: "fix 83355f7: update with an expected revision from the future (2^40), then a create must become readable",
			Init: []int{InitLive, InitNever}, Fix: kbFix,
			Progs: [][]KReq{{{Op: OpUpdate, Val: v("x"), Sym: SymHuge}, {Op: OpCreate, Key: 1, Val: v("y")}}},
			Pick:  FixedPick(nil)},
		{Note: "fix 83355f7: delete with the uint64 image of a negative expected revision",
			Init: []int{InitLive, InitNever}, Fix: kbFix,
			Progs: [][]KReq{{{Op: OpDelete, Sym: SymNeg1}, {Op: OpCreate, Key: 1, Val: v("y")}}, {{Op: OpUpdate, Val: v("z"), Sym: SymNegBig}}},
			Pick:  FixedPick([][2]int{{0, 0}, {1, 0}, {0, 0}, {1, 0}})},
		{Note: "out-of-order completion: an earlier-allocated create is held at the gate while a later one finishes",
			Init: []int{InitNever, InitNever}, Fix: kbFix,
			Progs: [][]KReq{{{Op: OpCreate, Key: 0, Val: v("a")}}, {{Op: OpCreate, Key: 1, Val: v("b")}, {Op: OpUpdate, Key: 1, Val: v("c"), Sym: SymNear}}},
			Pick:  FixedPick([][2]int{{0, 0}, {1, 0}, {1, 0}, {1, 0}, {1, 0}, {0, 0}})},
		{Note: "storage error on the commit of a create and on the failure-path read of an update",
			Init: []int{InitNever, InitLive}, Fix: kbFix,
			Progs: [][]KReq{{{Op: OpCreate, Key: 0, Val: v("a")}}, {{Op: OpUpdate, Key: 1, Val: v("b"), Sym: SymStale}}},
			Pick:  FixedPick([][2]int{{0, 0}, {0, EnvError}, {1, 0}, {1, 0}, {1, EnvError}})},
		{Note: "write-conflict abort reported by the engine on a guarded delete",
			Init: []int{InitLive}, Fix: kbFix,
			Progs: [][]KReq{{{Op: OpDelete, Sym: SymCorrect}}, {{Op: OpUpdate, Val: v("w"), Sym: SymCorrect}}},
			Pick:  FixedPick([][2]int{{0, 0}, {0, 0}, {0, EnvAbort}, {1, 0}})},
		{Note: "delete of a key that was deleted and compacted, racing with its re-creation",
			Init: []int{InitCompacted}, Fix: kbFix,
			Progs: [][]KReq{{{Op: OpDelete, Sym: SymZero}}, {{Op: OpCreate, Val: v("n")}, {Op: OpDelete, Sym: SymNear}}},
			Pick:  FixedPick([][2]int{{1, 0}, {0, 0}, {1, 0}, {0, 0}})},
	}...)
}

// KBDrive runs corpus, random and (thorough) exhaustive cases and adds them to the writer.
func KBDrive(w *Writer, args Args, prof KBProfile) {
	rnd := NewRand(args.Seed)
	engines := []string{EngMem, EngBadger, EngTiKV, EngWrapMem}
	nodes := map[string]*KBNode{}
	defer func() {
		for _, n := range nodes {
			n.Close()
		}
	}()
	node := func(e string) *KBNode {
		n := nodes[e]
		if n == nil || n.Dead {
			nn, err := NewKBNode(e, args.Scratch)
			if err != nil {
				w.Fail(ImplFailure{CaseID: -1, What: "cannot open engine " + e + ": " + err.Error()})
				return nil
			}
			nodes[e] = nn
			return nn
		}
		return n
	}
	run := func(e string, spec KBSpec, kind string) *KCase {
		n := node(e)
		if n == nil {
			return nil
		}
		c, err := n.RunCase(spec)
		if err != nil {
			w.Fail(ImplFailure{CaseID: w.Len(), What: fmt.Sprintf("%s on %s: %v", kind, e, err), Case: c.JSON()})
			return c
		}
		if !c.MarkerVisible && !c.Stalled {
			w.Fail(ImplFailure{CaseID: w.Len(), What: "a create acknowledged at quiescence is not returned by List(0)", Case: c.JSON()})
		}
		for _, pf := range c.ProbeFailures {
			w.Fail(ImplFailure{CaseID: w.Len(), What: "follow-up probe after the schedule: " + pf, Case: c.JSON()})
		}
		if !c.MarkerWatched && !c.Stalled {
			w.Fail(ImplFailure{CaseID: w.Len(), What: "a create acknowledged at quiescence never reached a watcher on its prefix", Case: c.JSON()})
		}
		triv := !c.Interleaved()
		coq := c.Coq()
		if prof.WrapCoq != nil {
			coq = prof.WrapCoq(coq)
		}
		w.Add(Case{Coq: coq, JSON: c.JSON(), Kind: kind + "/" + e, Trivial: triv, Outcomes: c.Outcomes()})
		return c
	}
	for _, e := range engines {
		for _, spec := range KBCorpus() {
			if spec.Hold && e == EngTiKV {
				continue // the TiKV client observes the request context inside Commit itself
			}
			run(e, spec, "corpus")
		}
	}
	if prof.Fronts {
		for _, fk := range []string{"etcd", "brain"} {
			n, err := NewKBNode(EngMem, args.Scratch)
			if err != nil {
				w.Fail(ImplFailure{CaseID: -1, What: "cannot open front-end node: " + err.Error()})
				continue
			}
			if fk == "etcd" {
				n.Front = NewKBEtcdFront(n.B)
			} else {
				n.Front = NewKBBrainFront(n.B, true, nil)
			}
			nodes["front-"+fk] = n
			for _, spec := range KBCorpus() {
				if n.Dead {
					break
				}
				c, err := n.RunCase(spec)
				kind := "corpus-via-" + fk + "/memkv"
				if err != nil {
					w.Fail(ImplFailure{CaseID: w.Len(), What: fmt.Sprintf("%s: %v", kind, err), Case: c.JSON()})
					continue
				}
				for _, pf := range c.ProbeFailures {
					w.Fail(ImplFailure{CaseID: w.Len(), What: "follow-up probe after the schedule (" + fk + " front end): " + pf, Case: c.JSON()})
				}
				coq := c.Coq()
				if prof.WrapCoq != nil {
					coq = prof.WrapCoq(coq)
				}
				w.Add(Case{Coq: coq, JSON: c.JSON(), Kind: kind, Trivial: !c.Interleaved(), Outcomes: c.Outcomes()})
			}
		}
	}
	if prof.SmallCache {
		// a node started with --watch-cache-size=64: one create is held at the gate while 200 later-allocated
		// requests finish; the result slots must still be indexed by the full window
		if n, err := NewKBNodeCfg(EngMem, args.Scratch, 64); err != nil {
			w.Fail(ImplFailure{CaseID: -1, What: "cannot open small-cache node: " + err.Error()})
		} else {
			nodes["small-cache"] = n
			many := []KReq{}
			sched := [][2]int{{0, 0}}
			for i := 0; i < 200; i++ {
				many = append(many, KReq{Op: OpCreate, Key: 1, Val: v(fmt.Sprintf("n%d", i))})
				sched = append(sched, [2]int{1, 0})
			}
			sched = append(sched, [2]int{1, 0}, [2]int{0, 0})
			spec := KBSpec{Note: "watch cache size 64: a create is held before its batch while 200 later requests finish; the read revision must stay below it",
				Init: []int{InitNever, InitNever}, Fix: kbFix,
				Progs: [][]KReq{{{Op: OpCreate, Key: 0, Val: v("held")}}, many}, Pick: FixedPick(sched)}
			c, err := n.RunCase(spec)
			if err != nil {
				w.Fail(ImplFailure{CaseID: w.Len(), What: fmt.Sprintf("small-cache case: %v", err), Case: c.JSON()})
			} else {
				coq := c.Coq()
				if prof.WrapCoq != nil {
					coq = prof.WrapCoq(coq)
				}
				w.Add(Case{Coq: coq, JSON: c.JSON(), Kind: "small-cache/memkv", Trivial: false, Outcomes: c.Outcomes()})
			}
		}
	}
	if prof.SmallCache && (args.Tier == "thorough" || os.Getenv("VERIF_C04_IDLE") == "1") {
		// a write-free minute: the sequencer is held at its idle point (right after it found the next slot
		// empty) from second 55 to second 62 while one create completes; afterwards the read revision must
		// reach that create. ~65 s, thorough tier only (or VERIF_C04_IDLE=1).
		if n, err := NewKBNode(EngMem, args.Scratch); err != nil {
			w.Fail(ImplFailure{CaseID: -1, What: "cannot open idle node: " + err.Error()})
		} else {
			nodes["idle-minute"] = n
			time.Sleep(55 * time.Second)
			KBSeqPark(true)
			time.Sleep(5 * time.Millisecond)
			n.caseNo++
			r1 := n.Do(KReq{Op: OpCreate, Val: v("quiet1")}, n.Key(0))
			time.Sleep(7 * time.Second)
			KBSeqPark(false)
			ok1 := !r1.Err && r1.Succ && n.WaitRev(r1.Hdr, 3*time.Second)
			r2 := n.Do(KReq{Op: OpCreate, Val: v("quiet2")}, n.Key(1))
			ok2 := !r2.Err && r2.Succ && n.WaitRev(r2.Hdr, 3*time.Second)
			if !ok1 || !ok2 {
				n.Dead = true
				w.Fail(ImplFailure{CaseID: -1, What: fmt.Sprintf("after a write-free minute the read revision is stuck at %d although creates at %d and %d were acknowledged", n.B.GetCurrentRevision(), r1.Hdr, r2.Hdr),
					Case: map[string]interface{}{"engine": EngMem, "idle_seconds_before_write": 55, "sequencer_held_at_seq.idle_seconds": 7, "create1": r1.JSON(), "create2": r2.JSON(), "read_revision": n.B.GetCurrentRevision()}})
			}
			w.Stats.Extra["idle_minute_case"] = "run"
		}
	}
	if prof.SmallCache {
		// burst of uncertain results with the repair loop running every millisecond (probabilistic)
		backend.VerifSetIntervals(0, time.Millisecond)
		n, err := NewKBNode(EngMem, args.Scratch)
		backend.VerifSetIntervals(30*time.Millisecond, 10*time.Millisecond)
		if err != nil {
			w.Fail(ImplFailure{CaseID: -1, What: "cannot open burst node: " + err.Error()})
		} else {
			nodes["burst"] = n
			d := map[string]time.Duration{"quick": 4 * time.Second, "thorough": 20 * time.Second, "search": 10 * time.Second}[args.Tier]
			if d == 0 {
				d = 4 * time.Second
			}
			what, detail, err := n.UncertainBurstStress(4, d)
			if err != nil {
				w.Fail(ImplFailure{CaseID: -1, What: fmt.Sprintf("uncertain-burst stress: %v", err)})
			} else if what != "" {
				w.Fail(ImplFailure{CaseID: -1, What: what, Case: detail})
			}
			w.Stats.Extra["uncertain_burst"] = detail
		}
	}
	nMem, nOther := prof.Quick, prof.QuickOther
	switch args.Tier {
	case "thorough":
		nMem, nOther = prof.Thorough, prof.Thorough/4
	case "search":
		nMem, nOther = prof.Search, prof.Search/6
	}
	for i := 0; i < nMem; i++ {
		run(EngMem, genSpec(rnd, prof), "random")
	}
	for _, e := range engines[1:] {
		for i := 0; i < nOther; i++ {
			run(e, genSpec(rnd, prof), "random")
		}
	}
	if args.Tier == "thorough" && prof.Exhaustive {
		budget := 6000
		for _, e := range engines {
			for init := 0; init < NumInit; init++ {
				for _, prog := range exhaustivePrograms() {
					prefix := []int{}
					for budget > 0 {
						budget--
						spec := KBSpec{Init: []int{init}, Progs: prog, Fix: kbFix, Pick: PrefixPick(prefix), Note: "exhaustive"}
						c := run(e, spec, "exhaustive")
						if c == nil {
							break
						}
						prefix = NextPrefix(c.Choices, c.Alive)
						if prefix == nil {
							break
						}
					}
				}
			}
		}
	}
}

// 2 writers x 2 operations on one key
func exhaustivePrograms() [][][]KReq {
	return [][][]KReq{
		{{{Op: OpCreate, Val: v("a")}, {Op: OpDelete, Sym: SymZero}}, {{Op: OpCreate, Val: v("b")}, {Op: OpUpdate, Val: v("c"), Sym: SymNear}}},
		{{{Op: OpUpdate, Val: v("a"), Sym: SymCorrect}, {Op: OpDelete, Sym: SymNear}}, {{Op: OpDelete, Sym: SymCorrect}, {Op: OpCreate, Val: v("b")}}},
	}
}

// ---------- read cases for C02: sequencer parked, writes stored but not yet readable ----------

type KRead struct {
	IsList bool
	Key    int
	Rev    uint64
	Err    bool
	Hdr    uint64
	Kvs    []KReadKv
}
type KReadKv struct {
	Key int
	Val []byte
	Rev uint64
}

type KReadCase struct {
	Engine string
	Cidx0  bool
	D0     uint64
	NKeys  int
	Init   []KState
	Writes []KReq
	WResps []KResp
	Reads  []KRead
}

func (c *KReadCase) Coq() string {
	keys := make([]string, c.NKeys)
	init := make([]string, c.NKeys)
	for i := 0; i < c.NKeys; i++ {
		keys[i] = N(uint64(i))
		init[i] = Pair(N(uint64(i)), c.Init[i].Coq())
	}
	ws := make([]string, len(c.Writes))
	for i := range c.Writes {
		ws[i] = Pair(c.Writes[i].Coq(), c.WResps[i].Coq())
	}
	rs := make([]string, len(c.Reads))
	for i, r := range c.Reads {
		q := App("RdGet", N(uint64(r.Key)), N(r.Rev))
		if r.IsList {
			q = App("RdList", N(r.Rev))
		}
		resp := "RdErr"
		if !r.Err {
			kvs := make([]string, len(r.Kvs))
			for j, kv := range r.Kvs {
				kvs[j] = Pair(Pair(N(uint64(kv.Key)), Bytes(kv.Val)), N(kv.Rev))
			}
			resp = App("RdOk", N(r.Hdr), List(kvs))
		}
		rs[i] = Pair(q, resp)
	}
	return App("C2Read", App("Build_read_case", Bool(c.Cidx0), N(c.D0), List(keys), List(init), List(ws), List(rs)))
}

func (c *KReadCase) JSON() interface{} {
	ws := []interface{}{}
	for i := range c.Writes {
		ws = append(ws, map[string]interface{}{"req": c.Writes[i].JSON(), "resp": c.WResps[i].JSON()})
	}
	rs := []interface{}{}
	for _, r := range c.Reads {
		kvs := []interface{}{}
		for _, kv := range r.Kvs {
			kvs = append(kvs, map[string]interface{}{"key": kv.Key, "val": string(kv.Val), "rev": kv.Rev})
		}
		op := "get"
		if r.IsList {
			op = "list"
		}
		rs = append(rs, map[string]interface{}{"op": op, "key": r.Key, "rev": r.Rev, "err": r.Err, "hdr": r.Hdr, "kvs": kvs})
	}
	init := []interface{}{}
	for _, k := range c.Init {
		init = append(init, k.JSON())
	}
	return map[string]interface{}{"engine": c.Engine, "d0": c.D0, "init": init, "writes_with_sequencer_parked": ws, "reads": rs}
}

// F1 tells whether the case shows a List answer carrying data newer than its header.
func (c *KReadCase) F1() bool {
	for _, r := range c.Reads {
		for _, kv := range r.Kvs {
			if kv.Rev > r.Hdr {
				return true
			}
		}
	}
	return false
}
