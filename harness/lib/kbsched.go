package lib

// kbsched.go — schedule-driven runs of the real Backend for C01/C02/C04: client goroutines are
// lib.Sched threads parked before every engine call (lib.Wrap gate), resumed one at a time by a
// schedule; per step the harness may inject a storage error or a write-conflict abort into the
// engine call the resumed thread performs. The observation is printed as a Coq `sched_case`
// (coq/Model/C01Cases.v).

import (
	"bytes"
	"context"
	"encoding/binary"
	"errors"
	"fmt"
	"io"
	"sort"
	"sync"
	"time"

	proto "github.com/kubewharf/kubebrain-client/api/v2rpc"

	"github.com/kubewharf/kubebrain/pkg/backend"
	"github.com/kubewharf/kubebrain/pkg/backend/coder"
	"github.com/kubewharf/kubebrain/pkg/storage"
)

const (
	KBInitRev = 1000
	KBPrefix  = "/r"
)

const (
	EnvOk = iota
	EnvError
	EnvAbort
)

var envNames = []string{"EnvOk", "EnvError", "EnvConflictAbort"}

const (
	OpCreate = iota
	OpUpdate
	OpDelete
	OpRewrite // one iteration of the asynchronous repair (retry goroutine); Rev = revision of the queued write
)

// KReq is one client request on key number Key of the case.
type KReq struct {
	Op  int
	Key int
	Val []byte
	Rev uint64 // expected revision (update / delete)
	Sym int    // how Rev is to be derived once the initial state exists (SymLit = as given)
}

func (q KReq) Coq() string {
	switch q.Op {
	case OpCreate:
		return App("RqCreate", N(uint64(q.Key)), Bytes(q.Val))
	case OpUpdate:
		return App("RqUpdate", N(uint64(q.Key)), Bytes(q.Val), N(q.Rev))
	case OpRewrite:
		return App("RqRewrite", N(uint64(q.Key)), N(q.Rev))
	default:
		return App("RqDelete", N(uint64(q.Key)), N(q.Rev))
	}
}
func (q KReq) JSON() interface{} {
	return map[string]interface{}{"op": []string{"create", "update", "delete", "async-rewrite"}[q.Op], "key": q.Key, "val": string(q.Val), "rev": q.Rev}
}

// KResp is a canonical response.
type KResp struct {
	Op    int
	Err   bool
	Hdr   uint64
	Succ  bool
	HasKv bool
	KvVal []byte
	KvRev uint64
}

func (r KResp) Coq() string {
	if r.Err {
		return "RespError"
	}
	kv := None()
	if r.HasKv {
		kv = Some(Pair(Bytes(r.KvVal), N(r.KvRev)))
	}
	switch r.Op {
	case OpRewrite:
		return App("RespRewrite", N(r.Hdr))
	case OpCreate:
		return App("RespCreate", N(r.Hdr), Bool(r.Succ))
	case OpUpdate:
		return App("RespUpdate", N(r.Hdr), Bool(r.Succ), kv)
	default:
		return App("RespDelete", N(r.Hdr), Bool(r.Succ), kv)
	}
}
func (r KResp) JSON() interface{} {
	if r.Err {
		return "error"
	}
	m := map[string]interface{}{"hdr": r.Hdr, "succ": r.Succ}
	if r.HasKv {
		m["kv"] = map[string]interface{}{"val": string(r.KvVal), "rev": r.KvRev}
	}
	return m
}
func (r KResp) Class() string {
	switch {
	case r.Err:
		return "error"
	case r.Succ:
		return "success"
	default:
		return "cond_failed"
	}
}

// KState is the raw content of one key: index record and version records.
type KState struct {
	HasIdx bool
	IdxRev uint64
	IdxDel bool
	Vers   []KVer
	BadIdx bool // index value that is neither 8 nor 9 bytes
}
type KVer struct {
	Rev uint64
	Val []byte
}

func (k KState) Coq() string {
	idx := None()
	if k.HasIdx {
		idx = Some(Pair(N(k.IdxRev), Bool(k.IdxDel)))
	}
	vs := make([]string, len(k.Vers))
	for i, v := range k.Vers {
		vs[i] = Pair(N(v.Rev), Bytes(v.Val))
	}
	return App("Build_kstate", idx, List(vs))
}
func (k KState) JSON() interface{} {
	m := map[string]interface{}{}
	if k.HasIdx {
		m["idx"] = map[string]interface{}{"rev": k.IdxRev, "deleted": k.IdxDel}
	}
	vs := []interface{}{}
	for _, v := range k.Vers {
		vs = append(vs, map[string]interface{}{"rev": v.Rev, "val": string(v.Val)})
	}
	m["vers"] = vs
	return m
}

// KStep is one scheduler step and what was seen.
type KStep struct {
	T      int
	Env    int
	Kind   string // start | iter | get | batch
	Resps  []KResp
	Sample uint64
}

var kindCoq = map[string]string{"hold": "KHold", "start": "KStart", "engine.iter": "KIter", "engine.get": "KGet", "engine.batch": "KBatch"}

// KCase is a finished case.
type KCase struct {
	Engine        string
	Cidx0         bool
	D0            uint64
	Init          []KState
	Progs         [][]KReq
	Steps         []KStep
	Final         []KState
	Marker        uint64
	FinalRev      uint64
	Stalled       bool
	MarkerVisible bool
	MarkerWatched bool
	ProbeFailures []string // follow-up probes (Get, then an update naming the Get's revision or a create) that misbehaved
	Choices       []int    // thread chosen at each step
	Alive         [][]int  // threads that could have been chosen at each step
	Note          string
}

func (c *KCase) Coq() string {
	keyed := func(ks []KState) string {
		xs := make([]string, len(ks))
		for i, k := range ks {
			xs[i] = Pair(N(uint64(i)), k.Coq())
		}
		return List(xs)
	}
	progs := make([]string, len(c.Progs))
	for i, p := range c.Progs {
		qs := make([]string, len(p))
		for j, q := range p {
			qs[j] = q.Coq()
		}
		progs[i] = Pair(N(uint64(i)), List(qs))
	}
	steps := make([]string, len(c.Steps))
	for i, s := range c.Steps {
		rs := make([]string, len(s.Resps))
		for j, r := range s.Resps {
			rs[j] = r.Coq()
		}
		steps[i] = App("Build_sstep", N(uint64(s.T)), envNames[s.Env], kindCoq[s.Kind], List(rs), N(s.Sample))
	}
	return App("Build_sched_case", Bool(c.Cidx0), N(c.D0), keyed(c.Init), List(progs), List(steps), keyed(c.Final),
		N(c.Marker), N(c.FinalRev), Bool(c.Stalled))
}

func (c *KCase) JSON() interface{} {
	progs := []interface{}{}
	for _, p := range c.Progs {
		qs := []interface{}{}
		for _, q := range p {
			qs = append(qs, q.JSON())
		}
		progs = append(progs, qs)
	}
	steps := []interface{}{}
	for _, s := range c.Steps {
		rs := []interface{}{}
		for _, r := range s.Resps {
			rs = append(rs, r.JSON())
		}
		steps = append(steps, map[string]interface{}{"thread": s.T, "env": envNames[s.Env], "at": s.Kind, "responses": rs, "current_revision": s.Sample})
	}
	st := func(ks []KState) []interface{} {
		o := []interface{}{}
		for _, k := range ks {
			o = append(o, k.JSON())
		}
		return o
	}
	return map[string]interface{}{"engine": c.Engine, "d0": c.D0, "init": st(c.Init), "programs": progs, "steps": steps,
		"final": st(c.Final), "marker": c.Marker, "final_revision": c.FinalRev, "stalled": c.Stalled,
		"marker_visible": c.MarkerVisible, "marker_watched": c.MarkerWatched, "note": c.Note}
}

// Outcomes lists the outcome classes seen in the case.
func (c *KCase) Outcomes() []string {
	set := map[string]bool{}
	for _, s := range c.Steps {
		for _, r := range s.Resps {
			set[r.Class()] = true
		}
		if s.Env != EnvOk {
			set["injected_"+envNames[s.Env]] = true
		}
	}
	out := []string{}
	for k := range set {
		out = append(out, k)
	}
	sort.Strings(out)
	return out
}

// Interleaved tells whether a step of one thread happened between two steps of another.
func (c *KCase) Interleaved() bool {
	last := map[int]int{}
	for i, s := range c.Steps {
		if j, ok := last[s.T]; ok {
			for m := j + 1; m < i; m++ {
				if c.Steps[m].T != s.T {
					return true
				}
			}
		}
		last[s.T] = i
	}
	return false
}

// ---------- the node: one real backend per engine, reused across cases (fresh keys per case) ----------

type kbThread struct {
	env        int
	abortNext  bool
	parkCommit bool // park inside the batch, right before the engine Commit
	resps      []KResp
	panicked   interface{}
}

type KBNode struct {
	Engine   string
	Cidx0    bool
	inner    storage.KvStorage
	kv       *Wrap
	B        backend.Backend
	S        *Sched
	closer   func()
	caseNo   int
	mu       sync.Mutex
	ctl      map[int64]*kbThread // by goroutine id
	cd       coder.Coder
	Dead     bool   // a case stalled: the node is not reused
	Panic    string // a request panicked (recovered by the harness): the node is not reused
	mainGoid int64
	// the retry goroutine, adopted as a logical thread while a case with an uncertain write runs
	adoptRetry    bool
	retryTh       *Thread
	retryCtl      *kbThread
	uncertainNext bool
	// holdNext: the next batch commit that reaches the engine (on whatever goroutine) is held there
	holdNext    bool
	holdEntered chan struct{}
	holdRelease chan struct{}
	// compactGate: a Del / DelCurrent of this internal key (the compactor's) is held until released
	// barrier: when set, every batch commit waits here until `barrierN` commits have arrived (aligned commits)
	barrier *kbBarrier
	// Front, when set, is the front end client requests go through (etcd RPCServer, brain server) instead of the Backend
	Front KBFront
	// burst: every second batch commit of a non-scheduled goroutine is applied and reported as uncertain
	burst          bool
	burstCnt       uint64
	compactGate    []byte
	compactEntered chan struct{}
	compactRelease chan struct{}
	// a watcher on the whole prefix, started when the node is created
	watchMu sync.Mutex
	watched map[string]uint64 // key -> highest event revision delivered
	wcancel context.CancelFunc
}

var kbInjected = errors.New("verif: injected storage error")

var kbHookOnce sync.Once
var kbParkFlag struct {
	sync.Mutex
	park bool
}

// KBSeqPark stops (true) or releases (false) every sequencer goroutine at its idle point.
func KBSeqPark(p bool) {
	kbParkFlag.Lock()
	kbParkFlag.park = p
	kbParkFlag.Unlock()
}

func kbInstallHook() {
	kbHookOnce.Do(func() {
		backend.VerifSetIntervals(30*time.Millisecond, 10*time.Millisecond)
		backend.VerifYieldHook = func(p string) {
			if p == "seq.idle" {
				for {
					time.Sleep(50 * time.Microsecond)
					kbParkFlag.Lock()
					pk := kbParkFlag.park
					kbParkFlag.Unlock()
					if !pk {
						return
					}
				}
			}
		}
	})
}

func NewKBNode(engine, scratch string) (*KBNode, error) {
	return NewKBNodeCfg(engine, scratch, 0)
}

// NewKBNodeCfg is NewKBNode with a non-default watch cache size (0 = default).
func NewKBNodeCfg(engine, scratch string, watchCacheSize int) (*KBNode, error) {
	kbInstallHook()
	inner, closer, err := NewEngine(engine, scratch)
	if err != nil {
		return nil, err
	}
	n := &KBNode{Engine: engine, inner: inner, closer: closer, S: NewSched(), ctl: map[int64]*kbThread{}, cd: coder.NewNormalCoder()}
	n.Cidx0 = engine != EngTiKV
	n.kv = &Wrap{KvStorage: inner}
	n.kv.Before = n.before
	n.kv.CommitFault = n.commitFault
	n.B = backend.NewBackend(n.kv, backend.Config{Prefix: KBPrefix, Identity: "kbsched", WatchCacheSize: watchCacheSize}, &NopMetrics{})
	n.B.SetCurrentRevision(KBInitRev)
	n.mainGoid = GoID()
	n.watched = map[string]uint64{}
	ctx, cancel := context.WithCancel(context.Background())
	n.wcancel = cancel
	ch, err := n.B.Watch(ctx, KBPrefix+"/", 0)
	if err != nil {
		return nil, err
	}
	go func() {
		for batch := range ch {
			n.watchMu.Lock()
			for _, ev := range batch {
				if ev.Kv != nil && ev.Revision > n.watched[string(ev.Kv.Key)] {
					n.watched[string(ev.Kv.Key)] = ev.Revision
				}
			}
			n.watchMu.Unlock()
		}
	}()
	return n, nil
}

func (n *KBNode) Close() {
	if n.wcancel != nil {
		n.wcancel()
	}
	if n.closer != nil {
		n.closer()
	}
}

func (n *KBNode) thread() *kbThread {
	id := GoID()
	n.mu.Lock()
	defer n.mu.Unlock()
	return n.ctl[id]
}

func (n *KBNode) before(kind string, key []byte) error {
	if kind == "del" || kind == "delcur" {
		n.mu.Lock()
		hit := n.compactGate != nil && bytes.Equal(key, n.compactGate)
		var entered, release chan struct{}
		if hit {
			n.compactGate = nil
			entered, release = n.compactEntered, n.compactRelease
		}
		n.mu.Unlock()
		if hit {
			close(entered)
			<-release
		}
		return nil
	}
	if kind != "iter" && kind != "get" && kind != "batch" {
		return nil
	}
	th := n.thread()
	if th == nil {
		id := GoID()
		n.mu.Lock()
		adopt := n.adoptRetry && id != n.mainGoid
		if adopt {
			n.adoptRetry = false
		}
		n.mu.Unlock()
		if !adopt {
			return nil
		}
		// the retry goroutine's first engine call for the queued uncertain write
		t := n.S.Adopt(fmt.Sprintf("c%d.retry", n.caseNo))
		th = &kbThread{}
		n.mu.Lock()
		n.ctl[id] = th
		n.retryTh, n.retryCtl = t, th
		n.mu.Unlock()
	}
	n.S.Yield("engine." + kind)
	switch th.env {
	case EnvError:
		th.env = EnvOk
		return kbInjected
	case EnvAbort:
		th.env = EnvOk
		if kind == "batch" {
			th.abortNext = true
		}
	}
	return nil
}

func (n *KBNode) commitFault() (error, bool) {
	n.mu.Lock()
	bar := n.barrier
	n.mu.Unlock()
	if bar != nil {
		bar.arrive()
	}
	n.mu.Lock()
	hold := n.holdNext
	var entered, release chan struct{}
	if hold {
		n.holdNext = false
		entered, release = n.holdEntered, n.holdRelease
	}
	n.mu.Unlock()
	if hold {
		close(entered)
		<-release
	}
	th := n.thread()
	if th != nil && th.parkCommit {
		// the batch is staged (on memkv its compares have been evaluated under the store lock, on the
		// transactional engines the transaction has begun); the engine Commit has not been called
		th.parkCommit = false
		n.S.Yield("engine.commit")
	}
	if th == nil {
		n.mu.Lock()
		u := n.uncertainNext
		n.uncertainNext = false
		if n.burst {
			n.burstCnt++
			u = u || n.burstCnt%2 == 0
		}
		n.mu.Unlock()
		if u {
			// the batch is applied, the caller is told that the outcome is unknown
			return storage.NewErrUncertainResult(errors.New("verif: injected timeout")), true
		}
		return nil, false
	}
	if th != nil && th.abortNext {
		th.abortNext = false
		// what the TiKV adapter returns for a write conflict detected at commit (tikv/batch.go)
		return storage.ErrCASFailed, false
	}
	return nil, false
}

func (n *KBNode) Key(i int) []byte { return []byte(fmt.Sprintf("%s/c%d/k%d", KBPrefix, n.caseNo, i)) }

// WaitRev waits until the read revision reaches rev.
func (n *KBNode) WaitRev(rev uint64, d time.Duration) bool {
	return WaitUntil(d, func() bool { return n.B.GetCurrentRevision() >= rev })
}

// Do executes one request on the calling goroutine.
func (n *KBNode) Do(q KReq, key []byte) (r KResp) {
	return n.DoCtx(context.Background(), q, key)
}

// DoCtx executes one request with the given request context.
func (n *KBNode) DoCtx(ctx context.Context, q KReq, key []byte) (r KResp) {
	r.Op = q.Op
	defer func() {
		if p := recover(); p != nil {
			r = KResp{Op: q.Op, Err: true}
			n.mu.Lock()
			n.Panic = fmt.Sprintf("panic in %v: %v", q.JSON(), p)
			n.Dead = true
			n.mu.Unlock()
		}
	}()
	if n.Front != nil {
		return n.Front.Do(ctx, q, key)
	}
	switch q.Op {
	case OpCreate:
		resp, err := n.B.Create(ctx, &proto.CreateRequest{Key: key, Value: q.Val})
		if err != nil || resp == nil {
			r.Err = true
			return
		}
		r.Hdr, r.Succ = resp.GetHeader().GetRevision(), resp.Succeeded
	case OpUpdate:
		resp, err := n.B.Update(ctx, &proto.UpdateRequest{Kv: &proto.KeyValue{Key: key, Value: q.Val, Revision: q.Rev}})
		if err != nil || resp == nil {
			r.Err = true
			return
		}
		r.Hdr, r.Succ = resp.GetHeader().GetRevision(), resp.Succeeded
		if resp.Kv != nil {
			r.HasKv, r.KvVal, r.KvRev = true, resp.Kv.Value, resp.Kv.Revision
		}
	default:
		resp, err := n.B.Delete(ctx, &proto.DeleteRequest{Key: key, Revision: q.Rev})
		if err != nil || resp == nil {
			r.Err = true
			return
		}
		r.Hdr, r.Succ = resp.GetHeader().GetRevision(), resp.Succeeded
		if resp.Kv != nil {
			r.HasKv, r.KvVal, r.KvRev = true, resp.Kv.Value, resp.Kv.Revision
		}
	}
	return
}

// KeyStates reads the raw records of the case's keys from the engine (not through the backend).
func (n *KBNode) KeyStates(nkeys int) ([]KState, error) {
	out := make([]KState, nkeys)
	ctx := context.Background()
	for i := 0; i < nkeys; i++ {
		k := n.Key(i)
		start := n.cd.EncodeObjectKey(k, 0)
		end := append(n.cd.EncodeObjectKey(k, ^uint64(0)), 0)
		it, err := n.inner.Iter(ctx, start, end, 0, 0)
		if err != nil {
			return nil, err
		}
		for {
			err := it.Next(ctx)
			if err == io.EOF {
				break
			}
			if err != nil {
				it.Close()
				return nil, err
			}
			uk, rev, derr := n.cd.Decode(append([]byte{}, it.Key()...))
			if derr != nil || !bytes.Equal(uk, k) {
				continue
			}
			val := append([]byte{}, it.Val()...)
			if rev == 0 {
				out[i].HasIdx = true
				switch len(val) {
				case 8:
					out[i].IdxRev = binary.BigEndian.Uint64(val)
				case 9:
					out[i].IdxRev, out[i].IdxDel = binary.BigEndian.Uint64(val[:8]), true
				default:
					out[i].BadIdx = true
				}
			} else {
				out[i].Vers = append(out[i].Vers, KVer{Rev: rev, Val: val})
			}
		}
		it.Close()
		sort.Slice(out[i].Vers, func(a, b int) bool { return out[i].Vers[a].Rev < out[i].Vers[b].Rev })
	}
	return out, nil
}

// Initial key-state classes.
const (
	InitNever = iota
	InitLive
	InitLive2 // live with two versions
	InitDeleted
	InitCompacted // deleted and compacted
	InitRecreated // created, deleted, created again
	NumInit
)

var InitNames = []string{"never", "live", "live2", "deleted", "deleted_compacted", "recreated"}

// KBSpec is what a case is generated from.
type KBSpec struct {
	Init  []int    // class per key
	Progs [][]KReq // per thread; expected revisions may be given symbolically, see Fix
	// Fix, when set, is called after the initial state has been built (with the live revision of
	// each key, 0 if not live, and the current revision) and may rewrite expected revisions.
	Fix func(live []uint64, cur uint64, progs [][]KReq)
	// Pick chooses the thread for the next step among alive (sorted) and the environment for its
	// pending engine call (at is "start" or "engine.<kind>").
	Pick func(step int, alive []int, at []string) (int, int)
	Note string
	// Rewrite: after the initial state exists, key 0 (which must be live) receives an update whose
	// commit is applied but reported as uncertain; the retry goroutine's repair of it then takes part
	// in the schedule as the last thread (program: one OpRewrite).
	Rewrite bool
	// RewriteDelete: the uncertain write is a delete instead of an update
	RewriteDelete bool
	// Hold: thread HoldThread issues its requests with a context deadline of HoldDeadline; the first batch
	// commit it sends to the engine is held INSIDE the engine (after the adapter's Commit was called) for
	// longer than the deadline; the read revision is sampled while it is held, then the commit is released.
	Hold         bool
	HoldThread   int
	HoldDeadline time.Duration
	// ParkCommit: these threads park INSIDE their first batch, after staging and right before the engine
	// Commit (a second yield point). While one is parked, another thread that needs the memkv store lock
	// blocks (expected there); on the transactional engines it runs, and the parked commit then meets the
	// engine's own conflict detection.
	ParkCommit []int
	// CompactAtStep: after that many recorded steps the main goroutine calls Backend.Compact with the largest
	// header revision answered so far (an explicit revision that may lie above the read revision)
	HasCompact    bool
	CompactAtStep int
}

func (n *KBNode) seqCall(q KReq, key []byte) (KResp, error) {
	r := n.Do(q, key)
	if pm := n.panicMsg(); pm != "" {
		return r, fmt.Errorf("%s", pm)
	}
	if r.Err {
		return r, fmt.Errorf("initial %v failed", q.JSON())
	}
	if !n.WaitRev(r.Hdr, 2*time.Second) {
		return r, fmt.Errorf("stalled while building the initial state")
	}
	return r, nil
}

// buildInit creates the initial key states through the real API (and a real Compact).
func (n *KBNode) buildInit(classes []int) error {
	// compacted keys first: Compact works on the whole prefix
	needCompact := false
	for i, c := range classes {
		if c == InitCompacted {
			k := n.Key(i)
			r, err := n.seqCall(KReq{Op: OpCreate, Val: []byte("c0")}, k)
			if err != nil {
				return err
			}
			if _, err = n.seqCall(KReq{Op: OpDelete, Rev: r.Hdr}, k); err != nil {
				return err
			}
			needCompact = true
		}
	}
	if needCompact {
		if _, err := n.B.Compact(context.Background(), n.B.GetCurrentRevision()); err != nil {
			return err
		}
	}
	for i, c := range classes {
		k := n.Key(i)
		switch c {
		case InitLive, InitLive2, InitDeleted, InitRecreated:
			r, err := n.seqCall(KReq{Op: OpCreate, Val: []byte("i0")}, k)
			if err != nil {
				return err
			}
			if c == InitLive2 {
				if _, err = n.seqCall(KReq{Op: OpUpdate, Val: []byte("i1"), Rev: r.Hdr}, k); err != nil {
					return err
				}
			}
			if c == InitDeleted || c == InitRecreated {
				if _, err = n.seqCall(KReq{Op: OpDelete, Rev: r.Hdr}, k); err != nil {
					return err
				}
			}
			if c == InitRecreated {
				if _, err = n.seqCall(KReq{Op: OpCreate, Val: []byte("i2")}, k); err != nil {
					return err
				}
			}
		}
	}
	return nil
}

// RunCase runs one case. Failures of the harness itself (hang, panic in the code under test) are
// returned as error; the case is still returned as far as it got.
func (n *KBNode) RunCase(spec KBSpec) (*KCase, error) {
	n.caseNo++
	nkeys := len(spec.Init)
	c := &KCase{Engine: n.Engine, Cidx0: n.Cidx0, Note: spec.Note}
	if err := n.buildInit(spec.Init); err != nil {
		n.Dead = true
		return c, err
	}
	var rwRev uint64
	if spec.Rewrite {
		st0, err := n.KeyStates(1)
		if err != nil || !st0[0].HasIdx || st0[0].IdxDel {
			return c, fmt.Errorf("rewrite case needs a live key 0")
		}
		cur := n.B.GetCurrentRevision()
		n.mu.Lock()
		n.uncertainNext, n.adoptRetry, n.retryTh, n.retryCtl = true, true, nil, nil
		n.mu.Unlock()
		unc := KReq{Op: OpUpdate, Val: []byte("unc"), Rev: st0[0].IdxRev}
		if spec.RewriteDelete {
			unc = KReq{Op: OpDelete, Rev: st0[0].IdxRev}
		}
		if r := n.Do(unc, n.Key(0)); !r.Err {
			return c, fmt.Errorf("the uncertain update was not reported as an error")
		}
		rwRev = cur + 1
		if !n.WaitRev(rwRev, 2*time.Second) {
			n.Dead = true
			return c, fmt.Errorf("stalled after the uncertain update")
		}
		ok := WaitUntil(3*time.Second, func() bool { n.mu.Lock(); defer n.mu.Unlock(); return n.retryTh != nil })
		if !ok {
			n.Dead = true
			return c, fmt.Errorf("the retry goroutine never read the key of the uncertain write")
		}
		if p, _ := n.S.Wait(n.retryTh, 2*time.Second); p != "engine.iter" {
			n.Dead = true
			return c, fmt.Errorf("the retry goroutine parked at %q", p)
		}
	}
	c.D0 = n.B.GetCurrentRevision()
	init, err := n.KeyStates(nkeys)
	if err != nil {
		return c, err
	}
	c.Init = init
	live := make([]uint64, nkeys)
	for i, ks := range init {
		if ks.HasIdx && !ks.IdxDel {
			live[i] = ks.IdxRev
		}
	}
	progs := make([][]KReq, len(spec.Progs))
	for i, p := range spec.Progs {
		progs[i] = append([]KReq{}, p...)
	}
	if spec.Fix != nil {
		spec.Fix(live, c.D0, progs)
	}
	rw := -1
	if spec.Rewrite {
		rw = len(progs)
		progs = append(progs, []KReq{{Op: OpRewrite, Key: 0, Rev: rwRev}})
	}
	c.Progs = progs

	// start the client threads
	threads := make([]*Thread, len(progs))
	ctls := make([]*kbThread, len(progs))
	rwVirtual := spec.Rewrite
	if spec.Rewrite {
		threads[rw], ctls[rw] = n.retryTh, n.retryCtl
	}
	retire := func() { // the retry goroutine stops being a logical thread
		if rw < 0 || threads[rw] == nil {
			return
		}
		th := threads[rw]
		th.Free = true
		n.S.mu.Lock()
		delete(n.S.threads, th.goid)
		n.S.mu.Unlock()
		n.mu.Lock()
		delete(n.ctl, th.goid)
		n.adoptRetry = false
		n.mu.Unlock()
	}
	for i := range progs {
		i := i
		if i == rw {
			continue
		}
		ctl := &kbThread{}
		ctls[i] = ctl
		reg := make(chan struct{})
		threads[i] = nil
		th := n.S.GoWith(fmt.Sprintf("c%d.t%d", n.caseNo, i), func(goid int64) {
			n.mu.Lock()
			n.ctl[goid] = ctl
			n.mu.Unlock()
			close(reg)
		}, func() {
			defer func() {
				if r := recover(); r != nil {
					ctl.panicked = r
				}
			}()
			for _, q := range progs[i] {
				ctx, cancel := context.Background(), context.CancelFunc(func() {})
				if spec.Hold && i == spec.HoldThread {
					ctx, cancel = context.WithTimeout(ctx, spec.HoldDeadline)
				}
				resp := n.DoCtx(ctx, q, n.Key(q.Key))
				cancel()
				n.mu.Lock()
				ctl.resps = append(ctl.resps, resp)
				n.mu.Unlock()
			}
		})
		<-reg
		threads[i] = th
	}
	defer func() {
		n.mu.Lock()
		for _, th := range threads {
			if th != nil {
				delete(n.ctl, th.goid)
			}
		}
		n.mu.Unlock()
	}()

	for _, pt := range spec.ParkCommit {
		if pt < len(ctls) && ctls[pt] != nil {
			ctls[pt].parkCommit = true
		}
	}
	lockEngine := n.Engine == EngMem || n.Engine == EngWrapMem
	blocked := make([]bool, len(progs))     // resumed, waiting for the memkv store lock
	blockedAt := make([]string, len(progs)) // the point it was resumed from
	blockedEnv := make([]int, len(progs))
	parkStart := make([]int, len(progs)) // step index at which the thread parked at its commit
	type applied struct{ step, t, key int }
	var applieds []applied
	respCount := make([]int, len(progs))
	noteResps := func(t int, rs []KResp) {
		for _, r := range rs {
			if respCount[t] < len(progs[t]) && !r.Err && r.Succ {
				applieds = append(applieds, applied{len(c.Steps), t, progs[t][respCount[t]].Key})
			}
			respCount[t]++
		}
	}
	done := make([]bool, len(progs))
	compacted := false
	heldDone := false
	seenResps := make([]int, len(progs))
	var runErr error
	for step := 0; ; step++ {
		alive := []int{}
		at := []string{}
		for i := range progs {
			if !done[i] && !blocked[i] {
				alive = append(alive, i)
				if i == rw && rwVirtual {
					at = append(at, "start")
				} else {
					at = append(at, threads[i].Point)
				}
			}
		}
		if len(alive) == 0 {
			stillBlocked := false
			for i := range progs {
				stillBlocked = stillBlocked || (blocked[i] && !done[i])
			}
			if stillBlocked {
				runErr = fmt.Errorf("threads are blocked and nobody can release them")
				n.Dead = true
			}
			break
		}
		if step > 400 {
			runErr = fmt.Errorf("schedule did not terminate")
			break
		}
		if spec.HasCompact && !compacted && len(c.Steps) >= spec.CompactAtStep {
			compacted = true
			var top uint64
			for _, st := range c.Steps {
				for _, r := range st.Resps {
					if !r.Err && r.Hdr > top {
						top = r.Hdr
					}
				}
			}
			if _, err := n.B.Compact(context.Background(), top); err != nil {
				runErr = fmt.Errorf("Compact(%d): %v", top, err)
				break
			}
			c.Note += fmt.Sprintf(" [Compact(%d) called after step %d]", top, len(c.Steps))
		}
		t, env := spec.Pick(step, alive, at)
		point := threads[t].Point
		if t == rw {
			env = EnvOk
			c.Choices = append(c.Choices, t)
			c.Alive = append(c.Alive, alive)
			if rwVirtual {
				// the repair was "invoked" when the retry goroutine picked the queue head; it already stands
				// before its read
				rwVirtual = false
				c.Steps = append(c.Steps, KStep{T: t, Env: EnvOk, Kind: "start", Sample: n.B.GetCurrentRevision()})
				continue
			}
			before, _ := n.KeyStates(1)
			th := threads[t]
			th.resume <- struct{}{}
			parked, finished := false, false
			deadline := time.Now().Add(3 * time.Second)
			for !parked && !finished && time.Now().Before(deadline) {
				select {
				case p := <-th.parked:
					th.Point, parked = p, true
				default:
					if backend.VerifRetryQueueSize(n.B) == 0 {
						finished = true
					} else {
						time.Sleep(100 * time.Microsecond)
					}
				}
			}
			if !parked && !finished {
				runErr = fmt.Errorf("the retry goroutine blocked after step %d", step)
				n.Dead = true
				break
			}
			st := KStep{T: t, Env: EnvOk, Kind: point}
			if finished {
				done[t] = true
				after, _ := n.KeyStates(1)
				r := KResp{Op: OpRewrite}
				if len(before) == 1 && len(after) == 1 && after[0].HasIdx && after[0].IdxRev != before[0].IdxRev {
					r.Hdr = after[0].IdxRev
				}
				st.Resps = []KResp{r}
				retire()
			}
			st.Sample = n.B.GetCurrentRevision()
			c.Steps = append(c.Steps, st)
			continue
		}
		if spec.Hold && t == spec.HoldThread && !heldDone && point == "engine.batch" {
			heldDone = true
			c.Choices = append(c.Choices, t)
			c.Alive = append(c.Alive, alive)
			ctls[t].env = EnvOk
			th := threads[t]
			n.mu.Lock()
			n.holdNext, n.holdEntered, n.holdRelease = true, make(chan struct{}), make(chan struct{})
			entered, release := n.holdEntered, n.holdRelease
			n.mu.Unlock()
			th.resume <- struct{}{}
			select {
			case <-entered:
			case <-time.After(3 * time.Second):
				close(release)
				runErr = fmt.Errorf("thread %d never reached the engine commit", t)
			}
			if runErr != nil {
				break
			}
			// the commit is inside the engine now; let the request deadline pass
			time.Sleep(spec.HoldDeadline + spec.HoldDeadline/2)
			finished := false
			select {
			case <-th.done:
				finished = true
			default:
			}
			n.mu.Lock()
			newResps := append([]KResp{}, ctls[t].resps[seenResps[t]:]...)
			seenResps[t] = len(ctls[t].resps)
			n.mu.Unlock()
			c.Steps = append(c.Steps, KStep{T: t, Env: EnvOk, Kind: "hold", Resps: newResps, Sample: n.B.GetCurrentRevision()})
			close(release)
			if finished {
				// the request came back although its storage transaction had not finished
				done[t] = true
				time.Sleep(50 * time.Millisecond) // let the released transaction land before the final dump
				continue
			}
			p, fin := n.S.Wait(th, 3*time.Second)
			if p == "<blocked>" {
				runErr = fmt.Errorf("thread %d blocked after its held commit was released", t)
				n.Dead = true
				break
			}
			if fin {
				done[t] = true
			}
			n.mu.Lock()
			newResps = append([]KResp{}, ctls[t].resps[seenResps[t]:]...)
			seenResps[t] = len(ctls[t].resps)
			n.mu.Unlock()
			c.Steps = append(c.Steps, KStep{T: t, Env: EnvOk, Kind: "engine.batch", Resps: newResps, Sample: n.B.GetCurrentRevision()})
			continue
		}
		if point == "start" {
			env = EnvOk
		}
		if env == EnvAbort && point != "engine.batch" {
			env = EnvOk
		}
		ctls[t].env = env
		c.Choices = append(c.Choices, t)
		c.Alive = append(c.Alive, alive)
		someoneParked := false
		for i := range progs {
			if i != t && i != rw && !done[i] && threads[i] != nil && threads[i].Point == "engine.commit" {
				someoneParked = true
			}
		}
		wait := 3 * time.Second
		if someoneParked && lockEngine {
			wait = 150 * time.Millisecond
		}
		anyBlocked := false
		for b := range progs {
			anyBlocked = anyBlocked || blocked[b]
		}
		sampleBefore := n.B.GetCurrentRevision()
		p, fin := n.S.Step(threads[t], wait)
		if p == "<blocked>" {
			if someoneParked && lockEngine {
				// expected on memkv: the parked batch holds the store lock from BeginBatchWrite to Commit
				blocked[t], blockedAt[t], blockedEnv[t] = true, point, env
				continue
			}
			runErr = fmt.Errorf("thread %d blocked after step %d", t, step)
			n.Dead = true
			break
		}
		if fin {
			done[t] = true
		}
		n.mu.Lock()
		newResps := append([]KResp{}, ctls[t].resps[seenResps[t]:]...)
		seenResps[t] = len(ctls[t].resps)
		n.mu.Unlock()
		kind := point
		if point == "engine.batch" && p == "engine.commit" {
			kind = "hold" // staged and parked before the engine Commit: nothing has happened to the store
			parkStart[t] = len(c.Steps)
		} else if point == "engine.commit" {
			kind = "engine.batch"
			// the engine's own conflict detection: a transactional engine must refuse this commit if another
			// thread applied a write to the same key since the batch began (DESIGN.md section 5)
			if respCount[t] < len(progs[t]) {
				myKey := progs[t][respCount[t]].Key
				for _, a := range applieds {
					if a.step > parkStart[t] && a.t != t && a.key == myKey {
						switch n.Engine {
						case EngBadger, EngWrapBadger, EngTiKV:
							env = EnvAbort // badger.ErrConflict / TiKV write conflict -> storage.ErrCASFailed
						}
					}
				}
			}
		}
		noteResps(t, newResps)
		sample := n.B.GetCurrentRevision()
		if anyBlocked {
			// threads that were waiting for the store lock run on by themselves as soon as this commit is done:
			// a sample taken now would race with them, so the one taken before this step stands for it
			sample = sampleBefore
		}
		c.Steps = append(c.Steps, KStep{T: t, Env: env, Kind: kind, Resps: newResps, Sample: sample})
		if point == "engine.commit" {
			// whoever was waiting for the store lock can go on now
			for b := range progs {
				if !blocked[b] {
					continue
				}
				pb, finb := n.S.Wait(threads[b], 3*time.Second)
				if pb == "<blocked>" {
					runErr = fmt.Errorf("thread %d still blocked after the parked commit was released", b)
					n.Dead = true
					break
				}
				blocked[b] = false
				if finb {
					done[b] = true
				}
				n.mu.Lock()
				rs := append([]KResp{}, ctls[b].resps[seenResps[b]:]...)
				seenResps[b] = len(ctls[b].resps)
				n.mu.Unlock()
				kb := blockedAt[b]
				if kb == "engine.batch" && pb == "engine.commit" {
					kb = "hold"
					parkStart[b] = len(c.Steps)
				}
				noteResps(b, rs)
				c.Steps = append(c.Steps, KStep{T: b, Env: blockedEnv[b], Kind: kb, Resps: rs, Sample: n.B.GetCurrentRevision()})
			}
			if runErr != nil {
				break
			}
		}
		if ctls[t].panicked != nil {
			runErr = fmt.Errorf("thread %d panicked: %v", t, ctls[t].panicked)
			break
		}
		if pm := n.panicMsg(); pm != "" {
			runErr = fmt.Errorf("%s", pm)
			break
		}
	}
	if runErr != nil {
		// let parked threads go so that nothing is left behind
		for i, th := range threads {
			if i == rw {
				if !done[i] {
					retire()
					select {
					case th.resume <- struct{}{}:
					case <-time.After(100 * time.Millisecond):
					}
				}
				continue
			}
			if !done[i] && th != nil {
				n.S.Release(th, time.Second)
			}
		}
		return c, runErr
	}
	fin, err := n.KeyStates(nkeys)
	if err != nil {
		return c, err
	}
	c.Final = fin
	// quiescence: a marker create on a fresh key must become readable
	mk := []byte(fmt.Sprintf("%s/c%d/marker", KBPrefix, n.caseNo))
	mr := n.Do(KReq{Op: OpCreate, Val: []byte("m")}, mk)
	if !mr.Err && mr.Succ {
		c.Marker = mr.Hdr
	}
	c.Stalled = !n.WaitRev(c.Marker, 2*time.Second) || c.Marker == 0
	c.FinalRev = n.B.GetCurrentRevision()
	if lr, err := n.B.List(context.Background(), &proto.RangeRequest{Key: mk, End: append(append([]byte{}, mk...), 0x7e)}); err == nil {
		for _, kv := range lr.Kvs {
			if bytes.Equal(kv.Key, mk) {
				c.MarkerVisible = true
			}
		}
	}
	if !c.Stalled {
		c.MarkerWatched = WaitUntil(2*time.Second, func() bool {
			n.watchMu.Lock()
			defer n.watchMu.Unlock()
			return n.watched[string(mk)] == c.Marker
		})
	}
	if !c.Stalled {
		n.probe(c, nkeys)
	}
	if pm := n.panicMsg(); pm != "" {
		return c, fmt.Errorf("%s", pm)
	}
	if c.Stalled {
		n.Dead = true
	}
	return c, nil
}

// GoWith is Sched.Go with a callback that runs on the new goroutine before it parks at "start".
func (s *Sched) GoWith(name string, onStart func(goid int64), f func()) *Thread {
	nt := &Thread{Name: name, resume: make(chan struct{}), parked: make(chan string, 1), done: make(chan struct{})}
	s.mu.Lock()
	s.byName[name] = nt
	s.mu.Unlock()
	ready := make(chan struct{})
	go func() {
		nt.goid = GoID()
		s.mu.Lock()
		s.threads[nt.goid] = nt
		s.mu.Unlock()
		onStart(nt.goid)
		close(ready)
		s.Yield("start")
		defer func() {
			s.mu.Lock()
			delete(s.threads, nt.goid)
			delete(s.byName, name)
			s.mu.Unlock()
			close(nt.done)
		}()
		f()
	}()
	<-ready
	<-nt.parked
	nt.Point = "start"
	return nt
}

// ---------- schedule enumeration (stateless search: replay a prefix, then lowest thread first) ----------

// NextPrefix returns the next schedule prefix in depth-first order given the choices made and the
// alternatives that existed at each step of the last run; nil when the space is exhausted.
func NextPrefix(choices []int, alive [][]int) []int {
	for i := len(choices) - 1; i >= 0; i-- {
		for _, a := range alive[i] {
			if a > choices[i] {
				p := append([]int{}, choices[:i]...)
				return append(p, a)
			}
		}
	}
	return nil
}

// PrefixPick follows prefix, then always the lowest alive thread; no injections.
func PrefixPick(prefix []int) func(step int, alive []int, at []string) (int, int) {
	return func(step int, alive []int, at []string) (int, int) {
		if step < len(prefix) {
			for _, a := range alive {
				if a == prefix[step] {
					return a, EnvOk
				}
			}
		}
		return alive[0], EnvOk
	}
}

// RandomPick chooses threads at random; with probability pe/100 per engine step an error, pa/100 an abort.
func RandomPick(r *Rand, pe, pa int) func(step int, alive []int, at []string) (int, int) {
	return func(step int, alive []int, at []string) (int, int) {
		i := r.Intn(len(alive))
		env := EnvOk
		if at[i] != "start" {
			x := r.Intn(100)
			if x < pe {
				env = EnvError
			} else if x < pe+pa && at[i] == "engine.batch" {
				env = EnvAbort
			}
		}
		return alive[i], env
	}
}

// RunReadCase: builds an initial state, parks the sequencer, issues writes one after the other
// (their results stay in the slots, the read revision does not move), then reads with explicit
// revisions around the stored ones.
func (n *KBNode) RunReadCase(r *Rand, fixedWrites []KReq, fixedInit []int) (*KReadCase, error) {
	n.caseNo++
	ctx := context.Background()
	c := &KReadCase{Engine: n.Engine, Cidx0: n.Cidx0}
	classes := fixedInit
	if classes == nil {
		c.NKeys = 2 + r.Intn(2)
		for i := 0; i < c.NKeys; i++ {
			classes = append(classes, r.Intn(NumInit))
		}
	}
	c.NKeys = len(classes)
	if err := n.buildInit(classes); err != nil {
		n.Dead = true
		return c, err
	}
	c.D0 = n.B.GetCurrentRevision()
	init, err := n.KeyStates(c.NKeys)
	if err != nil {
		return c, err
	}
	c.Init = init
	live := make([]uint64, c.NKeys)
	for i, ks := range init {
		if ks.HasIdx && !ks.IdxDel {
			live[i] = ks.IdxRev
		}
	}
	KBSeqPark(true)
	time.Sleep(2 * time.Millisecond)
	defer KBSeqPark(false)
	writes := fixedWrites
	if writes == nil {
		nw := 1 + r.Intn(4)
		for j := 0; j < nw; j++ {
			q := KReq{Key: r.Intn(c.NKeys), Val: []byte(fmt.Sprintf("w%d", j))}
			switch {
			case live[q.Key] == 0:
				q.Op = OpCreate
			case r.Intn(3) == 0:
				q.Op, q.Sym = OpDelete, SymCorrect
			default:
				q.Op, q.Sym = OpUpdate, SymCorrect
			}
			if r.Intn(6) == 0 {
				q.Sym = SymStale
			}
			writes = append(writes, q)
		}
	}
	last := c.D0
	for _, q := range writes {
		switch q.Sym {
		case SymCorrect:
			q.Rev = live[q.Key]
		case SymStale:
			q.Rev = c.D0 - 1
		}
		q.Sym = SymLit
		resp := n.Do(q, n.Key(q.Key))
		c.Writes = append(c.Writes, q)
		c.WResps = append(c.WResps, resp)
		if !resp.Err && resp.Succ {
			if q.Op == OpDelete {
				live[q.Key] = 0
			} else {
				live[q.Key] = resp.Hdr
			}
		}
		last++
	}
	revs := []uint64{0, c.D0}
	for x := c.D0 + 1; x <= last; x++ {
		revs = append(revs, x)
	}
	revs = append(revs, last+7, 1<<63)
	prefix := []byte(fmt.Sprintf("%s/c%d/", KBPrefix, n.caseNo))
	end := append([]byte{}, prefix...)
	end[len(end)-1]++
	keyID := func(k []byte) int {
		for i := 0; i < c.NKeys; i++ {
			if bytes.Equal(k, n.Key(i)) {
				return i
			}
		}
		return 999
	}
	for _, rev := range revs {
		for i := 0; i < c.NKeys; i++ {
			rd := KRead{Key: i, Rev: rev}
			resp, err := n.B.Get(ctx, &proto.GetRequest{Key: n.Key(i), Revision: rev})
			if err != nil || resp == nil {
				rd.Err = true
			} else {
				rd.Hdr = resp.GetHeader().GetRevision()
				if resp.Kv != nil {
					rd.Kvs = append(rd.Kvs, KReadKv{Key: i, Val: resp.Kv.Value, Rev: resp.Kv.Revision})
				}
			}
			c.Reads = append(c.Reads, rd)
		}
		rd := KRead{IsList: true, Rev: rev}
		resp, err := n.B.List(ctx, &proto.RangeRequest{Key: prefix, End: end, Revision: rev})
		if err != nil || resp == nil {
			rd.Err = true
		} else {
			rd.Hdr = resp.GetHeader().GetRevision()
			for _, kv := range resp.Kvs {
				rd.Kvs = append(rd.Kvs, KReadKv{Key: keyID(kv.Key), Val: kv.Value, Rev: kv.Revision})
			}
		}
		c.Reads = append(c.Reads, rd)
	}
	KBSeqPark(false)
	if pm := n.panicMsg(); pm != "" {
		return c, fmt.Errorf("%s", pm)
	}
	if !n.WaitRev(last, 2*time.Second) {
		n.Dead = true
		return c, fmt.Errorf("stalled after the sequencer was released")
	}
	return c, nil
}

// probe makes lost updates observable from the client side: after the schedule, every key is read;
// a live key must be readable at its index revision and accept an update naming that revision, an
// absent or deleted key must read as absent and accept a create.
func (n *KBNode) probe(c *KCase, nkeys int) {
	ctx := context.Background()
	last := c.Marker
	for i := 0; i < nkeys; i++ {
		k := n.Key(i)
		ks := c.Final[i]
		live := ks.HasIdx && !ks.IdxDel
		g, err := n.B.Get(ctx, &proto.GetRequest{Key: k})
		if err != nil || g == nil {
			c.ProbeFailures = append(c.ProbeFailures, fmt.Sprintf("key %d: Get failed: %v", i, err))
			continue
		}
		if live {
			var val []byte
			for _, v := range ks.Vers {
				if v.Rev == ks.IdxRev {
					val = v.Val
				}
			}
			if g.Kv == nil || g.Kv.Revision != ks.IdxRev || !bytes.Equal(g.Kv.Value, val) {
				c.ProbeFailures = append(c.ProbeFailures, fmt.Sprintf("key %d: index says live at %d but Get returned %v", i, ks.IdxRev, g.Kv))
				continue
			}
			r := n.Do(KReq{Op: OpUpdate, Val: []byte("probe"), Rev: g.Kv.Revision}, k)
			if r.Err || !r.Succ {
				c.ProbeFailures = append(c.ProbeFailures, fmt.Sprintf("key %d: update naming the revision Get returned (%d) was refused", i, g.Kv.Revision))
			}
			if !r.Err && r.Hdr > last {
				last = r.Hdr
			}
		} else {
			if g.Kv != nil {
				c.ProbeFailures = append(c.ProbeFailures, fmt.Sprintf("key %d: no live index record but Get returned revision %d", i, g.Kv.Revision))
				continue
			}
			r := n.Do(KReq{Op: OpCreate, Val: []byte("probe")}, k)
			if r.Err || !r.Succ {
				c.ProbeFailures = append(c.ProbeFailures, fmt.Sprintf("key %d: reads as absent but a create was refused", i))
			}
			if !r.Err && r.Hdr > last {
				last = r.Hdr
			}
		}
	}
	if !n.WaitRev(last, 2*time.Second) {
		n.Dead = true
	}
}

func (n *KBNode) panicMsg() string {
	n.mu.Lock()
	defer n.mu.Unlock()
	return n.Panic
}

// ---------- a compaction pass racing a create over the tombstone it is about to collect ----------

type KCompactCase struct {
	Engine        string
	Cidx0         bool
	D0, R         uint64
	Init, Final   KState
	Writes        []KReq
	WResps        []KResp
	Get           KResp // HasKv / KvVal / KvRev used
	UpdateOK      bool
	CreateRefused bool
}

func (c *KCompactCase) Coq() string {
	ws := make([]string, len(c.Writes))
	for i := range c.Writes {
		ws[i] = Pair(c.Writes[i].Coq(), c.WResps[i].Coq())
	}
	get := None()
	if c.Get.HasKv {
		get = Some(Pair(Bytes(c.Get.KvVal), N(c.Get.KvRev)))
	}
	return App("C1Compact", App("Build_compact_case", Bool(c.Cidx0), N(c.D0), N(c.R), c.Init.Coq(), List(ws), c.Final.Coq(),
		get, Bool(c.UpdateOK), Bool(c.CreateRefused)))
}

func (c *KCompactCase) JSON() interface{} {
	ws := []interface{}{}
	for i := range c.Writes {
		ws = append(ws, map[string]interface{}{"req": c.Writes[i].JSON(), "resp": c.WResps[i].JSON()})
	}
	return map[string]interface{}{"engine": c.Engine, "d0": c.D0, "compact_revision": c.R, "key_when_compactor_read_it": c.Init.JSON(),
		"writes_while_compactor_is_held_before_deleting_the_index_record": ws, "final": c.Final.JSON(),
		"probe_get": c.Get.JSON(), "probe_update_naming_get_revision_ok": c.UpdateOK, "probe_second_create_refused": c.CreateRefused}
}

// RunCompactRace: key 0 is created and deleted; Backend.Compact(R >= tombstone) runs on its own goroutine
// and is held right before it deletes the key's index record; a client create commits; the compactor
// resumes; then the follow-up probes.
func (n *KBNode) RunCompactRace() (*KCompactCase, error) {
	n.caseNo++
	ctx := context.Background()
	c := &KCompactCase{Engine: n.Engine, Cidx0: n.Cidx0}
	k := n.Key(0)
	r0, err := n.seqCall(KReq{Op: OpCreate, Val: []byte("old")}, k)
	if err != nil {
		return c, err
	}
	d, err := n.seqCall(KReq{Op: OpDelete, Rev: r0.Hdr}, k)
	if err != nil {
		return c, err
	}
	c.D0, c.R = n.B.GetCurrentRevision(), d.Hdr
	st, err := n.KeyStates(1)
	if err != nil {
		return c, err
	}
	c.Init = st[0]
	n.mu.Lock()
	n.compactGate, n.compactEntered, n.compactRelease = n.cd.EncodeRevisionKey(k), make(chan struct{}), make(chan struct{})
	entered, release := n.compactEntered, n.compactRelease
	n.mu.Unlock()
	cdone := make(chan struct{})
	go func() {
		defer close(cdone)
		_, _ = n.B.Compact(ctx, c.R)
	}()
	select {
	case <-entered:
	case <-cdone:
		n.mu.Lock()
		n.compactGate = nil
		n.mu.Unlock()
		return c, fmt.Errorf("the compaction pass never tried to delete the index record of the tombstoned key")
	case <-time.After(5 * time.Second):
		close(release)
		return c, fmt.Errorf("the compaction pass did not reach the key")
	}
	q := KReq{Op: OpCreate, Val: []byte("new")}
	resp := n.Do(q, k)
	c.Writes, c.WResps = []KReq{q}, []KResp{resp}
	close(release)
	select {
	case <-cdone:
	case <-time.After(20 * time.Second):
		n.Dead = true
		return c, fmt.Errorf("the compaction pass did not finish")
	}
	if st, err = n.KeyStates(1); err != nil {
		return c, err
	}
	c.Final = st[0]
	// follow-up probes
	last := n.B.GetCurrentRevision()
	if g, err := n.B.Get(ctx, &proto.GetRequest{Key: k}); err == nil && g != nil && g.Kv != nil {
		c.Get = KResp{HasKv: true, KvVal: g.Kv.Value, KvRev: g.Kv.Revision}
		u := n.Do(KReq{Op: OpUpdate, Val: []byte("probe"), Rev: g.Kv.Revision}, k)
		c.UpdateOK = !u.Err && u.Succ
	} else {
		n.Do(KReq{Op: OpUpdate, Val: []byte("probe"), Rev: resp.Hdr}, k)
	}
	cr := n.Do(KReq{Op: OpCreate, Val: []byte("again")}, k)
	c.CreateRefused = !cr.Err && !cr.Succ
	mk := n.Do(KReq{Op: OpCreate, Val: []byte("m")}, []byte(fmt.Sprintf("%s/c%d/marker", KBPrefix, n.caseNo)))
	if !mk.Err {
		last = mk.Hdr
	}
	if !n.WaitRev(last, 2*time.Second) {
		n.Dead = true
		return c, fmt.Errorf("stalled after the compaction race")
	}
	if pm := n.panicMsg(); pm != "" {
		return c, fmt.Errorf("%s", pm)
	}
	return c, nil
}

// kbBarrier lines up n commits (or gives up after a short while, e.g. when a writer never reaches its commit).
type kbBarrier struct {
	mu    sync.Mutex
	n, in int
	ch    chan struct{}
}

func newKBBarrier(n int) *kbBarrier { return &kbBarrier{n: n, ch: make(chan struct{})} }

func (b *kbBarrier) arrive() {
	b.mu.Lock()
	b.in++
	if b.in == b.n {
		close(b.ch)
	}
	b.mu.Unlock()
	select {
	case <-b.ch:
	case <-time.After(20 * time.Millisecond):
	}
}

// DoubleSuccessStress: `writers` clients update one key naming the same revision, their engine commits lined
// up by a barrier, for `rounds` rounds (true concurrency inside the engine's Commit: the only way to reach a
// check-then-write window there from outside). Returns a description of the first round with two successes.
func (n *KBNode) DoubleSuccessStress(writers, rounds int) (string, interface{}, error) {
	n.caseNo++
	k := n.Key(0)
	r, err := n.seqCall(KReq{Op: OpCreate, Val: []byte("s0")}, k)
	if err != nil {
		return "", nil, err
	}
	cur := r.Hdr
	defer func() {
		n.mu.Lock()
		n.barrier = nil
		n.mu.Unlock()
	}()
	for round := 0; round < rounds; round++ {
		n.mu.Lock()
		n.barrier = newKBBarrier(writers)
		n.mu.Unlock()
		resps := make([]KResp, writers)
		var wg sync.WaitGroup
		for i := 0; i < writers; i++ {
			i := i
			wg.Add(1)
			go func() {
				defer wg.Done()
				resps[i] = n.Do(KReq{Op: OpUpdate, Val: []byte(fmt.Sprintf("r%dw%d", round, i)), Rev: cur}, k)
			}()
		}
		wg.Wait()
		if pm := n.panicMsg(); pm != "" {
			return "", nil, fmt.Errorf("%s", pm)
		}
		succ := []uint64{}
		js := []interface{}{}
		for _, rp := range resps {
			js = append(js, rp.JSON())
			if !rp.Err && rp.Succ {
				succ = append(succ, rp.Hdr)
			}
		}
		if len(succ) > 1 {
			st, _ := n.KeyStates(1)
			var dump interface{}
			if len(st) == 1 {
				dump = st[0].JSON()
			}
			return fmt.Sprintf("round %d: %d updates naming revision %d all succeeded (revisions %v)", round, len(succ), cur, succ),
				map[string]interface{}{"engine": n.Engine, "round": round, "expected_revision": cur, "responses": js, "key_records": dump}, nil
		}
		if len(succ) == 1 {
			cur = succ[0]
		} else {
			// nobody won (e.g. every commit met the engine's conflict detection): re-read
			n.mu.Lock()
			n.barrier = nil
			n.mu.Unlock()
			g, gerr := n.B.Get(context.Background(), &proto.GetRequest{Key: k})
			if gerr != nil || g == nil || g.Kv == nil {
				return "", nil, fmt.Errorf("stress key unreadable in round %d", round)
			}
			cur = g.Kv.Revision
		}
	}
	n.WaitRev(cur, 2*time.Second)
	return "", nil, nil
}

// ListHeaderStress: one client updates a small set of keys back to back while another lists their range at
// revision 0 (with and without limit) in a tight loop; every answer must carry header >= every kv revision.
func (n *KBNode) ListHeaderStress(d time.Duration) (lists int, what string, detail interface{}, err error) {
	n.caseNo++
	ctx := context.Background()
	const nk = 6
	revs := make([]uint64, nk)
	for i := 0; i < nk; i++ {
		r, e := n.seqCall(KReq{Op: OpCreate, Val: []byte("l0")}, n.Key(i))
		if e != nil {
			return 0, "", nil, e
		}
		revs[i] = r.Hdr
	}
	prefix := []byte(fmt.Sprintf("%s/c%d/", KBPrefix, n.caseNo))
	end := append([]byte{}, prefix...)
	end[len(end)-1]++
	stop := make(chan struct{})
	var wg sync.WaitGroup
	wg.Add(1)
	go func() {
		defer wg.Done()
		for j := 0; ; j++ {
			select {
			case <-stop:
				return
			default:
			}
			i := j % nk
			r := n.Do(KReq{Op: OpUpdate, Val: []byte("l"), Rev: revs[i]}, n.Key(i))
			if r.Err || !r.Succ {
				return
			}
			revs[i] = r.Hdr
			if j%64 == 63 { // do not run away from the sequencer (result slots are a ring)
				n.WaitRev(r.Hdr-32, time.Second)
			}
		}
	}()
	deadline := time.Now().Add(d)
	for time.Now().Before(deadline) && what == "" {
		limit := int64(0)
		if lists%2 == 1 {
			limit = 3
		}
		resp, e := n.B.List(ctx, &proto.RangeRequest{Key: prefix, End: end, Limit: limit})
		lists++
		if e != nil || resp == nil {
			continue
		}
		for _, kv := range resp.Kvs {
			if kv.Revision > resp.Header.Revision {
				what = fmt.Sprintf("List(revision 0, limit %d) answered header %d with a kv at revision %d", limit, resp.Header.Revision, kv.Revision)
				detail = map[string]interface{}{"engine": n.Engine, "header": resp.Header.Revision, "kv_revision": kv.Revision, "key": string(kv.Key), "lists_before": lists}
				break
			}
		}
	}
	close(stop)
	wg.Wait()
	last := uint64(0)
	for _, r := range revs {
		if r > last {
			last = r
		}
	}
	n.WaitRev(last, 2*time.Second)
	if pm := n.panicMsg(); pm != "" {
		return lists, what, detail, fmt.Errorf("%s", pm)
	}
	return lists, what, detail, nil
}

// KBFront is a front end in front of the node's Backend.
type KBFront interface {
	Do(ctx context.Context, q KReq, key []byte) KResp
}

// UncertainBurstStress: several writers create keys while every second commit is applied but reported as
// uncertain, with the repair loop running at a high rate; afterwards (fault gone) a well-formed create must
// become readable. Returns a description when the read revision is frozen.
func (n *KBNode) UncertainBurstStress(writers int, d time.Duration) (string, interface{}, error) {
	n.caseNo++
	n.mu.Lock()
	n.burst = true
	n.mu.Unlock()
	var stop int32
	var wg sync.WaitGroup
	var highest, uncertain uint64
	var hmu sync.Mutex
	stopped := func() bool {
		hmu.Lock()
		defer hmu.Unlock()
		return stop != 0
	}
	for w := 0; w < writers; w++ {
		w := w
		wg.Add(1)
		go func() {
			defer wg.Done()
			for i := 0; !stopped(); i++ {
				r := n.Do(KReq{Op: OpCreate, Val: []byte("b")}, []byte(fmt.Sprintf("%s/c%d/w%d/%06d", KBPrefix, n.caseNo, w, i)))
				hmu.Lock()
				if r.Err {
					uncertain++
				} else if r.Hdr > highest {
					highest = r.Hdr
				}
				hmu.Unlock()
				for !r.Err && r.Hdr > n.B.GetCurrentRevision()+256 && !stopped() {
					time.Sleep(50 * time.Microsecond)
				}
			}
		}()
	}
	start := time.Now()
	lastSeen, lastMove := n.B.GetCurrentRevision(), time.Now()
	stalled := false
	for time.Since(start) < d {
		time.Sleep(10 * time.Millisecond)
		cur := n.B.GetCurrentRevision()
		if cur != lastSeen {
			lastSeen, lastMove = cur, time.Now()
			continue
		}
		hmu.Lock()
		h := highest
		hmu.Unlock()
		if h > cur && time.Since(lastMove) > 1500*time.Millisecond {
			stalled = true
			break
		}
	}
	n.mu.Lock()
	n.burst = false
	n.mu.Unlock()
	hmu.Lock()
	stop = 1
	hmu.Unlock()
	wg.Wait()
	if pm := n.panicMsg(); pm != "" {
		return "", nil, fmt.Errorf("%s", pm)
	}
	mk := n.Do(KReq{Op: OpCreate, Val: []byte("m")}, []byte(fmt.Sprintf("%s/c%d/after-the-fault", KBPrefix, n.caseNo)))
	ok := !mk.Err && mk.Succ && n.WaitRev(mk.Hdr, 5*time.Second)
	detail := map[string]interface{}{"engine": n.Engine, "writers": writers, "uncertain_results": uncertain, "highest_acknowledged": highest,
		"read_revision": n.B.GetCurrentRevision(), "create_after_the_fault": mk.JSON(), "stalled_during_burst": stalled}
	if !ok {
		n.Dead = true
		return fmt.Sprintf("read revision frozen at %d: a create acknowledged at %d after the storage fault was gone never became readable (%d uncertain results during the burst)",
			n.B.GetCurrentRevision(), mk.Hdr, uncertain), detail, nil
	}
	return "", detail, nil
}
