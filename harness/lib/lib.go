// Package lib holds what every correspondence driver shares: one PRNG, the Coq term printer,
// the case-file writer and the stats/evidence record.
package lib

import (
	"crypto/sha256"
	"encoding/hex"
	"encoding/json"
	"flag"
	"fmt"
	"os"
	"path/filepath"
	"sort"
	"strings"
)

// ---------- PRNG: splitmix64, every random choice of a driver derives from one state ----------

type Rand struct{ s uint64 }

func NewRand(seed uint64) *Rand { return &Rand{s: seed*0x9E3779B97F4A7C15 + 0x1234567} }

func (r *Rand) U64() uint64 {
	r.s += 0x9E3779B97F4A7C15
	z := r.s
	z = (z ^ (z >> 30)) * 0xBF58476D1CE4E5B9
	z = (z ^ (z >> 27)) * 0x94D049BB133111EB
	return z ^ (z >> 31)
}
func (r *Rand) Intn(n int) int {
	if n <= 0 {
		return 0
	}
	return int(r.U64() % uint64(n))
}
func (r *Rand) Bool() bool          { return r.U64()&1 == 1 }
func (r *Rand) Chance(p, q int) bool { return r.Intn(q) < p }
func (r *Rand) Pick(xs []string) string { return xs[r.Intn(len(xs))] }
func (r *Rand) PickB(xs [][]byte) []byte { return xs[r.Intn(len(xs))] }
func (r *Rand) Fork() *Rand         { return &Rand{s: r.U64()} }
func (r *Rand) Perm(n int) []int {
	p := make([]int, n)
	for i := range p {
		p[i] = i
	}
	for i := n - 1; i > 0; i-- {
		j := r.Intn(i + 1)
		p[i], p[j] = p[j], p[i]
	}
	return p
}

// ---------- Coq term printing ----------

func N(v uint64) string { return fmt.Sprintf("%d", v) }
func Nat(v int) string  { return fmt.Sprintf("%d%%nat", v) }
func Z(v int64) string {
	if v < 0 {
		return fmt.Sprintf("(%d)%%Z", v)
	}
	return fmt.Sprintf("%d%%Z", v)
}
func Bool(b bool) string {
	if b {
		return "true"
	}
	return "false"
}
func Bytes(b []byte) string {
	if len(b) == 0 {
		return "[]"
	}
	var sb strings.Builder
	sb.WriteByte('[')
	for i, x := range b {
		if i > 0 {
			sb.WriteByte(';')
		}
		fmt.Fprintf(&sb, "%d", x)
	}
	sb.WriteByte(']')
	return sb.String()
}
func Str(s string) string { return Bytes([]byte(s)) }
func List(xs []string) string {
	if len(xs) == 0 {
		return "[]"
	}
	return "[" + strings.Join(xs, "; ") + "]"
}
func Some(x string) string { return "(Some " + x + ")" }
func None() string         { return "None" }
func Pair(a, b string) string { return "(" + a + ", " + b + ")" }
func App(f string, args ...string) string {
	if len(args) == 0 {
		return f
	}
	return "(" + f + " " + strings.Join(args, " ") + ")"
}
func OptBytes(b []byte, present bool) string {
	if !present {
		return None()
	}
	return Some(Bytes(b))
}

// ---------- driver frame ----------

type Args struct {
	Seed   uint64
	Tier   string // quick | thorough | search
	OutDir string
	Only   int // -1 = all; otherwise only this case id is kept (replay)
	Scratch string
}

func ParseArgs() Args {
	var a Args
	seed := flag.Uint64("seed", 1, "PRNG seed")
	flag.StringVar(&a.Tier, "tier", "quick", "quick|thorough|search")
	flag.StringVar(&a.OutDir, "outdir", ".", "where cases_*.v, stats.json and cases.jsonl go")
	flag.IntVar(&a.Only, "only", -1, "replay: keep only this case id")
	flag.StringVar(&a.Scratch, "scratch", "", "scratch directory for engine files (removed by the caller)")
	flag.Parse()
	a.Seed = *seed
	if a.Scratch == "" {
		a.Scratch = os.TempDir()
	}
	return a
}

// Case is one correspondence case: the Coq term (input + what the implementation did) and a JSON
// rendering for replay files and evidence samples.
type Case struct {
	ID       int
	Coq      string
	JSON     interface{}
	Kind     string // generator class, for the distribution report
	Trivial  bool   // by the driver's stated rule
	Outcomes []string // outcome classes seen in this case (for the distribution)
}

type Stats struct {
	Property          string                 `json:"property"`
	Driver            string                 `json:"driver"`
	Seed              uint64                 `json:"seed"`
	Tier              string                 `json:"tier"`
	Evaluations       int                    `json:"evaluations"`
	DistinctNontrivial int                   `json:"distinct_nontrivial"`
	Rule              string                 `json:"rule"`
	Distribution      map[string]int         `json:"distribution"`
	Outcomes          map[string]int         `json:"outcomes"`
	Samples           []interface{}          `json:"samples"`
	Shards            []string               `json:"shards"`
	Extra             map[string]interface{} `json:"extra,omitempty"`
	ImplFailures      []ImplFailure          `json:"impl_failures,omitempty"`
}

// ImplFailure is a failure the driver itself observed on the implementation (crash, hang, panic,
// Go-side oracle) that cannot be expressed as a Coq case.
type ImplFailure struct {
	CaseID int         `json:"case_id"`
	Code   int         `json:"code"` // known-finding signature code, 0 = unlisted
	What   string      `json:"what"`
	Case   interface{} `json:"case"`
}

type Writer struct {
	args      Args
	prop      string
	driver    string
	header    string // Coq header: imports
	caseType  string // Coq type of a case
	checkFn   string // name of check function: case -> bool
	oracleFn  string // name of oracle function: case -> option N
	// InfoFn (optional): a second check function case -> bool whose failures are REPORTED (evidence: informational_mismatches)
	// but raise no alarm: agreement on observations the property does not speak about (e.g. the metrics a decorator emits)
	InfoFn string
	perShard  int
	cases     []Case
	Stats     Stats
}

func NewWriter(args Args, prop, driver, header, caseType, checkFn, oracleFn string, perShard int) *Writer {
	return &Writer{args: args, prop: prop, driver: driver, header: header, caseType: caseType,
		checkFn: checkFn, oracleFn: oracleFn, perShard: perShard,
		Stats: Stats{Property: prop, Driver: driver, Seed: args.Seed, Tier: args.Tier,
			Distribution: map[string]int{}, Outcomes: map[string]int{}, Extra: map[string]interface{}{}}}
}

func (w *Writer) Add(c Case) {
	c.ID = len(w.cases)
	w.cases = append(w.cases, c)
}
func (w *Writer) Len() int { return len(w.cases) }

func (w *Writer) Fail(f ImplFailure) { w.Stats.ImplFailures = append(w.Stats.ImplFailures, f) }

// Finish writes shards, cases.jsonl and stats.json.
func (w *Writer) Finish(rule string) error {
	if err := os.MkdirAll(w.args.OutDir, 0o755); err != nil {
		return err
	}
	seen := map[string]bool{}
	jl, err := os.Create(filepath.Join(w.args.OutDir, "cases.jsonl"))
	if err != nil {
		return err
	}
	defer jl.Close()
	enc := json.NewEncoder(jl)
	kept := []Case{}
	for _, c := range w.cases {
		if w.args.Only >= 0 && c.ID != w.args.Only {
			continue
		}
		kept = append(kept, c)
		w.Stats.Distribution[c.Kind]++
		for _, o := range c.Outcomes {
			w.Stats.Outcomes[o]++
		}
		h := sha256.Sum256([]byte(c.Coq))
		hs := hex.EncodeToString(h[:8])
		if !c.Trivial && !seen[hs] {
			seen[hs] = true
			w.Stats.DistinctNontrivial++
		}
		_ = enc.Encode(map[string]interface{}{"id": c.ID, "kind": c.Kind, "case": c.JSON})
	}
	w.Stats.Evaluations = len(kept)
	w.Stats.Rule = rule
	// samples: first of each kind, at most 6
	kinds := map[string]bool{}
	for _, c := range kept {
		if !kinds[c.Kind] && len(w.Stats.Samples) < 6 {
			kinds[c.Kind] = true
			w.Stats.Samples = append(w.Stats.Samples, map[string]interface{}{"id": c.ID, "kind": c.Kind, "case": c.JSON})
		}
	}
	// shards
	for i := 0; i < len(kept) || i == 0; i += w.perShard {
		j := i + w.perShard
		if j > len(kept) {
			j = len(kept)
		}
		name := fmt.Sprintf("cases_%s_%03d.v", w.prop, i/w.perShard)
		var sb strings.Builder
		sb.WriteString("(* generated by harness driver " + w.driver + "; do not edit *)\n")
		sb.WriteString(w.header + "\n")
		sb.WriteString("Open Scope N_scope.\n")
		fmt.Fprintf(&sb, "Definition cases : list (N * %s) := [\n", w.caseType)
		for k, c := range kept[i:j] {
			if k > 0 {
				sb.WriteString(";\n")
			}
			fmt.Fprintf(&sb, "(%d, %s)", c.ID, c.Coq)
		}
		sb.WriteString("\n].\n")
		fmt.Fprintf(&sb, "Definition mism := Eval vm_compute in (mismatches %s cases).\n", w.checkFn)
		fmt.Fprintf(&sb, "Definition orac := Eval vm_compute in (oracle_failures %s cases).\n", w.oracleFn)
		sb.WriteString("Print mism.\nPrint orac.\n")
		if w.InfoFn != "" {
			fmt.Fprintf(&sb, "Definition info := Eval vm_compute in (mismatches %s cases).\nPrint info.\n", w.InfoFn)
		}
		if err := os.WriteFile(filepath.Join(w.args.OutDir, name), []byte(sb.String()), 0o644); err != nil {
			return err
		}
		w.Stats.Shards = append(w.Stats.Shards, name)
		if len(kept) == 0 {
			break
		}
	}
	sort.Strings(w.Stats.Shards)
	b, _ := json.MarshalIndent(w.Stats, "", " ")
	return os.WriteFile(filepath.Join(w.args.OutDir, "stats.json"), b, 0o644)
}

// HexBytes renders bytes for JSON replay files.
func HexBytes(b []byte) string { return hex.EncodeToString(b) }

// Printable renders bytes as a Go-quoted string for JSON.
func Q(b []byte) string { return fmt.Sprintf("%q", string(b)) }
