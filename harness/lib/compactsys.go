package lib

// Helpers shared by the c07 / c08 / c17 drivers (CompactSys): a Backend whose sequencer goroutine is
// parked while idle, sequential request helpers, decoded dumps and their Coq rendering.

import (
	"context"
	"fmt"
	"sync"
	"sync/atomic"
	"time"

	proto "github.com/kubewharf/kubebrain-client/api/v2rpc"

	"github.com/kubewharf/kubebrain/pkg/backend"
	"github.com/kubewharf/kubebrain/pkg/backend/coder"
	"github.com/kubewharf/kubebrain/pkg/backend/scanner"
	"github.com/kubewharf/kubebrain/pkg/storage"
)

// ---------- parking the sequencer ----------

type csParker struct {
	kick       chan struct{}
	retired    int32
	registered chan struct{}
}

var (
	csHookOnce sync.Once
	csCreate   sync.Mutex // one backend is created at a time, so that its sequencer can be attributed
	csPendMu   sync.Mutex
	csPending  *csParker
	csParkers  sync.Map // goroutine id -> *csParker
)

func csHook(point string) {
	if point != "seq.idle" {
		return
	}
	id := GoID()
	v, ok := csParkers.Load(id)
	if !ok {
		csPendMu.Lock()
		p := csPending
		csPending = nil
		csPendMu.Unlock()
		if p == nil {
			time.Sleep(200 * time.Microsecond)
			return
		}
		csParkers.Store(id, p)
		close(p.registered)
		v = p
	}
	p := v.(*csParker)
	if atomic.LoadInt32(&p.retired) != 0 {
		time.Sleep(time.Second)
		return
	}
	t := time.NewTimer(20 * time.Millisecond)
	select {
	case <-p.kick:
	case <-t.C:
	}
	t.Stop()
}

// CsBackend is a real Backend over kv with a parked sequencer.
type CsBackend struct {
	B      backend.Backend
	KV     storage.KvStorage
	Prefix string
	p      *csParker
}

// CsNewBackend builds a backend (etcd compatibility on, small watch cache) and initialises its revision.
func CsNewBackend(kv storage.KvStorage, prefix string, skipped []string, initRev uint64) (*CsBackend, error) {
	csHookOnce.Do(func() { backend.VerifYieldHook = csHook })
	csCreate.Lock()
	defer csCreate.Unlock()
	p := &csParker{kick: make(chan struct{}, 1), registered: make(chan struct{})}
	csPendMu.Lock()
	csPending = p
	csPendMu.Unlock()
	b := backend.NewBackend(kv, backend.Config{EnableEtcdCompatibility: true, Prefix: prefix, Identity: "verif",
		SkippedPrefixes: skipped, WatchCacheSize: 64}, &NopMetrics{})
	select {
	case <-p.registered:
	case <-time.After(5 * time.Second):
		return nil, fmt.Errorf("sequencer did not reach its idle point")
	}
	b.SetCurrentRevision(initRev)
	return &CsBackend{B: b, KV: kv, Prefix: prefix, p: p}, nil
}

func (c *CsBackend) Kick() {
	select {
	case c.p.kick <- struct{}{}:
	default:
	}
}

// Retire parks the sequencer for good.
func (c *CsBackend) Retire() { atomic.StoreInt32(&c.p.retired, 1) }

// Sync waits until the committed revision reaches rev.
func (c *CsBackend) Sync(rev uint64) bool {
	deadline := time.Now().Add(3 * time.Second)
	for i := 0; ; i++ {
		if c.B.GetCurrentRevision() >= rev {
			return true
		}
		c.Kick()
		if time.Now().After(deadline) {
			return false
		}
		if i < 50 {
			time.Sleep(20 * time.Microsecond)
		} else {
			time.Sleep(200 * time.Microsecond)
		}
	}
}

// CsWrite is one write request; every request allocates exactly one revision.
type CsWrite struct {
	Op       string // create | update | delete
	Key, Val []byte
	Rev      uint64 // expected revision (update / delete)
	Lease    int64  // the request's Lease (create / update)
}

// Do runs the request and waits for its revision to be committed. class = ok | false | err.
func (c *CsBackend) Do(w CsWrite) (class string, hdr uint64, synced bool) {
	ctx := context.Background()
	before := c.B.GetCurrentRevision()
	switch w.Op {
	case "create":
		r, err := c.B.Create(ctx, &proto.CreateRequest{Key: w.Key, Value: w.Val, Lease: w.Lease})
		class, hdr = csClass(err, r.GetSucceeded()), r.GetHeader().GetRevision()
	case "update":
		r, err := c.B.Update(ctx, &proto.UpdateRequest{Kv: &proto.KeyValue{Key: w.Key, Value: w.Val, Revision: w.Rev}, Lease: w.Lease})
		class, hdr = csClass(err, r.GetSucceeded()), r.GetHeader().GetRevision()
	case "delete":
		r, err := c.B.Delete(ctx, &proto.DeleteRequest{Key: w.Key, Revision: w.Rev})
		class, hdr = csClass(err, r.GetSucceeded()), r.GetHeader().GetRevision()
	default:
		panic("unknown op " + w.Op)
	}
	synced = c.Sync(before + 1)
	return
}

func csClass(err error, ok bool) string {
	if err != nil {
		return "err"
	}
	if ok {
		return "ok"
	}
	return "false"
}

func CsWresCoq(class string) string {
	switch class {
	case "ok":
		return "WOk"
	case "false":
		return "WFalse"
	}
	return "WErr"
}

// KVR is one listed key.
type KVR struct {
	K, V []byte
	Rev  uint64
}

func CsKvrCoq(l []KVR) string {
	xs := make([]string, len(l))
	for i, e := range l {
		xs[i] = "(" + Bytes(e.K) + ", " + Bytes(e.V) + ", " + N(e.Rev) + ")"
	}
	return List(xs)
}

// List runs Backend.List; err=true when an error was returned.
func (c *CsBackend) List(start, end []byte, rev uint64, limit int64) (kvs []KVR, more bool, isErr bool) {
	r, err := c.B.List(context.Background(), &proto.RangeRequest{Key: start, End: end, Revision: rev, Limit: limit})
	if err != nil {
		return nil, false, true
	}
	for _, kv := range r.Kvs {
		kvs = append(kvs, KVR{K: kv.Key, V: kv.Value, Rev: kv.Revision})
	}
	return kvs, r.More, false
}

// Get runs Backend.Get; present=false when no kv came back.
func (c *CsBackend) Get(key []byte, rev uint64) (kv KVR, present bool, isErr bool) {
	r, err := c.B.Get(context.Background(), &proto.GetRequest{Key: key, Revision: rev})
	if err != nil {
		return KVR{}, false, true
	}
	if r.Kv == nil {
		return KVR{}, false, false
	}
	return KVR{K: r.Kv.Key, V: r.Kv.Value, Rev: r.Kv.Revision}, true, false
}

// Stream runs ListByStream over raw keys [start,end) and drains it.
func (c *CsBackend) Stream(start, end []byte, rev uint64) (kvs []KVR, isErr bool) {
	cd := coder.NewNormalCoder()
	ch, err := c.B.ListByStream(context.Background(), cd.EncodeObjectKey(start, 0), cd.EncodeObjectKey(end, 0), rev)
	if err != nil {
		return nil, true
	}
	for m := range ch {
		if m.Err != "" {
			isErr = true
		}
		if m.RangeResponse != nil {
			for _, kv := range m.RangeResponse.Kvs {
				kvs = append(kvs, KVR{K: kv.Key, V: kv.Value, Rev: kv.Revision})
			}
		}
	}
	return kvs, isErr
}

// CsScanner builds a stand-alone scanner with the backend's configuration over kv.
func CsScanner(kv storage.KvStorage, prefix string, ttl time.Duration) scanner.Scanner {
	return scanner.NewScanner(kv, coder.NewNormalCoder(), scanner.Config{
		CompactKey: []byte(prefix + "/compact_key"), Tombstone: []byte("tombstone"), TTL: ttl,
		EventsPrefix: []byte(prefix + "/events/")}, &NopMetrics{})
}

// CsDataDump returns the engine contents without the compaction record and the election keys
// (everything that decodes as an internal key).
func CsDataDump(kv storage.KvStorage) ([]KV, error) {
	d, err := Dump(kv)
	if err != nil {
		return nil, err
	}
	cd := coder.NewNormalCoder()
	out := d[:0:0]
	for _, e := range d {
		if len(e.K) >= 13 {
			if _, _, derr := csDecode(cd, e.K); derr == nil {
				out = append(out, e)
			}
		}
	}
	return out, nil
}

func csDecode(cd coder.Coder, k []byte) (uk []byte, rev uint64, err error) {
	defer func() {
		if r := recover(); r != nil {
			err = fmt.Errorf("panic")
		}
	}()
	return cd.Decode(k)
}

// CsRecord reads <prefix>/compact_key.
func CsRecord(kv storage.KvStorage, prefix string) ([]byte, bool) {
	v, err := kv.Get(context.Background(), []byte(prefix+"/compact_key"))
	if err != nil {
		return nil, false
	}
	return append([]byte{}, v...), true
}

// CsRunParallel runs n jobs on at most par goroutines and returns when all are done.
func CsRunParallel(n, par int, job func(i int)) {
	var wg sync.WaitGroup
	sem := make(chan struct{}, par)
	for i := 0; i < n; i++ {
		wg.Add(1)
		sem <- struct{}{}
		go func(i int) {
			defer wg.Done()
			defer func() { <-sem }()
			job(i)
		}(i)
	}
	wg.Wait()
}

// ---------- decoded dumps and interned keys (keeps the Coq case files small) ----------

// CsIntern maps known byte strings (the key pool) to Coq identifiers defined in the shard header.
type CsIntern struct {
	names map[string]string
	defs  []string
}

func CsNewIntern(pool []string) *CsIntern {
	t := &CsIntern{names: map[string]string{}}
	for i, k := range pool {
		n := fmt.Sprintf("key%d", i)
		t.names[k] = n
		t.defs = append(t.defs, fmt.Sprintf("Definition %s : list N := %s.", n, Str(k)))
	}
	return t
}

// B renders a byte string: its identifier when interned, a literal otherwise.
func (t *CsIntern) B(b []byte) string {
	if n, ok := t.names[string(b)]; ok {
		return n
	}
	return Bytes(b)
}

func (t *CsIntern) Header() string {
	s := "Open Scope N_scope.\n"
	for _, d := range t.defs {
		s += d + "\n"
	}
	return s
}

// CsRec is one decoded record (decoded with the real coder).
type CsRec struct {
	Idx bool
	K   []byte
	Rev uint64
	Del bool
	V   []byte
}

func (r CsRec) Coq(t *CsIntern) string {
	if r.Idx {
		return App("RIdx", t.B(r.K), N(r.Rev), Bool(r.Del))
	}
	if string(r.V) == "tombstone" {
		return App("RVer", t.B(r.K), N(r.Rev), "tombstone")
	}
	return App("RVer", t.B(r.K), N(r.Rev), Bytes(r.V))
}

func (r CsRec) Slot() string {
	return fmt.Sprintf("%s\x00%d", r.K, map[bool]uint64{true: 0, false: r.Rev}[r.Idx])
}
func (r CsRec) Same(o CsRec) bool {
	return r.Idx == o.Idx && string(r.K) == string(o.K) && r.Rev == o.Rev && r.Del == o.Del && string(r.V) == string(o.V)
}

// CsDecodeDump decodes a raw dump with coder.Decode / coder.ParseRevision.
func CsDecodeDump(d []KV) ([]CsRec, error) {
	cd := coder.NewNormalCoder()
	out := make([]CsRec, 0, len(d))
	for _, e := range d {
		uk, rev, err := csDecode(cd, e.K)
		if err != nil {
			return nil, fmt.Errorf("undecodable internal key %x", e.K)
		}
		if rev == 0 {
			r, del, perr := coder.ParseRevision(e.V)
			if perr != nil || (del && e.V[8] != 0) {
				return nil, fmt.Errorf("malformed index record %x -> %x", e.K, e.V)
			}
			out = append(out, CsRec{Idx: true, K: uk, Rev: r, Del: del})
		} else {
			out = append(out, CsRec{K: uk, Rev: rev, V: append([]byte{}, e.V...)})
		}
	}
	return out, nil
}

func CsRecsCoq(rs []CsRec, t *CsIntern) string {
	xs := make([]string, len(rs))
	for i, r := range rs {
		xs[i] = r.Coq(t)
	}
	return List(xs)
}

// CsDiff renders `now` relative to `base`: removed positions of base, added records.
func CsDiff(base, now []CsRec, t *CsIntern) (string, []int) {
	var rm []string
	var rmi []int
	for i, b := range base {
		found := false
		for _, n := range now {
			if b.Same(n) {
				found = true
				break
			}
		}
		if !found {
			rm = append(rm, N(uint64(i)))
			rmi = append(rmi, i)
		}
	}
	var added []CsRec
	for _, n := range now {
		found := false
		for _, b := range base {
			if b.Same(n) {
				found = true
				break
			}
		}
		if !found {
			added = append(added, n)
		}
	}
	return Pair(List(rm), CsRecsCoq(added, t)), rmi
}

func CsKvrCoqI(l []KVR, t *CsIntern) string {
	xs := make([]string, len(l))
	for i, e := range l {
		xs[i] = "(" + t.B(e.K) + ", " + Bytes(e.V) + ", " + N(e.Rev) + ")"
	}
	return List(xs)
}

// ---------- recording the TTL arguments a backend hands to the engine ----------

// CsTTLRec wraps an engine and records the ttl argument of every batch write.
type CsTTLRec struct {
	storage.KvStorage
	mu   sync.Mutex
	Seen []CsTTLArg
}

type CsTTLArg struct {
	Op  string
	Key []byte
	TTL int64
}

type csTTLBatch struct {
	storage.BatchWrite
	r *CsTTLRec
}

func (r *CsTTLRec) BeginBatchWrite() storage.BatchWrite {
	return &csTTLBatch{BatchWrite: r.KvStorage.BeginBatchWrite(), r: r}
}
func (r *CsTTLRec) note(op string, k []byte, ttl int64) {
	r.mu.Lock()
	r.Seen = append(r.Seen, CsTTLArg{op, append([]byte{}, k...), ttl})
	r.mu.Unlock()
}
func (r *CsTTLRec) Reset() { r.mu.Lock(); r.Seen = nil; r.mu.Unlock() }
func (b *csTTLBatch) PutIfNotExist(k, v []byte, ttl int64) {
	b.r.note("putifnotexist", k, ttl)
	b.BatchWrite.PutIfNotExist(k, v, ttl)
}
func (b *csTTLBatch) CAS(k, n, o []byte, ttl int64) {
	b.r.note("cas", k, ttl)
	b.BatchWrite.CAS(k, n, o, ttl)
}
func (b *csTTLBatch) Put(k, v []byte, ttl int64) {
	b.r.note("put", k, ttl)
	b.BatchWrite.Put(k, v, ttl)
}
