// Driver c19. (1) One Coq case per location of the regenerated access table (build/gen/accesses.json,
// written by gen_accesses): the translator's verdict is compared with Model/Lockset.check_location and
// the oracle reports flagged locations (code of the recorded finding, or 0). (2) A race soak: this same
// program is rebuilt with `-race` against the repository under verification and run as a child: a mixed
// read / write / watch / compact / retry / election / etcd-proxy workload on one node (memkv behind the
// metrics wrapper, real Prometheus client); every DATA RACE report becomes an ImplFailure whose signature
// is the table location of the racing accesses.
package main

import (
	"context"
	"crypto/sha256"
	"encoding/hex"
	"encoding/json"
	"flag"
	"fmt"
	"io"
	"net"
	"os"
	"os/exec"
	"path/filepath"
	"regexp"
	"sort"
	"strings"
	"sync"
	"sync/atomic"
	"time"

	"go.etcd.io/etcd/api/v3/etcdserverpb"
	"google.golang.org/grpc"
	"google.golang.org/grpc/metadata"

	proto "github.com/kubewharf/kubebrain-client/api/v2rpc"

	"github.com/kubewharf/kubebrain/pkg/backend"
	"github.com/kubewharf/kubebrain/pkg/backend/coder"
	"github.com/kubewharf/kubebrain/pkg/metrics"
	kbprom "github.com/kubewharf/kubebrain/pkg/metrics/prometheus"
	"github.com/kubewharf/kubebrain/pkg/server/brain"
	"github.com/kubewharf/kubebrain/pkg/server/etcd"
	"github.com/kubewharf/kubebrain/pkg/server/service"
	"github.com/kubewharf/kubebrain/pkg/server/service/etcdproxy"
	"github.com/kubewharf/kubebrain/pkg/server/service/leader"
	"github.com/kubewharf/kubebrain/pkg/storage"
	smetrics "github.com/kubewharf/kubebrain/pkg/storage/metrics"

	"kbverif/lib"
)

// ---------- the soak (child, built with -race) ----------

type fakeStream struct{ ctx context.Context }

func (f *fakeStream) SetHeader(metadata.MD) error  { return nil }
func (f *fakeStream) SendHeader(metadata.MD) error { return nil }
func (f *fakeStream) SetTrailer(metadata.MD)       {}
func (f *fakeStream) Context() context.Context     { return f.ctx }
func (f *fakeStream) SendMsg(m interface{}) error  { return nil }
func (f *fakeStream) RecvMsg(m interface{}) error  { return io.EOF }

type etcdWatchStream struct {
	fakeStream
	in chan *etcdserverpb.WatchRequest
	n  int64
}

func (s *etcdWatchStream) Recv() (*etcdserverpb.WatchRequest, error) {
	select {
	case m, ok := <-s.in:
		if !ok {
			return nil, io.EOF
		}
		return m, nil
	case <-s.ctx.Done():
		return nil, s.ctx.Err()
	}
}
func (s *etcdWatchStream) Send(r *etcdserverpb.WatchResponse) error {
	atomic.AddInt64(&s.n, 1)
	return nil
}

type brainWatchStream struct {
	fakeStream
	n int64
}

func (s *brainWatchStream) Send(r *proto.WatchResponse) error { atomic.AddInt64(&s.n, 1); return nil }

type brainRangeStream struct {
	fakeStream
	n int64
}

func (s *brainRangeStream) Send(r *proto.StreamRangeResponse) error {
	atomic.AddInt64(&s.n, 1)
	return nil
}

var proxyOK, proxyErr, leaderInfoCalls int64
var lastProxyErr atomic.Value

// an election whose leader address changes over time (for the etcd proxy)
type flipElection struct {
	addrs []string
	start time.Time
}

func (f *flipElection) Campaign()      {}
func (f *flipElection) IsLeader() bool { return false }
func (f *flipElection) GetLeaderInfo() string {
	atomic.AddInt64(&leaderInfoCalls, 1)
	return f.addrs[int(time.Since(f.start)/(1200*time.Millisecond))%len(f.addrs)]
}
func (f *flipElection) GetElectionInfo() (leader.ElectionInfo, error) {
	return leader.ElectionInfo{LeaderAddress: f.GetLeaderInfo()}, nil
}

func soak(dur time.Duration, seed uint64, scratch string) {
	backend.VerifSetIntervals(100*time.Millisecond, 50*time.Millisecond)
	backend.VerifYieldHook = func(p string) {
		if p == "seq.idle" {
			time.Sleep(50 * time.Microsecond)
		}
	}
	base, _, err := lib.NewEngine(lib.EngMem, scratch)
	if err != nil {
		fmt.Fprintln(os.Stderr, "SOAK-SETUP-FAILED", err)
		os.Exit(3)
	}
	var commits int64
	wrap := &lib.Wrap{KvStorage: base, NoTTL: true, CommitFault: func() (error, bool) {
		n := atomic.AddInt64(&commits, 1)
		if n%11 == 0 { // an unknown outcome every few commits keeps the retry queue populated
			return storage.ErrUncertainResult, n%2 == 0
		}
		return nil, false
	}}
	m := kbprom.NewMetrics(metrics.Tag("cluster", "verif"))
	kv := smetrics.NewKvStorage(wrap, m)
	b := backend.NewBackend(kv, backend.Config{Prefix: "/registry", Identity: "127.0.0.1:3379", EnableEtcdCompatibility: true}, m)
	le := leader.NewLeaderElection(b, m, func(context.Context) {}, func() {})
	peers := service.NewPeerService(le, m, b, service.Config{})
	es := etcd.New(b, m, peers)

	deadline := time.Now().Add(dur)
	alive := func() bool { return time.Now().Before(deadline) }
	var wg sync.WaitGroup
	spawn := func(n int, f func(r *lib.Rand)) {
		for i := 0; i < n; i++ {
			wg.Add(1)
			r := lib.NewRand(seed*1000 + uint64(i) + uint64(n)*17)
			go func() {
				defer wg.Done()
				defer func() { _ = recover() }()
				f(r)
			}()
		}
	}
	ctx := context.Background()

	// handlers that ask who leads, from the very start (the campaign starts inside brain.New)
	spawn(2, func(r *lib.Rand) {
		for alive() {
			_ = peers.IsLeader()
			_ = le.GetLeaderInfo()
			_, _ = le.GetElectionInfo()
			_ = b.GetResourceLock().Describe()
			time.Sleep(300 * time.Microsecond)
		}
	})
	bs := brain.New(b, m, peers)
	lib.WaitUntil(5*time.Second, func() bool { return peers.IsLeader() })

	keys := make([][]byte, 24)
	for i := range keys {
		if i%6 == 5 {
			keys[i] = []byte(fmt.Sprintf("/registry/events/e%02d", i))
		} else {
			keys[i] = []byte(fmt.Sprintf("/registry/pods/p%02d", i))
		}
	}
	// writers: both APIs
	spawn(4, func(r *lib.Rand) {
		for alive() {
			k := keys[r.Intn(len(keys))]
			v := []byte(fmt.Sprintf("v%d", r.Intn(1000)))
			switch r.Intn(6) {
			case 0:
				_, _ = bs.Create(ctx, &proto.CreateRequest{Key: k, Value: v})
			case 1:
				if g, err := bs.Get(ctx, &proto.GetRequest{Key: k}); err == nil && g.Kv != nil {
					_, _ = bs.Update(ctx, &proto.UpdateRequest{Kv: &proto.KeyValue{Key: k, Value: v, Revision: g.Kv.Revision}})
				}
			case 2:
				_, _ = bs.Delete(ctx, &proto.DeleteRequest{Key: k})
			case 3:
				_, _ = es.Txn(ctx, &etcdserverpb.TxnRequest{
					Compare: []*etcdserverpb.Compare{{Target: etcdserverpb.Compare_MOD, Result: etcdserverpb.Compare_EQUAL, Key: k, TargetUnion: &etcdserverpb.Compare_ModRevision{ModRevision: 0}}},
					Success: []*etcdserverpb.RequestOp{{Request: &etcdserverpb.RequestOp_RequestPut{RequestPut: &etcdserverpb.PutRequest{Key: k, Value: v}}}}})
			case 4:
				if g, err := es.Range(ctx, &etcdserverpb.RangeRequest{Key: k}); err == nil && len(g.Kvs) == 1 {
					_, _ = es.Txn(ctx, &etcdserverpb.TxnRequest{
						Compare: []*etcdserverpb.Compare{{Target: etcdserverpb.Compare_MOD, Result: etcdserverpb.Compare_EQUAL, Key: k, TargetUnion: &etcdserverpb.Compare_ModRevision{ModRevision: g.Kvs[0].ModRevision}}},
						Success: []*etcdserverpb.RequestOp{{Request: &etcdserverpb.RequestOp_RequestPut{RequestPut: &etcdserverpb.PutRequest{Key: k, Value: v}}}},
						Failure: []*etcdserverpb.RequestOp{{Request: &etcdserverpb.RequestOp_RequestRange{RequestRange: &etcdserverpb.RangeRequest{Key: k}}}}})
				}
			default:
				_, _ = es.Txn(ctx, &etcdserverpb.TxnRequest{Success: []*etcdserverpb.RequestOp{
					{Request: &etcdserverpb.RequestOp_RequestRange{RequestRange: &etcdserverpb.RangeRequest{Key: k}}},
					{Request: &etcdserverpb.RequestOp_RequestDeleteRange{RequestDeleteRange: &etcdserverpb.DeleteRangeRequest{Key: k}}}}})
			}
		}
	})
	// readers
	spawn(3, func(r *lib.Rand) {
		for alive() {
			k := keys[r.Intn(len(keys))]
			switch r.Intn(6) {
			case 0:
				_, _ = bs.Get(ctx, &proto.GetRequest{Key: k})
			case 1:
				_, _ = bs.Range(ctx, &proto.RangeRequest{Key: []byte("/registry/"), End: []byte("/registry0"), Limit: int64(r.Intn(5))})
			case 2:
				_, _ = bs.Count(ctx, &proto.CountRequest{Key: []byte("/registry/"), End: []byte("/registry0")})
			case 3:
				_, _ = es.Range(ctx, &etcdserverpb.RangeRequest{Key: []byte("/registry/"), RangeEnd: []byte("/registry0"), Limit: int64(r.Intn(4))})
			case 4:
				_, _ = bs.ListPartition(ctx, &proto.ListPartitionRequest{Key: []byte("/registry/"), End: []byte("/registry0")})
			default:
				c, cancel := context.WithTimeout(ctx, time.Second)
				_ = bs.RangeStream(&proto.RangeRequest{Key: []byte("/registry/"), End: []byte("/registry0")}, &brainRangeStream{fakeStream: fakeStream{c}})
				cancel()
			}
		}
	})
	// watchers, native API
	spawn(2, func(r *lib.Rand) {
		for alive() {
			c, cancel := context.WithCancel(ctx)
			d := time.Duration(20+r.Intn(80)) * time.Millisecond
			go func() { time.Sleep(d); cancel() }()
			rev := uint64(0)
			if r.Bool() {
				rev = b.GetCurrentRevision()
			}
			_ = bs.Watch(&proto.WatchRequest{Key: []byte("/registry/pods/"), Revision: rev}, &brainWatchStream{fakeStream: fakeStream{c}})
		}
	})
	// watchers, etcd API: several watches on one stream, started while earlier ones end
	spawn(2, func(r *lib.Rand) {
		for alive() {
			c, cancel := context.WithCancel(ctx)
			ws := &etcdWatchStream{fakeStream: fakeStream{c}, in: make(chan *etcdserverpb.WatchRequest, 16)}
			done := make(chan struct{})
			go func() { _ = es.Watch(ws); close(done) }()
			for i := 0; i < 6; i++ {
				key := []byte("/registry/pods/")
				rev := int64(0)
				switch r.Intn(4) {
				case 0:
					key = []byte("registry-not-a-watch-key") // rejected by the watch goroutine, which cancels at once
				case 1:
					rev = -int64(b.GetCurrentRevision()) // range stream
				case 2:
					rev = int64(b.GetCurrentRevision())
				}
				ws.in <- &etcdserverpb.WatchRequest{RequestUnion: &etcdserverpb.WatchRequest_CreateRequest{CreateRequest: &etcdserverpb.WatchCreateRequest{Key: key, RangeEnd: []byte("/registry/pods0"), StartRevision: rev}}}
				if r.Bool() {
					time.Sleep(time.Duration(r.Intn(3)) * time.Millisecond)
				}
			}
			ws.in <- &etcdserverpb.WatchRequest{RequestUnion: &etcdserverpb.WatchRequest_CancelRequest{CancelRequest: &etcdserverpb.WatchCancelRequest{WatchId: int64(r.Intn(50))}}}
			time.Sleep(time.Duration(10+r.Intn(40)) * time.Millisecond)
			close(ws.in)
			select {
			case <-done:
			case <-time.After(5 * time.Second):
			}
			cancel()
		}
	})
	// compactions, two at a time
	spawn(2, func(r *lib.Rand) {
		for alive() {
			cur := b.GetCurrentRevision()
			if cur > 20 {
				_, _ = bs.Compact(ctx, &proto.CompactRequest{Revision: cur - uint64(r.Intn(10)) - 1})
			}
			time.Sleep(time.Duration(10+r.Intn(30)) * time.Millisecond)
		}
	})

	// clients that compact in a tight loop: Compact first looks at the head of the retry queue (the queued
	// uncertain event) and only then touches the engine, so these reads are not ordered by the engine's
	// mutex against writers that have just been handed a recycled object
	spawn(3, func(r *lib.Rand) {
		for alive() {
			_, _ = bs.Compact(ctx, &proto.CompactRequest{Revision: 1})
		}
	})

	// etcd proxy of a follower whose leader changes: two local gRPC servers play the leaders
	var addrs []string
	var servers []*grpc.Server
	for i := 0; i < 2; i++ {
		lis, err := net.Listen("tcp", "127.0.0.1:0")
		if err != nil {
			fmt.Fprintln(os.Stderr, "SOAK-NOTE no loopback listener:", err)
			break
		}
		srv := grpc.NewServer()
		es.Register(srv)
		go func() { _ = srv.Serve(lis) }()
		addrs = append(addrs, lis.Addr().String())
		servers = append(servers, srv)
	}
	if len(addrs) == 2 {
		proxy := etcdproxy.NewEtcdProxy(&flipElection{addrs: addrs, start: time.Now()}, nil)
		// the proxy's own fields keep only a few recent accesses in the detector's shadow memory: forwarders
		// and watchers take turns so that each kind is the most recent one at some leader change
		t0 := time.Now()
		phase := func() int { return int(time.Since(t0)/(1700*time.Millisecond)) % 2 }
		spawn(2, func(r *lib.Rand) {
			for alive() {
				if phase() == 1 {
					time.Sleep(5 * time.Millisecond)
					continue
				}
				k := keys[r.Intn(len(keys))]
				c, cancel := context.WithTimeout(ctx, 300*time.Millisecond)
				_, perr := proxy.Txn(c, &etcdserverpb.TxnRequest{
					Compare: []*etcdserverpb.Compare{{Target: etcdserverpb.Compare_MOD, Result: etcdserverpb.Compare_EQUAL, Key: k, TargetUnion: &etcdserverpb.Compare_ModRevision{ModRevision: 0}}},
					Success: []*etcdserverpb.RequestOp{{Request: &etcdserverpb.RequestOp_RequestPut{RequestPut: &etcdserverpb.PutRequest{Key: k, Value: []byte("p")}}}}})
				cancel()
				if perr == nil {
					atomic.AddInt64(&proxyOK, 1)
				} else {
					atomic.AddInt64(&proxyErr, 1)
					lastProxyErr.Store(perr.Error())
				}
				time.Sleep(2 * time.Millisecond)
			}
		})
		spawn(1, func(r *lib.Rand) {
			for alive() {
				if phase() == 0 {
					time.Sleep(5 * time.Millisecond)
					continue
				}
				c, cancel := context.WithTimeout(ctx, time.Duration(300+r.Intn(200))*time.Millisecond)
				if ch, err := proxy.Watch(c, "/registry/pods/", 0); err == nil {
					for range ch {
					}
				}
				cancel()
			}
		})
	}

	// a second node on the in-process TiKV engine whose key range /registry/pods/ spans several regions:
	// concurrent List / Count / ListPartition / RangeStream / Compact of the same directory while keys are
	// updated (every scan asks the engine for the partitions of the range and adjusts their borders)
	tikvNode(spawn, alive, seed)

	wg.Wait()
	for _, s := range servers {
		s.Stop()
	}
	pe, _ := lastProxyErr.Load().(string)
	fmt.Fprintf(os.Stderr, "SOAK-DONE revision=%d retry_queue=%d proxy_ok=%d proxy_err=%d leader_info_calls=%d last_proxy_err=%q\n", b.GetCurrentRevision(), backend.VerifRetryQueueSize(b), atomic.LoadInt64(&proxyOK), atomic.LoadInt64(&proxyErr), atomic.LoadInt64(&leaderInfoCalls), pe)
	os.Exit(0)
}

func tikvNode(spawn func(n int, f func(r *lib.Rand)), alive func() bool, seed uint64) {
	cd := coder.NewNormalCoder()
	var splits [][]byte
	for _, i := range []int{20, 40, 60, 80} {
		splits = append(splits, cd.EncodeObjectKey([]byte(fmt.Sprintf("/registry/pods/p%03d", i)), 0))
	}
	kv, _, err := lib.NewTiKVSplit(splits...)
	if err != nil {
		fmt.Fprintln(os.Stderr, "SOAK-NOTE no mock TiKV:", err)
		return
	}
	b := backend.NewBackend(kv, backend.Config{Prefix: "/registry", Identity: "tikv-node", EnableEtcdCompatibility: true}, &lib.NopMetrics{})
	b.SetCurrentRevision(1000)
	ctx := context.Background()
	key := func(i int) []byte { return []byte(fmt.Sprintf("/registry/pods/p%03d", i)) }
	for i := 0; i < 100; i++ {
		_, _ = b.Create(ctx, &proto.CreateRequest{Key: key(i), Value: []byte("v")})
	}
	start, end := []byte("/registry/pods/"), []byte("/registry/pods0")
	spawn(1, func(r *lib.Rand) { // a writer
		for alive() {
			k := key(r.Intn(100))
			if g, err := b.Get(ctx, &proto.GetRequest{Key: k}); err == nil && g.Kv != nil {
				_, _ = b.Update(ctx, &proto.UpdateRequest{Kv: &proto.KeyValue{Key: k, Value: []byte(fmt.Sprint(r.Intn(1000))), Revision: g.Kv.Revision}})
			}
		}
	})
	spawn(5, func(r *lib.Rand) { // readers of one directory
		for alive() {
			switch r.Intn(6) {
			case 0, 1:
				_, _ = b.List(ctx, &proto.RangeRequest{Key: start, End: end})
			case 2:
				_, _ = b.Count(ctx, &proto.CountRequest{Key: start, End: end})
			case 3:
				_, _ = b.GetPartitions(ctx, &proto.ListPartitionRequest{Key: start, End: end})
			case 4:
				if ch, err := b.ListByStream(ctx, cd.EncodeObjectKey(start, 0), cd.EncodeObjectKey(end, 0), 0); err == nil {
					for range ch {
					}
				}
			default:
				_, _ = b.List(ctx, &proto.RangeRequest{Key: start, End: end, Limit: int64(1 + r.Intn(30))})
			}
		}
	})
	spawn(1, func(r *lib.Rand) {
		for alive() {
			cur := b.GetCurrentRevision()
			if cur > 1100 {
				_, _ = b.Compact(ctx, cur-50)
			}
			time.Sleep(30 * time.Millisecond)
		}
	})
}

// ---------- parent ----------

type tableJSON struct {
	Locations []struct {
		Name    string   `json:"name"`
		Class   string   `json:"class"`
		Why     string   `json:"class_why"`
		Sites   []int    `json:"sites"`
		Flagged bool     `json:"flagged"`
		Pairs   []string `json:"unprotected_pairs"`
	} `json:"locations"`
	Sites []struct {
		ID    int      `json:"id"`
		Loc   string   `json:"loc"`
		Pos   string   `json:"pos"`
		Kind  string   `json:"kind"`
		Phase string   `json:"phase"`
		Locks []string `json:"locks"`
	} `json:"sites"`
	Annotations []struct {
		ID     string `json:"id"`
		Holds  bool   `json:"holds"`
		Failed string `json:"failed"`
	} `json:"annotations"`
}

// recorded findings: location -> code (must agree with Model/C19Cases.c19_findings and known_findings.d/C19.json)
var knownCode = map[string]int{}

func verifDir() string {
	if d := os.Getenv("VERIF_DIR"); d != "" {
		return d
	}
	if exe, err := os.Executable(); err == nil {
		d := filepath.Dir(filepath.Dir(filepath.Dir(exe)))
		if _, err := os.Stat(filepath.Join(d, "coq")); err == nil {
			return d
		}
	}
	return "/verif"
}

func repoDir() string {
	if d := os.Getenv("VERIF_REPO"); d != "" {
		return d
	}
	return "/repo"
}

func buildRace(vdir string) (string, error) {
	repo := repoDir()
	tag := ""
	args := []string{"build", "-race", "-tags", "verif"}
	if repo != "/repo" {
		h := sha256.Sum256([]byte(repo))
		tag = "_" + hex.EncodeToString(h[:])[:8]
		alt := filepath.Join(vdir, "build", "go"+tag+".mod")
		if _, err := os.Stat(alt); err != nil {
			return "", fmt.Errorf("alternative module file %s missing", alt)
		}
		args = append(args, "-modfile", alt)
	}
	out := filepath.Join(vdir, "build", "bin", "c19"+tag+"_race")
	args = append(args, "-o", out, "./cmd/c19")
	cmd := exec.Command("go", args...)
	cmd.Dir = filepath.Join(vdir, "harness")
	cmd.Env = append(os.Environ(), "GOFLAGS=-mod=mod", "GOPROXY=off", "GOSUMDB=off", "GOTOOLCHAIN=local", "CGO_ENABLED=1")
	b, err := cmd.CombinedOutput()
	if err != nil {
		return "", fmt.Errorf("go build -race: %v: %s", err, tail(string(b), 1500))
	}
	return out, nil
}

func tail(s string, n int) string {
	if len(s) > n {
		return s[len(s)-n:]
	}
	return s
}

var frameRe = regexp.MustCompile(`^\s+(/\S+\.go):(\d+)`)

type raceReport struct {
	Text   string
	Frames [2][]string // repo-relative file:line frames of the two accesses, innermost first
}

func parseRaces(out, repo string) []raceReport {
	var reps []raceReport
	for _, blk := range strings.Split(out, "==================") {
		if !strings.Contains(blk, "WARNING: DATA RACE") {
			continue
		}
		r := raceReport{Text: strings.TrimSpace(blk)}
		sec := -1
		for _, line := range strings.Split(blk, "\n") {
			t := strings.TrimSpace(line)
			switch {
			case strings.HasPrefix(t, "Read at") || strings.HasPrefix(t, "Write at") || strings.HasPrefix(t, "Previous read at") || strings.HasPrefix(t, "Previous write at") ||
				strings.HasPrefix(t, "Atomic") || strings.HasPrefix(t, "Previous atomic"):
				sec++
			case strings.HasPrefix(t, "Goroutine ") && strings.Contains(t, "created at"):
				sec = 2
			}
			if sec < 0 || sec > 1 {
				continue
			}
			if m := frameRe.FindStringSubmatch(line); m != nil && strings.HasPrefix(m[1], repo+"/") {
				r.Frames[sec] = append(r.Frames[sec], strings.TrimPrefix(m[1], repo+"/")+":"+m[2])
			}
		}
		reps = append(reps, r)
	}
	return reps
}

func main() {
	child := flag.String("child", "", "internal: soak")
	dur := flag.Duration("dur", 5*time.Second, "internal: soak duration")
	lib.QuietLogs()
	args := lib.ParseArgs()
	if *child == "soak" {
		soak(*dur, args.Seed, args.Scratch)
		return
	}
	vdir := verifDir()
	header := "From KB Require Import Base.Cases Model.Lockset Model.C19Cases Gen.Accesses.\n" +
		"Definition c19_check_t := c19_check_covered accesses.\nDefinition c19_oracle_t := c19_oracle accesses."
	w := lib.NewWriter(args, "C19", "c19", header, "c19_case", "c19_check_t", "c19_oracle_t", 400)

	// ---- (1) the table
	var tab tableJSON
	posToLoc := map[string][]string{}
	tb, err := os.ReadFile(filepath.Join(vdir, "build", "gen", "accesses.json"))
	if err != nil {
		w.Fail(lib.ImplFailure{CaseID: -1, What: "access table missing: run the gen step (gen_accesses) first: " + err.Error()})
	} else if err := json.Unmarshal(tb, &tab); err != nil {
		w.Fail(lib.ImplFailure{CaseID: -1, What: "access table unreadable: " + err.Error()})
	}
	siteByID := map[int]int{}
	for i, s := range tab.Sites {
		siteByID[s.ID] = i
		posToLoc[s.Pos] = append(posToLoc[s.Pos], s.Loc)
	}
	for _, a := range tab.Annotations {
		if !a.Holds {
			w.Stats.Extra["annotation_dropped:"+a.ID] = a.Failed
		}
	}
	nFlag := 0
	for _, l := range tab.Locations {
		oc := "accepted"
		if l.Class == "CConfined" {
			oc = "confined"
		}
		if l.Flagged {
			oc = "flagged"
			nFlag++
		}
		j := map[string]interface{}{"location": l.Name, "class": l.Class, "class_why": l.Why, "sites": len(l.Sites), "flagged": l.Flagged}
		if l.Flagged {
			j["unprotected_pairs"] = l.Pairs
			var ss []string
			for _, id := range l.Sites {
				s := tab.Sites[siteByID[id]]
				ss = append(ss, fmt.Sprintf("%s %s %s %v", s.Kind, s.Phase, s.Pos, s.Locks))
			}
			j["all_sites"] = ss
		}
		w.Add(lib.Case{Kind: "loc:" + l.Class, Coq: lib.App("KLoc", lib.Str(l.Name), lib.Bool(l.Flagged)), JSON: j,
			Trivial: len(l.Sites) < 2, Outcomes: []string{oc}})
	}

	// ---- (2) the race soak
	soakDur := 10 * time.Second
	switch args.Tier {
	case "thorough":
		soakDur = 60 * time.Second
	case "search":
		soakDur = 25 * time.Second
	}
	if os.Getenv("C19_NO_SOAK") == "1" {
		soakDur = 0
	}
	confirmed := map[string]int{}
	if soakDur > 0 {
		bin, err := buildRace(vdir)
		if err != nil {
			w.Fail(lib.ImplFailure{CaseID: -1, What: "race build failed: " + err.Error()})
		} else {
			ctx, cancel := context.WithTimeout(context.Background(), soakDur+90*time.Second)
			cmd := exec.CommandContext(ctx, bin, "-child", "soak", "-dur", soakDur.String(), "-seed", fmt.Sprint(args.Seed), "-scratch", args.Scratch)
			cmd.Env = append(os.Environ(), "GORACE=halt_on_error=0 exitcode=0 history_size=3")
			var sb strings.Builder
			cmd.Stderr = &capWriter{sb: &sb}
			runErr := cmd.Run()
			timedOut := ctx.Err() != nil
			cancel()
			out := sb.String()
			if !strings.Contains(out, "SOAK-DONE") && strings.Contains(out, "close of closed channel") && strings.Contains(out, "watchGrpcStream") {
				// not a data race: the etcd client library inside the proxy panics when KubeBrain's etcd watch
				// server answers one cancelled watch with two Canceled responses (reported to the integrator;
				// outside C19). The soak ended early; the races seen until then are still reported.
				w.Stats.Extra["soak_ended_early"] = "etcd client v3 panicked in watchGrpcStream.run (close of closed channel) after a duplicate watch-cancel response from the proxied KubeBrain etcd server"
			} else if !strings.Contains(out, "SOAK-DONE") {
				what := "the race soak did not finish"
				if timedOut {
					what = "the race soak hung (no exit within its time budget)"
				}
				w.Fail(lib.ImplFailure{CaseID: -1, What: fmt.Sprintf("%s: %v; output tail: %s", what, runErr, tail(out, 2000))})
			}
			reps := parseRaces(out, repoDir())
			seen := map[string]bool{}
			libRaces := 0
			for _, r := range reps {
				if len(r.Frames[0]) == 0 && len(r.Frames[1]) == 0 {
					libRaces++ // both accesses entirely inside a library (mock cluster, gRPC, ...): trusted base
					continue
				}
				// the table locations of the innermost repository frames of both accesses
				locset := map[string]bool{}
				for sec := 0; sec < 2; sec++ {
					if len(r.Frames[sec]) > 0 {
						for _, l := range posToLoc[r.Frames[sec][0]] {
							locset[l] = true
						}
					}
				}
				// prefer a location both accesses touch
				var both []string
				if len(r.Frames[0]) > 0 && len(r.Frames[1]) > 0 {
					a, b := posToLoc[r.Frames[0][0]], posToLoc[r.Frames[1][0]]
					for _, x := range a {
						for _, y := range b {
							if x == y {
								both = append(both, x)
							}
						}
					}
				}
				var locs []string
				if len(both) > 0 {
					locs = both
				} else {
					for l := range locset {
						locs = append(locs, l)
					}
				}
				sort.Strings(locs)
				code := 0
				sig := "unmapped:" + strings.Join(append(r.Frames[0][:min(1, len(r.Frames[0]))], r.Frames[1][:min(1, len(r.Frames[1]))]...), "|")
				if len(locs) > 0 {
					sig = strings.Join(locs, ",")
					// known only if some candidate location is a recorded finding
					for _, l := range locs {
						if c, ok := knownCode[l]; ok {
							code = c
							confirmed[l]++
							break
						}
					}
				}
				if seen[sig] {
					continue
				}
				seen[sig] = true
				w.Fail(lib.ImplFailure{CaseID: -1, Code: code, What: "DATA RACE at " + sig,
					Case: map[string]interface{}{"location": sig, "frames_access_1": r.Frames[0], "frames_access_2": r.Frames[1], "report": tail(r.Text, 6000),
						"replay": fmt.Sprintf("%s -child soak -dur %s -seed %d (built with go build -race -tags verif ./cmd/c19)", bin, soakDur, args.Seed)}})
			}
			w.Stats.Extra["race_reports"] = len(reps)
			w.Stats.Extra["race_reports_inside_libraries_only"] = libRaces
			w.Stats.Extra["race_locations"] = len(seen)
		}
	}
	w.Stats.Extra["flagged_locations"] = nFlag
	w.Stats.Extra["confirmed_by_race_detector_this_run"] = confirmed
	w.Stats.Extra["soak_seconds"] = soakDur.Seconds()
	if err := w.Finish("a location case is trivial iff it has fewer than two access sites (nothing to compare)"); err != nil {
		fmt.Fprintln(os.Stderr, err)
		os.Exit(1)
	}
}

func min(a, b int) int {
	if a < b {
		return a
	}
	return b
}

type capWriter struct{ sb *strings.Builder }

func (c *capWriter) Write(p []byte) (int, error) {
	if c.sb.Len() < 8<<20 {
		c.sb.Write(p)
	}
	return len(p), nil
}
