// Driver c16: drives the real etcd.RPCServer (Txn, Range, Watch) over a memkv backend with a leader
// stub, on histories of the Kubernetes transaction shapes and on structurally valid mutations of them.
// Every step records the implementation's response and, after a transaction, a full listing of the
// history's key space; a prefix watch runs alongside. The Coq side runs the shim model (check) and
// the reference etcd interpreter (oracle) on the same history.
package main

import (
	"bytes"
	"context"
	"fmt"
	"io"
	"net"
	"os"
	"strings"
	"sync"
	"sync/atomic"
	"time"

	"go.etcd.io/etcd/api/v3/etcdserverpb"
	"go.etcd.io/etcd/api/v3/mvccpb"
	"google.golang.org/grpc"
	"google.golang.org/grpc/metadata"

	"github.com/kubewharf/kubebrain/pkg/backend"
	"github.com/kubewharf/kubebrain/pkg/server/etcd"
	"github.com/kubewharf/kubebrain/pkg/server/service"
	"github.com/kubewharf/kubebrain/pkg/server/service/etcdproxy"
	"github.com/kubewharf/kubebrain/pkg/server/service/leader"

	"github.com/kubewharf/kubebrain/pkg/storage"

	"kbverif/lib"
)

type pb = etcdserverpb.RequestOp

// ---------- peer service: a leader stub ----------

type nopSyncer struct{}

func (nopSyncer) SyncReadRevision() error { return nil }
func (nopSyncer) Close() error            { return nil }

type peers struct {
	*leader.Stub
	nopSyncer
	etcdproxy.EtcdProxy
}

// ---------- in-memory watch stream ----------

type memWatch struct {
	ctx    context.Context
	cancel context.CancelFunc
	in     chan *etcdserverpb.WatchRequest
	mu     sync.Mutex
	out    []*etcdserverpb.WatchResponse
	stall  chan struct{} // when set before the stream starts: every message after Created waits until it is closed
}

func newMemWatch() *memWatch {
	ctx, cancel := context.WithCancel(context.Background())
	return &memWatch{ctx: ctx, cancel: cancel, in: make(chan *etcdserverpb.WatchRequest, 4)}
}
func (m *memWatch) Send(r *etcdserverpb.WatchResponse) error {
	// as gRPC does: the message is marshalled at Send time, so what the client sees is a copy taken now
	// (aliasing between the events of a batch, or a later mutation by the producer, shows up as it would on the wire)
	b, err := r.Marshal()
	if err != nil {
		return err
	}
	c := &etcdserverpb.WatchResponse{}
	if err := c.Unmarshal(b); err != nil {
		return err
	}
	if st := m.stall; st != nil && !c.Created {
		// a slow client: the encoded message waits for flow control
		select {
		case <-st:
		case <-m.ctx.Done():
		}
	}
	m.mu.Lock()
	m.out = append(m.out, c)
	m.mu.Unlock()
	return nil
}
func (m *memWatch) Recv() (*etcdserverpb.WatchRequest, error) {
	select {
	case r := <-m.in:
		return r, nil
	case <-m.ctx.Done():
		return nil, io.EOF
	}
}
func (m *memWatch) SetHeader(metadata.MD) error  { return nil }
func (m *memWatch) SendHeader(metadata.MD) error { return nil }
func (m *memWatch) SetTrailer(metadata.MD)       {}
func (m *memWatch) Context() context.Context     { return m.ctx }
func (m *memWatch) SendMsg(interface{}) error    { return nil }
func (m *memWatch) RecvMsg(interface{}) error    { return nil }
func (m *memWatch) snapshot() []*etcdserverpb.WatchResponse {
	m.mu.Lock()
	defer m.mu.Unlock()
	return append([]*etcdserverpb.WatchResponse{}, m.out...)
}

// ---------- structural requests (mirror of Model/Etcd.v) ----------

type Cmp struct {
	Result, Target int // etcdserverpb enums
	Key            []byte
	Union          int // 0 none 1 version 2 create 3 mod 4 value 5 lease
	Num            int64
	Val            []byte
	End            []byte
}
type Rng struct {
	Key, End          []byte
	Limit, Rev        int64
	CountOnly, KeysOnly bool
}
type Put struct {
	Key, Val                []byte
	Lease                   int64
	PrevKv, IgnVal, IgnLease bool
}
type Del struct {
	Key, End []byte
	PrevKv   bool
}
type Op struct {
	Kind int // 0 range 1 put 2 del 3 txn
	R    Rng
	P    Put
	D    Del
	T    *Txn
}
type Txn struct {
	Cmp        []Cmp
	Succ, Fail []Op
}

var resultNames = []string{"REqual", "RGreater", "RLess", "RNotEqual"}
var targetNames = []string{"TVersion", "TCreate", "TMod", "TValue", "TLease"}

func (c Cmp) coq() string {
	u := "UNone"
	switch c.Union {
	case 1:
		u = lib.App("UVersion", lib.Z(c.Num))
	case 2:
		u = lib.App("UCreate", lib.Z(c.Num))
	case 3:
		u = lib.App("UMod", lib.Z(c.Num))
	case 4:
		u = lib.App("UValue", lib.Bytes(c.Val))
	case 5:
		u = lib.App("ULease", lib.Z(c.Num))
	}
	return lib.App("mkCmp", resultNames[c.Result], targetNames[c.Target], lib.Bytes(c.Key), u, lib.Bytes(c.End))
}
func (r Rng) coq() string {
	return lib.App("mkRange", lib.Bytes(r.Key), lib.Bytes(r.End), lib.Z(r.Limit), lib.Z(r.Rev), lib.Bool(r.CountOnly), lib.Bool(r.KeysOnly))
}
func (p Put) coq() string {
	return lib.App("mkPut", lib.Bytes(p.Key), lib.Bytes(p.Val), lib.Z(p.Lease), lib.Bool(p.PrevKv), lib.Bool(p.IgnVal), lib.Bool(p.IgnLease))
}
func (d Del) coq() string {
	return lib.App("mkDel", lib.Bytes(d.Key), lib.Bytes(d.End), lib.Bool(d.PrevKv))
}
func opsCoq(ops []Op) string {
	xs := make([]string, len(ops))
	for i, o := range ops {
		xs[i] = o.coq()
	}
	return lib.List(xs)
}
func cmpsCoq(cs []Cmp) string {
	xs := make([]string, len(cs))
	for i, c := range cs {
		xs[i] = c.coq()
	}
	return lib.List(xs)
}
func (o Op) coq() string {
	switch o.Kind {
	case 0:
		return lib.App("OpRange", o.R.coq())
	case 1:
		return lib.App("OpPut", o.P.coq())
	case 2:
		return lib.App("OpDel", o.D.coq())
	default:
		return lib.App("OpTxn", cmpsCoq(o.T.Cmp), opsCoq(o.T.Succ), opsCoq(o.T.Fail))
	}
}
func (t Txn) coq() string {
	return lib.App("mkTxn", cmpsCoq(t.Cmp), opsCoq(t.Succ), opsCoq(t.Fail))
}

func (c Cmp) pb() *etcdserverpb.Compare {
	x := &etcdserverpb.Compare{Result: etcdserverpb.Compare_CompareResult(c.Result), Target: etcdserverpb.Compare_CompareTarget(c.Target),
		Key: c.Key, RangeEnd: c.End}
	switch c.Union {
	case 1:
		x.TargetUnion = &etcdserverpb.Compare_Version{Version: c.Num}
	case 2:
		x.TargetUnion = &etcdserverpb.Compare_CreateRevision{CreateRevision: c.Num}
	case 3:
		x.TargetUnion = &etcdserverpb.Compare_ModRevision{ModRevision: c.Num}
	case 4:
		x.TargetUnion = &etcdserverpb.Compare_Value{Value: c.Val}
	case 5:
		x.TargetUnion = &etcdserverpb.Compare_Lease{Lease: c.Num}
	}
	return x
}
func (r Rng) pb() *etcdserverpb.RangeRequest {
	return &etcdserverpb.RangeRequest{Key: r.Key, RangeEnd: r.End, Limit: r.Limit, Revision: r.Rev, CountOnly: r.CountOnly, KeysOnly: r.KeysOnly}
}
func (o Op) pb() *pb {
	switch o.Kind {
	case 0:
		return &pb{Request: &etcdserverpb.RequestOp_RequestRange{RequestRange: o.R.pb()}}
	case 1:
		return &pb{Request: &etcdserverpb.RequestOp_RequestPut{RequestPut: &etcdserverpb.PutRequest{Key: o.P.Key, Value: o.P.Val,
			Lease: o.P.Lease, PrevKv: o.P.PrevKv, IgnoreValue: o.P.IgnVal, IgnoreLease: o.P.IgnLease}}}
	case 2:
		return &pb{Request: &etcdserverpb.RequestOp_RequestDeleteRange{RequestDeleteRange: &etcdserverpb.DeleteRangeRequest{Key: o.D.Key,
			RangeEnd: o.D.End, PrevKv: o.D.PrevKv}}}
	default:
		return &pb{Request: &etcdserverpb.RequestOp_RequestTxn{RequestTxn: o.T.pb()}}
	}
}
func (t Txn) pb() *etcdserverpb.TxnRequest {
	x := &etcdserverpb.TxnRequest{}
	for _, c := range t.Cmp {
		x.Compare = append(x.Compare, c.pb())
	}
	for _, o := range t.Succ {
		x.Success = append(x.Success, o.pb())
	}
	for _, o := range t.Fail {
		x.Failure = append(x.Failure, o.pb())
	}
	return x
}

// ---------- observations ----------

func kvCoq(kv *mvccpb.KeyValue) string {
	if kv == nil {
		return "(mkKv [] [] 0%Z 0%Z 0%Z 0%Z)"
	}
	return lib.App("mkKv", lib.Bytes(kv.Key), lib.Bytes(kv.Value), lib.Z(kv.CreateRevision), lib.Z(kv.ModRevision), lib.Z(kv.Version), lib.Z(kv.Lease))
}
func kvsCoq(kvs []*mvccpb.KeyValue) string {
	xs := make([]string, len(kvs))
	for i, kv := range kvs {
		xs[i] = kvCoq(kv)
	}
	return lib.List(xs)
}
func hdr(h *etcdserverpb.ResponseHeader) int64 {
	if h == nil {
		return -1
	}
	return h.Revision
}
func rangeRespCoq(r *etcdserverpb.RangeResponse) string {
	return lib.App("RsRange", lib.Z(hdr(r.Header)), kvsCoq(r.Kvs), lib.Z(r.Count), lib.Bool(r.More))
}
func respOpCoq(r *etcdserverpb.ResponseOp) string {
	if x := r.GetResponseRange(); x != nil {
		return rangeRespCoq(x)
	}
	if x := r.GetResponsePut(); x != nil {
		prev := lib.None()
		if x.PrevKv != nil {
			prev = lib.Some(kvCoq(x.PrevKv))
		}
		return lib.App("RsPut", lib.Z(hdr(x.Header)), prev)
	}
	if x := r.GetResponseDeleteRange(); x != nil {
		return lib.App("RsDel", lib.Z(hdr(x.Header)), lib.Z(x.Deleted), kvsCoq(x.PrevKvs))
	}
	return "RsOther"
}
func txnRespCoq(r *etcdserverpb.TxnResponse, err error) (string, string) {
	if err != nil || r == nil {
		return "TErr", "error"
	}
	xs := make([]string, len(r.Responses))
	for i, o := range r.Responses {
		xs[i] = respOpCoq(o)
	}
	oc := "failed"
	if r.Succeeded {
		oc = "succeeded"
	}
	return lib.App("TOk", lib.Z(hdr(r.Header)), lib.Bool(r.Succeeded), lib.List(xs)), oc
}

// ---------- the system under test ----------

var idlePolls, subscribed, mainSeq int64

type sut struct {
	be    backend.Backend
	srv   *etcd.RPCServer
	alloc uint64 // last revision the backend has dealt (tracked through response headers)
}

// engGate holds the next engine batch of one write before it begins (memkv takes its store lock at
// BeginBatchWrite, so the write is parked in front of it): its revision has been dealt but is unresolved.
type engGate struct {
	mu      sync.Mutex
	armed   bool
	arrived chan struct{}
	release chan struct{}
}

var sharedKv storage.KvStorage

var eg = &engGate{arrived: make(chan struct{}, 1), release: make(chan struct{})}

func (g *engGate) before(kind string, key []byte) error {
	if kind != "batch" {
		return nil
	}
	g.mu.Lock()
	a := g.armed
	g.armed = false
	g.mu.Unlock()
	if a {
		g.arrived <- struct{}{}
		<-g.release
	}
	return nil
}

type txnResult struct {
	resp *etcdserverpb.TxnResponse
	err  error
}

// heldTxn starts a transaction whose engine write is parked; it returns once the write is parked.
func (s *sut) heldTxn(t Txn) (chan txnResult, bool) {
	eg.mu.Lock()
	eg.armed = true
	eg.mu.Unlock()
	done := make(chan txnResult, 1)
	go func() {
		ctx, cancel := context.WithTimeout(context.Background(), 10*time.Second)
		defer cancel()
		resp, err := s.srv.Txn(ctx, t.pb())
		done <- txnResult{resp, err}
	}()
	select {
	case <-eg.arrived:
		return done, true
	case <-time.After(2 * time.Second):
		return done, false
	}
}

func newSut(scratch string, base uint64) (*sut, error) {
	kv0, _, err := lib.NewEngine(lib.EngMem, scratch)
	if err != nil {
		return nil, err
	}
	kv := &lib.Wrap{KvStorage: kv0, Before: eg.before}
	sharedKv = kv
	be := backend.NewBackend(kv, backend.Config{Prefix: "/registry", Identity: "c16", EnableEtcdCompatibility: true}, &lib.NopMetrics{})
	be.SetCurrentRevision(base)
	p := &peers{Stub: &leader.Stub{ElectionInfo: leader.ElectionInfo{LeaderAddress: "127.0.0.1:0", IsLeader: true}}, EtcdProxy: etcdproxy.NewDisabledEtcdProxy()}
	return &sut{be: be, srv: etcd.New(be, &lib.NopMetrics{}, p), alloc: base}, nil
}

// settle waits until the sequencer has committed everything dealt so far. The number of revisions a
// transaction burns is not known to the driver (that is the model's business), so it waits for the
// committed revision to stop moving and to have reached at least `atLeast`.
func (s *sut) settle() bool {
	// notify() has filled the slot of every revision a handler dealt before the handler returns; once the
	// sequencer has found its next slot empty twice after that, everything dealt is committed.
	c := atomic.LoadInt64(&idlePolls)
	return lib.WaitUntil(2*time.Second, func() bool { return atomic.LoadInt64(&idlePolls) >= c+2 })
}

func (s *sut) txn(t Txn) (*etcdserverpb.TxnResponse, error, bool) {
	ctx, cancel := context.WithTimeout(context.Background(), 5*time.Second)
	defer cancel()
	resp, err := s.srv.Txn(ctx, t.pb())
	return resp, err, s.settle()
}

func (s *sut) rng(r Rng) (*etcdserverpb.RangeResponse, error) {
	ctx, cancel := context.WithTimeout(context.Background(), 5*time.Second)
	defer cancel()
	return s.srv.Range(ctx, r.pb())
}

// ---------- generators ----------

type gen struct {
	r    *lib.Rand
	ns   []byte   // key space of this history, e.g. "/h0012/"
	keys [][]byte // small pool
	// what a client knows: revisions it has seen for each key (mod revisions from responses)
	seen map[string][]int64
	cur  map[string]int64 // current mod revision per key as far as the client can tell (0 = absent)
	vals int
}

func (g *gen) key() []byte { return g.keys[g.r.Intn(len(g.keys))] }
func (g *gen) val() []byte {
	g.vals++
	return []byte(fmt.Sprintf("v%d", g.vals))
}

// expected revision: correct / stale / zero
func (g *gen) expect(k []byte) int64 {
	switch g.r.Intn(6) {
	case 0:
		return 0
	case 1, 2, 3:
		return g.cur[string(k)]
	default:
		s := g.seen[string(k)]
		if len(s) == 0 {
			// a revision seen on another key
			for _, o := range g.keys {
				if x := g.seen[string(o)]; len(x) > 0 {
					return x[g.r.Intn(len(x))]
				}
			}
			return 0
		}
		return s[g.r.Intn(len(s))]
	}
}

func cmpMod(k []byte, rev int64) Cmp { return Cmp{Result: 0, Target: 2, Key: k, Union: 3, Num: rev} }
func opGet(k []byte) Op            { return Op{Kind: 0, R: Rng{Key: k}} }
func opPut(k, v []byte) Op         { return Op{Kind: 1, P: Put{Key: k, Val: v}} }
func opDel(k []byte) Op            { return Op{Kind: 2, D: Del{Key: k}} }

func shapeCreate(k, v []byte) Txn { return Txn{Cmp: []Cmp{cmpMod(k, 0)}, Succ: []Op{opPut(k, v)}} }
func shapeUpdate(k, v []byte, rev int64) Txn {
	return Txn{Cmp: []Cmp{cmpMod(k, rev)}, Succ: []Op{opPut(k, v)}, Fail: []Op{opGet(k)}}
}
func shapeDelete(k []byte, rev int64) Txn {
	return Txn{Cmp: []Cmp{cmpMod(k, rev)}, Succ: []Op{opDel(k)}, Fail: []Op{opGet(k)}}
}
func shapeDeleteU(k []byte) Txn { return Txn{Succ: []Op{opGet(k), opDel(k)}} }

// existing picks a key the client believes present (if any), else any key
func (g *gen) existing() []byte {
	var xs [][]byte
	for _, k := range g.keys {
		if g.cur[string(k)] != 0 {
			xs = append(xs, k)
		}
	}
	if len(xs) == 0 {
		return g.key()
	}
	return xs[g.r.Intn(len(xs))]
}

func (g *gen) supportedTxn() (Txn, string) {
	k := g.key()
	if g.r.Chance(5, 6) {
		// mostly the requests a client would send: updates and deletes of keys it has seen
		switch g.r.Intn(10) {
		case 0, 1, 2:
			return shapeCreate(k, g.val()), "create"
		case 3, 4, 5, 6:
			k = g.existing()
			rev := g.cur[string(k)]
			if g.r.Chance(1, 4) {
				rev = g.expect(k)
			}
			if rev == 0 && g.r.Chance(2, 3) {
				return shapeCreate(k, g.val()), "create"
			}
			return shapeUpdate(k, g.val(), rev), "update"
		case 7, 8:
			k = g.existing()
			rev := g.cur[string(k)]
			if g.r.Chance(1, 4) {
				if s := g.seen[string(k)]; len(s) > 0 {
					rev = s[g.r.Intn(len(s))]
				}
			}
			if rev == 0 {
				return shapeCreate(k, g.val()), "create"
			}
			return shapeDelete(k, rev), "delete"
		default:
			k = g.existing()
			if g.cur[string(k)] == 0 {
				return shapeCreate(k, g.val()), "create"
			}
			return shapeDeleteU(k), "delete-unguarded"
		}
	}
	switch g.r.Intn(10) {
	case 0, 1, 2:
		return shapeCreate(k, g.val()), "create"
	case 3, 4, 5:
		return shapeUpdate(k, g.val(), g.expect(k)), "update"
	case 6, 7:
		return shapeDelete(k, g.expect(k)), "delete"
	default:
		return shapeDeleteU(k), "delete-unguarded"
	}
}

func prefixEnd(p []byte) []byte { return backend.PrefixEnd(append([]byte{}, p...)) }

func (g *gen) supportedRange(curRev int64, seenRevs []int64) (Rng, string) {
	switch g.r.Intn(8) {
	case 0, 1: // point read, latest or at a revision seen before
		r := Rng{Key: g.key()}
		if g.r.Chance(1, 3) && len(seenRevs) > 0 {
			r.Rev = seenRevs[g.r.Intn(len(seenRevs))]
		}
		return r, "get"
	case 2: // count
		return Rng{Key: g.ns, End: prefixEnd(g.ns), CountOnly: true}, "count"
	default:
		a, b := g.ns, prefixEnd(g.ns)
		if g.r.Chance(1, 2) { // sub-range between two pool keys
			x, y := g.key(), g.key()
			if bytes.Compare(x, y) > 0 {
				x, y = y, x
			}
			if bytes.Compare(x, y) < 0 {
				a, b = x, y
			} else {
				a, b = x, prefixEnd(x)
			}
		}
		r := Rng{Key: a, End: b}
		if g.r.Chance(1, 2) {
			r.Limit = int64(1 + g.r.Intn(3))
		}
		if g.r.Chance(1, 4) && len(seenRevs) > 0 {
			r.Rev = seenRevs[g.r.Intn(len(seenRevs))]
		}
		return r, "list"
	}
}

// mutate returns a structurally valid variation of a supported shape.
func (g *gen) mutate(t Txn) (Txn, string) {
	c := func(t Txn) Txn { // deep copy
		n := Txn{Cmp: append([]Cmp{}, t.Cmp...), Succ: append([]Op{}, t.Succ...), Fail: append([]Op{}, t.Fail...)}
		return n
	}
	t = c(t)
	other := func(k []byte) []byte {
		for i := 0; i < 8; i++ {
			o := g.key()
			if !bytes.Equal(o, k) {
				return o
			}
		}
		return append(append([]byte{}, k...), 'x')
	}
	switch g.r.Intn(22) {
	case 0: // extra failure branch
		t.Fail = append(t.Fail, opGet(g.key()))
		return t, "extra-failure"
	case 1: // missing failure branch
		t.Fail = nil
		return t, "missing-failure"
	case 2: // extra success op
		k := g.key()
		dup := false
		for _, o := range t.Succ {
			if o.Kind == 1 && bytes.Equal(o.P.Key, k) || o.Kind == 2 && bytes.Equal(o.D.Key, k) {
				dup = true
			}
		}
		if dup {
			t.Succ = append(t.Succ, opGet(k))
		} else {
			t.Succ = append(t.Succ, opPut(k, g.val()))
		}
		return t, "extra-success"
	case 3: // wrong target
		if len(t.Cmp) > 0 {
			tg := []int{0, 1, 3, 4}[g.r.Intn(4)]
			t.Cmp[0].Target = tg
			switch tg {
			case 0:
				t.Cmp[0].Union = 1
			case 1:
				t.Cmp[0].Union = 2
			case 3:
				t.Cmp[0].Union, t.Cmp[0].Val = 4, []byte("v1")
			case 4:
				t.Cmp[0].Union = 5
			}
		} else {
			t.Cmp = []Cmp{{Result: 0, Target: 0, Key: g.key(), Union: 1, Num: 0}}
		}
		return t, "wrong-target"
	case 4: // wrong result
		if len(t.Cmp) > 0 {
			t.Cmp[0].Result = 1 + g.r.Intn(3)
		} else {
			t.Cmp = []Cmp{cmpMod(g.key(), 0)}
			t.Cmp[0].Result = 3
		}
		return t, "wrong-result"
	case 5: // target/union mismatch (MOD target, other union)
		if len(t.Cmp) > 0 {
			t.Cmp[0].Union = []int{0, 1, 2}[g.r.Intn(3)]
		}
		return t, "union-mismatch"
	case 6: // compare key differs from the written key
		if len(t.Cmp) > 0 {
			t.Cmp[0].Key = other(t.Cmp[0].Key)
		} else if len(t.Succ) == 2 {
			t.Succ[0].R.Key = other(t.Succ[0].R.Key)
		}
		return t, "mismatched-compare-key"
	case 7: // written key differs
		for i := range t.Succ {
			if t.Succ[i].Kind == 1 {
				t.Succ[i].P.Key = other(t.Succ[i].P.Key)
			} else if t.Succ[i].Kind == 2 {
				t.Succ[i].D.Key = other(t.Succ[i].D.Key)
			}
		}
		return t, "mismatched-write-key"
	case 8: // failure branch reads another key
		if len(t.Fail) > 0 {
			t.Fail[0].R.Key = other(t.Fail[0].R.Key)
		}
		return t, "mismatched-failure-key"
	case 9: // range_end on the compare
		if len(t.Cmp) > 0 {
			t.Cmp[0].End = prefixEnd(g.ns)
		}
		return t, "compare-range-end"
	case 10: // delete a range
		for i := range t.Succ {
			if t.Succ[i].Kind == 2 {
				t.Succ[i].D.End = prefixEnd(g.ns)
			}
		}
		return t, "delete-range-end"
	case 11: // flags on the put
		for i := range t.Succ {
			if t.Succ[i].Kind == 1 {
				switch g.r.Intn(3) {
				case 0:
					t.Succ[i].P.PrevKv = true
				case 1:
					t.Succ[i].P.IgnVal, t.Succ[i].P.Val = true, nil
				default:
					t.Succ[i].P.IgnLease = true
				}
			} else if t.Succ[i].Kind == 2 {
				t.Succ[i].D.PrevKv = true
			}
		}
		return t, "write-flags"
	case 12: // failure-branch range with options
		if len(t.Fail) > 0 {
			switch g.r.Intn(3) {
			case 0:
				t.Fail[0].R.End = prefixEnd(g.ns)
			case 1:
				t.Fail[0].R.CountOnly = true
			default:
				t.Fail[0].R.KeysOnly = true
			}
		}
		return t, "failure-range-options"
	case 13: // nested transaction in the success branch
		inner := shapeCreate(g.key(), g.val())
		t.Succ = []Op{{Kind: 3, T: &inner}}
		return t, "nested-success"
	case 14: // nested transaction in the failure branch
		inner := shapeDeleteU(g.key())
		t.Fail = []Op{{Kind: 3, T: &inner}}
		return t, "nested-failure"
	case 15: // two compares
		t.Cmp = append(t.Cmp, cmpMod(g.key(), g.expect(g.key())))
		return t, "two-compares"
	case 16: // swapped branches
		t.Succ, t.Fail = t.Fail, t.Succ
		return t, "swapped-branches"
	case 17: // unguarded delete in the wrong order / put instead of range
		if len(t.Succ) == 2 {
			t.Succ[0], t.Succ[1] = t.Succ[1], t.Succ[0]
		} else {
			t.Cmp = nil
		}
		return t, "reordered"
	case 18: // negative / far-future expected revision
		if len(t.Cmp) > 0 && t.Cmp[0].Union == 3 {
			t.Cmp[0].Num = []int64{-1, 1 << 40, -(1 << 62)}[g.r.Intn(3)]
		}
		return t, "hostile-revision"
	case 19: // the compaction shape of the apiserver
		k := []byte("compact_rev_key")
		return Txn{Cmp: []Cmp{{Result: 0, Target: 0, Key: k, Union: 1, Num: int64(g.r.Intn(2))}}, Succ: []Op{opPut(k, []byte("7"))}, Fail: []Op{opGet(k)}}, "compact-shape"
	case 20: // success put replaced by a range
		if len(t.Succ) > 0 {
			t.Succ[0] = opGet(g.key())
		}
		return t, "success-range"
	default: // lease on the put (accepted; leases are outside the model)
		for i := range t.Succ {
			if t.Succ[i].Kind == 1 {
				t.Succ[i].P.Lease = 60
			}
		}
		return t, "lease"
	}
}

// ---------- one history ----------

type step struct {
	coq      string
	json     interface{}
	outcome  string
}

type wev struct {
	hdr int64
	evs []*mvccpb.Event
}

func eventsCoq(batches []*etcdserverpb.WatchResponse, watchID int64) (string, int) {
	var xs []string
	n := 0
	for _, b := range batches {
		if b.Created || b.Canceled || b.WatchId != watchID {
			continue
		}
		es := make([]string, len(b.Events))
		for i, e := range b.Events {
			prev := lib.None()
			if e.PrevKv != nil {
				prev = lib.Some(kvCoq(e.PrevKv))
			}
			es[i] = lib.App("WEv", lib.Bool(e.Type == mvccpb.DELETE), kvCoq(e.Kv), prev)
			n++
		}
		xs = append(xs, lib.Pair(lib.Z(hdr(b.Header)), lib.List(es)))
	}
	return lib.List(xs), n
}

func lastEventKey(batches []*etcdserverpb.WatchResponse, watchID int64) []byte {
	for i := len(batches) - 1; i >= 0; i-- {
		b := batches[i]
		if b.Created || b.Canceled || b.WatchId != watchID || len(b.Events) == 0 {
			continue
		}
		return b.Events[len(b.Events)-1].Kv.Key
	}
	return nil
}

func createdID(batches []*etcdserverpb.WatchResponse, nth int) (int64, bool) {
	k := 0
	for _, b := range batches {
		if b.Created {
			if k == nth {
				return b.WatchId, true
			}
			k++
		}
	}
	return 0, false
}

// claims of validity (Model/C16Cases.v c16_validb): a claimed case that the Coq side finds invalid fails the check
var nClaimed, nUnclaimed, nListed int

func vcase(claimed bool, coq string) string {
	if claimed {
		nClaimed++
	} else {
		nUnclaimed++
	}
	return lib.App("V", lib.Bool(claimed), coq)
}

type snap struct {
	rev  int64
	keys [][]byte
}

type plan struct {
	kind     string
	fixed    []interface{} // Txn or Rng, executed in order (fixed corpus)
	nOps     int
	mutated  bool // last transaction is a mutation
	watch    bool
	watchRev bool // a second watch from an observed revision
}

func runHistory(s *sut, w *lib.Writer, idx int, rnd *lib.Rand, pl plan) {
	ns := []byte(fmt.Sprintf("/h%05d/", idx))
	g := &gen{r: rnd, ns: ns, seen: map[string][]int64{}, cur: map[string]int64{}}
	pool := []string{"a", "b", "c", "ab", "b/x", "d", "e"}
	for _, p := range pool[:3+rnd.Intn(5)] {
		g.keys = append(g.keys, append(append([]byte{}, ns...), p...))
	}
	base := s.be.GetCurrentRevision()
	var steps []string
	var js []interface{}
	outcomes := map[string]bool{}
	var seenRevs []int64
	failed := ""
	// the claim of validity: every request in the scope of C16_supported as far as the client can tell
	claim := pl.fixed == nil
	closedByExecuted := false
	var snaps []snap
	keysAt := func(rev int64, a, b []byte) int {
		var ks [][]byte
		if rev == 0 {
			for k, m := range g.cur {
				if m != 0 {
					ks = append(ks, []byte(k))
				}
			}
		} else {
			for _, sn := range snaps {
				if sn.rev <= rev {
					ks = sn.keys
				}
			}
		}
		n := 0
		for _, k := range ks {
			if bytes.Compare(a, k) <= 0 && bytes.Compare(k, b) < 0 {
				n++
			}
		}
		return n
	}

	var mw *memWatch
	var wdone chan error
	if pl.watch {
		sub0 := atomic.LoadInt64(&subscribed)
		mw = newMemWatch()
		wdone = make(chan error, 1)
		go func() { wdone <- s.srv.Watch(mw) }()
		mw.in <- &etcdserverpb.WatchRequest{RequestUnion: &etcdserverpb.WatchRequest_CreateRequest{CreateRequest: &etcdserverpb.WatchCreateRequest{Key: ns, RangeEnd: prefixEnd(ns), PrevKv: true}}}
		if !lib.WaitUntil(2*time.Second, func() bool { _, ok := createdID(mw.snapshot(), 0); return ok && atomic.LoadInt64(&subscribed) > sub0 }) {
			failed = "watch not created"
		}
	}

	doTxn := func(t Txn, label string) {
		now := int64(s.be.GetCurrentRevision())
		switch label {
		case "create", "sentinel":
		case "update":
			if e := t.Cmp[0].Num; e < 0 || e > now {
				claim = false
			}
		case "delete":
			if e := t.Cmp[0].Num; e <= 0 || e > now {
				claim = false
			}
		case "delete-unguarded":
			if g.cur[string(t.Succ[1].D.Key)] == 0 {
				claim = false
			}
		default:
			if !(pl.mutated && strings.HasPrefix(label, "mut-")) {
				claim = false
			}
		}
		resp, err, settled := s.txn(t)
		if pl.mutated && strings.HasPrefix(label, "mut-") {
			// the closing transaction of a mutated history: any structurally valid transaction (c16_validb's third class:
			// the verdict is agreement or a listed code); full strength when it was rejected
			if err == nil {
				closedByExecuted = true
			}
		}
		if !settled {
			failed = "revision did not settle after " + label
		}
		oc, class := txnRespCoq(resp, err)
		outcomes[label+":"+class] = true
		lst, lerr := s.rng(Rng{Key: ns, End: prefixEnd(ns)})
		lcoq := "None"
		if lerr == nil {
			lcoq = lib.Some(kvsCoq(lst.Kvs))
		}
		steps = append(steps, lib.App("STxn", t.coq(), oc, lcoq))
		js = append(js, map[string]interface{}{"txn": label, "req": t.pb().String(), "resp": fmt.Sprint(resp), "err": fmt.Sprint(err)})
		// client knowledge
		if err == nil && resp != nil {
			if resp.Header != nil {
				seenRevs = append(seenRevs, resp.Header.Revision)
			}
			for _, ro := range resp.Responses {
				if rr := ro.GetResponseRange(); rr != nil {
					for _, kv := range rr.Kvs {
						g.seen[string(kv.Key)] = append(g.seen[string(kv.Key)], kv.ModRevision)
					}
				}
			}
		}
		if lerr == nil {
			nc := map[string]int64{}
			for _, kv := range lst.Kvs {
				nc[string(kv.Key)] = kv.ModRevision
				g.seen[string(kv.Key)] = append(g.seen[string(kv.Key)], kv.ModRevision)
			}
			g.cur = nc
			var ks [][]byte
			for _, kv := range lst.Kvs {
				ks = append(ks, kv.Key)
			}
			snaps = append(snaps, snap{rev: hdr(lst.Header), keys: ks})
		} else {
			claim = false
		}
	}
	doRange := func(r Rng, label string) {
		switch label {
		case "get", "count":
		case "list":
			if r.Rev == 1888 || (r.Limit > 0 && int64(keysAt(r.Rev, r.Key, r.End)) > r.Limit+1) {
				claim = false
			}
		default:
			claim = false
		}
		resp, err := s.rng(r)
		oc := "RErr"
		class := "error"
		if err == nil && resp != nil {
			oc = lib.App("ROk", lib.Z(hdr(resp.Header)), kvsCoq(resp.Kvs), lib.Z(resp.Count), lib.Bool(resp.More))
			class = "ok"
			if resp.More {
				class = "more"
			}
			seenRevs = append(seenRevs, resp.Header.Revision)
		}
		outcomes[label+":"+class] = true
		steps = append(steps, lib.App("SRange", r.coq(), oc))
		js = append(js, map[string]interface{}{"range": label, "req": r.pb().String(), "resp": fmt.Sprint(resp), "err": fmt.Sprint(err)})
	}

	if pl.fixed != nil {
		for _, f := range pl.fixed {
			switch x := f.(type) {
			case func(ns []byte) Txn:
				doTxn(x(ns), "fixed")
			case func(ns []byte) Rng:
				doRange(x(ns), "fixed")
			case func(ns []byte, seen []int64) Rng:
				doRange(x(ns, seenRevs), "fixed")
			}
		}
	} else {
		if !pl.mutated || rnd.Chance(1, 2) {
			for _, k := range g.keys {
				if rnd.Chance(2, 3) {
					doTxn(shapeCreate(k, g.val()), "create")
				}
			}
		}
		for i := 0; i < pl.nOps; i++ {
			if rnd.Chance(2, 5) {
				r, l := g.supportedRange(int64(s.be.GetCurrentRevision()), seenRevs)
				doRange(r, l)
			} else {
				t, l := g.supportedTxn()
				doTxn(t, l)
			}
		}
		if pl.mutated {
			t, _ := g.supportedTxn()
			m, l := g.mutate(t)
			doTxn(m, "mut-"+l)
		}
	}

	watchCoq, watch2Coq := "None", "None"
	nEvents := 0
	if pl.watch && failed == "" {
		id0, _ := createdID(mw.snapshot(), 0)
		var startRev int64
		if pl.watchRev && len(seenRevs) > 0 {
			// second watch on the same stream, from a revision the client has seen (+1 as the apiserver does)
			startRev = seenRevs[rnd.Intn(len(seenRevs))] + 1
			sub1 := atomic.LoadInt64(&subscribed)
			mw.in <- &etcdserverpb.WatchRequest{RequestUnion: &etcdserverpb.WatchRequest_CreateRequest{CreateRequest: &etcdserverpb.WatchCreateRequest{Key: ns, RangeEnd: prefixEnd(ns), StartRevision: startRev, PrevKv: false}}} // without the flag: the shim attaches PrevKv all the same
			if !lib.WaitUntil(2*time.Second, func() bool { _, ok := createdID(mw.snapshot(), 1); return ok && atomic.LoadInt64(&subscribed) > sub1 }) {
				failed = "second watch not created"
			}
			time.Sleep(time.Millisecond) // the cache read follows the subscription immediately
		}
		// sentinel write: when its event has arrived on every watch, everything before it has too
		sent := append(append([]byte{}, ns...), "~end"...)
		doTxn(shapeCreate(sent, []byte("end")), "sentinel")
		ok := lib.WaitUntil(3*time.Second, func() bool {
			snap := mw.snapshot()
			if !bytes.Equal(lastEventKey(snap, id0), sent) {
				return false
			}
			if pl.watchRev && startRev != 0 {
				id1, _ := createdID(snap, 1)
				return bytes.Equal(lastEventKey(snap, id1), sent)
			}
			return true
		})
		if !ok && failed == "" {
			failed = "sentinel event did not arrive"
		}
		snap := mw.snapshot()
		watchCoq, nEvents = eventsCoq(snap, id0)
		watchCoq = lib.Some(watchCoq)
		if pl.watchRev && startRev != 0 {
			id1, _ := createdID(snap, 1)
			c, _ := eventsCoq(snap, id1)
			watch2Coq = lib.Some(lib.Pair(lib.Z(startRev), c))
		}
		mw.cancel()
		select {
		case <-wdone:
		case <-time.After(3 * time.Second):
			failed = "watch stream did not end"
		}
	} else if mw != nil {
		mw.cancel()
	}

	ocs := []string{}
	for k := range outcomes {
		ocs = append(ocs, k)
	}
	if claim && failed == "" && closedByExecuted {
		nListed++
	}
	cs := lib.Case{Kind: pl.kind, Coq: vcase(claim && failed == "", lib.App("C16Hist", lib.N(base), lib.Bytes(ns), lib.List(steps), watchCoq, watch2Coq)),
		JSON:    map[string]interface{}{"ns": string(ns), "base": base, "steps": js, "events": nEvents},
		Trivial: len(steps) < 2, Outcomes: ocs}
	w.Add(cs)
	if failed != "" {
		w.Fail(lib.ImplFailure{CaseID: w.Len() - 1, Code: 0, What: failed, Case: cs.JSON})
	}
}

// ---------- fixed corpus: the witnesses of the known findings and of the C04 fix ----------

func K(ns []byte, s string) []byte { return append(append([]byte{}, ns...), s...) }

func corpus() []plan {
	T := func(f func(ns []byte) Txn) interface{} { return f }
	R := func(f func(ns []byte) Rng) interface{} { return f }
	all := R(func(ns []byte) Rng { return Rng{Key: ns, End: prefixEnd(ns)} })
	return []plan{
		{kind: "corpus-F1-unguarded-delete-missing", watch: true, fixed: []interface{}{
			T(func(ns []byte) Txn { return shapeDeleteU(K(ns, "a")) }), all}},
		{kind: "corpus-F2-guarded-delete-rev0-existing", watch: true, fixed: []interface{}{
			T(func(ns []byte) Txn { return shapeCreate(K(ns, "a"), []byte("v")) }),
			T(func(ns []byte) Txn { return shapeDelete(K(ns, "a"), 0) }), all}},
		{kind: "corpus-F9-count-at-revision", fixed: []interface{}{
			T(func(ns []byte) Txn { return shapeCreate(K(ns, "a"), []byte("1")) }),
			T(func(ns []byte) Txn { return shapeCreate(K(ns, "b"), []byte("2")) }),
			// a count as of the first create: etcd counts the store at that revision (1), the Count path ignores the revision (2)
			interface{}(func(ns []byte, seen []int64) Rng {
				return Rng{Key: ns, End: prefixEnd(ns), CountOnly: true, Rev: seen[0]}
			}), all}},
		{kind: "corpus-F3-count-under-limit", fixed: []interface{}{
			T(func(ns []byte) Txn { return shapeCreate(K(ns, "a"), []byte("1")) }),
			T(func(ns []byte) Txn { return shapeCreate(K(ns, "b"), []byte("2")) }),
			T(func(ns []byte) Txn { return shapeCreate(K(ns, "c"), []byte("3")) }),
			T(func(ns []byte) Txn { return shapeCreate(K(ns, "d"), []byte("4")) }),
			R(func(ns []byte) Rng { return Rng{Key: ns, End: prefixEnd(ns), Limit: 1} }),
			R(func(ns []byte) Rng { return Rng{Key: ns, End: prefixEnd(ns), Limit: 3} }),
			R(func(ns []byte) Rng { return Rng{Key: ns, End: prefixEnd(ns), Limit: 4} })}},
		{kind: "corpus-F4-create-compares-other-key", fixed: []interface{}{
			T(func(ns []byte) Txn { return shapeCreate(K(ns, "a"), []byte("1")) }),
			T(func(ns []byte) Txn {
				t := shapeCreate(K(ns, "a"), []byte("2"))
				t.Cmp[0].Key = K(ns, "b") // "b" is absent: etcd executes the put on "a"
				return t
			}), all}},
		{kind: "corpus-F4-update-writes-compared-key", fixed: []interface{}{
			T(func(ns []byte) Txn { return shapeCreate(K(ns, "a"), []byte("1")) }),
			T(func(ns []byte) Txn {
				t := shapeUpdate(K(ns, "a"), []byte("2"), 0)
				t.Cmp[0].Key = K(ns, "b") // put names "a", the shim writes "b"
				return t
			}), all}},
		{kind: "corpus-F4-delete-other-key", fixed: []interface{}{
			T(func(ns []byte) Txn { return shapeCreate(K(ns, "a"), []byte("1")) }),
			T(func(ns []byte) Txn { return shapeCreate(K(ns, "b"), []byte("2")) }),
			T(func(ns []byte) Txn {
				t := shapeDelete(K(ns, "a"), 0)
				t.Succ[0].D.End = prefixEnd(ns) // a range delete executed as a single-key delete
				return t
			}), all}},
		{kind: "corpus-F4-failure-reads-other-key", fixed: []interface{}{
			T(func(ns []byte) Txn { return shapeCreate(K(ns, "a"), []byte("1")) }),
			T(func(ns []byte) Txn { return shapeCreate(K(ns, "b"), []byte("2")) }),
			T(func(ns []byte) Txn {
				t := shapeUpdate(K(ns, "a"), []byte("3"), 1)
				t.Fail[0].R.Key = K(ns, "b")
				return t
			}), all}},
		{kind: "corpus-F4-update-prev-kv", fixed: []interface{}{
			T(func(ns []byte) Txn { return shapeCreate(K(ns, "a"), []byte("1")) }),
			T(func(ns []byte) Txn {
				t := shapeUpdate(K(ns, "a"), []byte("2"), 0)
				t.Cmp[0].Result = 3 // MOD != 0 is not the update shape: rejected
				return t
			}),
			T(func(ns []byte) Txn {
				t := shapeDelete(K(ns, "a"), 0)
				t.Cmp[0].Result = 3
				t.Succ[0].D.PrevKv = true
				return t
			}), all}},
		{kind: "corpus-F5-compact-shape", fixed: []interface{}{
			T(func(ns []byte) Txn {
				k := []byte("compact_rev_key")
				return Txn{Cmp: []Cmp{{Result: 0, Target: 0, Key: k, Union: 1, Num: 0}}, Succ: []Op{opPut(k, []byte("7"))}, Fail: []Op{opGet(k)}}
			}), all}},
		{kind: "corpus-C04-negative-revision", fixed: []interface{}{
			T(func(ns []byte) Txn { return shapeCreate(K(ns, "a"), []byte("1")) }),
			T(func(ns []byte) Txn { return shapeUpdate(K(ns, "a"), []byte("2"), -1) }),
			T(func(ns []byte) Txn { return shapeDelete(K(ns, "a"), 1<<40) }),
			T(func(ns []byte) Txn { return shapeCreate(K(ns, "b"), []byte("3")) }), all}},
		{kind: "corpus-tombstone-value", fixed: []interface{}{
			T(func(ns []byte) Txn { return shapeCreate(K(ns, "a"), []byte("tombstone")) }),
			R(func(ns []byte) Rng { return Rng{Key: K(ns, "a")} }), all}},
		{kind: "corpus-empty-value", fixed: []interface{}{
			T(func(ns []byte) Txn { return shapeCreate(K(ns, "a"), nil) }),
			R(func(ns []byte) Rng { return Rng{Key: K(ns, "a")} }),
			T(func(ns []byte) Txn { return shapeUpdate(K(ns, "a"), []byte{}, 0) }), all}},
		{kind: "corpus-recreate-after-delete", watch: true, fixed: []interface{}{
			T(func(ns []byte) Txn { return shapeCreate(K(ns, "a"), []byte("1")) }),
			T(func(ns []byte) Txn { return shapeDeleteU(K(ns, "a")) }),
			T(func(ns []byte) Txn { return shapeCreate(K(ns, "a"), []byte("2")) }),
			T(func(ns []byte) Txn { return shapeUpdate(K(ns, "a"), []byte("3"), 0) }),
			R(func(ns []byte) Rng { return Rng{Key: K(ns, "a")} }), all}},
	}
}

// ---------- a prefix watch through a follower whose etcd proxy relays it to the leader ----------

// runProxyWatch: the leader's RPCServer on a loopback gRPC listener; a follower RPCServer (own backend over the same
// engine) built with the real etcdproxy (service.NewPeerService, EnableEtcdProxy) pointing at it.  A prefix watch with
// prev_kv is opened on the FOLLOWER; the history (create, guarded delete, sentinel) runs on the leader.
func runProxyWatch(s *sut, w *lib.Writer, idx int) {
	ns := []byte(fmt.Sprintf("/h%05d/", idx))
	base := s.be.GetCurrentRevision()
	failed := ""
	lis, err := net.Listen("tcp", "127.0.0.1:0")
	if err != nil {
		return
	}
	g := grpc.NewServer()
	s.srv.Register(g)
	go func() { _ = g.Serve(lis) }()
	defer g.Stop()
	m := &lib.NopMetrics{}
	fb := backend.NewBackend(sharedKv, backend.Config{Prefix: "/registry", Identity: "c16-follower", EnableEtcdCompatibility: true}, m)
	fb.SetCurrentRevision(base)
	fpeers := service.NewPeerService(&leader.Stub{ElectionInfo: leader.ElectionInfo{IsLeader: false, LeaderAddress: lis.Addr().String()}}, m, fb, service.Config{EnableEtcdProxy: true})
	fsrv := etcd.New(fb, m, fpeers)

	startRev := int64(base) + 1
	mw := newMemWatch()
	wdone := make(chan error, 1)
	go func() { wdone <- fsrv.Watch(mw) }()
	mw.in <- &etcdserverpb.WatchRequest{RequestUnion: &etcdserverpb.WatchRequest_CreateRequest{CreateRequest: &etcdserverpb.WatchCreateRequest{Key: ns, RangeEnd: prefixEnd(ns), StartRevision: startRev, PrevKv: true}}}
	if !lib.WaitUntil(3*time.Second, func() bool { _, ok := createdID(mw.snapshot(), 0); return ok }) {
		failed = "watch on the follower not created"
	}
	var steps []string
	var js []interface{}
	do := func(t Txn, label string) *etcdserverpb.TxnResponse {
		resp, err, _ := s.txn(t)
		oc, _ := txnRespCoq(resp, err)
		steps = append(steps, lib.App("STxn", t.coq(), oc, listingCoq(s, ns)))
		js = append(js, map[string]interface{}{"txn": label, "req": t.pb().String(), "resp": fmt.Sprint(resp), "err": fmt.Sprint(err)})
		return resp
	}
	kA := K(ns, "a")
	r1 := do(shapeCreate(kA, []byte("v1")), "create")
	var rev1 int64
	if r1 != nil && r1.Header != nil {
		rev1 = r1.Header.Revision
	}
	do(shapeUpdate(kA, []byte("v2"), rev1), "update")
	do(shapeDelete(kA, rev1+1), "guarded delete")
	sent := K(ns, "~end")
	do(shapeCreate(sent, []byte("end")), "sentinel")
	id0, _ := createdID(mw.snapshot(), 0)
	if !lib.WaitUntil(5*time.Second, func() bool { return bytes.Equal(lastEventKey(mw.snapshot(), id0), sent) }) && failed == "" {
		failed = "sentinel event did not arrive through the proxy"
	}
	watchCoq, nEvents := eventsCoq(mw.snapshot(), id0)
	var evj []string
	for _, b := range mw.snapshot() {
		for _, e := range b.Events {
			evj = append(evj, fmt.Sprintf("%v %s@%d prev=%v", e.Type, e.Kv.Key, e.Kv.ModRevision, e.PrevKv != nil))
		}
	}
	mw.cancel()
	select {
	case <-wdone:
	case <-time.After(3 * time.Second):
		failed = "follower watch stream did not end"
	}
	cs := lib.Case{Kind: "corpus-proxy-follower-watch", Coq: vcase(failed == "", lib.App("C16Hist", lib.N(base), lib.Bytes(ns), lib.List(steps), "None", lib.Some(lib.Pair(lib.Z(startRev), watchCoq)))),
		JSON: map[string]interface{}{"ns": string(ns), "base": base, "steps": js, "events_through_follower": evj, "n": nEvents}, Outcomes: []string{"proxy-watch"}}
	w.Add(cs)
	if failed != "" {
		w.Fail(lib.ImplFailure{CaseID: w.Len() - 1, What: failed, Case: cs.JSON})
	}
}

// ---------- a watch resumed a long way behind ----------

// runBacklog: one create and n-1 guarded updates of one key, then a prefix watch from the create's revision: the
// backlog (more than resultChanLength*eventBatchSize events, not a multiple of 100) comes from the event cache.
func runBacklog(s *sut, w *lib.Writer, idx int) {
	ns := []byte(fmt.Sprintf("/h%05d/", idx))
	const n = 100*backend.VerifEventBatchSize + 51
	kA := K(ns, "a")
	ctx := context.Background()
	failed := ""
	type wr struct {
		rev int64
		val string
	}
	var writes []wr
	var rev int64
	for i := 0; i < n && failed == ""; i++ {
		v := fmt.Sprintf("v%d", i)
		var t Txn
		if i == 0 {
			t = shapeCreate(kA, []byte(v))
		} else {
			t = shapeUpdate(kA, []byte(v), rev)
		}
		resp, err := s.srv.Txn(ctx, t.pb())
		if err != nil || resp == nil || !resp.Succeeded {
			failed = fmt.Sprintf("write %d failed: %v", i, err)
			break
		}
		rev = resp.Header.Revision
		writes = append(writes, wr{rev, v})
	}
	if !lib.WaitUntil(10*time.Second, func() bool { return int64(s.be.GetCurrentRevision()) >= rev }) && failed == "" {
		failed = "the writes were not committed"
	}
	s.settle()
	mw := newMemWatch()
	wdone := make(chan error, 1)
	go func() { wdone <- s.srv.Watch(mw) }()
	start := int64(0)
	if len(writes) > 0 {
		start = writes[0].rev
	}
	mw.in <- &etcdserverpb.WatchRequest{RequestUnion: &etcdserverpb.WatchRequest_CreateRequest{CreateRequest: &etcdserverpb.WatchCreateRequest{Key: ns, RangeEnd: prefixEnd(ns), StartRevision: start}}}
	count := func() int {
		c := 0
		for _, b := range mw.snapshot() {
			if !b.Created && !b.Canceled {
				c += len(b.Events)
			}
		}
		return c
	}
	// progress-based wait: give up when nothing has arrived for 3 s
	last, lastT := -1, time.Now()
	for {
		c := count()
		if c >= len(writes) {
			break
		}
		if c != last {
			last, lastT = c, time.Now()
		} else if time.Since(lastT) > 3*time.Second {
			break
		}
		time.Sleep(5 * time.Millisecond)
	}
	delivered := 0
	ordered := true
	firstBad := ""
	for _, b := range mw.snapshot() {
		if b.Created || b.Canceled {
			continue
		}
		for _, e := range b.Events {
			if delivered < len(writes) {
				x := writes[delivered]
				if e.Type != mvccpb.PUT || !bytes.Equal(e.Kv.Key, kA) || string(e.Kv.Value) != x.val || e.Kv.ModRevision != x.rev {
					if ordered {
						firstBad = fmt.Sprintf("event %d: %v %s=%s@%d, expected PUT %s=%s@%d", delivered, e.Type, e.Kv.Key, e.Kv.Value, e.Kv.ModRevision, kA, x.val, x.rev)
					}
					ordered = false
				}
			} else {
				ordered = false
			}
			delivered++
		}
	}
	mw.cancel()
	select {
	case <-wdone:
	case <-time.After(2 * time.Second):
		// a watch stuck inside the backend keeps its goroutine; the stream itself is gone
	}
	cs := lib.Case{Kind: "corpus-backlog-catch-up", Coq: vcase(true, lib.App("C16Backlog", lib.N(uint64(len(writes))), lib.N(uint64(delivered)), lib.Bool(ordered))),
		JSON: map[string]interface{}{"ns": string(ns), "writes": len(writes), "delivered": delivered, "ordered": ordered, "first_divergence": firstBad,
			"scenario": "prefix watch resumed from the first of 30051 writes of one key (backlog from the event cache)"}, Outcomes: []string{"backlog"}}
	w.Add(cs)
	if failed != "" {
		w.Fail(lib.ImplFailure{CaseID: w.Len() - 1, What: failed, Case: cs.JSON})
	}
}

// ---------- racing guarded writes over the Badger engine ----------

type raceBarrier struct {
	mu      sync.Mutex
	want    int
	arrived int
	ch      chan struct{}
	seen    map[int64]bool
}

func (b *raceBarrier) arm(n int) {
	b.mu.Lock()
	b.want, b.arrived, b.ch, b.seen = n, 0, make(chan struct{}), map[int64]bool{}
	b.mu.Unlock()
}

// before aligns the first engine batch of every racing client: they all begin their batch together
func (b *raceBarrier) before(kind string, key []byte) error {
	if kind != "batch" {
		return nil
	}
	id := lib.GoID()
	b.mu.Lock()
	if b.ch == nil || b.seen[id] || b.want == 0 {
		b.mu.Unlock()
		return nil
	}
	b.seen[id] = true
	b.arrived++
	ch := b.ch
	if b.arrived >= b.want {
		close(ch)
		b.want = 0
	}
	b.mu.Unlock()
	select {
	case <-ch:
	case <-time.After(5 * time.Millisecond):
	}
	return nil
}

func runRace(w *lib.Writer, args lib.Args) {
	rounds := map[string]int{"quick": 150, "thorough": 2000, "search": 600}[args.Tier]
	if rounds == 0 {
		rounds = 150
	}
	const clients = 8
	kv0, closeKv, err := lib.NewEngine(lib.EngBadger, args.Scratch)
	if err != nil {
		w.Fail(lib.ImplFailure{CaseID: -1, What: "cannot open the Badger engine: " + err.Error()})
		return
	}
	defer closeKv()
	bar := &raceBarrier{}
	kv := &lib.Wrap{KvStorage: kv0, Before: bar.before}
	be := backend.NewBackend(kv, backend.Config{Prefix: "/registry", Identity: "c16-race", EnableEtcdCompatibility: true}, &lib.NopMetrics{})
	ts, _ := kv0.GetTimestampOracle(context.Background())
	be.SetCurrentRevision(ts + 1000)
	p := &peers{Stub: &leader.Stub{ElectionInfo: leader.ElectionInfo{LeaderAddress: "127.0.0.1:0", IsLeader: true}}, EtcdProxy: etcdproxy.NewDisabledEtcdProxy()}
	srv := etcd.New(be, &lib.NopMetrics{}, p)
	race := func(mk func(i int) Txn) (int, []string) {
		bar.arm(clients)
		var wg sync.WaitGroup
		var mu sync.Mutex
		succ := 0
		var answers []string
		for i := 0; i < clients; i++ {
			wg.Add(1)
			go func(i int) {
				defer wg.Done()
				ctx, cancel := context.WithTimeout(context.Background(), 5*time.Second)
				defer cancel()
				resp, err := srv.Txn(ctx, mk(i).pb())
				mu.Lock()
				defer mu.Unlock()
				switch {
				case err != nil:
					answers = append(answers, "error")
				case resp.Succeeded:
					succ++
					answers = append(answers, fmt.Sprintf("succeeded@%d", resp.Header.Revision))
				default:
					answers = append(answers, "failed")
				}
			}(i)
		}
		wg.Wait()
		return succ, answers
	}
	// reported: the number of Succeeded=true answers of the first round that did not have exactly one (creates, updates);
	// 1 and 1 when every round had exactly one winner of each race
	maxC, maxU := 1, 1
	var detail interface{}
	done := 0
	for r := 0; r < rounds; r++ {
		k := []byte(fmt.Sprintf("/registry/race/k%05d", r))
		c, ca := race(func(i int) Txn { return shapeCreate(k, []byte(fmt.Sprintf("c%d", i))) })
		ctx, cancel := context.WithTimeout(context.Background(), 5*time.Second)
		lib.WaitUntil(time.Second, func() bool { g, e := srv.Range(ctx, &etcdserverpb.RangeRequest{Key: k}); return e == nil && len(g.Kvs) == 1 })
		g, gerr := srv.Range(ctx, &etcdserverpb.RangeRequest{Key: k})
		cancel()
		u := 0
		var ua []string
		if gerr == nil && len(g.Kvs) == 1 {
			rev := g.Kvs[0].ModRevision
			u, ua = race(func(i int) Txn { return shapeUpdate(k, []byte(fmt.Sprintf("u%d", i)), rev) })
		}
		done++
		if c != 1 || u != 1 {
			maxC, maxU = c, u
			detail = map[string]interface{}{"round": r, "key": string(k), "create_answers": ca, "update_answers": ua}
			break
		}
	}
	cs := lib.Case{Kind: "badger-race", Coq: vcase(true, lib.App("C16Race", lib.N(clients), lib.N(uint64(done)), lib.N(uint64(maxC)), lib.N(uint64(maxU)))),
		JSON: map[string]interface{}{"engine": "badger", "clients": clients, "rounds": done, "succeeded_creates_in_the_reported_round": maxC, "succeeded_updates_in_the_reported_round": maxU, "first_violation": detail},
		Outcomes: []string{"race"}}
	w.Add(cs)
}

// ---------- scenarios with an unresolved lower revision ----------

func listingCoq(s *sut, ns []byte) string {
	lst, err := s.rng(Rng{Key: ns, End: prefixEnd(ns)})
	if err != nil {
		return "None"
	}
	return lib.Some(kvsCoq(lst.Kvs))
}

// runGated: while the write of another key (revision r+1) is parked in front of the engine, an acknowledged
// write of K at r+2 and then stale guarded transactions on K: their failure branch must carry K's current kv.
func runGated(s *sut, w *lib.Writer, idx int, deleteFirst bool) {
	ns := []byte(fmt.Sprintf("/h%05d/", idx))
	base := s.be.GetCurrentRevision()
	kA, slow := K(ns, "a"), K(ns, "slow")
	var steps []string
	var js []interface{}
	failed := ""
	add := func(t Txn, resp *etcdserverpb.TxnResponse, err error, listing string, label string) {
		oc, _ := txnRespCoq(resp, err)
		if listing == "" {
			steps = append(steps, lib.App("STxnNL", t.coq(), oc))
		} else {
			steps = append(steps, lib.App("STxn", t.coq(), oc, listing))
		}
		js = append(js, map[string]interface{}{"txn": label, "req": t.pb().String(), "resp": fmt.Sprint(resp), "err": fmt.Sprint(err)})
	}
	t1 := shapeCreate(kA, []byte("v1"))
	r1, e1, _ := s.txn(t1)
	add(t1, r1, e1, listingCoq(s, ns), "create K")
	var rev0 int64
	if e1 == nil && r1 != nil {
		rev0 = r1.Header.Revision
	}
	tslow := shapeCreate(slow, []byte("s"))
	done, ok := s.heldTxn(tslow)
	if !ok {
		failed = "the slow write did not reach the engine gate"
	}
	var t3 Txn
	if deleteFirst {
		t3 = shapeDelete(kA, rev0)
	} else {
		t3 = shapeUpdate(kA, []byte("v2"), rev0)
	}
	r3, e3, _ := s.txn(t3)
	t4 := shapeUpdate(kA, []byte("v3"), rev0) // stale
	r4, e4, _ := s.txn(t4)
	t5 := shapeDelete(kA, rev0) // stale
	r5, e5, _ := s.txn(t5)
	committedDuring := s.be.GetCurrentRevision()
	eg.release <- struct{}{}
	var rs txnResult
	select {
	case rs = <-done:
	case <-time.After(3 * time.Second):
		failed = "the slow write did not finish"
	}
	s.settle()
	// in revision order
	add(tslow, rs.resp, rs.err, "", "create slow (held)")
	add(t3, r3, e3, "", "acknowledged write of K")
	add(t4, r4, e4, "", "stale update of K")
	add(t5, r5, e5, "", "stale delete of K")
	tz := shapeCreate(K(ns, "z"), []byte("z"))
	rz, ez, _ := s.txn(tz)
	add(tz, rz, ez, listingCoq(s, ns), "create z")
	kind := "corpus-gated-stale-after-update"
	if deleteFirst {
		kind = "corpus-gated-stale-after-delete"
	}
	cs := lib.Case{Kind: kind, Coq: vcase(failed == "", lib.App("C16Hist", lib.N(base), lib.Bytes(ns), lib.List(steps), "None", "None")),
		JSON: map[string]interface{}{"ns": string(ns), "base": base, "steps": js, "committed_while_held": committedDuring}, Outcomes: []string{"gated"}}
	w.Add(cs)
	if failed != "" {
		w.Fail(lib.ImplFailure{CaseID: w.Len() - 1, What: failed, Case: cs.JSON})
	}
}

// runBurst: a prefix watch with a stalled client; ~110 creates; one create parked at the engine with
// eventBatchSize+50 creates behind it; release; the client catches up: every create exactly once, in order.
func runBurst(s *sut, w *lib.Writer, idx int) {
	ns := []byte(fmt.Sprintf("/h%05d/", idx))
	base := s.be.GetCurrentRevision()
	var steps []string
	failed := ""
	sub0 := atomic.LoadInt64(&subscribed)
	mw := newMemWatch()
	mw.stall = make(chan struct{})
	wdone := make(chan error, 1)
	go func() { wdone <- s.srv.Watch(mw) }()
	mw.in <- &etcdserverpb.WatchRequest{RequestUnion: &etcdserverpb.WatchRequest_CreateRequest{CreateRequest: &etcdserverpb.WatchCreateRequest{Key: ns, RangeEnd: prefixEnd(ns), PrevKv: true}}}
	if !lib.WaitUntil(2*time.Second, func() bool { _, ok := createdID(mw.snapshot(), 0); return ok && atomic.LoadInt64(&subscribed) > sub0 }) {
		failed = "watch not created"
	}
	n := 0
	create := func() Txn {
		n++
		return shapeCreate(K(ns, fmt.Sprintf("k%04d", n)), []byte("v"))
	}
	do := func(t Txn) {
		resp, err, _ := s.txn(t)
		oc, _ := txnRespCoq(resp, err)
		steps = append(steps, lib.App("STxnNL", t.coq(), oc))
	}
	for i := 0; i < 110; i++ {
		do(create())
	}
	held := create()
	done, ok := s.heldTxn(held)
	if !ok {
		failed = "the held write did not reach the engine gate"
	}
	heldAt := len(steps)
	steps = append(steps, "") // filled in when it completes
	for i := 0; i < backend.VerifEventBatchSize+50; i++ {
		do(create())
	}
	eg.release <- struct{}{}
	var rs txnResult
	select {
	case rs = <-done:
	case <-time.After(3 * time.Second):
		failed = "the held write did not finish"
	}
	oc, _ := txnRespCoq(rs.resp, rs.err)
	steps[heldAt] = lib.App("STxnNL", held.coq(), oc)
	s.settle()
	// some more events while the client is still stalled, then let it catch up
	for i := 0; i < 20; i++ {
		do(create())
	}
	time.Sleep(20 * time.Millisecond)
	close(mw.stall)
	sent := K(ns, "~end")
	ts := shapeCreate(sent, []byte("end"))
	resp, err, _ := s.txn(ts)
	oc2, _ := txnRespCoq(resp, err)
	steps = append(steps, lib.App("STxn", ts.coq(), oc2, listingCoq(s, ns)))
	id0, _ := createdID(mw.snapshot(), 0)
	if !lib.WaitUntil(5*time.Second, func() bool { return bytes.Equal(lastEventKey(mw.snapshot(), id0), sent) }) && failed == "" {
		failed = "sentinel event did not arrive"
	}
	watchCoq, nEvents := eventsCoq(mw.snapshot(), id0)
	mw.cancel()
	select {
	case <-wdone:
	case <-time.After(3 * time.Second):
		failed = "watch stream did not end"
	}
	cs := lib.Case{Kind: "corpus-burst-full-batch", Coq: vcase(failed == "", lib.App("C16Hist", lib.N(base), lib.Bytes(ns), lib.List(steps), lib.Some(watchCoq), "None")),
		JSON: map[string]interface{}{"ns": string(ns), "base": base, "creates": n + 1, "events": nEvents, "scenario": "stalled watch client, one write parked with eventBatchSize+50 writes behind it"},
		Outcomes: []string{"burst"}}
	w.Add(cs)
	if failed != "" {
		w.Fail(lib.ImplFailure{CaseID: w.Len() - 1, What: failed, Case: cs.JSON})
	}
}

func main() {
	lib.QuietLogs()
	args := lib.ParseArgs()
	rnd := lib.NewRand(args.Seed)
	backend.VerifYieldHook = func(p string) {
		switch p {
		case "seq.idle":
			// only the sequencer of the system under test counts for settle(): it is the first one to poll
			// (other backends — the proxy scenario's follower — are created later and only sleep here)
			id := lib.GoID()
			if atomic.CompareAndSwapInt64(&mainSeq, 0, id) || atomic.LoadInt64(&mainSeq) == id {
				atomic.AddInt64(&idlePolls, 1)
				time.Sleep(30 * time.Microsecond)
			} else {
				time.Sleep(200 * time.Microsecond)
			}
		case "watch.subscribed":
			atomic.AddInt64(&subscribed, 1)
		}
	}
	nSup, nMut := 300, 1000
	switch args.Tier {
	case "thorough":
		nSup, nMut = 3000, 12000
	case "search":
		nSup, nMut = 900, 4000
	}
	w := lib.NewWriter(args, "C16", "c16", "From KB Require Import Model.C16Cases.", "c16_vcase", "c16_checkv", "c16_oraclev", 170)
	s, err := newSut(args.Scratch, 10)
	if err != nil {
		fmt.Fprintln(os.Stderr, err)
		os.Exit(2)
	}
	idx := 0
	for _, pl := range corpus() {
		runHistory(s, w, idx, rnd.Fork(), pl)
		idx++
	}
	runGated(s, w, idx, false)
	idx++
	runGated(s, w, idx, true)
	idx++
	runBurst(s, w, idx)
	idx++
	runProxyWatch(s, w, idx)
	idx++
	runBacklog(s, w, idx)
	idx++
	runRace(w, args)
	for i := 0; i < nSup; i++ {
		runHistory(s, w, idx, rnd.Fork(), plan{kind: "supported-history", nOps: 4 + rnd.Intn(9), watch: true, watchRev: i%3 == 0})
		idx++
	}
	for i := 0; i < nMut; i++ {
		runHistory(s, w, idx, rnd.Fork(), plan{kind: "mutated-txn", nOps: 1 + rnd.Intn(5), mutated: true})
		idx++
	}
	// late corpus: by now revision 1888 is a past revision, so a List at it is an ordinary paginated read for etcd
	runHistory(s, w, idx, rnd.Fork(), plan{kind: "corpus-F7-partition-magic", fixed: []interface{}{
		func(ns []byte) Txn { return shapeCreate(K(ns, "a"), []byte("1")) },
		func(ns []byte) Rng { return Rng{Key: ns, End: prefixEnd(ns), Rev: 1888} },
		func(ns []byte) Rng { return Rng{Key: ns, End: prefixEnd(ns), Rev: 1887} }}})
	idx++
	w.Stats.Extra["invalid_cases"] = nUnclaimed
	w.Stats.Extra["valid_cases"] = nClaimed
	w.Stats.Extra["valid_cases_full_strength"] = nClaimed - nListed
	w.Stats.Extra["valid_cases_agreement_or_listed_code"] = nListed
	w.Stats.Extra["invalid_cases_how"] = "the driver claims validity per case (V true c) when every request is in the scope of C16_supported as far as the client can tell (full strength: C16_oracle_sound), or when such a prefix is closed by one mutated transaction (agreement or a listed code: C16_oracle_listed); c16_checkv evaluates c16_validb and the watch headers on claimed cases, so a wrong claim is a mismatch; unclaimed cases (the findings' corpus, random histories containing a finding's signature before their last step) are judged by the oracle and, per step, by C16_unsupported / C16_recognised_executed_as"
	if err := w.Finish("histories of the Kubernetes shapes over 3-5 keys per private key space (expected revision correct/stale/zero), reads with sub-ranges, limits and seen revisions, one prefix watch per supported history (every third with a second watch from a seen revision); mutated transactions = one structural mutation of a supported shape after a short supported prefix; distinct = SHA-256 of the Coq case; trivial = fewer than 2 steps"); err != nil {
		fmt.Fprintln(os.Stderr, err)
		os.Exit(2)
	}
}
