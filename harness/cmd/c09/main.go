// Driver c09: indeterminate storage outcomes. Runs the real backend (sequencer, retry loop, compaction cap,
// client write paths) over a fault-injecting engine wrapper on scripted and random write histories with
// unknown-outcome faults placed on client commits and on repair commits (both variants: applied / not applied),
// and writes every script together with the implementation's observation as a Coq case
// (checked against Model/RetrySys.v + Model/C09Cases.v and judged by c09_oracle).
//
// Cases run in child processes (a Backend's goroutines can never be stopped), a few at a time.
package main

import (
	"bufio"
	"context"
	"encoding/json"
	"errors"
	"flag"
	"fmt"
	"os"
	"os/exec"
	"path/filepath"
	"sort"
	"sync"
	"time"

	tikverr "github.com/tikv/client-go/v2/error"

	"github.com/kubewharf/kubebrain/pkg/backend"
	"github.com/kubewharf/kubebrain/pkg/storage"

	"kbverif/lib"
)

// ---------- case plans ----------

type Plan struct {
	ID     int
	Kind   string
	Engine string
	Script []Step // fixed script (corpus); nil = generated
	Seed   uint64
}

func envOK() Env         { return Env{Kind: "ok"} }
func unk(applied bool) Env { return Env{Kind: "unk", Applied: applied} }

func cr(k int, v string, envs ...Env) Step { return Step{Kind: "create", Key: k, Val: []byte(v), Envs: envs} }
func up(k int, v string, rev uint64, envs ...Env) Step {
	return Step{Kind: "update", Key: k, Val: []byte(v), Rev: rev, Envs: envs}
}
func del(k int, rev uint64, envs ...Env) Step { return Step{Kind: "delete", Key: k, Rev: rev, Envs: envs} }
func st(kind string) Step                       { return Step{Kind: kind} }
func retry(envs ...Env) Step                    { return Step{Kind: "retry", Envs: envs} }
func compact(rev uint64) Step                   { return Step{Kind: "compact", Rev: rev} }

var drain = []Step{st("tick"), retry(), retry(), st("tick"), retry(), retry(), st("probe")}

func seq(parts ...[]Step) []Step {
	var out []Step
	for _, p := range parts {
		out = append(out, p...)
	}
	return out
}

// corpus: fixed regression cases, run first on every run. Revisions: the backend starts at 10.
func corpus() []Plan {
	c := []Plan{
		{Kind: "corpus/F1-update-landed-repair-unknown-not-applied", Script: seq([]Step{cr(0, "v1"), st("list"), up(0, "v2", 11, unk(true)), st("tick"), retry(unk(false))}, drain)},
		{Kind: "corpus/F1-update-landed-repair-definite-error", Script: seq([]Step{cr(0, "v1"), st("list"), up(0, "v2", 11, unk(true)), st("tick"), retry(Env{Kind: "err"})}, drain)},
		{Kind: "corpus/F1-delete-landed-repair-unknown-not-applied", Script: seq([]Step{cr(0, "v1"), st("list"), del(0, 0, unk(true)), st("tick"), retry(unk(false))}, drain)},
		{Kind: "corpus/F2-empty-value-landed", Script: seq([]Step{cr(0, "v1"), st("list"), up(0, "", 11, unk(true))}, drain)},
		{Kind: "corpus/update-landed-repaired", Script: seq([]Step{cr(0, "v1"), st("list"), up(0, "v2", 11, unk(true)), compact(0), st("list")}, drain)},
		{Kind: "corpus/update-not-landed-dropped", Script: seq([]Step{cr(0, "v1"), st("list"), up(0, "v2", 11, unk(false)), compact(0), st("list")}, drain)},
		{Kind: "corpus/create-landed-repaired", Script: seq([]Step{st("list"), cr(1, "w1", unk(true)), st("list")}, drain)},
		{Kind: "corpus/create-not-landed", Script: seq([]Step{st("list"), cr(1, "w1", unk(false)), cr(1, "w2"), st("list")}, drain)},
		{Kind: "corpus/delete-landed-repaired", Script: seq([]Step{cr(0, "v1"), st("list"), del(0, 11, unk(true)), st("list")}, drain)},
		{Kind: "corpus/delete-not-landed", Script: seq([]Step{cr(0, "v1"), st("list"), del(0, 0, unk(false)), st("list")}, drain)},
		{Kind: "corpus/landed-then-overwritten-before-retry", Script: seq([]Step{cr(0, "v1"), st("list"), up(0, "v2", 11, unk(true)), st("list"), up(0, "v3", 12), st("list")}, drain)},
		{Kind: "corpus/landed-delete-then-recreate", Script: seq([]Step{cr(0, "v1"), st("list"), del(0, 0, unk(true)), st("list"), cr(0, "v3"), st("list")}, drain)},
		{Kind: "corpus/landed-then-deleted-before-retry", Script: seq([]Step{cr(0, "v1"), st("list"), up(0, "v2", 11, unk(true)), del(0, 0), st("list")}, drain)},
		{Kind: "corpus/create-fallback-tombstone-unknown", Script: seq([]Step{cr(0, "v1"), del(0, 0), st("list"), cr(0, "v2", envOK(), unk(true)), st("list")}, drain)},
		{Kind: "corpus/create-fallback-tombstone-unknown-not-applied", Script: seq([]Step{cr(0, "v1"), del(0, 0), st("list"), cr(0, "v2", envOK(), unk(false)), st("list")}, drain)},
		{Kind: "corpus/create-fallback-get-recreate-unknown", Script: seq([]Step{st("list"), cr(2, "x1", Env{Kind: "abort"}, unk(true)), st("list")}, drain)},
		{Kind: "corpus/create-fallback-get-existing", Script: seq([]Step{cr(2, "x0"), cr(2, "x1", Env{Kind: "abort"}), st("list")}, drain)},
		{Kind: "corpus/update-as-create-unknown", Script: seq([]Step{st("list"), up(3, "y1", 0, unk(true)), st("list")}, drain)},
		{Kind: "corpus/repair-unknown-applied-then-repaired", Script: seq([]Step{cr(0, "v1"), st("list"), up(0, "v2", 11, unk(true)), st("tick"), retry(unk(true)), st("list")}, drain)},
		{Kind: "corpus/two-outstanding-same-key", Script: seq([]Step{cr(0, "v1"), st("list"), up(0, "v2", 11, unk(true)), up(0, "v3", 12, unk(true)), up(0, "v4", 12, unk(false)), st("list")}, drain)},
		{Kind: "corpus/two-outstanding-second-not-landed", Script: seq([]Step{cr(0, "v1"), st("list"), up(0, "v2", 11, unk(true)), up(0, "v3", 12, unk(false)), cr(1, "w"), st("list")}, drain)},
		{Kind: "corpus/hold-window-compact", Script: seq([]Step{cr(0, "v1"), {Kind: "update", Key: 0, Val: []byte("v2"), Rev: 11, Envs: []Env{unk(true)}, Hold: true},
			compact(0), cr(1, "w"), compact(0), st("list"), st("release"), compact(0), compact(12), compact(11), st("list")}, drain)},
		{Kind: "corpus/repair-races-client-update", Script: seq([]Step{cr(0, "v1"), up(0, "v2", 11, unk(true)), st("list"), st("tick"), st("rget"), up(0, "v3", 12), st("rfinish"), st("list")}, drain)},
		{Kind: "corpus/repair-races-client-delete", Script: seq([]Step{cr(0, "v1"), del(0, 0, unk(true)), st("list"), st("tick"), st("rget"), cr(0, "v3"), compact(0), {Kind: "rfinish", Envs: []Env{unk(true)}}, st("list")}, drain)},
		{Kind: "corpus/getter-fails-node-stays", Script: seq([]Step{cr(0, "v1"), up(0, "v2", 11, unk(true)), st("list"), st("tick"), {Kind: "retry", GetErr: true}, retry(), st("list")}, drain)},
		{Kind: "corpus/young-node-not-retried", Script: seq([]Step{cr(0, "v1"), up(0, "v2", 11, unk(true)), retry(), st("list")}, drain)},
		{Kind: "corpus/compact-requests", Script: seq([]Step{cr(0, "v1"), up(0, "v2", 11), up(0, "v3", 12, unk(true)), compact(1 << 40), compact(11), compact(12), compact(13), st("list")}, drain)},
		{Kind: "corpus/fixed-83355f7-update-future-revision", Script: seq([]Step{cr(0, "v1"), up(0, "v2", 1<<40), del(0, 1<<40), cr(1, "w", unk(true)), st("list")}, drain)},
		{Kind: "corpus/delete-missing-and-stale", Script: seq([]Step{del(0, 0), cr(0, "v1"), del(0, 5), del(0, 0, unk(true)), del(0, 0), st("list")}, drain)},
		// the cap must be strictly below the oldest unresolved revision u=12, whatever is requested, inside the retry window;
		// the compaction really runs: without the cap the landed tombstone / version would be collected and the repair dropped
		{Kind: "corpus/delete-landed-compact-in-window", Script: seq([]Step{cr(0, "v1"), st("list"), del(0, 0, unk(true)), compact(0), compact(1 << 40), compact(12), compact(13), st("list")}, drain)},
		{Kind: "corpus/update-landed-compact-in-window", Script: seq([]Step{cr(0, "v1"), st("list"), up(0, "v2", 11, unk(true)), compact(0), compact(12), compact(13), st("list"), st("tick"), compact(0)}, drain)},
		{Kind: "corpus/create-landed-compact-in-window", Script: seq([]Step{cr(1, "w0"), st("list"), cr(0, "v1", unk(true)), compact(0), compact(12), compact(1 << 40), st("list")}, drain)},
		{Kind: "corpus/delete-not-landed-compact-in-window", Script: seq([]Step{cr(0, "v1"), st("list"), del(0, 11, unk(false)), compact(0), compact(12), st("list")}, drain)},
		// create -> delete -> create again: the creator's second commit (CAS over the tombstone) draws the fault
		{Kind: "corpus/update-as-create-over-tombstone-second-commit-unknown", Script: seq([]Step{cr(0, "v1"), del(0, 0), st("list"), up(0, "v2", 0, envOK(), unk(true)), st("list")}, drain)},
		{Kind: "corpus/recreate-over-tombstone-after-abort-unknown", Script: seq([]Step{cr(0, "v1"), del(0, 0), st("list"), cr(0, "v2", Env{Kind: "abort"}, unk(true)), st("list")}, drain)},
		{Kind: "corpus/recreate-over-tombstone-after-abort-unknown-not-applied", Script: seq([]Step{cr(0, "v1"), del(0, 0), st("list"), cr(0, "v2", Env{Kind: "abort"}, unk(false)), cr(0, "v3"), st("list")}, drain)},
		{Kind: "corpus/outside-origin-is-compare-failure", Script: seq([]Step{cr(0, "v1"), st("list"), up(0, "v2", 11, Env{Kind: "unk", Applied: true, OCas: true})}, drain)},
		{Kind: "corpus/definite-errors", Script: seq([]Step{cr(0, "v1", Env{Kind: "err"}), cr(0, "v2"), up(0, "v3", 12, Env{Kind: "err"}), del(0, 0, Env{Kind: "abort"}), {Kind: "delete", Key: 0, GetErr: true}, st("list")}, drain)},
	}
	for i := range c {
		c[i].Engine = lib.EngMem
	}
	return c
}

// ---------- random cases (generated while running: expected revisions follow the implementation's answers) ----------

type gen struct {
	rnd     *lib.Rand
	r       *Runner
	lastRev [nKeys]uint64 // latest revision the generator believes the key has (0 = none)
	valSeq  int
	allowF1 bool
	allowF2 bool
	faults  int
	parked  bool
	held    bool
	queue   int
	lastIdle bool
	everDeleted [nKeys]bool
	// the key is deleted and a compaction has run since: the real store may have dropped its tombstone and index
	// record (the model does not apply compaction's deletions), so creates of it carry no fault
	compactedDeleted [nKeys]bool
	engine string
}

func (g *gen) val() []byte {
	g.valSeq++
	if g.allowF2 && g.engine != lib.EngTiKV && g.rnd.Chance(1, 4) {
		return []byte{} // TiKV rejects empty values ("can not set nil value"): the write fails definitely there
	}
	return []byte(fmt.Sprintf("v%d", g.valSeq))
}

func (g *gen) faultEnv() Env {
	switch g.rnd.Intn(20) {
	case 0, 1:
		return Env{Kind: "err"}
	case 2, 3:
		return Env{Kind: "abort"}
	default:
		return unk(g.rnd.Chance(11, 20))
	}
}

func (g *gen) key() int {
	if g.rnd.Chance(1, 12) {
		return 3
	}
	return g.rnd.Intn(3)
}

func (g *gen) expected(k int) uint64 {
	cur := g.lastRev[k]
	switch g.rnd.Intn(10) {
	case 0:
		return 0
	case 1:
		if cur > 1 {
			return cur - 1
		}
		return cur
	case 2:
		return uint64(initRev + 1 + g.rnd.Intn(8))
	default:
		return cur
	}
}

func (g *gen) write(faultP, faultQ int) Step {
	k := g.key()
	var s Step
	switch g.rnd.Intn(10) {
	case 0, 1, 2:
		s = Step{Kind: "create", Key: k, Val: g.val()}
	case 3, 4, 5, 6:
		s = Step{Kind: "update", Key: k, Val: g.val(), Rev: g.expected(k)}
	default:
		rev := uint64(0)
		if g.rnd.Chance(2, 5) {
			rev = g.expected(k)
		}
		s = Step{Kind: "delete", Key: k, Rev: rev}
	}
	if s.Kind != "delete" && (s.Kind == "create" || s.Rev == 0) && g.compactedDeleted[k] {
		return s
	}
	if s.Kind != "delete" && g.everDeleted[k] && g.lastRev[k] == 0 && !g.compactedDeleted[k] && g.rnd.Chance(1, 2) {
		// re-create of a deleted key: the creator's second commit (CAS over the tombstone) is the interesting one
		s.Rev = 0
		g.faults++
		first := envOK()
		if g.rnd.Chance(1, 3) {
			first = Env{Kind: "abort"}
		}
		s.Envs = []Env{first, unk(g.rnd.Bool())}
		return s
	}
	if g.rnd.Chance(faultP, faultQ) {
		g.faults++
		e := g.faultEnv()
		if s.Kind != "delete" && g.rnd.Chance(1, 4) {
			// fault on the second commit of a create (fallback paths)
			first := envOK()
			if g.rnd.Chance(1, 3) {
				first = Env{Kind: "abort"}
			}
			s.Envs = []Env{first, e}
		} else {
			s.Envs = []Env{e}
		}
		if !g.parked && !g.held && e.Kind == "unk" && g.rnd.Chance(1, 6) {
			s.Hold = true
		}
	} else if g.rnd.Chance(1, 40) {
		s.GetErr = true
	}
	if s.Kind != "delete" && (s.Kind == "create" || s.Rev == 0) && g.compactedDeleted[k] {
		s.Envs, s.Hold = nil, false
	}
	return s
}

func (g *gen) retryEnv(draining int) []Env {
	if draining >= 2 {
		return nil
	}
	switch g.rnd.Intn(20) {
	case 0, 1, 2:
		return []Env{unk(true)}
	case 3:
		if g.allowF1 {
			return []Env{unk(false)}
		}
	case 4:
		if g.allowF1 {
			return []Env{{Kind: "err"}}
		}
	}
	return nil
}

// learn updates the generator's belief about the keys from what the implementation answered.
func (g *gen) learn(s Step, o Obs) {
	switch s.Kind {
	case "compact":
		for k := range g.lastRev {
			if g.lastRev[k] == 0 {
				g.compactedDeleted[k] = true // deleted, never created, or unknown: no faulted create from now on
			}
		}
	case "create", "update":
		if o.Class == "ok" {
			g.lastRev[s.Key] = o.HeaderRev
			g.compactedDeleted[s.Key] = false
		} else if o.Class == "cond" && o.Kv != nil {
			g.lastRev[s.Key] = o.Kv.Rev
		} else if o.Class == "uncertain" && len(s.Envs) > 0 && s.Envs[len(s.Envs)-1].Applied && g.rnd.Bool() {
			g.lastRev[s.Key] = o.Alloc // a client could have read the landed write
		}
	case "delete":
		if o.Class == "ok" {
			g.lastRev[s.Key] = 0
			g.everDeleted[s.Key] = true
		} else if o.Class == "cond" && o.Kv != nil {
			g.lastRev[s.Key] = o.Kv.Rev
		}
	case "list":
		for i := range g.lastRev {
			g.lastRev[i] = 0
		}
		for _, kv := range o.List {
			if kv.Key < nKeys {
				g.lastRev[kv.Key] = kv.Rev
			}
		}
	}
	g.queue = o.Queue
	switch o.Retry {
	case "parked":
		g.parked = true
	case "success", "failed_put", "unknown_put", "unnecessary", "failed_get":
		g.parked = false
	}
	if s.Kind == "release" {
		g.held = false
	}
	if s.Hold && o.Class == "uncertain" {
		g.held = true
	}
}

// generate runs one random case on runner r, producing the script as it goes.
func generate(rnd *lib.Rand, r *Runner) ([]Step, Result) {
	g := &gen{rnd: rnd, r: r, allowF1: rnd.Chance(1, 3), allowF2: rnd.Chance(1, 8), engine: r.eng}
	t0 := time.Now()
	res := Result{}
	var script []Step
	retriesSinceTick := 0
	do := func(s Step) Obs {
		if (s.Kind == "retry" || s.Kind == "rget") && g.queue > 0 && retriesSinceTick >= 1 && g.lastIdle {
			// a second idle iteration on a young head would come close to the retry interval: let time pass first
			o := r.Exec(st("tick"))
			script = append(script, st("tick"))
			res.Obs = append(res.Obs, o)
			retriesSinceTick = 0
		}
		o := r.Exec(s)
		script = append(script, s)
		res.Obs = append(res.Obs, o)
		g.learn(s, o)
		switch s.Kind {
		case "tick":
			retriesSinceTick = 0
		case "retry", "rget":
			retriesSinceTick++
			g.lastIdle = o.Retry == "idle"
		}
		return o
	}
	nWrites := 3 + rnd.Intn(7)
	do(st("list"))
	for w := 0; w < nWrites && r.failure == ""; w++ {
		// at least one fault per case: the first writes establish keys, then faults are dense
		fp, fq := 2, 5
		if w == 0 {
			fp, fq = 1, 6
		}
		if w == nWrites-1 && g.faults == 0 {
			fp, fq = 1, 1
		}
		do(g.write(fp, fq))
		// interleave
		for n := rnd.Intn(3); n > 0 && r.failure == ""; n-- {
			switch rnd.Intn(12) {
			case 0, 1:
				do(st("list"))
			case 2, 3:
				do(compact([]uint64{0, 0, initRev + uint64(rnd.Intn(12)), 1 << 33}[rnd.Intn(4)]))
			case 4, 5:
				do(st("tick"))
			case 6, 7, 8:
				if g.parked {
					do(Step{Kind: "rfinish", Envs: g.retryEnv(0)})
				} else if !g.held && g.queue > 0 && rnd.Chance(1, 3) {
					do(st("rget"))
				} else {
					s := retry(g.retryEnv(0)...)
					if rnd.Chance(1, 15) {
						s.GetErr = true
					}
					do(s)
				}
			case 9:
				if g.held {
					do(st("release"))
				}
			}
		}
	}
	// drain
	if g.held && r.failure == "" {
		if rnd.Bool() {
			do(compact(0))
		}
		do(st("release"))
	}
	if g.parked && r.failure == "" {
		do(Step{Kind: "rfinish", Envs: g.retryEnv(0)})
	}
	for round := 0; round < 10 && r.failure == ""; round++ {
		if g.queue == 0 {
			break
		}
		if rnd.Chance(1, 4) {
			do(compact(0))
		}
		do(st("tick"))
		for n := g.queue + 1; n > 0 && r.failure == ""; n-- {
			do(retry(g.retryEnv(round)...))
		}
	}
	if r.failure == "" {
		do(retry())
		r.Probe(do)
	}
	res.Tainted = r.tainted
	res.Failure = r.failure
	res.Events = r.Finish()
	res.WallMs = time.Since(t0).Milliseconds()
	return script, res
}

// ---------- Coq rendering ----------

func coqEnv(e Env) string {
	switch e.Kind {
	case "err":
		return "EnvError"
	case "abort":
		return "EnvAbort"
	case "unk":
		return lib.App("EnvUnknown", lib.Bool(e.Applied), lib.Bool(e.OCas))
	}
	return "EnvOk"
}

func firstEnv(envs []Env) string {
	if len(envs) > 0 {
		return coqEnv(envs[0])
	}
	return "EnvOk"
}

func coqStep(s Step) string {
	envs := make([]string, len(s.Envs))
	for i, e := range s.Envs {
		envs[i] = coqEnv(e)
	}
	switch s.Kind {
	case "create":
		return lib.App("DWrite", lib.App("OCreate", lib.N(uint64(s.Key)), lib.Bytes(s.Val)), lib.List(envs), lib.Bool(s.GetErr), lib.Bool(s.Hold))
	case "update":
		return lib.App("DWrite", lib.App("OUpdate", lib.N(uint64(s.Key)), lib.Bytes(s.Val), lib.N(s.Rev)), lib.List(envs), lib.Bool(s.GetErr), lib.Bool(s.Hold))
	case "delete":
		return lib.App("DWrite", lib.App("ODelete", lib.N(uint64(s.Key)), lib.N(s.Rev)), lib.List(envs), lib.Bool(s.GetErr), lib.Bool(s.Hold))
	case "tick":
		return lib.App("DTick", lib.N(tickMs))
	case "retry":
		return lib.App("DRetry", firstEnv(s.Envs), lib.Bool(s.GetErr))
	case "rget":
		return lib.App("DRetryGet", lib.Bool(s.GetErr))
	case "rfinish":
		return lib.App("DRetryFinish", firstEnv(s.Envs))
	case "compact":
		return lib.App("DCompact", lib.N(s.Rev))
	case "list":
		return "DList"
	case "release":
		return "DRelease"
	}
	return "DList"
}

func coqKvo(kv *KVObs) string {
	if kv == nil {
		return lib.None()
	}
	return lib.Some(lib.Pair(lib.Bytes(kv.Val), lib.N(kv.Rev)))
}

var retryStates = map[string]string{"idle": "RSIdle", "failed_get": "RSFailedGet", "unnecessary": "RSUnnecessary",
	"success": "RSSuccess", "failed_put": "RSFailedPut", "unknown_put": "RSUnknownPut", "parked": "RSParked"}

func coqObs(s Step, o Obs) string {
	d := "ONone"
	switch s.Kind {
	case "create", "update", "delete":
		var r string
		switch o.Class {
		case "ok":
			r = lib.App("ROk", lib.N(o.HeaderRev), coqKvo(o.Kv))
		case "cond":
			r = lib.App("RCond", lib.N(o.HeaderRev), coqKvo(o.Kv))
		case "uncertain":
			r = "(RErr true)"
		default:
			r = "(RErr false)"
		}
		d = lib.App("OResp", r, lib.Bool(o.Unk))
	case "compact":
		if o.Class == "ok" {
			d = lib.App("OResp", lib.App("RCompacted", lib.N(o.HeaderRev)), "false")
		} else {
			d = lib.App("OResp", "(RErr false)", "false")
		}
	case "retry", "rget", "rfinish":
		d = lib.App("ORetry", retryStates[o.Retry])
	case "list":
		xs := make([]string, len(o.List))
		for i, kv := range o.List {
			xs[i] = fmt.Sprintf("(%d, %s, %d)", kv.Key, lib.Bytes(kv.Val), kv.Rev)
		}
		d = lib.App("OListed", lib.N(o.HeaderRev), lib.List(xs))
	}
	return fmt.Sprintf("{| o_d := %s; o_committed := %d; o_queue := %d |}", d, o.Committed, o.Queue)
}

func coqEvent(e EvObs) string {
	v := "VPut"
	if e.Del {
		v = "VDelete"
	} else if e.Create {
		v = "VCreate"
	}
	return fmt.Sprintf("(%s, %d, %s, %d, %d)", v, e.Key, lib.Bytes(e.Val), e.Rev, e.KvRev)
}

func coqCase(script []Step, res Result) string {
	ss := make([]string, len(script))
	for i, s := range script {
		ss[i] = coqStep(s)
	}
	n := len(res.Obs)
	os_ := make([]string, n)
	for i := 0; i < n; i++ {
		os_[i] = coqObs(script[i], res.Obs[i])
	}
	es := make([]string, len(res.Events))
	for i, e := range res.Events {
		es[i] = coqEvent(e)
	}
	return fmt.Sprintf("{| c_script := %s;\n    c_obs := %s;\n    c_events := %s |}", lib.List(ss), lib.List(os_), lib.List(es))
}

// ---------- child: runs its share of the plans ----------

type childOut struct {
	Outside  bool        `json:"outside,omitempty"` // a step outside the stated assumptions: correspondence only
	Invalid  bool        `json:"invalid,omitempty"` // not outside and not valid (c09_validb = false): must not happen
	ID       int         `json:"id"`
	Kind     string      `json:"kind"`
	Coq      string      `json:"coq"`
	JSON     interface{} `json:"json"`
	Trivial  bool        `json:"trivial"`
	Outcomes []string    `json:"outcomes"`
	Failure  string      `json:"failure,omitempty"`
	Retries  int         `json:"retries,omitempty"`
	WallMs   int64       `json:"wall_ms"`
}

func sameResult(a, b Result) bool {
	x, _ := json.Marshal(struct {
		O []Obs
		E []EvObs
	}{a.Obs, a.Events})
	y, _ := json.Marshal(struct {
		O []Obs
		E []EvObs
	}{b.Obs, b.Events})
	return string(x) == string(y)
}

func runPlan(p Plan, scratch string) childOut {
	out := childOut{ID: p.ID, Kind: p.Kind}
	var script []Step
	var res Result
	for attempt := 0; attempt < 6; attempt++ {
		r, err := NewRunner(p.Engine, scratch)
		if err != nil {
			out.Failure = "cannot start backend: " + err.Error()
			return out
		}
		if script == nil && p.Script == nil {
			script, res = generate(lib.NewRand(p.Seed), r)
		} else {
			if script == nil {
				script = p.Script
			}
			script, res = r.Run(script)
		}
		r.Close()
		out.Retries = attempt
		if !res.Tainted || res.Failure != "" {
			break
		}
	}
	out.WallMs = res.WallMs
	if res.Failure != "" {
		out.Failure = res.Failure
	} else if res.Tainted {
		out.Failure = "timing: a retry iteration on a freshly queued node ran too late in six attempts (machine overloaded?)"
	}
	out.Coq = coqCase(script, res)
	outside, valid := scriptValidity(script)
	out.Outside = outside
	out.Invalid = !outside && !valid
	out.JSON = map[string]interface{}{"engine": p.Engine, "script": script, "obs": res.Obs, "events": res.Events}
	seen := map[string]bool{}
	nontriv := false
	for i, o := range res.Obs {
		var oc string
		switch {
		case o.Retry != "":
			oc = "retry-" + o.Retry
			if o.Retry != "idle" {
				nontriv = true
			}
		case o.Class != "" && i < len(script) && script[i].Kind != "list":
			oc = script[i].Kind + "-" + o.Class
			if o.Unk {
				nontriv = true
				// which commit of the request drew the unknown outcome
				for j, e := range script[i].Envs {
					if e.Kind == "unk" {
						fk := fmt.Sprintf("fault:%s-commit%d", script[i].Kind, j+1)
						if j > 0 {
							fk += "-after-" + script[i].Envs[0].Kind
						}
						if e.Applied {
							fk += "-applied"
						} else {
							fk += "-not-applied"
						}
						if !seen[fk] {
							seen[fk] = true
							out.Outcomes = append(out.Outcomes, fk)
						}
						break
					}
				}
			}
		}
		if oc != "" && !seen[oc] {
			seen[oc] = true
			out.Outcomes = append(out.Outcomes, oc)
		}
	}
	sort.Strings(out.Outcomes)
	out.Trivial = !nontriv
	return out
}

// ---------- classification table of tikv/batch.go against the mock ----------

type tableRow struct {
	Name      string `json:"name"`
	Uncertain bool   `json:"classified_uncertain"`
	Cas       bool   `json:"classified_cas"`
	Want      bool   `json:"want_uncertain"`
}

func tikvTable(scratch string) ([]tableRow, []string) {
	var rows []tableRow
	var bad []string
	// (a) the five origins wrapped as the adapter wraps them: uncertain, never a compare failure
	for _, o := range []struct {
		n string
		e error
	}{{"context.DeadlineExceeded", context.DeadlineExceeded}, {"context.Canceled", context.Canceled},
		{"tikverr.ErrBodyMissing", tikverr.ErrBodyMissing}, {"tikverr.ErrTiKVServerTimeout", tikverr.ErrTiKVServerTimeout},
		{"tikverr.ErrUnknown", tikverr.ErrUnknown}} {
		w := storage.NewErrUncertainResult(o.e)
		row := tableRow{Name: "wrap " + o.n, Uncertain: errors.Is(w, storage.ErrUncertainResult), Cas: errors.Is(w, storage.ErrCASFailed), Want: true}
		rows = append(rows, row)
		if !row.Uncertain || row.Cas || !errors.Is(w, o.e) {
			bad = append(bad, row.Name)
		}
	}
	// (b) the adapter itself on the mock: a commit under a cancelled / expired context is classified unknown-outcome
	// or fails definitely before anything is sent; a compare failure is never classified unknown
	kv, closer, err := lib.NewEngine(lib.EngTiKV, scratch)
	if err != nil {
		return rows, append(bad, "tikv mock: "+err.Error())
	}
	defer closer()
	bg := context.Background()
	b := kv.BeginBatchWrite()
	b.PutIfNotExist([]byte("/t/a"), []byte("1"), 0)
	if err := b.Commit(bg); err != nil {
		bad = append(bad, "plain commit failed: "+err.Error())
	}
	b = kv.BeginBatchWrite()
	b.PutIfNotExist([]byte("/t/a"), []byte("2"), 0)
	err = b.Commit(bg)
	row := tableRow{Name: "mock: put-if-absent on existing key", Uncertain: errors.Is(err, storage.ErrUncertainResult), Cas: errors.Is(err, storage.ErrCASFailed)}
	rows = append(rows, row)
	if row.Uncertain || !row.Cas {
		bad = append(bad, row.Name)
	}
	b = kv.BeginBatchWrite()
	b.CAS([]byte("/t/a"), []byte("3"), []byte("zz"), 0)
	err = b.Commit(bg)
	row = tableRow{Name: "mock: compare-and-swap mismatch", Uncertain: errors.Is(err, storage.ErrUncertainResult), Cas: errors.Is(err, storage.ErrCASFailed)}
	rows = append(rows, row)
	if row.Uncertain || !row.Cas {
		bad = append(bad, row.Name)
	}
	cctx, cancel := context.WithCancel(bg)
	cancel()
	b = kv.BeginBatchWrite()
	b.Put([]byte("/t/b"), []byte("1"), 0)
	err = b.Commit(cctx)
	row = tableRow{Name: "mock: commit under a cancelled context", Uncertain: errors.Is(err, storage.ErrUncertainResult), Cas: errors.Is(err, storage.ErrCASFailed), Want: true}
	rows = append(rows, row)
	if err != nil && (row.Cas || (errors.Is(err, context.Canceled) && !row.Uncertain)) {
		bad = append(bad, row.Name)
	}
	dctx, cancel2 := context.WithDeadline(bg, time.Now().Add(-time.Second))
	b = kv.BeginBatchWrite()
	b.Put([]byte("/t/c"), []byte("1"), 0)
	err = b.Commit(dctx)
	cancel2()
	row = tableRow{Name: "mock: commit past the deadline", Uncertain: errors.Is(err, storage.ErrUncertainResult), Cas: errors.Is(err, storage.ErrCASFailed), Want: true}
	rows = append(rows, row)
	if err != nil && (row.Cas || (errors.Is(err, context.DeadlineExceeded) && !row.Uncertain)) {
		bad = append(bad, row.Name)
	}
	return rows, bad
}

// ---------- main ----------

func plans(seed uint64, tier string) []Plan {
	ps := corpus()
	nMem, nBadger, nTikv := 110, 0, 0
	switch tier {
	case "thorough":
		nMem, nBadger, nTikv = 700, 150, 150
	case "search":
		nMem, nBadger, nTikv = 400, 30, 30
	}
	if tier != "quick" {
		// the corpus on the other engines as well
		base := corpus()
		for _, e := range []string{lib.EngBadger, lib.EngTiKV} {
			for _, p := range base {
				if e == lib.EngTiKV && p.Kind == "corpus/F2-empty-value-landed" {
					continue // TiKV rejects empty values
				}
				p.Engine = e
				p.Kind = p.Kind + "@" + e
				ps = append(ps, p)
			}
		}
	}
	add := func(n int, eng string) {
		for i := 0; i < n; i++ {
			ps = append(ps, Plan{Kind: "random@" + eng, Engine: eng})
		}
	}
	add(nMem, lib.EngMem)
	add(nBadger, lib.EngBadger)
	add(nTikv, lib.EngTiKV)
	// the same fault grid behind the front ends a deployment has (fronts.go): the storage metrics decorator over the
	// fault injector, and client writes entering through etcd.RPCServer.Txn. Appended after the plain plans so that
	// their case numbers (and seeds) stay what they were.
	nFront, nFrontOther := 16, 0
	switch tier {
	case "thorough":
		nFront, nFrontOther = 120, 40
	case "search":
		nFront, nFrontOther = 60, 10
	}
	for _, f := range []string{frontMetrics, frontEtcd} {
		for _, p := range corpus() {
			p.Engine = f + "+" + lib.EngMem
			p.Kind = p.Kind + "@" + p.Engine
			ps = append(ps, p)
		}
		add(nFront, f+"+"+lib.EngMem)
		add(nFrontOther, f+"+"+lib.EngTiKV)
		add(nFrontOther, f+"+"+lib.EngBadger)
	}
	for i := range ps {
		ps[i].ID = i
		ps[i].Seed = seed*1000003 + uint64(i)*7919 + 17
	}
	return ps
}

func main() {
	child := flag.Int("child", -1, "internal: child index")
	nchild := flag.Int("nchild", 1, "internal: number of children")
	childOutFile := flag.String("childout", "", "internal: child output file")
	args := lib.ParseArgs()
	lib.QuietLogs()
	ps := plans(args.Seed, args.Tier)

	if *child >= 0 {
		backend.VerifSetIntervals(retryIntervalMs*time.Millisecond, checkIntervalMs*time.Millisecond)
		installYieldHook()
		f, err := os.Create(*childOutFile)
		if err != nil {
			fmt.Fprintln(os.Stderr, err)
			os.Exit(2)
		}
		w := bufio.NewWriter(f)
		enc := json.NewEncoder(w)
		for _, p := range ps {
			if p.ID%*nchild != *child {
				continue
			}
			if args.Only >= 0 && p.ID != args.Only {
				continue
			}
			_ = enc.Encode(runPlan(p, args.Scratch))
			w.Flush()
		}
		f.Close()
		return
	}

	t0 := time.Now()
	nc := 10
	if len(ps) > 400 {
		nc = 14
	}
	self, _ := os.Executable()
	var wg sync.WaitGroup
	files := make([]string, nc)
	errs := make([]error, nc)
	for i := 0; i < nc; i++ {
		files[i] = filepath.Join(args.OutDir, fmt.Sprintf("child_%02d.jsonl", i))
		wg.Add(1)
		go func(i int) {
			defer wg.Done()
			cmd := exec.Command(self, "-child", fmt.Sprint(i), "-nchild", fmt.Sprint(nc), "-childout", files[i],
				"-seed", fmt.Sprint(args.Seed), "-tier", args.Tier, "-outdir", args.OutDir, "-scratch", args.Scratch, "-only", fmt.Sprint(args.Only))
			cmd.Stderr = os.Stderr
			errs[i] = cmd.Run()
		}(i)
	}
	wg.Wait()
	outs := map[int]childOut{}
	for i, fn := range files {
		f, err := os.Open(fn)
		if err != nil {
			continue
		}
		sc := bufio.NewScanner(f)
		sc.Buffer(make([]byte, 1<<20), 1<<26)
		for sc.Scan() {
			var o childOut
			if json.Unmarshal(sc.Bytes(), &o) == nil {
				outs[o.ID] = o
			}
		}
		f.Close()
		_ = os.Remove(fn)
		_ = i
	}
	w := lib.NewWriter(args, "C09", "c09", "From KB Require Import Model.C09Cases.", "c09_case", "c09_check", "c09_oracle", 120)
	retries, maxWall := 0, int64(0)
	outsideCases, invalidCases := []int{}, []int{}
	for _, p := range ps {
		o, ok := outs[p.ID]
		if !ok {
			if args.Only < 0 || args.Only == p.ID {
				w.Add(lib.Case{Kind: p.Kind, Coq: "{| c_script := []; c_obs := []; c_events := [] |}", JSON: map[string]interface{}{"lost": true}, Trivial: true})
				w.Fail(lib.ImplFailure{CaseID: p.ID, What: fmt.Sprintf("case %d (%s): the child process running it died (child errors: %v)", p.ID, p.Kind, errs[p.ID%nc])})
			} else {
				w.Add(lib.Case{Kind: p.Kind, Coq: "{| c_script := []; c_obs := []; c_events := [] |}", Trivial: true})
			}
			continue
		}
		w.Add(lib.Case{Kind: p.Kind, Coq: o.Coq, JSON: o.JSON, Trivial: o.Trivial, Outcomes: o.Outcomes})
		if o.Failure != "" {
			w.Fail(lib.ImplFailure{CaseID: p.ID, What: o.Failure, Case: o.JSON})
		}
		if o.Outside {
			outsideCases = append(outsideCases, p.ID)
		}
		if o.Invalid {
			invalidCases = append(invalidCases, p.ID)
			w.Fail(lib.ImplFailure{CaseID: p.ID, What: "the driver produced a script that is neither valid (c09_validb) nor marked outside the stated assumptions: it would not be covered by C09_oracle_sound", Case: o.JSON})
		}
		retries += o.Retries
		if o.WallMs > maxWall {
			maxWall = o.WallMs
		}
	}
	// classification table (Go side)
	rows, bad := tikvTable(args.Scratch)
	w.Stats.Extra["tikv_classification_table"] = rows
	for _, b := range bad {
		w.Fail(lib.ImplFailure{CaseID: -1, What: "unknown-outcome classification table: " + b})
	}
	// the decorator hands every class of commit error on unchanged (Model/C09Fronts.v deco_commit)
	drows, dbad := decoratorTable(args.Scratch)
	w.Stats.Extra["metrics_decorator_error_table"] = drows
	for _, b := range dbad {
		w.Fail(lib.ImplFailure{CaseID: -1, What: "storage metrics decorator changes the class of a commit error: " + b})
	}
	// validity: c09_check evaluates c09_validb on every case that is not marked outside (Coq side); the same count here
	w.Stats.Extra["invalid_cases"] = len(invalidCases)
	w.Stats.Extra["invalid_case_ids"] = invalidCases
	w.Stats.Extra["outside_cases"] = map[string]interface{}{"count": len(outsideCases), "ids": outsideCases,
		"reason": "a step_outside step (unknown-outcome error whose origin is a compare failure: contract corner no engine of /repo produces; or a client value equal to the deletion marker, C03's finding): evaluated for model correspondence only, c09_oracle reports nothing on them by definition"}
	w.Stats.Extra["timing_reruns"] = retries
	w.Stats.Extra["slowest_case_ms"] = maxWall
	w.Stats.Extra["driver_wall_s"] = time.Since(t0).Seconds()
	w.Stats.Extra["intervals_ms"] = map[string]int{"retry": retryIntervalMs, "check": checkIntervalMs, "tick": tickMs}
	if err := w.Finish("corpus of fixed fault placements (both findings, every verb, create fallbacks, repair racing client writes, sequencer held between classification and Append) + random write histories over 4 keys with unknown-outcome / definite / abort faults on client commits and repair commits, expected revisions following the implementation's answers; distinct = SHA-256 of the Coq case; non-trivial = an unknown outcome was drawn by a client commit or a retry iteration went past the age test"); err != nil {
		fmt.Fprintln(os.Stderr, err)
		os.Exit(2)
	}
}
