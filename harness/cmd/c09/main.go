package main

import (
	"encoding/json"
	"fmt"
	"os"
	"time"

	"github.com/kubewharf/kubebrain/pkg/backend"

	"kbverif/lib"
)

func u(k int, v string, rev uint64, envs ...Env) Step {
	return Step{Kind: "update", Key: k, Val: []byte(v), Rev: rev, Envs: envs}
}

func main() {
	lib.QuietLogs()
	backend.VerifSetIntervals(retryIntervalMs*time.Millisecond, checkIntervalMs*time.Millisecond)
	installYieldHook()
	unkA := Env{Kind: "unk", Applied: true}
	unkN := Env{Kind: "unk", Applied: false}
	_ = unkN
	scripts := map[string][]Step{
		"F1": {
			{Kind: "create", Key: 0, Val: []byte("v1")},
			{Kind: "list"},
			u(0, "v2", 11, unkA),
			{Kind: "retry"},
			{Kind: "tick"},
			{Kind: "retry", Envs: []Env{unkN}},
			{Kind: "retry"},
			{Kind: "tick"},
			{Kind: "retry"},
			{Kind: "retry"},
			{Kind: "list"},
		},
		"F2-empty": {
			{Kind: "create", Key: 0, Val: []byte("v1")},
			{Kind: "list"},
			u(0, "", 11, unkA),
			{Kind: "tick"},
			{Kind: "retry"},
			{Kind: "retry"},
			{Kind: "list"},
		},
		"ok-repair": {
			{Kind: "create", Key: 0, Val: []byte("v1")},
			{Kind: "list"},
			u(0, "v2", 11, unkA),
			{Kind: "compact"},
			{Kind: "tick"},
			{Kind: "retry"},
			{Kind: "retry"},
			{Kind: "list"},
		},
		"hold": {
			{Kind: "create", Key: 0, Val: []byte("v1")},
			{Kind: "update", Key: 0, Val: []byte("v2"), Rev: 11, Envs: []Env{unkA}, Hold: true},
			{Kind: "compact"},
			{Kind: "create", Key: 1, Val: []byte("w")},
			{Kind: "release"},
			{Kind: "compact"},
			{Kind: "tick"},
			{Kind: "rget"},
			u(0, "v3", 12),
			{Kind: "rfinish"},
			{Kind: "retry"},
			{Kind: "list"},
		},
	}
	for _, name := range os.Args[1:] {
		r, err := NewRunner(lib.EngMem, "/var/tmp")
		if err != nil {
			fmt.Println("ERR", err)
			continue
		}
		res := r.Run(scripts[name])
		r.Close()
		b, _ := json.Marshal(res)
		fmt.Println(name, string(b))
	}
}
