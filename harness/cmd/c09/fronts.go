// Front ends of driver c09. The same scripts, the same model and the same oracle, but the client writes (and the
// engine) are reached the way a deployment reaches them:
//   metrics+<engine> : the engine is wrapped by the storage metrics decorator (pkg/storage/metrics, what
//                      --enable-storage-metrics puts around it) and the fault injector sits BELOW the decorator, so
//                      every injected error passes through it on its way to the backend;
//   etcd+<engine>    : create / update / delete enter through etcd.RPCServer.Txn (leader stub) in the transaction
//                      shapes kube-apiserver sends, and what is observed is what the etcd client sees: the error, or
//                      TxnResponse.Succeeded / header revision / the key-value of the failure branch.
package main

import (
	"context"
	"strings"

	"go.etcd.io/etcd/api/v3/etcdserverpb"

	"github.com/kubewharf/kubebrain/pkg/metrics"
	"github.com/kubewharf/kubebrain/pkg/server/etcd"
	"github.com/kubewharf/kubebrain/pkg/server/service/etcdproxy"
	"github.com/kubewharf/kubebrain/pkg/server/service/leader"
	"github.com/kubewharf/kubebrain/pkg/storage"
	imetrics "github.com/kubewharf/kubebrain/pkg/storage/metrics"

	"kbverif/lib"
)

const (
	frontMetrics = "metrics"
	frontEtcd    = "etcd"
)

// splitFront: "etcd+memkv" -> ("etcd", "memkv"); "memkv" -> ("", "memkv")
func splitFront(eng string) (string, string) {
	if i := strings.Index(eng, "+"); i >= 0 {
		return eng[:i], eng[i+1:]
	}
	return "", eng
}

func decorate(front string, kv storage.KvStorage) storage.KvStorage {
	if front == frontMetrics {
		return imetrics.NewKvStorage(kv, &lib.NopMetrics{})
	}
	return kv
}

type nopSyncer struct{}

func (nopSyncer) SyncReadRevision() error { return nil }
func (nopSyncer) Close() error            { return nil }

type leaderPeers struct {
	*leader.Stub
	nopSyncer
	etcdproxy.EtcdProxy
}

func newEtcdFront(r *Runner, m metrics.Metrics) *etcd.RPCServer {
	p := &leaderPeers{Stub: &leader.Stub{ElectionInfo: leader.ElectionInfo{LeaderAddress: "127.0.0.1:0", IsLeader: true}},
		EtcdProxy: etcdproxy.NewDisabledEtcdProxy()}
	return etcd.New(r.b, m, p)
}

func cmpMod(k []byte, rev int64) *etcdserverpb.Compare {
	return &etcdserverpb.Compare{Result: etcdserverpb.Compare_EQUAL, Target: etcdserverpb.Compare_MOD, Key: k,
		TargetUnion: &etcdserverpb.Compare_ModRevision{ModRevision: rev}}
}
func opPut(k, v []byte) *etcdserverpb.RequestOp {
	return &etcdserverpb.RequestOp{Request: &etcdserverpb.RequestOp_RequestPut{RequestPut: &etcdserverpb.PutRequest{Key: k, Value: v}}}
}
func opGet(k []byte) *etcdserverpb.RequestOp {
	return &etcdserverpb.RequestOp{Request: &etcdserverpb.RequestOp_RequestRange{RequestRange: &etcdserverpb.RangeRequest{Key: k}}}
}
func opDel(k []byte) *etcdserverpb.RequestOp {
	return &etcdserverpb.RequestOp{Request: &etcdserverpb.RequestOp_RequestDeleteRange{RequestDeleteRange: &etcdserverpb.DeleteRangeRequest{Key: k}}}
}

// etcdWrite sends one client write as the transaction kube-apiserver would send and fills the observation from the
// TxnResponse exactly as it is filled from the backend's own response types.
func (r *Runner) etcdWrite(ctx context.Context, st Step, key []byte, o *Obs) error {
	var txn *etcdserverpb.TxnRequest
	switch st.Kind {
	case "create":
		txn = &etcdserverpb.TxnRequest{Compare: []*etcdserverpb.Compare{cmpMod(key, 0)}, Success: []*etcdserverpb.RequestOp{opPut(key, st.Val)}}
	case "update":
		txn = &etcdserverpb.TxnRequest{Compare: []*etcdserverpb.Compare{cmpMod(key, int64(st.Rev))},
			Success: []*etcdserverpb.RequestOp{opPut(key, st.Val)}, Failure: []*etcdserverpb.RequestOp{opGet(key)}}
	case "delete":
		if st.Rev == 0 {
			txn = &etcdserverpb.TxnRequest{Success: []*etcdserverpb.RequestOp{opGet(key), opDel(key)}}
		} else {
			txn = &etcdserverpb.TxnRequest{Compare: []*etcdserverpb.Compare{cmpMod(key, int64(st.Rev))},
				Success: []*etcdserverpb.RequestOp{opDel(key)}, Failure: []*etcdserverpb.RequestOp{opGet(key)}}
		}
	}
	resp, err := r.srv.Txn(ctx, txn)
	if err != nil {
		return err
	}
	o.Class = "cond"
	if resp.Succeeded {
		o.Class = "ok"
	}
	if resp.Header != nil {
		o.HeaderRev = uint64(resp.Header.Revision)
	}
	for _, op := range resp.Responses {
		if rr := op.GetResponseRange(); rr != nil && len(rr.Kvs) > 0 {
			kv := rr.Kvs[0]
			o.Kv = &KVObs{Key: keyIndex(kv.Key), Val: append([]byte{}, kv.Value...), Rev: uint64(kv.ModRevision)}
		}
	}
	return nil
}
