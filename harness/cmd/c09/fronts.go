// Front ends of driver c09. The same scripts, the same model and the same oracle, but the client writes (and the
// engine) are reached the way a deployment reaches them:
//   metrics+<engine> : the engine is wrapped by the storage metrics decorator (pkg/storage/metrics, what
//                      --enable-storage-metrics puts around it) and the fault injector sits BELOW the decorator, so
//                      every injected error passes through it on its way to the backend;
//   etcd+<engine>    : create / update / delete enter through etcd.RPCServer.Txn (leader stub) in the transaction
//                      shapes kube-apiserver sends, and what is observed is what the etcd client sees: the error, or
//                      TxnResponse.Succeeded / header revision / the key-value of the failure branch.
package main

import (
	"context"
	"errors"
	"strings"

	"go.etcd.io/etcd/api/v3/etcdserverpb"

	"github.com/kubewharf/kubebrain/pkg/metrics"
	"github.com/kubewharf/kubebrain/pkg/server/etcd"
	"github.com/kubewharf/kubebrain/pkg/server/service/etcdproxy"
	"github.com/kubewharf/kubebrain/pkg/server/service/leader"
	"github.com/kubewharf/kubebrain/pkg/storage"
	imetrics "github.com/kubewharf/kubebrain/pkg/storage/metrics"

	"kbverif/lib"
)

const (
	frontMetrics = "metrics"
	frontEtcd    = "etcd"
)

// splitFront: "etcd+memkv" -> ("etcd", "memkv"); "memkv" -> ("", "memkv")
func splitFront(eng string) (string, string) {
	if i := strings.Index(eng, "+"); i >= 0 {
		return eng[:i], eng[i+1:]
	}
	return "", eng
}

func decorate(front string, kv storage.KvStorage) storage.KvStorage {
	if front == frontMetrics {
		return imetrics.NewKvStorage(kv, &lib.NopMetrics{})
	}
	return kv
}

type nopSyncer struct{}

func (nopSyncer) SyncReadRevision() error { return nil }
func (nopSyncer) Close() error            { return nil }

type leaderPeers struct {
	*leader.Stub
	nopSyncer
	etcdproxy.EtcdProxy
}

func newEtcdFront(r *Runner, m metrics.Metrics) *etcd.RPCServer {
	p := &leaderPeers{Stub: &leader.Stub{ElectionInfo: leader.ElectionInfo{LeaderAddress: "127.0.0.1:0", IsLeader: true}},
		EtcdProxy: etcdproxy.NewDisabledEtcdProxy()}
	return etcd.New(r.b, m, p)
}

func cmpMod(k []byte, rev int64) *etcdserverpb.Compare {
	return &etcdserverpb.Compare{Result: etcdserverpb.Compare_EQUAL, Target: etcdserverpb.Compare_MOD, Key: k,
		TargetUnion: &etcdserverpb.Compare_ModRevision{ModRevision: rev}}
}
func opPut(k, v []byte) *etcdserverpb.RequestOp {
	return &etcdserverpb.RequestOp{Request: &etcdserverpb.RequestOp_RequestPut{RequestPut: &etcdserverpb.PutRequest{Key: k, Value: v}}}
}
func opGet(k []byte) *etcdserverpb.RequestOp {
	return &etcdserverpb.RequestOp{Request: &etcdserverpb.RequestOp_RequestRange{RequestRange: &etcdserverpb.RangeRequest{Key: k}}}
}
func opDel(k []byte) *etcdserverpb.RequestOp {
	return &etcdserverpb.RequestOp{Request: &etcdserverpb.RequestOp_RequestDeleteRange{RequestDeleteRange: &etcdserverpb.DeleteRangeRequest{Key: k}}}
}

// etcdWrite sends one client write as the transaction kube-apiserver would send and fills the observation from the
// TxnResponse exactly as it is filled from the backend's own response types.
func (r *Runner) etcdWrite(ctx context.Context, st Step, key []byte, o *Obs) error {
	var txn *etcdserverpb.TxnRequest
	switch st.Kind {
	case "create":
		txn = &etcdserverpb.TxnRequest{Compare: []*etcdserverpb.Compare{cmpMod(key, 0)}, Success: []*etcdserverpb.RequestOp{opPut(key, st.Val)}}
	case "update":
		txn = &etcdserverpb.TxnRequest{Compare: []*etcdserverpb.Compare{cmpMod(key, int64(st.Rev))},
			Success: []*etcdserverpb.RequestOp{opPut(key, st.Val)}, Failure: []*etcdserverpb.RequestOp{opGet(key)}}
	case "delete":
		if st.Rev == 0 {
			txn = &etcdserverpb.TxnRequest{Success: []*etcdserverpb.RequestOp{opGet(key), opDel(key)}}
		} else {
			txn = &etcdserverpb.TxnRequest{Compare: []*etcdserverpb.Compare{cmpMod(key, int64(st.Rev))},
				Success: []*etcdserverpb.RequestOp{opDel(key)}, Failure: []*etcdserverpb.RequestOp{opGet(key)}}
		}
	}
	resp, err := r.srv.Txn(ctx, txn)
	if err != nil {
		return err
	}
	o.Class = "cond"
	if resp.Succeeded {
		o.Class = "ok"
	}
	if resp.Header != nil {
		o.HeaderRev = uint64(resp.Header.Revision)
	}
	for _, op := range resp.Responses {
		if rr := op.GetResponseRange(); rr != nil && len(rr.Kvs) > 0 {
			kv := rr.Kvs[0]
			o.Kv = &KVObs{Key: keyIndex(kv.Key), Val: append([]byte{}, kv.Value...), Rev: uint64(kv.ModRevision)}
		}
	}
	return nil
}

// ---------- the decorator hands a commit's error on unchanged (link to Model/C09Fronts.v deco_commit) ----------

type decoRow struct {
	Name     string `json:"name"`
	Same     bool   `json:"same_error_value"`
	Cas      bool   `json:"is_cas_failed"`
	NotFound bool   `json:"is_key_not_found"`
	Unc      bool   `json:"is_uncertain"`
	Conflict bool   `json:"as_conflict"`
}

// decoratorTable: every class of commit error the backend distinguishes (errors.Is on the three sentinels, errors.As
// on *storage.Conflict) is injected below imetrics.NewKvStorage; what comes out of the decorator's Commit must be
// classified the same way. Returns the rows and the names of those that differ.
func decoratorTable(scratch string) ([]decoRow, []string) {
	inner, closer, err := lib.NewEngine(lib.EngMem, scratch)
	if err != nil {
		return nil, []string{"engine: " + err.Error()}
	}
	defer closer()
	var inject error
	w := &lib.Wrap{KvStorage: inner, CommitFault: func() (error, bool) { return inject, false }}
	kv := imetrics.NewKvStorage(w, &lib.NopMetrics{})
	classes := func(e error) (bool, bool, bool, bool) {
		var c *storage.Conflict
		return errors.Is(e, storage.ErrCASFailed), errors.Is(e, storage.ErrKeyNotFound), errors.Is(e, storage.ErrUncertainResult), errors.As(e, &c)
	}
	cases := []struct {
		name string
		err  error
	}{
		{"bare ErrCASFailed", storage.ErrCASFailed},
		{"*storage.Conflict", storage.NewErrConflict(0, []byte("k"), []byte("v"))},
		{"ErrKeyNotFound", storage.ErrKeyNotFound},
		{"uncertain(injected)", storage.NewErrUncertainResult(errInjected)},
		{"uncertain(ErrCASFailed)", storage.NewErrUncertainResult(storage.ErrCASFailed)},
		{"uncertain(context.DeadlineExceeded)", storage.NewErrUncertainResult(context.DeadlineExceeded)},
		{"plain injected error", errInjected},
		{"ErrUnavailable", storage.ErrUnavailable},
	}
	var rows []decoRow
	var bad []string
	for _, c := range cases {
		inject = c.err
		b := kv.BeginBatchWrite()
		b.Put([]byte("\x00verif-deco"), []byte("x"), 0)
		got := b.Commit(context.Background())
		a1, a2, a3, a4 := classes(c.err)
		g1, g2, g3, g4 := classes(got)
		row := decoRow{Name: c.name, Same: got == c.err, Cas: g1, NotFound: g2, Unc: g3, Conflict: g4}
		rows = append(rows, row)
		if got == nil || a1 != g1 || a2 != g2 || a3 != g3 || a4 != g4 {
			bad = append(bad, c.name)
		}
	}
	// no injected error: the batch commits
	inject = nil
	b := kv.BeginBatchWrite()
	b.Put([]byte("\x00verif-deco"), []byte("x"), 0)
	if got := b.Commit(context.Background()); got != nil {
		bad = append(bad, "no error: "+got.Error())
	}
	rows = append(rows, decoRow{Name: "no error", Same: true})
	return rows, bad
}

// ---------- validity of a script (Model/C09Cases.v: step_outside, dstep_wfb), as the driver knows it ----------

func envOutside(e Env) bool { return e.Kind == "unk" && e.OCas }

// stepOutside: an unknown-outcome error whose origin is a compare failure, or a client value equal to the deletion marker
func stepOutside(s Step) bool {
	switch s.Kind {
	case "create", "update", "delete":
		for _, e := range s.Envs {
			if envOutside(e) {
				return true
			}
		}
		return s.Kind != "delete" && string(s.Val) == "tombstone"
	case "retry", "rfinish":
		return len(s.Envs) > 0 && envOutside(s.Envs[0])
	}
	return false
}

// stepValid: dstep_wfb
func stepValid(s Step) bool {
	if stepOutside(s) {
		return false
	}
	if (s.Kind == "retry" || s.Kind == "rfinish") && len(s.Envs) > 0 && s.Envs[0].Kind == "abort" {
		return false
	}
	return true
}

// scriptValidity: (outside, valid) of c09_check's third clause
func scriptValidity(script []Step) (bool, bool) {
	outside, valid := false, true
	for _, s := range script {
		if stepOutside(s) {
			outside = true
		}
		if !stepValid(s) {
			valid = false
		}
	}
	return outside, valid
}
