// Runner of driver c09: executes one script (client writes with environment choices on their
// commits, clock ticks, single iterations of the retry loop, compactions, lists) on a real
// backend.NewBackend over lib.Wrap{CommitFault}, with the retry goroutine and — where the script
// asks for it — the sequencer parked at known points, and records what the implementation did.
package main

import (
	"context"
	"errors"
	"fmt"
	"sync"
	"sync/atomic"
	"time"

	proto "github.com/kubewharf/kubebrain-client/api/v2rpc"

	"github.com/kubewharf/kubebrain/pkg/backend"
	"github.com/kubewharf/kubebrain/pkg/metrics"
	"github.com/kubewharf/kubebrain/pkg/server/etcd"
	"github.com/kubewharf/kubebrain/pkg/storage"

	"kbverif/lib"
)

const (
	retryIntervalMs = 30
	checkIntervalMs = 10
	tickMs          = 40 // a Tick sleeps this long: every queued node becomes old enough
	initRev         = 10
	nKeys           = 4
)

// ---------- script ----------

// Env is the environment's choice for one engine commit.
//   ok   : the batch is evaluated by the engine
//   err  : the engine fails without effect, definite error (not a compare failure)
//   abort: the engine fails without effect with a bare ErrCASFailed (engine-internal write conflict)
//   unk  : the engine reports "outcome unknown"; Applied tells whether the batch was evaluated first;
//          OCas makes the wrapped origin error a compare failure (contract corner, never produced by /repo's engines)
type Env struct {
	Kind    string `json:"kind"`
	Applied bool   `json:"applied,omitempty"`
	OCas    bool   `json:"ocas,omitempty"`
}

type Step struct {
	Kind string `json:"kind"` // create | update | delete | tick | retry | rget | rfinish | compact | list | hold | release
	Key  int    `json:"key,omitempty"`
	Val  []byte `json:"val,omitempty"`
	Rev  uint64 `json:"rev,omitempty"`  // expected revision (update/delete), requested revision (compact)
	Envs []Env  `json:"envs,omitempty"` // commits of this step, in order; missing = ok
	GetErr bool `json:"get_err,omitempty"` // the first point read of this step fails (delete: the initial get; retry: the getter)
	// hold: the unknown-outcome error of this write parks the sequencer when it classifies the event
	Hold bool `json:"hold,omitempty"`
}

// ---------- observations ----------

type KVObs struct {
	Key int    `json:"key"`
	Val []byte `json:"val"`
	Rev uint64 `json:"rev"`
}

type Obs struct {
	// client writes
	Class     string `json:"class,omitempty"` // ok | cond | uncertain | other  (RPC error classes: uncertain, other)
	HeaderRev uint64 `json:"header_rev,omitempty"`
	Kv        *KVObs `json:"kv,omitempty"`
	Unk       bool   `json:"unk,omitempty"`   // one of the request's commits was answered "outcome unknown"
	Alloc     uint64 `json:"alloc,omitempty"` // revision the step allocated (driver's bookkeeping)
	IsList    bool   `json:"is_list,omitempty"`
	// retry iteration
	Retry string `json:"retry,omitempty"` // idle | success | failed_get | failed_put | unknown_put | unnecessary | parked
	// list
	List []KVObs `json:"list,omitempty"`
	// after every step
	Committed uint64 `json:"committed"`
	Queue     int    `json:"queue"`
	Stalled   bool   `json:"stalled,omitempty"`
}

type EvObs struct {
	Del   bool   `json:"del"`
	Create bool  `json:"create"`
	Key   int    `json:"key"`
	Val   []byte `json:"val"`
	Rev   uint64 `json:"rev"`    // event revision
	KvRev uint64 `json:"kv_rev"` // Kv.Revision (delete: previous revision)
}

type Result struct {
	Obs      []Obs   `json:"obs"`
	Events   []EvObs `json:"events"`
	Tainted  bool    `json:"tainted,omitempty"`
	Failure  string  `json:"failure,omitempty"`
	WallMs   int64   `json:"wall_ms"`
}

// ---------- the sequencer-idle hook (global): park sequencers of finished runners ----------

var (
	curEpoch int64
	seqEpoch sync.Map // goroutine id -> epoch
)

func installYieldHook() {
	backend.VerifYieldHook = func(point string) {
		if point != "seq.idle" {
			return
		}
		id := lib.GoID()
		ep, ok := seqEpoch.Load(id)
		if !ok {
			ep = atomic.LoadInt64(&curEpoch)
			seqEpoch.Store(id, ep)
		}
		if ep.(int64) != atomic.LoadInt64(&curEpoch) {
			time.Sleep(time.Hour) // backend of a finished case
			return
		}
		time.Sleep(40 * time.Microsecond)
	}
}

// ---------- hold error: an unknown-outcome error that parks whoever classifies it ----------

type holdErr struct {
	r    *Runner
	ocas bool
}

func (e *holdErr) Error() string { return "verif: outcome unknown (holding)" }
func (e *holdErr) Is(target error) bool {
	if target == storage.ErrUncertainResult {
		if id := lib.GoID(); id != atomic.LoadInt64(&e.r.retryGo) && id != e.r.driverGo {
			e.r.park("seq")
		}
		return true
	}
	return e.ocas && target == storage.ErrCASFailed
}

// ---------- runner ----------

type Runner struct {
	eng      string
	front    string // "" | metrics | etcd (fronts.go)
	srv      *etcd.RPCServer
	b        backend.Backend
	kv       *lib.Wrap
	closer   func()
	driverGo int64
	retryGo  int64

	mu       sync.Mutex
	parked   map[string]chan struct{} // who -> resume channel ("retry", "seq")
	parkedAt map[string]string
	arrive   chan string

	splitRetry bool  // park the retry goroutine before its BeginBatchWrite
	retryEnv   *Env  // environment choice for the repair commit
	retryGetErr bool // the retry's getter fails
	clientEnvs []Env // environment choices for the commits of the client write in progress
	clientGetErr bool
	inWrite    bool
	holdNext   bool
	lastState  string

	watch  <-chan []*proto.Event
	cancel context.CancelFunc
	evMu   sync.Mutex
	events []EvObs

	dealt     uint64 // revisions allocated so far (driver's bookkeeping)
	heldAt    uint64 // revision the sequencer is parked on (0 = none)
	retryHeld uint64 // revision the parked repair write has allocated (0 = none)
	expectEv  int
	usedUnk   bool
	failure   string

	// timing: lower bounds of the push times of the nodes in the retry queue, and the end of the last tick
	fifo     []time.Time
	lastTick time.Time
	lastQ    int
	tainted  bool
}

var keyNames = []string{"/r/ka", "/r/kb", "/r/kc", "/r/kd"}

func keyIndex(k []byte) int {
	for i, n := range keyNames {
		if string(k) == n {
			return i
		}
	}
	return 99
}

var errInjected = errors.New("verif: injected engine failure")

func (r *Runner) park(who string) {
	ch := make(chan struct{})
	r.mu.Lock()
	r.parked[who] = ch
	r.mu.Unlock()
	r.arrive <- who
	<-ch
}

// waitParked waits until `who` is parked (it may already be).
func (r *Runner) waitParked(who string, d time.Duration) bool {
	deadline := time.After(d)
	for {
		r.mu.Lock()
		_, ok := r.parked[who]
		r.mu.Unlock()
		if ok {
			return true
		}
		select {
		case <-r.arrive:
		case <-deadline:
			return false
		}
	}
}

func (r *Runner) resume(who string) {
	r.mu.Lock()
	ch := r.parked[who]
	delete(r.parked, who)
	r.mu.Unlock()
	if ch != nil {
		close(ch)
	}
}

func NewRunner(eng, scratch string) (*Runner, error) {
	r := &Runner{eng: eng, parked: map[string]chan struct{}{}, parkedAt: map[string]string{}, arrive: make(chan string, 64), driverGo: lib.GoID()}
	atomic.AddInt64(&curEpoch, 1)
	r.front, eng = splitFront(eng)
	r.eng = eng
	inner, closer, err := lib.NewEngine(eng, scratch)
	if err != nil {
		return nil, err
	}
	r.closer = closer
	r.kv = &lib.Wrap{KvStorage: inner}
	r.kv.CommitFault = r.commitFault
	r.kv.Before = r.before
	m := &lib.NopMetrics{Hook: r.metricHook}
	r.b = backend.NewBackend(decorate(r.front, r.kv), backend.Config{Prefix: "/r", Identity: "c09"}, m)
	if r.front == frontEtcd {
		r.srv = newEtcdFront(r, &lib.NopMetrics{})
	}
	r.b.SetCurrentRevision(initRev)
	r.dealt = initRev
	ctx, cancel := context.WithCancel(context.Background())
	r.cancel = cancel
	ch, err := r.b.Watch(ctx, "/r/", 0)
	if err != nil {
		return nil, err
	}
	r.watch = ch
	go func() {
		for batch := range ch {
			r.evMu.Lock()
			for _, e := range batch {
				r.events = append(r.events, EvObs{Del: e.Type == proto.Event_DELETE, Create: e.Type == proto.Event_CREATE,
					Key: keyIndex(e.Kv.Key), Val: append([]byte{}, e.Kv.Value...), Rev: e.Revision, KvRev: e.Kv.Revision})
			}
			r.evMu.Unlock()
		}
	}()
	// the retry goroutine parks at the top of its first iteration
	if !r.waitParked("retry", 15*time.Second) {
		return nil, fmt.Errorf("retry goroutine did not reach its first iteration")
	}
	return r, nil
}

func (r *Runner) Close() {
	r.cancel()
	// leave the retry goroutine parked for good; the sequencer parks through the epoch hook
	if r.closer != nil && r.eng != lib.EngMem {
		// engines with files: the background goroutines of this backend only touch the engine when resumed
		r.closer()
	}
}

func (r *Runner) metricHook(kind, name string, tags []metrics.T) {
	switch name {
	case "async_retry.queue_size": // top of asyncFifoRetryImpl.retry
		atomic.StoreInt64(&r.retryGo, lib.GoID())
		r.park("retry")
	case "async_retry.retry": // deferred emission at the end of an iteration that went past the age test
		for _, t := range tags {
			if t.Name == "state" {
				r.lastState = t.Value
			}
		}
	}
}

func (r *Runner) before(kind string, key []byte) error {
	id := lib.GoID()
	if id == atomic.LoadInt64(&r.retryGo) {
		switch kind {
		case "iter":
			if r.retryGetErr {
				r.retryGetErr = false
				return errInjected
			}
		case "batch":
			if r.splitRetry {
				r.splitRetry = false
				r.park("retry")
			}
		}
		return nil
	}
	if id == r.driverGo && r.inWrite && kind == "iter" && r.clientGetErr {
		r.clientGetErr = false
		return errInjected
	}
	return nil
}

func (r *Runner) envErr(e Env) (error, bool) {
	if e.Kind == "unk" && lib.GoID() == r.driverGo {
		r.usedUnk = true
	}
	switch e.Kind {
	case "err":
		return errInjected, false
	case "abort":
		return storage.ErrCASFailed, false
	case "unk":
		if r.holdNext {
			r.holdNext = false
			return &holdErr{r: r, ocas: e.OCas}, e.Applied
		}
		if e.OCas {
			return storage.NewErrUncertainResult(storage.ErrCASFailed), e.Applied
		}
		return storage.NewErrUncertainResult(errInjected), e.Applied
	}
	return nil, false
}

func (r *Runner) commitFault() (error, bool) {
	id := lib.GoID()
	if id == atomic.LoadInt64(&r.retryGo) {
		if r.retryEnv != nil {
			e := *r.retryEnv
			r.retryEnv = nil
			return r.envErr(e)
		}
		return nil, false
	}
	if id == r.driverGo && r.inWrite {
		if len(r.clientEnvs) > 0 {
			e := r.clientEnvs[0]
			r.clientEnvs = r.clientEnvs[1:]
			return r.envErr(e)
		}
	}
	return nil, false
}

func classify(err error) string {
	if err == nil {
		return "ok"
	}
	if errors.Is(err, storage.ErrUncertainResult) {
		return "uncertain"
	}
	return "other"
}

// expectedCommitted: what GetCurrentRevision must reach once the sequencer has consumed everything it can.
func (r *Runner) expectedCommitted() uint64 {
	exp := r.dealt
	if r.heldAt != 0 && r.heldAt-1 < exp {
		exp = r.heldAt - 1
	}
	if r.retryHeld != 0 && r.retryHeld-1 < exp {
		exp = r.retryHeld - 1
	}
	return exp
}

func (r *Runner) settle(o *Obs) {
	exp := r.expectedCommitted()
	ok := lib.WaitUntil(15*time.Second, func() bool { return r.b.GetCurrentRevision() >= exp })
	if ok && r.heldAt == 0 && r.retryHeld == 0 {
		// the queue push of an unknown event precedes the commit of its revision; nothing more to wait for
	}
	o.Committed = r.b.GetCurrentRevision()
	o.Queue = backend.VerifRetryQueueSize(r.b)
	o.Stalled = !ok
}

func (r *Runner) list() (uint64, []KVObs, error) {
	resp, err := r.b.List(context.Background(), &proto.RangeRequest{Key: []byte("/r/"), End: []byte("/r0")})
	if err != nil {
		return 0, nil, err
	}
	out := []KVObs{}
	for _, kv := range resp.Kvs {
		out = append(out, KVObs{Key: keyIndex(kv.Key), Val: append([]byte{}, kv.Value...), Rev: kv.Revision})
	}
	return resp.Header.Revision, out, nil
}

// Exec executes one step and records what the implementation did.
func (r *Runner) Exec(st Step) (o Obs) {
	ctx := context.Background()
	stepStart := time.Now()
	defer func() {
		// the age test of a retry iteration must agree with the script's clock: a head node pushed after the
		// last tick is "young" in the model, so the iteration must have run less than the retry interval after
		// the push (nodes pushed before a tick are at least tickMs old: always "old")
		if (st.Kind == "retry" || st.Kind == "rget") && len(r.fifo) > 0 && r.fifo[0].After(r.lastTick) &&
			time.Since(r.fifo[0]) > (retryIntervalMs-3)*time.Millisecond {
			r.tainted = true
		}
		pops := 0
		switch o.Retry {
		case "success", "unnecessary":
			pops = 1
		case "failed_put":
			// the node is dropped only after a failed compare; a definite failure of another kind keeps it
			pops = 1
			if len(st.Envs) > 0 && st.Envs[0].Kind == "err" {
				pops = 0
			}
		}
		if pops > 0 && len(r.fifo) > 0 {
			r.fifo = r.fifo[1:]
		}
		for n := o.Queue - r.lastQ + pops; n > 0; n-- {
			r.fifo = append(r.fifo, stepStart)
		}
		r.lastQ = o.Queue
		if st.Kind == "tick" {
			r.lastTick = time.Now()
		}
	}()
	switch st.Kind {
	case "create", "update", "delete":
		r.clientEnvs = append([]Env{}, st.Envs...)
		r.usedUnk = false
		r.clientGetErr = st.GetErr
		r.holdNext = st.Hold
		r.inWrite = true
		key := []byte(keyNames[st.Key])
		var err error
		kind := st.Kind
		if r.front == frontEtcd {
			kind = "etcd"
			err = r.etcdWrite(ctx, st, key, &o)
		}
		switch kind {
		case "create":
			var resp *proto.CreateResponse
			resp, err = r.b.Create(ctx, &proto.CreateRequest{Key: key, Value: st.Val})
			if err == nil {
				o.HeaderRev = resp.Header.Revision
				o.Class = "cond"
				if resp.Succeeded {
					o.Class = "ok"
				}
			}
		case "update":
			var resp *proto.UpdateResponse
			resp, err = r.b.Update(ctx, &proto.UpdateRequest{Kv: &proto.KeyValue{Key: key, Value: st.Val, Revision: st.Rev}})
			if err == nil {
				o.HeaderRev = resp.Header.Revision
				o.Class = "cond"
				if resp.Succeeded {
					o.Class = "ok"
				}
				if resp.Kv != nil {
					o.Kv = &KVObs{Key: keyIndex(resp.Kv.Key), Val: append([]byte{}, resp.Kv.Value...), Rev: resp.Kv.Revision}
				}
			}
		case "delete":
			var resp *proto.DeleteResponse
			resp, err = r.b.Delete(ctx, &proto.DeleteRequest{Key: key, Revision: st.Rev})
			if err == nil {
				o.HeaderRev = resp.Header.Revision
				o.Class = "cond"
				if resp.Succeeded {
					o.Class = "ok"
				}
				if resp.Kv != nil {
					o.Kv = &KVObs{Key: keyIndex(resp.Kv.Key), Val: append([]byte{}, resp.Kv.Value...), Rev: resp.Kv.Revision}
				}
			}
		}
		r.inWrite = false
		r.clientGetErr = false
		if err != nil {
			o.Class = classify(err)
		}
		o.Unk = r.usedUnk
		r.dealt++ // every client write allocates exactly one revision
		o.Alloc = r.dealt
		if o.Class == "ok" {
			r.expectEv++
		}
		armed := st.Hold && !r.holdNext // the hold error was handed out
		r.holdNext = false
		if armed && o.Class == "uncertain" && r.heldAt == 0 {
			// the sequencer parks when it classifies this write's event
			r.heldAt = r.dealt
			if r.retryHeld == 0 && !r.waitParked("seq", 15*time.Second) {
				r.failure = "sequencer did not reach the held unknown event"
			}
		}
	case "release":
		if r.heldAt != 0 {
			r.heldAt = 0
			r.resume("seq")
		}
	case "tick":
		time.Sleep(tickMs * time.Millisecond)
	case "retry", "rget":
		// exactly one call of asyncFifoRetryImpl.retry (rget: up to its BeginBatchWrite)
		if r.retryHeld != 0 {
			o.Retry = "idle"
			r.failure = "script error: retry while a repair write is parked"
			break
		}
		if len(st.Envs) > 0 {
			e := st.Envs[0]
			r.retryEnv = &e
		}
		r.retryGetErr = st.GetErr
		r.splitRetry = st.Kind == "rget"
		r.lastState = ""
		r.resume("retry")
		if !r.waitParked("retry", 15*time.Second) {
			r.failure = "retry iteration did not come back"
		}
		r.retryFinished(&o, st.Kind == "rget", false)
		r.retryEnv = nil
		r.retryGetErr = false
	case "rfinish":
		if r.retryHeld != 0 {
			if len(st.Envs) > 0 {
				e := st.Envs[0]
				r.retryEnv = &e
			}
			r.lastState = ""
			r.resume("retry")
			if !r.waitParked("retry", 15*time.Second) {
				r.failure = "retry iteration did not come back"
			}
			r.retryHeld = 0
			r.retryFinished(&o, false, true)
			r.retryEnv = nil
		} else {
			o.Retry = "idle"
		}
	case "compact":
		resp, err := r.b.Compact(ctx, st.Rev)
		o.Class = classify(err)
		if resp != nil {
			o.HeaderRev = resp.Header.Revision
		}
	case "list":
		rev, l, err := r.list()
		o.Class = classify(err)
		o.HeaderRev = rev
		o.List = l
		o.IsList = true
	}
	r.settle(&o)
	if o.Stalled && r.failure == "" {
		r.failure = fmt.Sprintf("stalled: committed revision %d did not reach %d", o.Committed, r.expectedCommitted())
	}
	return o
}

// Finish collects the watch: the number of delivered events is known (acknowledged writes + successful repairs).
func (r *Runner) Finish() []EvObs {
	lib.WaitUntil(15*time.Second, func() bool {
		r.evMu.Lock()
		defer r.evMu.Unlock()
		return len(r.events) >= r.expectEv
	})
	time.Sleep(3 * time.Millisecond)
	r.evMu.Lock()
	defer r.evMu.Unlock()
	return append([]EvObs{}, r.events...)
}

// Run executes a fixed script and returns it with "probe" steps expanded. A probe is a List followed, for every listed
// key, by an Update whose expected revision is the listed one (the listed revision must be usable as a precondition:
// index record and newest version agree), followed by a final List.
func (r *Runner) Run(script []Step) ([]Step, Result) {
	t0 := time.Now()
	res := Result{}
	var done []Step
	do := func(st Step) Obs {
		o := r.Exec(st)
		done = append(done, st)
		res.Obs = append(res.Obs, o)
		return o
	}
	for _, st := range script {
		if st.Kind == "probe" {
			r.Probe(do)
		} else {
			do(st)
		}
		if r.failure != "" {
			break
		}
	}
	res.Tainted = r.tainted
	res.Failure = r.failure
	res.Events = r.Finish()
	res.WallMs = time.Since(t0).Milliseconds()
	return done, res
}

func (r *Runner) Probe(do func(Step) Obs) {
	o := do(Step{Kind: "list"})
	if r.failure != "" {
		return
	}
	for _, kv := range o.List {
		if kv.Key >= nKeys {
			continue
		}
		do(Step{Kind: "update", Key: kv.Key, Val: []byte(fmt.Sprintf("p%d", kv.Key)), Rev: kv.Rev})
		if r.failure != "" {
			return
		}
	}
	do(Step{Kind: "list"})
}

func (r *Runner) retryFinished(o *Obs, split bool, alreadyDealt bool) {
	if split && !r.splitRetry {
		// parked before BeginBatchWrite: the repair write holds a freshly allocated revision
		r.dealt++
		r.retryHeld = r.dealt
		o.Retry = "parked"
		return
	}
	r.splitRetry = false
	st := r.lastState
	if st == "" {
		st = "idle"
	}
	o.Retry = st
	switch st {
	case "success":
		if !alreadyDealt {
			r.dealt++
		}
		r.expectEv++
	case "failed_put", "unknown_put":
		if !alreadyDealt {
			r.dealt++
		}
	}
}
