// Driver c02: (a) the schedule cases of lib.KBDrive judged by the revision oracle rev_ok
// (uniqueness, real-time order, header bound, per-key monotonicity), (b) read cases with the
// sequencer parked: Get / List with explicit revisions at, above and far above the read revision.
package main

import (
	"fmt"
	"os"

	"kbverif/lib"
)

func main() {
	lib.QuietLogs()
	args := lib.ParseArgs()
	w := lib.NewWriter(args, "C02", "c02", "From KB Require Import Model.C02Cases.", "c02_case", "c02_check", "c02_oracle", 150)

	// read cases first: the fixed witness of finding C02-F1, then random ones
	rnd := lib.NewRand(args.Seed ^ 0x5eed)
	engines := []string{lib.EngMem, lib.EngBadger, lib.EngTiKV, lib.EngWrapMem}
	nread := map[string]int{"quick": 40, "thorough": 600, "search": 200}[args.Tier]
	if nread == 0 {
		nread = 40
	}
	for ei, e := range engines {
		n, err := lib.NewKBNode(e, args.Scratch)
		if err != nil {
			w.Fail(lib.ImplFailure{CaseID: -1, What: "cannot open engine " + e + ": " + err.Error()})
			continue
		}
		cnt := nread
		if ei > 0 {
			cnt = nread / 4
		}
		for i := 0; i < cnt+1; i++ {
			var c *lib.KReadCase
			var err error
			kind := "read/" + e
			if i == 0 {
				// witness: one create stored while the sequencer is parked, then List(rev = d0+1)
				c, err = n.RunReadCase(rnd, []lib.KReq{{Op: lib.OpCreate, Key: 0, Val: []byte("new")}}, []int{lib.InitNever, lib.InitLive})
				kind = "read-corpus/" + e
			} else {
				c, err = n.RunReadCase(rnd, nil, nil)
			}
			if err != nil {
				w.Fail(lib.ImplFailure{CaseID: w.Len(), What: fmt.Sprintf("read case on %s: %v", e, err), Case: c.JSON()})
				if n.Dead {
					break
				}
				continue
			}
			outs := []string{"read_ok"}
			if c.F1() {
				outs = []string{"list_newer_than_header"}
			}
			w.Add(lib.Case{Coq: c.Coq(), JSON: c.JSON(), Kind: kind, Trivial: len(c.Writes) == 0, Outcomes: outs})
		}
		n.Close()
	}

	lib.KBDrive(w, args, lib.KBProfile{Prop: "C02", Malformed: 15, ErrPct: 5, AbortPct: 3,
		Quick: 220, QuickOther: 30, Thorough: 4000, Search: 1200, Exhaustive: false,
		WrapCoq: func(coq string) string { return "(C2Sched " + coq + ")" }})
	if err := w.Finish("schedule cases: non-trivial = a step of one client happened between two steps of another; read cases: at least one write stored while the sequencer is parked"); err != nil {
		fmt.Fprintln(os.Stderr, err)
		os.Exit(2)
	}
}
