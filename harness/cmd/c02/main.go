// Driver c02: (a) the schedule cases of lib.KBDrive judged by the revision oracle rev_ok
// (uniqueness, real-time order, header bound, per-key monotonicity), (b) read cases with the
// sequencer parked: Get / List with explicit revisions at, above and far above the read revision.
package main

import (
	"fmt"
	"os"
	"sync"

	"github.com/kubewharf/kubebrain/pkg/backend/tso"

	"kbverif/lib"
)

// tsoStress runs the real allocator: dealers call Deal(), one goroutine calls Deal() and then
// Commit(rev+ahead) (a revision ahead of the counter, as leader hand-over / follower sync do),
// another commits revisions behind the counter (as the sequencer does). Returns what each
// goroutine was dealt, in order.
func tsoStress(rnd *lib.Rand, dealers, per int) [][]uint64 {
	t := tso.NewTSO()
	t.Init(1000)
	out := make([][]uint64, dealers+2)
	for i := range out {
		out[i] = make([]uint64, 0, per)
	}
	var wg sync.WaitGroup
	start := make(chan struct{})
	for g := 0; g < dealers; g++ {
		g := g
		wg.Add(1)
		go func() {
			defer wg.Done()
			<-start
			buf := out[g]
			for i := 0; i < per; i++ {
				r, _ := t.Deal()
				buf = append(buf, r)
			}
			out[g] = buf
		}()
	}
	ahead := uint64(1 + rnd.Intn(2))
	wg.Add(2)
	go func() { // commits ahead of the counter
		defer wg.Done()
		<-start
		buf := out[dealers]
		for i := 0; i < per; i++ {
			r, _ := t.Deal()
			buf = append(buf, r)
			t.Commit(r + ahead)
		}
		out[dealers] = buf
	}()
	go func() { // commits behind the counter
		defer wg.Done()
		<-start
		buf := out[dealers+1]
		for i := 0; i < per; i++ {
			r, _ := t.Deal()
			buf = append(buf, r)
			if r > 3 {
				t.Commit(r - 3)
			}
		}
		out[dealers+1] = buf
	}()
	close(start)
	wg.Wait()
	return out
}

// tsoTrim keeps the case small for coqc: around a duplicate if there is one, else a prefix.
func tsoTrim(ds [][]uint64) ([][]uint64, bool) {
	seen := map[uint64]bool{}
	var dupv uint64
	dup := false
	for _, d := range ds {
		for _, r := range d {
			if seen[r] && !dup {
				dup, dupv = true, r
			}
			seen[r] = true
		}
	}
	out := make([][]uint64, len(ds))
	for g, d := range ds {
		if !dup {
			n := len(d)
			if n > 120 {
				n = 120
			}
			out[g] = d[:n]
			continue
		}
		for _, r := range d {
			if r+15 >= dupv && r <= dupv+15 {
				out[g] = append(out[g], r)
			}
		}
	}
	return out, dup
}

func main() {
	lib.QuietLogs()
	args := lib.ParseArgs()
	w := lib.NewWriter(args, "C02", "c02", "From KB Require Import Model.C02Cases.", "c02_case", "c02_check", "c02_oracle", 150)

	// read cases first: the fixed witness of finding C02-F1, then random ones
	rnd := lib.NewRand(args.Seed ^ 0x5eed)
	engines := []string{lib.EngMem, lib.EngBadger, lib.EngTiKV, lib.EngWrapMem}
	nread := map[string]int{"quick": 40, "thorough": 600, "search": 200}[args.Tier]
	if nread == 0 {
		nread = 40
	}
	for ei, e := range engines {
		n, err := lib.NewKBNode(e, args.Scratch)
		if err != nil {
			w.Fail(lib.ImplFailure{CaseID: -1, What: "cannot open engine " + e + ": " + err.Error()})
			continue
		}
		cnt := nread
		if ei > 0 {
			cnt = nread / 4
		}
		for i := 0; i < cnt+1; i++ {
			var c *lib.KReadCase
			var err error
			kind := "read/" + e
			if i == 0 {
				// witness: one create stored while the sequencer is parked, then List(rev = d0+1)
				c, err = n.RunReadCase(rnd, []lib.KReq{{Op: lib.OpCreate, Key: 0, Val: []byte("new")}}, []int{lib.InitNever, lib.InitLive})
				kind = "read-corpus/" + e
			} else {
				c, err = n.RunReadCase(rnd, nil, nil)
			}
			if err != nil {
				w.Fail(lib.ImplFailure{CaseID: w.Len(), What: fmt.Sprintf("read case on %s: %v", e, err), Case: c.JSON()})
				if n.Dead {
					break
				}
				continue
			}
			outs := []string{"read_ok"}
			if c.F1() {
				outs = []string{"list_newer_than_header"}
			}
			w.Add(lib.Case{Coq: c.Coq(), JSON: c.JSON(), Kind: kind, Trivial: len(c.Writes) == 0, Outcomes: outs})
		}
		n.Close()
	}

	// allocator stress (true concurrency, so not replayable step by step: the case records what was dealt)
	ntso := map[string]int{"quick": 20, "thorough": 300, "search": 80}[args.Tier]
	if ntso == 0 {
		ntso = 20
	}
	for i := 0; i < ntso; i++ {
		full := tsoStress(rnd, 6, 20000)
		ds, dup := tsoTrim(full)
		xs := make([]string, len(ds))
		js := []interface{}{}
		for g, d := range ds {
			ys := make([]string, len(d))
			for j, r := range d {
				ys[j] = lib.N(r)
			}
			xs[g] = lib.List(ys)
			js = append(js, d)
		}
		outs := []string{"tso_ok"}
		if dup {
			outs = []string{"tso_duplicate_revision"}
		}
		w.Add(lib.Case{Coq: lib.App("C2Tso", lib.List(xs)), JSON: map[string]interface{}{"tso_stress_dealt_per_goroutine_excerpt": js, "deals_per_goroutine": 20000},
			Kind: "tso-stress", Trivial: false, Outcomes: outs})
	}

	lib.KBListHeaderStress(w, args, []string{lib.EngMem, lib.EngBadger})
	lib.KBTwoNodeCase(w, args)

	lib.KBDrive(w, args, lib.KBProfile{Prop: "C02", Malformed: 15, ErrPct: 5, AbortPct: 3,
		Quick: 220, QuickOther: 30, Thorough: 4000, Search: 1200, Exhaustive: false, Fronts: true,
		WrapCoq: func(coq string) string { return "(C2Sched " + coq + ")" }})
	if err := w.Finish("schedule cases: non-trivial = a step of one client happened between two steps of another; read cases: at least one write stored while the sequencer is parked"); err != nil {
		fmt.Fprintln(os.Stderr, err)
		os.Exit(2)
	}
}
