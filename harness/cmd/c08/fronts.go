package main

// Reads through the etcd front end (etcd.RPCServer.Range over a leader stub) and a TiKV adapter whose point read of
// the compaction record can be made to fail at the RPC level (lib.NewTiKVHooked).

import (
	"bytes"
	"context"
	"sync/atomic"

	"github.com/pingcap/kvproto/pkg/kvrpcpb"
	"github.com/tikv/client-go/v2/tikvrpc"
	"go.etcd.io/etcd/api/v3/etcdserverpb"

	"github.com/kubewharf/kubebrain/pkg/backend"
	"github.com/kubewharf/kubebrain/pkg/server/etcd"
	"github.com/kubewharf/kubebrain/pkg/server/service/etcdproxy"
	"github.com/kubewharf/kubebrain/pkg/server/service/leader"
	"github.com/kubewharf/kubebrain/pkg/storage"

	"kbverif/lib"
)

type nopSyncer struct{}

func (nopSyncer) SyncReadRevision() error { return nil }
func (nopSyncer) Close() error            { return nil }

type leaderPeers struct {
	*leader.Stub
	nopSyncer
	etcdproxy.EtcdProxy
}

func newEtcdFront(b backend.Backend) *etcd.RPCServer {
	p := &leaderPeers{Stub: &leader.Stub{ElectionInfo: leader.ElectionInfo{LeaderAddress: "127.0.0.1:0", IsLeader: true}},
		EtcdProxy: etcdproxy.NewDisabledEtcdProxy()}
	return etcd.New(b, &lib.NopMetrics{}, p)
}

// etcdRange: the shapes of range request an etcd client sends; every one with a non-empty range_end is a range read
func etcdRange(es *etcd.RPCServer, kind string, rev uint64, limit int64) (isErr bool) {
	var key, end []byte
	switch kind {
	case "etcd-all": // prefix read of everything
		key, end = []byte(prefix+"/"), []byte(prefix+"0")
	case "etcd-pods": // prefix read of one resource
		key, end = []byte(prefix+"/pods/"), []byte(prefix+"/pods0")
	case "etcd-single": // the range that holds one key: [key, key+"\x00")
		key = []byte(keyPool[int(rev)%len(keyPool)])
		end = append(append([]byte{}, key...), 0)
	case "etcd-ab": // an arbitrary interval
		key, end = []byte(prefix+"/pods/a"), []byte(prefix+"/pods/c")
	}
	_, err := es.Range(context.Background(), &etcdserverpb.RangeRequest{Key: key, RangeEnd: end, Revision: int64(rev), Limit: limit})
	return err != nil
}

func isEtcdKind(kind string) bool { return len(kind) > 5 && kind[:5] == "etcd-" }

// ---------- TiKV with a failing point read of the compaction record ----------

const engTiKVHooked = "tikv-hooked"

// recordFault: 1 while the point reads (CmdGet) of <prefix>/compact_key are answered with a key error
func newHookedTiKV(recordFault *int32, splits ...[]byte) (storage.KvStorage, func(), error) {
	h, err := lib.NewTiKVHooked(splits...)
	if err != nil {
		return nil, nil, err
	}
	rec := []byte(prefix + "/compact_key")
	hook := func(ctx context.Context, addr string, req *tikvrpc.Request, next func() (*tikvrpc.Response, error)) (*tikvrpc.Response, error) {
		if req.Type == tikvrpc.CmdGet && atomic.LoadInt32(recordFault) == 1 && bytes.Equal(req.Get().GetKey(), rec) {
			return &tikvrpc.Response{Resp: &kvrpcpb.GetResponse{Error: &kvrpcpb.KeyError{Abort: "verif: injected failure of the point read"}}}, nil
		}
		return next()
	}
	kv, err := h.Open(1, hook, nil)
	if err != nil {
		h.Close()
		return nil, nil, err
	}
	return kv, h.Close, nil
}
