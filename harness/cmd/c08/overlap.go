package main

// Overlapping compactions: every Backend.Compact call runs on its own logical thread and is advanced one engine
// call at a time (lib.Sched); the engine calls that touch the compaction record are the yield points, attributed to
// setCompactRecord / checkCompactRace by the call stack.

import (
	"context"
	"fmt"
	"runtime"
	"strings"
	"sync"
	"sync/atomic"
	"time"

	"kbverif/lib"
)

// an overlap schedule: spawn thread i with a revision, advance thread i by one engine call, or read
type ostep struct {
	kind  string // spawn | step | finish | read | hold | rspawn | rstep | update
	id    int
	other int // hold: the thread that runs while thread id is parked inside its batch, right before the engine Commit
	rel   relRev
	rkind string
	limit int64
}

func phaseOf(kind string) string {
	pcs := make([]uintptr, 32)
	n := runtime.Callers(3, pcs)
	frames := runtime.CallersFrames(pcs[:n])
	for {
		f, more := frames.Next()
		switch {
		case strings.HasSuffix(f.Function, ".setCompactRecord"):
			if kind == "get" {
				return "PhSetGet"
			}
			return "PhSetCommit"
		case strings.HasSuffix(f.Function, ".checkCompactRace"):
			if kind == "get" {
				return "PhRaceGet"
			}
			return "PhRacePut"
		}
		if !more {
			return ""
		}
	}
}

type othread struct {
	t     *lib.Thread
	phase string
	hdr   uint64
	err   error
	done  bool
}

func runOverlap(id int, seed uint64, engine string, skipped []string, scratch string, sched []ostep, random bool) (res result) {
	res.kind = "overlap/" + engine
	inner, closer, err := lib.NewEngine(engine, scratch)
	if err != nil {
		res.fail = &lib.ImplFailure{CaseID: id, What: "engine: " + err.Error()}
		return
	}
	defer closer()
	s := lib.NewSched()
	var armInner int32 // 1: the next engine Commit parks its thread (conditions staged, nothing applied yet)
	// range reads on their own logical threads: parked before the read of the compaction record (the check) and again
	// before GetPartitions, i.e. after the check and before any iterator is opened (the scan)
	var rmu sync.Mutex
	readerGo := map[int64]bool{}
	isReader := func() bool {
		rmu.Lock()
		defer rmu.Unlock()
		return len(readerGo) > 0 && readerGo[lib.GoID()]
	}
	kv := &lib.Wrap{KvStorage: inner, Before: func(kind string, key []byte) error {
		if kind == "get" || kind == "batch" {
			if ph := phaseOf(kind); ph != "" {
				if isReader() {
					if kind == "get" {
						s.Yield("PhReadCheck")
					}
				} else {
					s.Yield(ph)
				}
			}
		} else if (kind == "parts" || kind == "iter") && isReader() {
			// unlimited reads ask for the partitions and scan on worker goroutines; a limited read opens its one iterator itself
			s.Yield("PhReadScan")
		}
		return nil
	}, CommitFault: func() (error, bool) {
		if atomic.CompareAndSwapInt32(&armInner, 1, 0) {
			s.Yield("inner")
		}
		return nil, false
	}}
	be, err := lib.CsNewBackend(kv, prefix, skipped, initRev)
	if err != nil {
		res.fail = &lib.ImplFailure{CaseID: id, What: err.Error()}
		return
	}
	defer be.Retire()
	sc := lib.CsScanner(kv, prefix, time.Hour)
	rnd := lib.NewRand(seed)
	nranges := 1 + len(skipped)
	for i := 0; i < 12; i++ {
		be.Do(lib.CsWrite{Op: "create", Key: []byte(fmt.Sprintf("/registry/pods/k%d", i)), Val: []byte("v")})
	}
	var steps []string
	var js []interface{}
	outc := map[string]bool{}
	floor, last := uint64(0), uint64(0)
	sawErr, sawData, lowered, interleaved := false, false, false, false
	record := func(op, obs string, j map[string]interface{}) {
		cur := be.B.GetCurrentRevision()
		rec, ok := lib.CsRecord(inner, prefix)
		steps = append(steps, lib.App("mkS8", op, obs, lib.N(cur), lib.OptBytes(rec, ok)))
		j["cur"] = cur
		if ok {
			j["record"] = lib.HexBytes(rec)
			if len(rec) == 8 {
				f := uint64(0)
				for _, x := range rec {
					f = f<<8 | uint64(x)
				}
				if f < floor {
					lowered = true
				}
				floor = f
			}
		}
		js = append(js, j)
	}
	record(lib.App("CWrite", lib.N(12)), "OWrite", map[string]interface{}{"op": "write", "n": 12})
	threads := map[int]*othread{}
	alive := func() []int {
		var a []int
		for i := 1; i <= 4; i++ {
			if th := threads[i]; th != nil && !th.done {
				a = append(a, i)
			}
		}
		return a
	}
	advance := func(i int, label string, j map[string]interface{}) bool {
		th := threads[i]
		p, done := s.Step(th.t, 10*time.Second)
		if p == "<blocked>" {
			res.fail = &lib.ImplFailure{CaseID: id, What: fmt.Sprintf("compaction thread %d blocked at %s", i, th.phase), Case: js}
			return false
		}
		if done {
			th.done = true
			obs := lib.App("OCompact", lib.N(th.hdr), cresCoq(th.err))
			outc["thread-"+cresCoq(th.err)] = true
			j["finished"] = map[string]interface{}{"hdr": th.hdr, "err": th.err != nil}
			record(label, obs, j)
			return true
		}
		th.phase = p
		record(label, "OWrite", j)
		return true
	}
	spawn := func(i int, rev uint64) bool {
		th := &othread{}
		threads[i] = th
		th.t = s.Go(fmt.Sprintf("compact-%d", i), func() {
			resp, err := be.B.Compact(context.Background(), rev)
			th.hdr, th.err = resp.GetHeader().GetRevision(), err
		})
		return advance(i, lib.App("CSpawn", lib.N(uint64(i)), lib.N(rev), lib.Nat(nranges)),
			map[string]interface{}{"op": "spawn compaction thread", "thread": i, "rev": rev})
	}
	stepThread := func(i int) bool {
		th := threads[i]
		if len(alive()) > 1 {
			interleaved = true
		}
		ph := th.phase
		outc["step-"+ph] = true
		return advance(i, lib.App("CThread", lib.N(uint64(i)), ph), map[string]interface{}{"op": "thread performs", "thread": i, "call": ph})
	}
	// finishStep records the step of thread i that has just parked at p / finished
	finishStep := func(i int, ph string, p string, done bool, j map[string]interface{}) {
		th := threads[i]
		label := lib.App("CThread", lib.N(uint64(i)), ph)
		outc["step-"+ph] = true
		if done {
			th.done = true
			outc["thread-"+cresCoq(th.err)] = true
			j["finished"] = map[string]interface{}{"hdr": th.hdr, "err": th.err != nil}
			record(label, lib.App("OCompact", lib.N(th.hdr), cresCoq(th.err)), j)
			return
		}
		th.phase = p
		record(label, "OWrite", j)
	}
	// hold: thread i, parked before a conditional write of the record, is advanced INTO its batch - the condition
	// is staged - and parked again right before the engine Commit; thread o then runs as far as it gets. An engine
	// whose batch owns the store until Commit (memkv) blocks o at its first call: i's write is atomic. On the other
	// engines (and on a memkv that checks at staging but locks only in Commit) o proceeds; every step is recorded
	// in the order the engine calls completed.
	hold := func(i, o int) bool {
		th, ot := threads[i], threads[o]
		if th == nil || th.done || ot == nil || ot.done || (th.phase != "PhSetCommit" && th.phase != "PhRacePut") {
			return true
		}
		if !strings.Contains(engine, "mem") {
			// Badger and TiKV batches are optimistic transactions: a transaction held open across another writer's
			// commit is aborted by the engine's conflict detection whatever the values are; the model's compare is on
			// values. There the write is advanced in one piece.
			return stepThread(i)
		}
		interleaved = true
		ph := th.phase
		atomic.StoreInt32(&armInner, 1)
		p, done := s.Step(th.t, 10*time.Second)
		atomic.StoreInt32(&armInner, 0)
		if p == "<blocked>" {
			res.fail = &lib.ImplFailure{CaseID: id, What: fmt.Sprintf("compaction thread %d blocked at %s", i, ph), Case: js}
			return false
		}
		if done || p != "inner" { // no commit on this path (cannot happen after a park before BeginBatchWrite)
			finishStep(i, ph, p, done, map[string]interface{}{"op": "thread performs", "thread": i, "call": ph})
			return true
		}
		outc["held-in-batch"] = true
		blocked := false
		for !ot.done {
			oph := ot.phase
			p2, done2 := s.Step(ot.t, 400*time.Millisecond)
			if p2 == "<blocked>" {
				// the held batch owns the store: release it, then the blocked call completes
				blocked = true
				outc["other-blocked"] = true
				p1, done1 := s.Step(th.t, 10*time.Second)
				if p1 == "<blocked>" {
					res.fail = &lib.ImplFailure{CaseID: id, What: fmt.Sprintf("compaction thread %d blocked inside its batch", i), Case: js}
					return false
				}
				finishStep(i, ph, p1, done1, map[string]interface{}{"op": "thread performs", "thread": i, "call": ph,
					"held_before_commit": true, "meanwhile": fmt.Sprintf("thread %d blocked at %s until the commit", o, oph)})
				p2, done2 = s.Wait(ot.t, 10*time.Second)
				if p2 == "<blocked>" {
					res.fail = &lib.ImplFailure{CaseID: id, What: fmt.Sprintf("compaction thread %d still blocked at %s after the commit", o, oph), Case: js}
					return false
				}
				finishStep(o, oph, p2, done2, map[string]interface{}{"op": "thread performs", "thread": o, "call": oph})
				break
			}
			outc["other-ran-during-batch"] = true
			finishStep(o, oph, p2, done2, map[string]interface{}{"op": "thread performs", "thread": o, "call": oph,
				"while": fmt.Sprintf("thread %d is parked inside its batch before Commit", i)})
		}
		if !blocked {
			p1, done1 := s.Step(th.t, 10*time.Second)
			if p1 == "<blocked>" {
				res.fail = &lib.ImplFailure{CaseID: id, What: fmt.Sprintf("compaction thread %d blocked inside its batch", i), Case: js}
				return false
			}
			finishStep(i, ph, p1, done1, map[string]interface{}{"op": "thread performs", "thread": i, "call": ph, "held_before_commit": true})
		}
		return true
	}
	// ---- read threads ----
	type rthread struct {
		t     *lib.Thread
		rev   uint64
		limit int64
		phase string
		isErr bool
		keys  []string
		ref   []string // what a List at the same revision returned while the thread was parked after its check
		done  bool
	}
	rthreads := map[int]*rthread{}
	listKeys := func(rev uint64, limit int64) ([]string, bool) {
		kvs, _, isErr := be.List([]byte(prefix+"/"), []byte(prefix+"0"), rev, limit)
		var ks []string
		for _, e := range kvs {
			ks = append(ks, fmt.Sprintf("%s@%d", e.K, e.Rev))
		}
		return ks, isErr
	}
	radvance := func(i int, label string, j map[string]interface{}) bool {
		rt := rthreads[i]
		p, done := s.Step(rt.t, 10*time.Second)
		if rt.phase == "PhReadScan" && !done && p == "PhReadCheck" {
			// the second read of the compaction record, after the scan, belongs to the scan step
			j["record_read_again_after_the_scan"] = true
			p, done = s.Step(rt.t, 10*time.Second)
		}
		if p == "<blocked>" {
			res.fail = &lib.ImplFailure{CaseID: id, What: fmt.Sprintf("read thread %d blocked at %s", i, rt.phase), Case: js}
			return false
		}
		if done {
			rt.done = true
			if rt.isErr {
				sawErr = true
			} else {
				sawData = true
			}
			outc["rthread-"+rt.phase+"-"+rresCoq(rt.isErr)] = true
			j["finished"] = map[string]interface{}{"err": rt.isErr, "keys": rt.keys}
			if rt.ref != nil && !rt.isErr {
				j["same_revision_read_before"] = rt.ref
				if fmt.Sprint(rt.ref) != fmt.Sprint(rt.keys) {
					j["differs_from_the_read_before"] = true
					outc["rthread-served-different-data"] = true
				}
			}
			record(label, lib.App("ORead", rresCoq(rt.isErr)), j)
			return true
		}
		rt.phase = p
		if p == "PhReadScan" { // the state at its revision, as any other reader sees it now
			rt.ref, _ = listKeys(rt.rev, rt.limit)
		}
		record(label, "OWrite", j)
		return true
	}
	rspawn := func(i int, rev uint64, limit int64) bool {
		rt := &rthread{rev: rev, limit: limit, phase: "start"}
		rthreads[i] = rt
		rt.t = s.GoWith(fmt.Sprintf("read-%d", i), func(goid int64) {
			rmu.Lock()
			readerGo[goid] = true
			rmu.Unlock()
		}, func() {
			rt.keys, rt.isErr = listKeys(rev, limit)
		})
		return radvance(i, lib.App("CRSpawn", lib.N(uint64(i)), lib.N(rev)), map[string]interface{}{"op": "spawn read thread", "thread": i, "rev": rev, "limit": limit})
	}
	rstep := func(i int) bool {
		rt := rthreads[i]
		if rt == nil || rt.done {
			return true
		}
		if len(alive()) > 0 {
			interleaved = true
		}
		con := map[string]string{"PhReadCheck": "CReadCheck", "PhReadScan": "CReadScan"}[rt.phase]
		if con == "" {
			res.fail = &lib.ImplFailure{CaseID: id, What: fmt.Sprintf("read thread %d parked at %q", i, rt.phase), Case: js}
			return false
		}
		what := map[string]string{"PhReadCheck": "reads the compaction record (check)", "PhReadScan": "asks for the partitions, scans and answers"}[rt.phase]
		return radvance(i, lib.App(con, lib.N(uint64(i)), lib.N(rt.rev)), map[string]interface{}{"op": "read thread " + what, "thread": i, "rev": rt.rev})
	}
	nupd := 0
	update := func(n int) bool {
		for k := 0; k < n; k++ {
			key := []byte(fmt.Sprintf("/registry/pods/k%d", (nupd+k)%12))
			w := lib.CsWrite{Op: "update", Key: key, Val: []byte("u")}
			if kvr, ok, _ := be.Get(key, 0); ok {
				w.Rev = kvr.Rev
			}
			if cl, _, synced := be.Do(w); cl != "ok" || !synced {
				res.fail = &lib.ImplFailure{CaseID: id, What: "update of " + string(key) + ": " + cl, Case: js}
				return false
			}
		}
		nupd += n
		record(lib.App("CWrite", lib.N(uint64(n))), "OWrite", map[string]interface{}{"op": "write", "n": n, "kind": "updates"})
		return true
	}
	read := func(kind string, rev uint64, limit int64) {
		isErr, op := doRead(be, sc, kind, rev, limit)
		if isErr {
			sawErr = true
		} else {
			sawData = true
		}
		outc["read-"+kind+"-"+rresCoq(isErr)] = true
		record(op, lib.App("ORead", rresCoq(isErr)), map[string]interface{}{"op": kind, "rev": rev, "limit": limit, "err": isErr})
	}
	if !random {
		for _, st := range sched {
			cur := be.B.GetCurrentRevision()
			switch st.kind {
			case "spawn":
				rev := resolve(st.rel, cur, floor, last)
				last = rev
				if !spawn(st.id, rev) {
					return
				}
			case "step":
				if th := threads[st.id]; th == nil || th.done {
					continue
				}
				if !stepThread(st.id) {
					return
				}
			case "finish":
				for threads[st.id] != nil && !threads[st.id].done {
					if !stepThread(st.id) {
						return
					}
				}
			case "hold":
				if !hold(st.id, st.other) {
					return
				}
			case "rspawn":
				if !rspawn(st.id, resolve(st.rel, cur, floor, last), st.limit) {
					return
				}
			case "rstep":
				if !rstep(st.id) {
					return
				}
			case "update":
				if !update(int(st.limit)) {
					return
				}
			case "read":
				read(st.rkind, resolve(st.rel, cur, floor, last), st.limit)
			}
		}
	} else {
		next := 1
		for n := 0; n < 60; n++ {
			a := alive()
			cur := be.B.GetCurrentRevision()
			switch x := rnd.Intn(13); {
			case x == 10:
				if !update(1 + rnd.Intn(3)) {
					return
				}
			case x >= 11:
				if rt := rthreads[5]; rt == nil || rt.done {
					rel := []relRev{{mode: "cur-k", k: uint64(rnd.Intn(6))}, {mode: "floor+k", k: uint64(rnd.Intn(3))}, {mode: "floor-k", k: uint64(1 + rnd.Intn(3))}}[rnd.Intn(3)]
					if rev := resolve(rel, cur, floor, last); rev > 0 {
						if !rspawn(5, rev, int64(rnd.Intn(3))) {
							return
						}
					}
				} else if !rstep(5) {
					return
				}
			case x < 2 && next <= 3:
				rel := []relRev{{mode: "cur-k", k: uint64(rnd.Intn(11))}, {mode: "floor+k", k: uint64(rnd.Intn(4))}, {mode: "floor-k", k: uint64(1 + rnd.Intn(5))}, {mode: "zero"}}[rnd.Intn(4)]
				rev := resolve(rel, cur, floor, last)
				last = rev
				if !spawn(next, rev) {
					return
				}
				next++
			case x < 8 && len(a) > 0:
				i := a[rnd.Intn(len(a))]
				if ph := threads[i].phase; len(a) > 1 && (ph == "PhSetCommit" || ph == "PhRacePut") && rnd.Intn(3) == 0 {
					o := a[rnd.Intn(len(a))]
					for o == i {
						o = a[rnd.Intn(len(a))]
					}
					if !hold(i, o) {
						return
					}
					continue
				}
				if !stepThread(i) {
					return
				}
			case x == 8:
				rel := []relRev{{mode: "floor-k", k: uint64(1 + rnd.Intn(4))}, {mode: "floor+k", k: uint64(rnd.Intn(2))}, {mode: "cur-k", k: uint64(rnd.Intn(10))}}[rnd.Intn(3)]
				read([]string{"list", "list", "scancount", "stream"}[rnd.Intn(4)], resolve(rel, cur, floor, last), int64(rnd.Intn(3)))
			default:
				if next > 3 && len(a) == 0 {
					n = 60
				}
			}
		}
	}
	// let every thread finish, then read around the floor
	for i := range rthreads {
		for !rthreads[i].done {
			if !rstep(i) {
				return
			}
		}
	}
	for _, i := range alive() {
		for !threads[i].done {
			if !stepThread(i) {
				return
			}
		}
	}
	for _, d := range []int64{-3, -1, 0, 1} {
		if rev := int64(floor) + d; rev > 0 {
			read("list", uint64(rev), 0)
		}
	}
	res.coq = lib.App("mkC8", lib.N(initRev), lib.List(steps))
	res.json = map[string]interface{}{"class": "overlap", "engine": engine, "skipped": skipped, "steps": js, "floor_lowered": lowered}
	for o := range outc {
		res.outcomes = append(res.outcomes, o)
	}
	if lowered {
		res.outcomes = append(res.outcomes, "floor-lowered")
	}
	res.trivial = !(sawErr && sawData && interleaved)
	return
}

// the fixed overlap schedules
func overlapCorpus() [][]ostep {
	abs := func(k uint64) relRev { return relRev{mode: "abs", k: k} }
	return [][]ostep{
		// the older request reads the record and parks before its commit; the newer one runs to completion; the older resumes:
		// its CAS is lost, it fails, the record stays high, reads in between are refused
		{{kind: "spawn", id: 1, rel: abs(103)}, {kind: "step", id: 1}, {kind: "spawn", id: 2, rel: abs(111)}, {kind: "finish", id: 2},
			{kind: "read", rkind: "list", rel: abs(105)}, {kind: "read", rkind: "stream", rel: abs(110)}, {kind: "finish", id: 1},
			{kind: "read", rkind: "list", rel: abs(105), limit: 2}},
		// the symmetric order
		{{kind: "spawn", id: 1, rel: abs(111)}, {kind: "step", id: 1}, {kind: "spawn", id: 2, rel: abs(103)}, {kind: "finish", id: 2},
			{kind: "read", rkind: "list", rel: abs(102)}, {kind: "finish", id: 1}, {kind: "read", rkind: "list", rel: abs(102)}},
		// both read before either commits
		{{kind: "spawn", id: 1, rel: abs(103)}, {kind: "step", id: 1}, {kind: "spawn", id: 2, rel: abs(111)}, {kind: "step", id: 2},
			{kind: "finish", id: 1}, {kind: "finish", id: 2}, {kind: "read", rkind: "list", rel: abs(105)}},
		// an earlier floor, then the two orders on top of it
		{{kind: "spawn", id: 3, rel: abs(102)}, {kind: "finish", id: 3}, {kind: "spawn", id: 1, rel: abs(104)}, {kind: "step", id: 1},
			{kind: "spawn", id: 2, rel: abs(110)}, {kind: "finish", id: 2}, {kind: "read", rkind: "scancount", rel: abs(107)}, {kind: "finish", id: 1},
			{kind: "read", rkind: "list", rel: abs(107)}},
		// finding C08-F1: the older compaction is parked between checkCompactRace's Get and Put while the newer one completes
		{{kind: "spawn", id: 1, rel: abs(103)}, {kind: "step", id: 1}, {kind: "step", id: 1}, {kind: "step", id: 1},
			{kind: "spawn", id: 2, rel: abs(111)}, {kind: "finish", id: 2}, {kind: "read", rkind: "list", rel: abs(105)},
			{kind: "finish", id: 1}, {kind: "read", rkind: "list", rel: abs(105)}},
		// the older request has staged its conditional write of the record and is parked right before the engine Commit;
		// the newer one runs to completion (or is blocked by the engine until the commit); reads in between
		{{kind: "spawn", id: 1, rel: abs(103)}, {kind: "step", id: 1}, {kind: "spawn", id: 2, rel: abs(111)}, {kind: "hold", id: 1, other: 2},
			{kind: "read", rkind: "list", rel: abs(105)}, {kind: "finish", id: 2}, {kind: "finish", id: 1},
			{kind: "read", rkind: "list", rel: abs(105), limit: 2}, {kind: "read", rkind: "stream", rel: abs(110)}},
		// the same on top of an earlier floor (the staged write is a compare-and-swap on the value read)
		{{kind: "spawn", id: 3, rel: abs(102)}, {kind: "finish", id: 3}, {kind: "spawn", id: 1, rel: abs(104)}, {kind: "step", id: 1},
			{kind: "spawn", id: 2, rel: abs(110)}, {kind: "hold", id: 1, other: 2}, {kind: "read", rkind: "list", rel: abs(107)},
			{kind: "finish", id: 2}, {kind: "finish", id: 1}, {kind: "read", rkind: "scancount", rel: abs(107)}, {kind: "read", rkind: "list", rel: abs(107)}},
		// ... and inside checkCompactRace: the older compaction has staged its put of the record, the newer request completes
		{{kind: "spawn", id: 1, rel: abs(103)}, {kind: "step", id: 1}, {kind: "step", id: 1}, {kind: "step", id: 1},
			{kind: "spawn", id: 2, rel: abs(111)}, {kind: "hold", id: 1, other: 2}, {kind: "read", rkind: "list", rel: abs(105)},
			{kind: "finish", id: 2}, {kind: "finish", id: 1}, {kind: "read", rkind: "list", rel: abs(105)}},
	}
}

// a range read overlapping a compaction above its revision: the read passes its check of the compaction record, the
// compaction (of keys rewritten in between) runs to completion, then the read opens its iterators
func readRaceCorpus() [][]ostep {
	abs := func(k uint64) relRev { return relRev{mode: "abs", k: k} }
	return [][]ostep{
		// the reported interleaving: read at 112 checked; four keys rewritten (113..116); Compact(116) completes; the read scans
		{{kind: "rspawn", id: 5, rel: abs(112)}, {kind: "rstep", id: 5}, {kind: "update", limit: 4}, {kind: "spawn", id: 1, rel: abs(116)},
			{kind: "finish", id: 1}, {kind: "rstep", id: 5}, {kind: "read", rkind: "list", rel: abs(112)}, {kind: "read", rkind: "list", rel: abs(116)}},
		// the compaction completes before the check: refused at the check
		{{kind: "rspawn", id: 5, rel: abs(112)}, {kind: "update", limit: 4}, {kind: "spawn", id: 1, rel: abs(116)}, {kind: "finish", id: 1},
			{kind: "rstep", id: 5}, {kind: "read", rkind: "list", rel: abs(116)}},
		// the compaction is below the read's revision: served, nothing the read needs is deleted
		{{kind: "update", limit: 4}, {kind: "rspawn", id: 5, rel: abs(116)}, {kind: "rstep", id: 5}, {kind: "update", limit: 2}, {kind: "spawn", id: 1, rel: abs(114)},
			{kind: "finish", id: 1}, {kind: "rstep", id: 5}, {kind: "read", rkind: "list", rel: abs(113)}},
		// a limited read, the record written while the compaction is still scanning (floor raised, scan not yet done)
		{{kind: "rspawn", id: 5, rel: abs(112), limit: 5}, {kind: "rstep", id: 5}, {kind: "update", limit: 6}, {kind: "spawn", id: 1, rel: abs(118)},
			{kind: "step", id: 1}, {kind: "step", id: 1}, {kind: "rstep", id: 5}, {kind: "finish", id: 1}, {kind: "read", rkind: "list", rel: abs(112)}},
	}
}
