package main

// Overlapping compactions: every Backend.Compact call runs on its own logical thread and is advanced one engine
// call at a time (lib.Sched); the engine calls that touch the compaction record are the yield points, attributed to
// setCompactRecord / checkCompactRace by the call stack.

import (
	"context"
	"fmt"
	"runtime"
	"strings"
	"time"

	"kbverif/lib"
)

// an overlap schedule: spawn thread i with a revision, advance thread i by one engine call, or read
type ostep struct {
	kind  string // spawn | step | read
	id    int
	rel   relRev
	rkind string
	limit int64
}

func phaseOf(kind string) string {
	pcs := make([]uintptr, 32)
	n := runtime.Callers(3, pcs)
	frames := runtime.CallersFrames(pcs[:n])
	for {
		f, more := frames.Next()
		switch {
		case strings.HasSuffix(f.Function, ".setCompactRecord"):
			if kind == "get" {
				return "PhSetGet"
			}
			return "PhSetCommit"
		case strings.HasSuffix(f.Function, ".checkCompactRace"):
			if kind == "get" {
				return "PhRaceGet"
			}
			return "PhRacePut"
		}
		if !more {
			return ""
		}
	}
}

type othread struct {
	t     *lib.Thread
	phase string
	hdr   uint64
	err   error
	done  bool
}

func runOverlap(id int, seed uint64, engine string, skipped []string, scratch string, sched []ostep, random bool) (res result) {
	res.kind = "overlap/" + engine
	inner, closer, err := lib.NewEngine(engine, scratch)
	if err != nil {
		res.fail = &lib.ImplFailure{CaseID: id, What: "engine: " + err.Error()}
		return
	}
	defer closer()
	s := lib.NewSched()
	kv := &lib.Wrap{KvStorage: inner, Before: func(kind string, key []byte) error {
		if kind == "get" || kind == "batch" {
			if ph := phaseOf(kind); ph != "" {
				s.Yield(ph)
			}
		}
		return nil
	}}
	be, err := lib.CsNewBackend(kv, prefix, skipped, initRev)
	if err != nil {
		res.fail = &lib.ImplFailure{CaseID: id, What: err.Error()}
		return
	}
	defer be.Retire()
	sc := lib.CsScanner(kv, prefix, time.Hour)
	rnd := lib.NewRand(seed)
	nranges := 1 + len(skipped)
	for i := 0; i < 12; i++ {
		be.Do(lib.CsWrite{Op: "create", Key: []byte(fmt.Sprintf("/registry/pods/k%d", i)), Val: []byte("v")})
	}
	var steps []string
	var js []interface{}
	outc := map[string]bool{}
	floor, last := uint64(0), uint64(0)
	sawErr, sawData, lowered, interleaved := false, false, false, false
	record := func(op, obs string, j map[string]interface{}) {
		cur := be.B.GetCurrentRevision()
		rec, ok := lib.CsRecord(inner, prefix)
		steps = append(steps, lib.App("mkS8", op, obs, lib.N(cur), lib.OptBytes(rec, ok)))
		j["cur"] = cur
		if ok {
			j["record"] = lib.HexBytes(rec)
			if len(rec) == 8 {
				f := uint64(0)
				for _, x := range rec {
					f = f<<8 | uint64(x)
				}
				if f < floor {
					lowered = true
				}
				floor = f
			}
		}
		js = append(js, j)
	}
	record(lib.App("CWrite", lib.N(12)), "OWrite", map[string]interface{}{"op": "write", "n": 12})
	threads := map[int]*othread{}
	alive := func() []int {
		var a []int
		for i := 1; i <= 4; i++ {
			if th := threads[i]; th != nil && !th.done {
				a = append(a, i)
			}
		}
		return a
	}
	advance := func(i int, label string, j map[string]interface{}) bool {
		th := threads[i]
		p, done := s.Step(th.t, 10*time.Second)
		if p == "<blocked>" {
			res.fail = &lib.ImplFailure{CaseID: id, What: fmt.Sprintf("compaction thread %d blocked at %s", i, th.phase), Case: js}
			return false
		}
		if done {
			th.done = true
			obs := lib.App("OCompact", lib.N(th.hdr), cresCoq(th.err))
			outc["thread-"+cresCoq(th.err)] = true
			j["finished"] = map[string]interface{}{"hdr": th.hdr, "err": th.err != nil}
			record(label, obs, j)
			return true
		}
		th.phase = p
		record(label, "OWrite", j)
		return true
	}
	spawn := func(i int, rev uint64) bool {
		th := &othread{}
		threads[i] = th
		th.t = s.Go(fmt.Sprintf("compact-%d", i), func() {
			resp, err := be.B.Compact(context.Background(), rev)
			th.hdr, th.err = resp.GetHeader().GetRevision(), err
		})
		return advance(i, lib.App("CSpawn", lib.N(uint64(i)), lib.N(rev), lib.Nat(nranges)),
			map[string]interface{}{"op": "spawn compaction thread", "thread": i, "rev": rev})
	}
	stepThread := func(i int) bool {
		th := threads[i]
		if len(alive()) > 1 {
			interleaved = true
		}
		ph := th.phase
		outc["step-"+ph] = true
		return advance(i, lib.App("CThread", lib.N(uint64(i)), ph), map[string]interface{}{"op": "thread performs", "thread": i, "call": ph})
	}
	read := func(kind string, rev uint64, limit int64) {
		isErr, op := doRead(be, sc, kind, rev, limit)
		if isErr {
			sawErr = true
		} else {
			sawData = true
		}
		outc["read-"+kind+"-"+rresCoq(isErr)] = true
		record(op, lib.App("ORead", rresCoq(isErr)), map[string]interface{}{"op": kind, "rev": rev, "limit": limit, "err": isErr})
	}
	if !random {
		for _, st := range sched {
			cur := be.B.GetCurrentRevision()
			switch st.kind {
			case "spawn":
				rev := resolve(st.rel, cur, floor, last)
				last = rev
				if !spawn(st.id, rev) {
					return
				}
			case "step":
				if th := threads[st.id]; th == nil || th.done {
					continue
				}
				if !stepThread(st.id) {
					return
				}
			case "finish":
				for threads[st.id] != nil && !threads[st.id].done {
					if !stepThread(st.id) {
						return
					}
				}
			case "read":
				read(st.rkind, resolve(st.rel, cur, floor, last), st.limit)
			}
		}
	} else {
		next := 1
		for n := 0; n < 60; n++ {
			a := alive()
			cur := be.B.GetCurrentRevision()
			switch x := rnd.Intn(10); {
			case x < 2 && next <= 3:
				rel := []relRev{{mode: "cur-k", k: uint64(rnd.Intn(11))}, {mode: "floor+k", k: uint64(rnd.Intn(4))}, {mode: "floor-k", k: uint64(1 + rnd.Intn(5))}, {mode: "zero"}}[rnd.Intn(4)]
				rev := resolve(rel, cur, floor, last)
				last = rev
				if !spawn(next, rev) {
					return
				}
				next++
			case x < 8 && len(a) > 0:
				if !stepThread(a[rnd.Intn(len(a))]) {
					return
				}
			case x == 8:
				rel := []relRev{{mode: "floor-k", k: uint64(1 + rnd.Intn(4))}, {mode: "floor+k", k: uint64(rnd.Intn(2))}, {mode: "cur-k", k: uint64(rnd.Intn(10))}}[rnd.Intn(3)]
				read([]string{"list", "list", "scancount", "stream"}[rnd.Intn(4)], resolve(rel, cur, floor, last), int64(rnd.Intn(3)))
			default:
				if next > 3 && len(a) == 0 {
					n = 60
				}
			}
		}
	}
	// let every thread finish, then read around the floor
	for _, i := range alive() {
		for !threads[i].done {
			if !stepThread(i) {
				return
			}
		}
	}
	for _, d := range []int64{-3, -1, 0, 1} {
		if rev := int64(floor) + d; rev > 0 {
			read("list", uint64(rev), 0)
		}
	}
	res.coq = lib.App("mkC8", lib.N(initRev), lib.List(steps))
	res.json = map[string]interface{}{"class": "overlap", "engine": engine, "skipped": skipped, "steps": js, "floor_lowered": lowered}
	for o := range outc {
		res.outcomes = append(res.outcomes, o)
	}
	if lowered {
		res.outcomes = append(res.outcomes, "floor-lowered")
	}
	res.trivial = !(sawErr && sawData && interleaved)
	return
}

// the fixed overlap schedules
func overlapCorpus() [][]ostep {
	abs := func(k uint64) relRev { return relRev{mode: "abs", k: k} }
	return [][]ostep{
		// the older request reads the record and parks before its commit; the newer one runs to completion; the older resumes:
		// its CAS is lost, it fails, the record stays high, reads in between are refused
		{{kind: "spawn", id: 1, rel: abs(103)}, {kind: "step", id: 1}, {kind: "spawn", id: 2, rel: abs(111)}, {kind: "finish", id: 2},
			{kind: "read", rkind: "list", rel: abs(105)}, {kind: "read", rkind: "stream", rel: abs(110)}, {kind: "finish", id: 1},
			{kind: "read", rkind: "list", rel: abs(105), limit: 2}},
		// the symmetric order
		{{kind: "spawn", id: 1, rel: abs(111)}, {kind: "step", id: 1}, {kind: "spawn", id: 2, rel: abs(103)}, {kind: "finish", id: 2},
			{kind: "read", rkind: "list", rel: abs(102)}, {kind: "finish", id: 1}, {kind: "read", rkind: "list", rel: abs(102)}},
		// both read before either commits
		{{kind: "spawn", id: 1, rel: abs(103)}, {kind: "step", id: 1}, {kind: "spawn", id: 2, rel: abs(111)}, {kind: "step", id: 2},
			{kind: "finish", id: 1}, {kind: "finish", id: 2}, {kind: "read", rkind: "list", rel: abs(105)}},
		// an earlier floor, then the two orders on top of it
		{{kind: "spawn", id: 3, rel: abs(102)}, {kind: "finish", id: 3}, {kind: "spawn", id: 1, rel: abs(104)}, {kind: "step", id: 1},
			{kind: "spawn", id: 2, rel: abs(110)}, {kind: "finish", id: 2}, {kind: "read", rkind: "scancount", rel: abs(107)}, {kind: "finish", id: 1},
			{kind: "read", rkind: "list", rel: abs(107)}},
		// finding C08-F1: the older compaction is parked between checkCompactRace's Get and Put while the newer one completes
		{{kind: "spawn", id: 1, rel: abs(103)}, {kind: "step", id: 1}, {kind: "step", id: 1}, {kind: "step", id: 1},
			{kind: "spawn", id: 2, rel: abs(111)}, {kind: "finish", id: 2}, {kind: "read", rkind: "list", rel: abs(105)},
			{kind: "finish", id: 1}, {kind: "read", rkind: "list", rel: abs(105)}},
	}
}
