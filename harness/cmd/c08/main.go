// Driver c08: histories of compaction requests (increasing, repeated, decreasing, zero, above current),
// writes and range reads at every revision on a real Backend; per step the response class, the
// committed revision and the raw value of <prefix>/compact_key are recorded as a Coq case.
package main

import (
	"context"
	"errors"
	"fmt"
	"os"
	"sync/atomic"
	"time"

	proto "github.com/kubewharf/kubebrain-client/api/v2rpc"

	"github.com/kubewharf/kubebrain/pkg/backend"
	"github.com/kubewharf/kubebrain/pkg/backend/coder"
	"github.com/kubewharf/kubebrain/pkg/storage"

	"kbverif/lib"
)

const prefix = "/registry"
const initRev = 100

var keyPool = []string{"/registry/pods/a", "/registry/pods/b", "/registry/pods/c", "/registry/skip/x", "/registry/svc/s", "/registry/leases/l"}

// relative compaction request: resolved when the step runs
type relRev struct {
	mode string // abs | cur-k | cur+k | zero | floor-k | floor+k | same
	k    uint64
}

func resolve(m relRev, cur, floor, last uint64) uint64 {
	switch m.mode {
	case "zero":
		return 0
	case "cur-k":
		if cur > m.k {
			return cur - m.k
		}
		return 1
	case "cur+k":
		return cur + m.k
	case "floor-k":
		if floor > m.k {
			return floor - m.k
		}
		return 1
	case "floor+k":
		return floor + m.k
	case "same":
		if last == 0 {
			return cur
		}
		return last
	}
	return m.k
}

type plan struct {
	kind  string
	rel   relRev
	n     int
	limit int64
	fault bool
}

func genPlan(r *lib.Rand, cls string) []plan {
	var ps []plan
	n := 6 + r.Intn(8)
	ps = append(ps, plan{kind: "write", n: 2 + r.Intn(4)})
	if cls == "zigzag" {
		ps[0].n = 12
		// at least three compactions: high, low, in between
		hi := uint64(r.Intn(3))
		lo := hi + 4 + uint64(r.Intn(5))
		mid := hi + 1 + uint64(r.Intn(int(lo-hi-1)))
		for _, k := range []uint64{hi, lo, mid} {
			kind := "compact"
			if r.Chance(1, 5) {
				kind = "compact2"
			}
			ps = append(ps, plan{kind: kind, rel: relRev{mode: "cur-k", k: k}})
			if r.Bool() {
				ps = append(ps, plan{kind: []string{"list", "stream", "scancount", "streampart"}[r.Intn(4)], rel: relRev{mode: "floor-k", k: uint64(1 + r.Intn(3))}, limit: int64(r.Intn(3))})
			}
		}
	}
	for i := 0; i < n; i++ {
		switch x := r.Intn(100); {
		case x < 30:
			ps = append(ps, plan{kind: "write", n: 1 + r.Intn(3)})
		case x < 60:
			var rel relRev
			switch cls {
			case "increasing":
				rel = relRev{mode: "floor+k", k: uint64(1 + r.Intn(3))}
			case "repeated":
				rel = relRev{mode: "same"}
			case "decreasing":
				rel = relRev{mode: "floor-k", k: uint64(1 + r.Intn(6))}
			case "zero":
				rel = relRev{mode: "zero"}
			case "above":
				rel = relRev{mode: "cur+k", k: uint64(1 + r.Intn(50))}
			case "zigzag":
				rel = relRev{mode: "cur-k", k: uint64(r.Intn(11))}
			default:
				rel = []relRev{{mode: "floor+k", k: uint64(r.Intn(3))}, {mode: "same"}, {mode: "floor-k", k: uint64(1 + r.Intn(6))},
					{mode: "zero"}, {mode: "cur+k", k: uint64(r.Intn(5))}, {mode: "cur-k", k: uint64(r.Intn(5))}, {mode: "abs", k: uint64(r.Intn(130))}}[r.Intn(7)]
			}
			if r.Chance(1, 6) {
				ps = append(ps, plan{kind: "compact2", rel: rel})
			} else {
				ps = append(ps, plan{kind: "compact", rel: rel, fault: r.Chance(1, 12)})
			}
		default:
			rel := []relRev{{mode: "floor-k", k: 1}, {mode: "floor-k", k: uint64(1 + r.Intn(5))}, {mode: "floor+k", k: 0}, {mode: "floor+k", k: 1},
				{mode: "zero"}, {mode: "cur-k", k: uint64(r.Intn(4))}, {mode: "cur+k", k: uint64(r.Intn(3))}, {mode: "abs", k: uint64(r.Intn(120))}}[r.Intn(8)]
			k := []string{"list", "list", "list", "count", "scancount", "stream", "streampart"}[r.Intn(7)]
			lim := int64(0)
			if k == "list" && r.Bool() {
				lim = []int64{1, 2, 3, 500}[r.Intn(4)]
			}
			ps = append(ps, plan{kind: k, rel: rel, limit: lim})
		}
	}
	return ps
}

var partitionStreams, mixedPartitions int64

var faultOn int32 // one-shot commit fault (0 off, 1 generic error, 2 uncertain result)

func cresCoq(err error) string {
	if err != nil {
		return "CErr"
	}
	return "COk"
}

func rresCoq(isErr bool) string {
	if isErr {
		return "RErr"
	}
	return "RData"
}

type result struct {
	coq      string
	json     interface{}
	kind     string
	outcomes []string
	trivial  bool
	fail     *lib.ImplFailure
}

func runCase(id int, seed uint64, cls, engine string, skipped []string, scratch string, plans []plan, sweep bool, uncertainAt int) (res result) {
	res.kind = cls + "/" + engine
	var inner storage.KvStorage
	var closer func()
	var err error
	var recordFault int32
	if engine == engTiKVHooked {
		inner, closer, err = newHookedTiKV(&recordFault, cd.EncodeObjectKey([]byte("/registry/pods/b"), 0), cd.EncodeObjectKey([]byte("/registry/skip/x"), 0))
	} else if engine == lib.EngTiKV {
		inner, closer, err = lib.NewTiKVSplit(cd.EncodeObjectKey([]byte("/registry/pods/b"), 0), cd.EncodeObjectKey([]byte("/registry/pods/c"), 3),
			cd.EncodeObjectKey([]byte("/registry/skip/x"), 0))
	} else {
		inner, closer, err = lib.NewEngine(engine, scratch)
	}
	if err != nil {
		res.fail = &lib.ImplFailure{CaseID: id, What: "engine: " + err.Error()}
		return
	}
	defer closer()
	var myFault int32
	kv := &lib.Wrap{KvStorage: inner, CommitFault: func() (error, bool) {
		switch atomic.SwapInt32(&myFault, 0) {
		case 1:
			return errors.New("injected commit failure"), false
		case 2:
			return storage.NewErrUncertainResult(errors.New("injected unknown outcome")), false
		}
		return nil, false
	}}
	be, err := lib.CsNewBackend(kv, prefix, skipped, initRev)
	if err != nil {
		res.fail = &lib.ImplFailure{CaseID: id, What: err.Error()}
		return
	}
	defer be.Retire()
	sc := lib.CsScanner(kv, prefix, time.Hour)
	es := newEtcdFront(be.B)
	rnd := lib.NewRand(seed)
	nranges := 1 + len(skipped)
	// one read: through the Backend / scanner, or through the etcd front end (every range request with a non-empty
	// range_end is Backend.List underneath: same label). On the hooked TiKV a read BELOW the floor is made with the
	// point read of the compaction record failing: an engine failure is no licence to serve it
	var floor uint64
	nreads := 0
	readOnce := func(kind string, rev uint64, limit int64) (isErr bool, op string, faulted bool) {
		eff := rev
		if eff == 0 || kind == "count" {
			eff = be.B.GetCurrentRevision()
		}
		// below the floor always; at or above it every other read: the code answers with the engine error, the model
		// with the refusal of a read that cannot see the record (label CFaultRead)
		nreads++
		if engine == engTiKVHooked && kind != "streampart" && (eff < floor || nreads%2 == 0) {
			faulted = true
			atomic.StoreInt32(&recordFault, 1)
			defer atomic.StoreInt32(&recordFault, 0)
		}
		if isEtcdKind(kind) {
			isErr, op = etcdRange(es, kind, rev, limit), lib.App("CList", lib.N(rev), lib.N(uint64(limit)))
		} else {
			isErr, op = doRead(be, sc, kind, rev, limit)
		}
		if faulted {
			frev := rev
			if kind == "count" {
				frev = 0
			}
			op = lib.App("CFaultRead", lib.N(frev))
		}
		return isErr, op, faulted
	}

	var steps []string
	var js []interface{}
	outc := map[string]bool{}
	last := uint64(0)
	sawErr, sawData, lowered := false, false, false
	record := func(op, obs string, j map[string]interface{}) {
		cur := be.B.GetCurrentRevision()
		rec, ok := lib.CsRecord(inner, prefix)
		steps = append(steps, lib.App("mkS8", op, obs, lib.N(cur), lib.OptBytes(rec, ok)))
		j["cur"] = cur
		if ok {
			j["record"] = lib.HexBytes(rec)
			if len(rec) == 8 {
				f := uint64(0)
				for _, x := range rec {
					f = f<<8 | uint64(x)
				}
				if f < floor {
					lowered = true
				}
				floor = f
			}
		}
		js = append(js, j)
	}
	doWrites := func(n int) bool {
		for i := 0; i < n; i++ {
			w := lib.CsWrite{Key: []byte(keyPool[rnd.Intn(len(keyPool))]), Val: []byte(fmt.Sprintf("v%d", rnd.Intn(100)))}
			switch rnd.Intn(4) {
			case 0, 1:
				w.Op = "create"
			case 2:
				w.Op = "update"
				if kvr, ok, _ := be.Get(w.Key, 0); ok && rnd.Chance(3, 4) {
					w.Rev = kvr.Rev
				} else {
					w.Rev = uint64(initRev + rnd.Intn(10))
				}
			default:
				w.Op = "delete"
				if kvr, ok, _ := be.Get(w.Key, 0); ok && rnd.Bool() {
					w.Rev = kvr.Rev
				}
			}
			cl, _, synced := be.Do(w)
			outc["write-"+cl] = true
			if !synced {
				res.fail = &lib.ImplFailure{CaseID: id, What: "committed revision stalled after " + w.Op, Case: js}
				return false
			}
		}
		return true
	}

	var be2 *lib.CsBackend
	for pi, p := range plans {
		if pi == uncertainAt {
			atomic.StoreInt32(&myFault, 2)
			before := be.B.GetCurrentRevision()
			cl, _, synced := be.Do(lib.CsWrite{Op: "create", Key: []byte(fmt.Sprintf("/registry/unc/k%d", pi)), Val: []byte("u")})
			atomic.StoreInt32(&myFault, 0)
			outc["uncertain-"+cl] = true
			if !synced || be.B.GetCurrentRevision() != before+1 {
				res.fail = &lib.ImplFailure{CaseID: id, What: "committed revision stalled after an uncertain write", Case: js}
				return
			}
			record("CUncertain", "OWrite", map[string]interface{}{"op": "uncertain-write", "queue": backend.VerifRetryQueueSize(be.B)})
		}
		cur := be.B.GetCurrentRevision()
		switch p.kind {
		case "write":
			if !doWrites(p.n) {
				return
			}
			record(lib.App("CWrite", lib.N(uint64(p.n))), "OWrite", map[string]interface{}{"op": "write", "n": p.n})
		case "compact2":
			rev := resolve(p.rel, cur, floor, last)
			last = rev
			if be2 == nil {
				be2, err = lib.CsNewBackend(kv, prefix, skipped, cur)
				if err != nil {
					res.fail = &lib.ImplFailure{CaseID: id, What: err.Error()}
					return
				}
				defer be2.Retire()
			}
			be2.B.SetCurrentRevision(cur)
			resp, err := be2.B.Compact(context.Background(), rev)
			hdr := resp.GetHeader().GetRevision()
			outc["compact2-"+cresCoq(err)] = true
			record(lib.App("CCompact2", lib.N(rev), lib.Nat(nranges)), lib.App("OCompact", lib.N(hdr), cresCoq(err)),
				map[string]interface{}{"op": "compact-by-second-backend", "rev": rev, "hdr": hdr, "err": err != nil})
		case "compact":
			rev := resolve(p.rel, cur, floor, last)
			last = rev
			if p.fault {
				atomic.StoreInt32(&myFault, 1)
			}
			resp, err := be.B.Compact(context.Background(), rev)
			atomic.StoreInt32(&myFault, 0)
			hdr := resp.GetHeader().GetRevision()
			outc["compact-"+cresCoq(err)] = true
			record(lib.App("CCompact", lib.N(rev), lib.Nat(nranges), lib.Bool(!p.fault)), lib.App("OCompact", lib.N(hdr), cresCoq(err)),
				map[string]interface{}{"op": "compact", "rev": rev, "fault": p.fault, "hdr": hdr, "err": err != nil})
		default:
			rev := resolve(p.rel, cur, floor, last)
			kind := p.kind
			if kind == "list" && rnd.Chance(1, 3) { // the same read as an etcd client sends it
				kind = []string{"etcd-all", "etcd-pods", "etcd-single", "etcd-ab"}[rnd.Intn(4)]
			}
			isErr, op, faulted := readOnce(kind, rev, p.limit)
			if isErr {
				sawErr = true
			} else {
				sawData = true
			}
			outc["read-"+kind+"-"+rresCoq(isErr)] = true
			if faulted {
				outc["read-with-failing-record-read"] = true
			}
			record(op, lib.App("ORead", rresCoq(isErr)), map[string]interface{}{"op": kind, "rev": rev, "limit": p.limit, "err": isErr, "record_read_fails": faulted})
		}
	}
	if sweep {
		cur := be.B.GetCurrentRevision()
		type path struct {
			kind  string
			limit int64
		}
		paths := []path{{"list", 0}, {"list", 1}, {"list", 2}, {"list", 500}, {"scancount", 0}, {"stream", 0}, {"streampart", 0},
			{"etcd-single", 0}, {"etcd-single", 1}, {"etcd-pods", 0}, {"etcd-all", 3}}
		for rev := uint64(initRev - 1); rev <= cur+1; rev++ {
			for _, pth := range paths {
				isErr, op, faulted := readOnce(pth.kind, rev, pth.limit)
				if isErr {
					sawErr = true
				} else {
					sawData = true
				}
				outc["read-"+pth.kind+"-"+rresCoq(isErr)] = true
				if faulted {
					outc["read-with-failing-record-read"] = true
				}
				record(op, lib.App("ORead", rresCoq(isErr)), map[string]interface{}{"op": pth.kind, "rev": rev, "limit": pth.limit, "err": isErr, "sweep": true, "record_read_fails": faulted})
			}
		}
		isErr, op := doRead(be, sc, "count", 0, 0)
		record(op, lib.App("ORead", rresCoq(isErr)), map[string]interface{}{"op": "count", "err": isErr, "sweep": true})
	}
	res.coq = lib.App("mkC8", lib.N(initRev), lib.List(steps))
	res.json = map[string]interface{}{"class": cls, "engine": engine, "skipped": skipped, "steps": js, "floor_lowered": lowered}
	for o := range outc {
		res.outcomes = append(res.outcomes, o)
	}
	res.trivial = !(sawErr && sawData)
	return
}

func doRead(be *lib.CsBackend, sc interface {
	Count(ctx context.Context, start []byte, end []byte, revision uint64) (int, error)
}, kind string, rev uint64, limit int64) (isErr bool, op string) {
	start, end := []byte(prefix+"/"), []byte(prefix+"0")
	switch kind {
	case "list":
		_, _, isErr = be.List(start, end, rev, limit)
		op = lib.App("CList", lib.N(rev), lib.N(uint64(limit)))
	case "count":
		_, err := be.B.Count(context.Background(), countReq(start, end))
		isErr = err != nil
		op = "CCount"
	case "scancount":
		_, err := sc.Count(context.Background(), enc(start), enc(end), rev)
		isErr = err != nil
		op = lib.App("CScanCount", lib.N(rev))
	case "stream":
		_, isErr = be.Stream(start, end, rev)
		op = lib.App("CStream", lib.N(rev))
	case "streampart":
		op = lib.App("CStreamPart", lib.N(rev))
		pr, err := be.B.GetPartitions(context.Background(), &proto.ListPartitionRequest{Key: start, End: end})
		if err != nil || len(pr.PartitionKeys) < 2 {
			return true, op
		}
		nerr := 0
		for i := 0; i+1 < len(pr.PartitionKeys); i++ {
			ch, _ := be.B.ListByStream(context.Background(), pr.PartitionKeys[i], pr.PartitionKeys[i+1], rev)
			bad := false
			for m := range ch {
				if m.Err != "" {
					bad = true
				}
			}
			if bad {
				nerr++
			}
		}
		atomic.AddInt64(&partitionStreams, int64(len(pr.PartitionKeys)-1))
		if nerr != 0 && nerr != len(pr.PartitionKeys)-1 {
			atomic.AddInt64(&mixedPartitions, 1)
			return false, op // some partition served data
		}
		isErr = nerr != 0
	}
	return
}

var cd = coder.NewNormalCoder()

func enc(k []byte) []byte { return cd.EncodeObjectKey(k, 0) }
func countReq(start, end []byte) *proto.CountRequest {
	return &proto.CountRequest{Key: start, End: end}
}

func main() {
	lib.QuietLogs()
	args := lib.ParseArgs()
	backend.VerifSetIntervals(time.Hour, time.Hour)
	rnd := lib.NewRand(args.Seed)
	n := 200
	if args.Tier == "thorough" {
		n = 3000
	} else if args.Tier == "search" {
		n = 1200
	}
	w := lib.NewWriter(args, "C08", "c08", "From KB Require Import Model.C08Cases.", "c08_case", "c08_check_v", "c08_oracle", 400)

	type job struct {
		cls, engine string
		skipped     []string
		plans       []plan
		sweep       bool
		unc         int
		seed        uint64
	}
	var jobs []job
	// fixed corpus: the witness of fix 1f7f45b and its neighbours
	corpus := func(revs []uint64, readRev uint64) job {
		ps := []plan{{kind: "write", n: 12}}
		for _, r := range revs {
			ps = append(ps, plan{kind: "compact", rel: relRev{mode: "abs", k: r}})
		}
		ps = append(ps, plan{kind: "list", rel: relRev{mode: "abs", k: readRev}})
		return job{cls: "corpus", engine: lib.EngMem, plans: ps, sweep: true, unc: -1, seed: 7}
	}
	jobs = append(jobs, corpus([]uint64{111, 103}, 105), corpus([]uint64{111, 111}, 110), corpus([]uint64{105, 0, 103}, 104),
		corpus([]uint64{500, 101}, 102), corpus([]uint64{103, 111, 103}, 105))
	jobs[0].skipped = nil
	jobs[4].skipped = []string{"/registry/skip"}
	zig := func(second bool, skipped []string, engine string) job {
		ps := []plan{{kind: "write", n: 12}, {kind: "compact", rel: relRev{mode: "abs", k: 110}}}
		if second {
			ps = append(ps, plan{kind: "compact2", rel: relRev{mode: "abs", k: 111}})
		}
		ps = append(ps, plan{kind: "compact", rel: relRev{mode: "abs", k: 105}}, plan{kind: "list", rel: relRev{mode: "abs", k: 107}, limit: 2},
			plan{kind: "compact", rel: relRev{mode: "abs", k: 108}}, plan{kind: "streampart", rel: relRev{mode: "abs", k: 109}},
			plan{kind: "list", rel: relRev{mode: "abs", k: 109}, limit: 500})
		return job{cls: "corpus-zigzag", engine: engine, skipped: skipped, plans: ps, sweep: true, unc: -1, seed: 11}
	}
	jobs = append(jobs, zig(false, nil, lib.EngMem), zig(false, []string{"/registry/skip", "/registry/leases"}, lib.EngMem),
		zig(true, []string{"/registry/skip"}, lib.EngMem), zig(true, []string{"/registry/skip"}, lib.EngTiKV), zig(false, nil, lib.EngBadger))
	// the TiKV adapter with the point read of the compaction record failing during every read below the floor
	jobs = append(jobs, zig(false, nil, engTiKVHooked), zig(true, []string{"/registry/skip"}, engTiKVHooked))
	hk := corpus([]uint64{111, 103}, 105)
	hk.engine = engTiKVHooked
	jobs = append(jobs, hk)
	classes := []string{"increasing", "repeated", "decreasing", "zero", "above", "zigzag", "zigzag", "mixed", "mixed", "mixed"}
	engines := []string{lib.EngMem}
	if args.Tier != "quick" {
		engines = []string{lib.EngMem, lib.EngMem, lib.EngBadger, lib.EngTiKV}
	}
	for i := 0; i < n; i++ {
		cls := classes[i%len(classes)]
		j := job{cls: cls, engine: engines[i%len(engines)], plans: genPlan(rnd, cls), sweep: rnd.Chance(2, 3), unc: -1, seed: rnd.U64()}
		if args.Tier == "quick" && i%25 == 24 {
			j.engine = []string{lib.EngBadger, lib.EngTiKV, engTiKVHooked}[(i/25)%3]
		} else if args.Tier != "quick" && i%16 == 15 {
			j.engine = engTiKVHooked
		}
		if rnd.Chance(1, 3) {
			j.skipped = [][]string{{"/registry/skip"}, {"/registry/skip", "/registry/leases"}}[rnd.Intn(2)]
		}
		if rnd.Chance(1, 6) {
			j.unc = 1 + rnd.Intn(len(j.plans)-1)
		}
		jobs = append(jobs, j)
	}
	type ojob struct {
		engine  string
		skipped []string
		sched   []ostep
		random  bool
		seed    uint64
	}
	var ojobs []ojob
	for _, e := range []string{lib.EngMem, lib.EngBadger, lib.EngTiKV} {
		for _, sc := range readRaceCorpus() {
			ojobs = append(ojobs, ojob{engine: e, sched: sc, seed: 9})
		}
	}
	for _, e := range []string{lib.EngMem, lib.EngBadger} {
		for ci, sc := range overlapCorpus() {
			var sk []string
			if ci == 3 {
				sk = []string{"/registry/skip"}
			}
			ojobs = append(ojobs, ojob{engine: e, skipped: sk, sched: sc, seed: 5})
		}
	}
	nOver := 30
	if args.Tier != "quick" {
		nOver = 400
	}
	for i := 0; i < nOver; i++ {
		e := lib.EngMem
		if i%5 == 4 {
			e = lib.EngBadger
		}
		var sk []string
		if rnd.Chance(1, 4) {
			sk = []string{"/registry/skip"}
		}
		ojobs = append(ojobs, ojob{engine: e, skipped: sk, random: true, seed: rnd.U64()})
	}
	results := make([]result, len(jobs)+len(ojobs))
	lib.CsRunParallel(len(jobs)+len(ojobs), 6, func(i int) {
		if i >= len(jobs) {
			o := ojobs[i-len(jobs)]
			results[i] = runOverlap(i, o.seed, o.engine, o.skipped, args.Scratch, o.sched, o.random)
			return
		}
		j := jobs[i]
		results[i] = runCase(i, j.seed, j.cls, j.engine, j.skipped, args.Scratch, j.plans, j.sweep, j.unc)
	})
	for i, r := range results {
		if r.fail != nil {
			r.fail.CaseID = i
			w.Fail(*r.fail)
			// keep ids aligned with job indexes
			w.Add(lib.Case{Kind: r.kind + "/failed", Coq: "(mkC8 0 [])", JSON: r.fail, Trivial: true})
			continue
		}
		w.Add(lib.Case{Kind: r.kind, Coq: r.coq, JSON: r.json, Trivial: r.trivial, Outcomes: r.outcomes})
	}
	w.Stats.Extra["partition_streams"] = partitionStreams
	w.Stats.Extra["partitions_answering_differently"] = mixedPartitions
	if err := w.Finish("histories from the five request classes (increasing, repeated, decreasing, zero, above-current) and mixtures, interleaved with write bursts, an optional unknown-outcome write (retry-queue cap) and List/limited List/Count/scanner Count/ListByStream at revisions around the floor, followed by a sweep over every revision from init-1 to current+1 through every read path (List unlimited and with limits 1, 2, 500, scanner Count, ListByStream whole and per advertised partition); reads also through etcd.RPCServer.Range (prefix, interval, [key, key+0x00) with limits 0/1/3); on a TiKV mock with an RPC interceptor every read below the floor is made while the point read of the compaction record fails with a key error; zigzag class = at least three compactions high/low/in-between, some through a second Backend on the same store, with 1-3 compaction ranges; distinct = SHA-256 of the Coq case; overlap cases: 2-3 Backend.Compact calls on logical threads advanced one engine call at a time (the calls touching the compaction record are the yield points), fixed schedules (older request parked before its commit while the newer completes, the symmetric order, both read first, on top of an earlier floor, the witness of finding C08-F1, and - on memkv - the older request parked INSIDE its batch right before the engine Commit while the newer one is advanced: blocked until that commit) and random interleavings with reads in between, on memkv and Badger; read-race schedules on memkv, Badger and the TiKV mock: a range read (unlimited / limited List) on its own thread, parked after its read of the compaction record and before its iterators are opened, while keys are rewritten and a compaction above its revision runs (former finding C08-F2: the scan ends with a second read of the record), also in the random interleavings; non-trivial = at least one refused and one served read (and, for overlap cases, a step taken while another thread was alive)"); err != nil {
		fmt.Fprintln(os.Stderr, err)
		os.Exit(2)
	}
}
