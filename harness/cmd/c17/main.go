// Driver c17: (a) a real scanner with a small Config.TTL over engines without TTL (memkv behind
// lib.Wrap{NoTTL}, TiKV mock): writes through a Backend, scanner.Compact calls separated by real sleeps,
// the decoded dump after each; (b) the TTL Backend.create hands to the engine; (c) the engine-side TTL of
// memkv and Badger under a Backend. Timestamps are recorded around the real calls; a case whose timing
// falls inside the margin is skipped as indeterminate.
package main

import (
	"bytes"
	"context"
	"fmt"
	"os"
	"sort"
	"strings"
	"sync"
	"sync/atomic"
	"time"

	"github.com/kubewharf/kubebrain/pkg/backend"
	"github.com/kubewharf/kubebrain/pkg/backend/coder"
	"github.com/kubewharf/kubebrain/pkg/storage"

	"kbverif/lib"
)

const prefix = "/registry"
const initRev = 100
const eventsTTLSeconds = 2

var cd = coder.NewNormalCoder()

var keyPool = []string{
	"/registry/events/default/e1", "/registry/events/kube-system/e2", "/registry/events/default/e3", // Event records
	"/registry/pods/events/p1", // a pod in a namespace called "events"
	"/registry/eventsx/a", "/registry/events", "/registry/pods/a", "/registry/xevents/default/b",
	"/other/events/x", // outside the prefix
}
var tab = lib.CsNewIntern(keyPool)

func enc(k string) []byte { return cd.EncodeObjectKey([]byte(k), 0) }

func sortedDecoded(kv storage.KvStorage) ([]lib.CsRec, error) {
	d, err := lib.CsDataDump(kv)
	if err != nil {
		return nil, err
	}
	sort.Slice(d, func(i, j int) bool { return bytes.Compare(d[i].K, d[j].K) < 0 })
	return lib.CsDecodeDump(d)
}

type out struct {
	coq      string
	json     interface{}
	kind     string
	outcomes []string
	trivial  bool
	skipped  string // indeterminate timing
	fail     string
}

// ---------- (a) scanner expiry ----------

type phase struct {
	writes []lib.CsWrite
	gap    int // ms to wait after the previous compaction before this one
	back   int // compaction revision = committed - back
	// window: a client Update of this key lands between the scan's snapshot and the removal of its index
	// (run from the engine wrapper just before the first engine delete that targets the key)
	window string
	burst  int // number of additional back-to-back compactions right after this one
	ahead  int // viaBackend: the request names committed + ahead, a revision not handed out yet
	// failDel: the first plain delete (a version record) of this key in this pass fails with an engine error
	// (experiment VERIF_C17_FAULT=1 only: what is left of an expired Event when its index is gone and a version stays)
	failDel string
}

type scanPlan struct {
	engine string
	ttl    int
	pre    []lib.CsWrite
	phases []phase
	// viaBackend: the compactions are Backend.Compact requests (the backend's own scanner, whose TTL is the events
	// TTL in whole seconds) instead of calls of a scanner with a millisecond TTL
	viaBackend bool
}

func genScanPlan(r *lib.Rand, engine string, ttl int, corpus int) scanPlan {
	p := scanPlan{engine: engine, ttl: ttl}
	mk := func(op, k string) lib.CsWrite { return lib.CsWrite{Op: op, Key: []byte(k), Val: []byte("v")} }
	switch corpus {
	case 1: // the substring test: a pod in a namespace called events expires like an Event
		for _, k := range []string{"/registry/events/default/e1", "/registry/pods/events/p1", "/registry/eventsx/a", "/registry/events", "/registry/pods/a", "/other/events/x"} {
			p.pre = append(p.pre, mk("create", k))
		}
		p.phases = []phase{{gap: 0}, {gap: ttl + 150, writes: []lib.CsWrite{mk("create", "/registry/events/default/e3")}}, {gap: ttl + 150}}
		return p
	case 2: // an Event updated after the mark stays; an Event deleted before expiry; a later smaller compaction revision
		p.pre = []lib.CsWrite{mk("create", "/registry/events/default/e1"), mk("create", "/registry/events/kube-system/e2"), mk("create", "/registry/events/default/e3"),
			mk("update", "/registry/events/default/e1"), mk("delete", "/registry/events/default/e3")}
		p.phases = []phase{{gap: 0}, {gap: ttl / 3, writes: []lib.CsWrite{mk("update", "/registry/events/kube-system/e2")}},
			{gap: ttl + 150, back: 3}, {gap: ttl + 200}}
		return p
	}
	switch corpus {
	case 3: // an Update of an expiring Event lands between the snapshot and the compare-and-delete of its index
		p.pre = []lib.CsWrite{mk("create", "/registry/events/default/e1"), mk("create", "/registry/events/kube-system/e2"), mk("create", "/registry/pods/a")}
		p.phases = []phase{{gap: 0}, {gap: ttl + 150, window: "/registry/events/default/e1"}, {gap: ttl + 150}}
		return p
	case 5: // a Compact request ahead of the committed revision, an Event created afterwards, and a compaction once that
		// request's mark is TTL old: the mark covers only what existed when it was made - the young Event stays
		p.viaBackend = true
		p.pre = []lib.CsWrite{mk("create", "/registry/events/default/e1"), mk("create", "/registry/pods/a")}
		p.phases = []phase{{gap: 0, ahead: 50}, {gap: ttl / 2, writes: []lib.CsWrite{mk("create", "/registry/events/default/e3"), mk("create", "/registry/events/kube-system/e2")}},
			{gap: ttl/2 + 300}, {gap: ttl/2 + 300, ahead: 7}, {gap: ttl + 300}}
		return p
	case 6: // experiment: the delete of the Event's version fails after its index has been removed; later passes
		p.pre = []lib.CsWrite{mk("create", "/registry/events/default/e1"), mk("create", "/registry/pods/a")}
		p.phases = []phase{{gap: 0}, {gap: ttl + 150, failDel: "/registry/events/default/e1"}, {gap: ttl / 3}, {gap: ttl + 150}}
		return p
	case 4: // many marks inside one TTL window: each mark keeps its own time
		p.pre = []lib.CsWrite{mk("create", "/registry/events/default/e1"), mk("create", "/registry/pods/a")}
		// ttl = 600: burst of 71 marks within a few ms, a new Event and one compaction 350 ms later (burst marks still young),
		// a compaction 410 ms after that (burst marks >= 700 ms old: e1 goes; the mark after e3 is 410 ms old: e3 stays),
		// a last one 720 ms later (now e3 goes)
		p.phases = []phase{{gap: 0, burst: 70 + r.Intn(30)}, {gap: ttl * 350 / 600, writes: []lib.CsWrite{mk("create", "/registry/events/default/e3")}},
			{gap: ttl * 410 / 600}, {gap: ttl * 720 / 600}}
		return p
	}
	n := 3 + r.Intn(6)
	for i := 0; i < n; i++ {
		k := keyPool[r.Intn(len(keyPool))]
		if r.Bool() {
			k = keyPool[r.Intn(4)]
		}
		p.pre = append(p.pre, mk([]string{"create", "create", "create", "update", "delete"}[r.Intn(5)], k))
	}
	gaps := []int{ttl / 5, ttl / 2, ttl + 130, ttl + 220, 2*ttl + 100}
	np := 3 + r.Intn(3)
	for i := 0; i < np; i++ {
		ph := phase{gap: gaps[r.Intn(len(gaps))]}
		if i == 0 {
			ph.gap = 0
		}
		if r.Chance(1, 4) {
			ph.back = 1 + r.Intn(4)
		}
		if i > 0 && r.Chance(1, 5) {
			ph.window = keyPool[r.Intn(4)]
		}
		if r.Chance(1, 10) {
			ph.burst = 20 + r.Intn(60)
		}
		for j := r.Intn(3); j > 0; j-- {
			k := keyPool[r.Intn(len(keyPool))]
			if r.Bool() {
				k = keyPool[r.Intn(4)]
			}
			ph.writes = append(ph.writes, mk([]string{"create", "update", "delete", "create"}[r.Intn(4)], k))
		}
		p.phases = append(p.phases, ph)
	}
	return p
}

// planOK: every (mark, later compaction) pair is at least `margin` away from the TTL boundary
func planOK(p scanPlan, margin int) bool {
	var ts []int
	t := 0
	for _, ph := range p.phases {
		t += ph.gap
		ts = append(ts, t)
	}
	for i := range ts {
		for j := i + 1; j < len(ts); j++ {
			age := ts[j] - ts[i]
			if age > p.ttl-margin && age < p.ttl+margin {
				return false
			}
		}
	}
	return true
}

func runScan(p scanPlan, scratch string) (o out) {
	o.kind = "scan/" + p.engine
	var eng storage.KvStorage
	var closer func()
	var err error
	var scanEng storage.KvStorage
	var windowHook func(kind string, key []byte) error
	hook := func(kind string, key []byte) error {
		if h := windowHook; h != nil {
			return h(kind, key)
		}
		return nil
	}
	if p.engine == lib.EngTiKV {
		var inner storage.KvStorage
		inner, closer, err = lib.NewEngine(lib.EngTiKV, scratch)
		eng = &lib.Wrap{KvStorage: inner, Before: hook}
	} else if p.engine == "memkv-native-ttl" {
		// writes go through a TTL-dropping wrapper (so that memkv's own timers stay out of the picture), the scanner
		// sees the engine itself, which advertises TTL support: scanner expiry must stay off
		var inner storage.KvStorage
		inner, closer, err = lib.NewEngine(lib.EngMem, scratch)
		eng = &lib.Wrap{KvStorage: inner, NoTTL: true}
		scanEng = &lib.Wrap{KvStorage: inner, Before: hook}
	} else {
		var inner storage.KvStorage
		inner, closer, err = lib.NewEngine(lib.EngMem, scratch)
		eng = &lib.Wrap{KvStorage: inner, NoTTL: true, Before: hook}
	}
	if err != nil {
		o.fail = err.Error()
		return
	}
	defer closer()
	be, err := lib.CsNewBackend(eng, prefix, nil, initRev)
	if err != nil {
		o.fail = err.Error()
		return
	}
	defer be.Retire()
	ttl := time.Duration(p.ttl) * time.Millisecond
	if scanEng == nil {
		scanEng = eng
	}
	sc := lib.CsScanner(scanEng, prefix, ttl)
	supports := scanEng.SupportTTL()

	wctx, wcancel := context.WithCancel(context.Background())
	defer wcancel()
	wch, werr := be.B.Watch(wctx, "/", 0)
	if werr != nil {
		o.fail = "watch: " + werr.Error()
		return
	}
	var events int64
	go func() {
		for evs := range wch {
			atomic.AddInt64(&events, int64(len(evs)))
		}
	}()
	okWrites := int64(0)
	var js []interface{}
	write := func(w lib.CsWrite) bool {
		if w.Op != "create" {
			if kv, ok, _ := be.Get(w.Key, 0); ok {
				w.Rev = kv.Rev
			}
		}
		class, hdr, synced := be.Do(w)
		if !synced {
			o.fail = "committed revision stalled"
			return false
		}
		if class == "ok" {
			okWrites++
		}
		o.outcomes = append(o.outcomes, "write-"+w.Op+"-"+class)
		js = append(js, map[string]interface{}{"op": w.Op, "key": string(w.Key), "rev": w.Rev, "res": class, "hdr": hdr})
		return true
	}
	for _, w := range p.pre {
		if !write(w) {
			return
		}
	}
	pre, err := sortedDecoded(eng)
	if err != nil {
		o.fail = err.Error()
		return
	}
	prev := pre
	var steps []string
	type span struct{ a, b time.Duration }
	var spans []span
	t0 := time.Now()
	var last time.Time
	expired := 0
	for pi, ph := range p.phases {
		if len(ph.writes) > 0 {
			for _, w := range ph.writes {
				if !write(w) {
					return
				}
			}
			now, err := sortedDecoded(eng)
			if err != nil {
				o.fail = err.Error()
				return
			}
			d, _ := lib.CsDiff(prev, now, tab)
			steps = append(steps, lib.App("SStore", d))
			prev = now
		}
		if pi > 0 {
			if d := time.Until(last.Add(time.Duration(ph.gap) * time.Millisecond)); d > 0 {
				time.Sleep(d)
			}
		}
		for b := 0; b <= ph.burst; b++ {
			R := be.B.GetCurrentRevision()
			if uint64(ph.back) < R-initRev {
				R -= uint64(ph.back)
			}
			// engine delete calls of this pass, and the writer request run inside the window
			var ocs []string
			fired := false
			if ph.window != "" && b == 0 {
				wkey := []byte(ph.window)
				windowHook = func(kind string, key []byte) error {
					if kind != "del" && kind != "delcur" {
						return nil
					}
					adds := "[]"
					if uk, _, derr := cd.Decode(key); derr == nil && bytes.Equal(uk, wkey) && !fired {
						fired = true
						w := lib.CsWrite{Op: "update", Key: wkey, Val: []byte("w")}
						if kv, ok, _ := be.Get(wkey, 0); ok {
							w.Rev = kv.Rev
						}
						class, hdr, synced := be.Do(w)
						if !synced {
							o.fail = "committed revision stalled (update in the expiry window)"
						}
						if class == "ok" {
							okWrites++
							adds = lib.List([]string{lib.App("RIdx", tab.B(wkey), lib.N(hdr), "false"), lib.App("RVer", tab.B(wkey), lib.N(hdr), lib.Bytes(w.Val))})
						}
						o.outcomes = append(o.outcomes, "window-update-"+class)
						js = append(js, map[string]interface{}{"op": "update inside the pass, before engine " + kind, "key": ph.window, "rev": w.Rev, "res": class, "hdr": hdr})
					}
					ocs = append(ocs, lib.Pair(adds, "OOk"))
					return nil
				}
			}
			if ph.failDel != "" && b == 0 {
				fkey := []byte(ph.failDel)
				windowHook = func(kind string, key []byte) error {
					if kind != "del" && kind != "delcur" {
						return nil
					}
					if uk, _, derr := cd.Decode(key); derr == nil && kind == "del" && bytes.Equal(uk, fkey) && !fired {
						fired = true
						ocs = append(ocs, lib.Pair("[]", "OFailOther"))
						js = append(js, map[string]interface{}{"op": "engine delete fails", "key": ph.failDel})
						return fmt.Errorf("verif: injected delete failure")
					}
					ocs = append(ocs, lib.Pair("[]", "OOk"))
					return nil
				}
			}
			a := time.Since(t0)
			last = time.Now()
			cur, req := be.B.GetCurrentRevision(), R
			if p.viaBackend {
				req = R + uint64(ph.ahead)
				if ph.ahead == 0 && ph.back == 0 && b%2 == 1 {
					req = 0
				}
				_, _ = be.B.Compact(context.Background(), req)
			} else {
				sc.Compact(context.Background(), enc(prefix+"/"), enc(prefix+"0"), R)
			}
			bb := time.Since(t0)
			windowHook = nil
			for _, q := range p.phases {
				if q.failDel != "" {
					kv, ok, _ := be.Get([]byte(q.failDel), 0)
					js = append(js, map[string]interface{}{"op": "Get after the pass", "key": q.failDel, "present": ok, "rev": kv.Rev})
					break
				}
			}
			spans = append(spans, span{a, bb})
			now, err := sortedDecoded(eng)
			if err != nil {
				o.fail = err.Error()
				return
			}
			d, rm := lib.CsDiff(prev, now, tab)
			expired += len(rm)
			if p.viaBackend {
				steps = append(steps, lib.App("SCompactReq", lib.N(uint64(a.Milliseconds())), lib.N(cur), lib.N(req), lib.Str(prefix+"/"), lib.Str(prefix+"0"), lib.List(ocs), d))
				js = append(js, map[string]interface{}{"op": "Backend.Compact", "requested": req, "committed": cur, "at_ms": a.Milliseconds(), "took_ms": (bb - a).Milliseconds(), "removed_positions": rm})
				if req > cur {
					o.outcomes = append(o.outcomes, "compact-request-ahead-of-committed")
				}
			} else {
				steps = append(steps, lib.App("SCompact", lib.N(uint64(a.Milliseconds())), lib.N(R), lib.Str(prefix+"/"), lib.Str(prefix+"0"), lib.List(ocs), d))
				if b == 0 || len(rm) > 0 {
					js = append(js, map[string]interface{}{"op": "scanner.Compact", "rev": R, "at_ms": a.Milliseconds(), "took_ms": (bb - a).Milliseconds(), "removed_positions": rm, "burst_of": ph.burst + 1})
				}
			}
			prev = now
		}
	}
	// timing: the age of mark i at call j lies in [a_j - b_i, b_j - a_i]; both ends must be on the same side of the
	// TTL, 30 ms away from it, and so must the model's age a_j - a_i (ms, truncated)
	guard := 30 * time.Millisecond
	for i := range spans {
		for j := i + 1; j < len(spans); j++ {
			lo, hi := spans[j].a-spans[i].b, spans[j].b-spans[i].a
			model := time.Duration(spans[j].a.Milliseconds()-spans[i].a.Milliseconds()) * time.Millisecond
			older := lo >= ttl+guard && model >= ttl
			younger := hi <= ttl-guard && model < ttl
			if !older && !younger {
				o.skipped = fmt.Sprintf("age of mark %d at compaction %d within [%v,%v], TTL %v", i, j, lo, hi, ttl)
				return
			}
		}
	}
	// watch silence: exactly the events of the acknowledged writes
	lib.WaitUntil(500*time.Millisecond, func() bool { return atomic.LoadInt64(&events) >= okWrites })
	time.Sleep(20 * time.Millisecond)
	extra := atomic.LoadInt64(&events) - okWrites
	if extra < 0 {
		o.skipped = "watch events not delivered in time"
		return
	}
	// per key: Get(latest); if present, Update from that revision; then Create
	var fin []string
	for _, k := range keyPool {
		kv, ok, isErr := be.Get([]byte(k), 0)
		if isErr {
			o.fail = "get failed"
			return
		}
		got, upd := "None", "None"
		if ok {
			got = lib.Some(lib.Pair(lib.N(kv.Rev), lib.Bytes(kv.V)))
			class, _, synced := be.Do(lib.CsWrite{Op: "update", Key: []byte(k), Val: []byte("y"), Rev: kv.Rev})
			if !synced {
				o.fail = "committed revision stalled"
				return
			}
			upd = lib.Some(lib.CsWresCoq(class))
			o.outcomes = append(o.outcomes, "final-update-"+class)
		}
		class, _, synced := be.Do(lib.CsWrite{Op: "create", Key: []byte(k), Val: []byte("x")})
		if !synced {
			o.fail = "committed revision stalled"
			return
		}
		fin = append(fin, "("+tab.B([]byte(k))+", "+got+", "+upd+", "+lib.CsWresCoq(class)+")")
		o.outcomes = append(o.outcomes, "recreate-"+class)
	}
	o.coq = lib.App("KScan", lib.Str(prefix), lib.N(uint64(p.ttl)), lib.Bool(supports), lib.CsRecsCoq(pre, tab), lib.List(steps), lib.List(fin), lib.N(uint64(extra)))
	o.json = map[string]interface{}{"engine": p.engine, "ttl_ms": p.ttl, "steps": js, "watch_extra": extra, "records_removed": expired}
	o.trivial = expired == 0
	if expired > 0 {
		o.outcomes = append(o.outcomes, "records-removed")
	}
	return
}

// ---------- (b) the TTL handed to the engine ----------

func runTTLChoice(key string, recreate bool, scratch string) (o out) {
	o.kind = "ttl-choice"
	if recreate {
		o.kind = "ttl-choice-over-tombstone"
	}
	inner, closer, err := lib.NewEngine(lib.EngMem, scratch)
	if err != nil {
		o.fail = err.Error()
		return
	}
	defer closer()
	rec := &lib.CsTTLRec{KvStorage: inner}
	be, err := lib.CsNewBackend(rec, prefix, nil, initRev)
	if err != nil {
		o.fail = err.Error()
		return
	}
	defer be.Retire()
	if recreate {
		// the third batch of the creator: the index record is swapped in over a tombstoned index
		be.Do(lib.CsWrite{Op: "create", Key: []byte(key), Val: []byte("v")})
		be.Do(lib.CsWrite{Op: "delete", Key: []byte(key)})
	}
	rec.Reset()
	class, _, _ := be.Do(lib.CsWrite{Op: "create", Key: []byte(key), Val: []byte("v")})
	var ttls []string
	var jt []int64
	for _, a := range rec.Seen {
		ttls = append(ttls, lib.N(uint64(a.TTL)))
		jt = append(jt, a.TTL)
	}
	o.coq = lib.App("KTtlChoice", lib.Str(prefix), lib.N(eventsTTLSeconds), tab.B([]byte(key)), lib.List(ttls))
	o.json = map[string]interface{}{"op": "create", "key": key, "res": class, "ttl_args": jt}
	o.outcomes = []string{fmt.Sprintf("ttl-%v", len(jt) > 0 && jt[0] != 0)}
	return
}

// the ttl arguments of every batch operation of one Create / Update / Delete carrying a Lease
func runTTLWrite(key string, op string, lease int64, scratch string) (o out) {
	o.kind = "ttl-write/" + op
	inner, closer, err := lib.NewEngine(lib.EngMem, scratch)
	if err != nil {
		o.fail = err.Error()
		return
	}
	defer closer()
	rec := &lib.CsTTLRec{KvStorage: inner}
	be, err := lib.CsNewBackend(rec, prefix, nil, initRev)
	if err != nil {
		o.fail = err.Error()
		return
	}
	defer be.Retire()
	w := lib.CsWrite{Op: op, Key: []byte(key), Val: []byte("w"), Lease: lease}
	if op != "create" {
		_, hdr, _ := be.Do(lib.CsWrite{Op: "create", Key: []byte(key), Val: []byte("v")})
		w.Rev = hdr
	}
	rec.Reset()
	class, _, _ := be.Do(w)
	if class != "ok" {
		o.fail = fmt.Sprintf("%s of %s did not succeed (%s)", op, key, class)
		return
	}
	var ttls []string
	var jt []interface{}
	nonzero := false
	for _, a := range rec.Seen {
		ttls = append(ttls, lib.N(uint64(a.TTL)))
		jt = append(jt, map[string]interface{}{"batch_op": a.Op, "ttl": a.TTL})
		nonzero = nonzero || a.TTL != 0
	}
	opn := map[string]uint64{"create": 0, "update": 1, "delete": 2}[op]
	o.coq = lib.App("KTtlWrite", lib.Str(prefix), lib.N(eventsTTLSeconds), lib.N(opn), lib.N(uint64(lease)), tab.B([]byte(key)), lib.List(ttls))
	o.json = map[string]interface{}{"op": op, "key": key, "lease": lease, "ttl_args": jt}
	o.outcomes = []string{fmt.Sprintf("ttl-write-%s-lease-%d-ttl-%v", op, lease, nonzero)}
	return
}

// ---------- (c) engine-side TTL ----------

type tplan struct {
	engine string
	evs    []tplanEv
}
type tplanEv struct {
	at  int // ms
	op  string
	key string
}

func runEngineTTL(p tplan, scratch string) (o out) {
	o.kind = "engine-ttl/" + p.engine
	eng, closer, err := lib.NewEngine(p.engine, scratch)
	if err != nil {
		o.fail = err.Error()
		return
	}
	defer closer()
	be, err := lib.CsNewBackend(eng, prefix, nil, initRev)
	if err != nil {
		o.fail = err.Error()
		return
	}
	defer be.Retire()
	t0 := time.Now()
	var evs []string
	var js []interface{}
	ttlMs := int64(eventsTTLSeconds * 1000)
	var writeTimes []int64
	for _, e := range p.evs {
		if d := time.Until(t0.Add(time.Duration(e.at) * time.Millisecond)); d > 0 {
			time.Sleep(d)
		}
		a := time.Since(t0).Milliseconds()
		switch e.op {
		case "dump":
			d, err := sortedDecoded(eng)
			if err != nil {
				o.fail = err.Error()
				return
			}
			b := time.Since(t0).Milliseconds()
			// a dump must not sit within 250 ms of an expiry instant (write time + ttl), nor - for Badger, whose expiry is
			// truncated to whole seconds - within the second before it
			for _, wt := range writeTimes {
				lo, hi := wt+ttlMs-250, wt+ttlMs+250
				if p.engine == lib.EngBadger {
					lo -= 1000
				}
				if b >= lo && a <= hi {
					o.skipped = fmt.Sprintf("dump at %d..%d ms too close to an expiry instant %d", a, b, wt+ttlMs)
					return
				}
			}
			evs = append(evs, lib.App("TDump", lib.N(uint64(a)), lib.CsRecsCoq(d, tab)))
			js = append(js, map[string]interface{}{"op": "dump", "at_ms": a, "records": len(d)})
		default:
			var lease int64
			if i := strings.Index(e.op, "+lease"); i >= 0 { // "update+lease1": the request carries Lease 1
				fmt.Sscanf(e.op[i+6:], "%d", &lease)
				e.op = e.op[:i]
			}
			w := lib.CsWrite{Op: e.op, Key: []byte(e.key), Val: []byte(fmt.Sprintf("v%d", e.at)), Lease: lease}
			if w.Op != "create" {
				if kv, ok, _ := be.Get(w.Key, 0); ok {
					w.Rev = kv.Rev
				}
			}
			class, hdr, synced := be.Do(w)
			if !synced || class != "ok" {
				o.fail = fmt.Sprintf("scripted %s of %s did not succeed (%s)", e.op, e.key, class)
				return
			}
			if e.op == "create" {
				writeTimes = append(writeTimes, a) // only creates carry a TTL
			}
			con := map[string]string{"create": "TCreate", "update": "TUpdate", "delete": "TDelete"}[e.op]
			if e.op == "delete" {
				evs = append(evs, lib.App(con, lib.N(uint64(a)), tab.B(w.Key), lib.N(hdr)))
			} else {
				evs = append(evs, lib.App(con, lib.N(uint64(a)), tab.B(w.Key), lib.Bytes(w.Val), lib.N(hdr)))
			}
			js = append(js, map[string]interface{}{"op": e.op, "key": e.key, "at_ms": a, "rev": hdr, "lease": lease})
		}
	}
	e := "EMem"
	if p.engine == lib.EngBadger {
		e = "EBadger"
	}
	// after the last dump, per key of the script: Get(latest), then Create
	var fin []string
	var finJ []interface{}
	seenKey := map[string]bool{}
	for _, ev := range p.evs {
		if ev.key == "" || seenKey[ev.key] {
			continue
		}
		seenKey[ev.key] = true
		kv, ok, isErr := be.Get([]byte(ev.key), 0)
		if isErr {
			o.fail = "get failed"
			return
		}
		got := "None"
		if ok {
			got = lib.Some(lib.Pair(lib.N(kv.Rev), lib.Bytes(kv.V)))
		}
		class, _, synced := be.Do(lib.CsWrite{Op: "create", Key: []byte(ev.key), Val: []byte("x")})
		if !synced {
			o.fail = "committed revision stalled"
			return
		}
		fin = append(fin, "("+tab.B([]byte(ev.key))+", "+got+", "+lib.CsWresCoq(class)+")")
		finJ = append(finJ, map[string]interface{}{"key": ev.key, "present": ok, "create": class})
		o.outcomes = append(o.outcomes, fmt.Sprintf("final-present-%v-create-%s", ok, class))
	}
	o.coq = lib.App("KEngineTtl", e, lib.Str(prefix), lib.N(uint64(ttlMs)), lib.List(evs), lib.List(fin))
	o.json = map[string]interface{}{"engine": p.engine, "ttl_ms": ttlMs, "events": js, "final": finJ}
	o.outcomes = []string{"engine-ttl"}
	return
}

func main() {
	lib.QuietLogs()
	args := lib.ParseArgs()
	backend.VerifSetIntervals(time.Hour, time.Hour)
	backend.VerifSetEventsTTL(eventsTTLSeconds)
	rnd := lib.NewRand(args.Seed)
	nScan, nEng := 44, 16
	switch args.Tier {
	case "thorough":
		nScan, nEng = 600, 40
	case "search":
		nScan, nEng = 200, 16
	}
	const ttl = 300
	var jobs []func() out
	for _, e := range []string{lib.EngMem, lib.EngTiKV, "memkv-native-ttl"} {
		for c := 1; c <= 4; c++ {
			t := ttl
			if c == 4 {
				t = 600
			}
			p := genScanPlan(rnd, e, t, c)
			jobs = append(jobs, func() out { return runScan(p, args.Scratch) })
		}
	}
	if os.Getenv("VERIF_C17_FAULT") == "1" { // experiment, not part of the check: see props/C17.json
		for _, e := range []string{lib.EngMem, lib.EngTiKV} {
			p := genScanPlan(rnd, e, ttl, 6)
			jobs = append(jobs, func() out { return runScan(p, args.Scratch) })
		}
	}
	// Compact requests through the Backend, one of them ahead of the committed revision (TTL = the events TTL, 2 s)
	for _, e := range []string{lib.EngMem, lib.EngTiKV} {
		p := genScanPlan(rnd, e, eventsTTLSeconds*1000, 5)
		jobs = append(jobs, func() out { return runScan(p, args.Scratch) })
	}
	if args.Tier != "quick" { // bursts of >= 70 marks under TTLs of seconds
		for _, e := range []string{lib.EngMem, lib.EngTiKV} {
			for _, t := range []int{2000, 3000} {
				p := genScanPlan(rnd, e, t, 4)
				jobs = append(jobs, func() out { return runScan(p, args.Scratch) })
			}
		}
	}
	for i := 0; i < nScan; i++ {
		e := lib.EngMem
		if i%4 == 3 {
			e = lib.EngTiKV
		}
		if i%11 == 10 {
			e = "memkv-native-ttl"
		}
		var p scanPlan
		for {
			p = genScanPlan(rnd, e, ttl, 0)
			if planOK(p, 100) {
				break
			}
		}
		jobs = append(jobs, func() out { return runScan(p, args.Scratch) })
	}
	for _, k := range keyPool {
		k := k
		jobs = append(jobs, func() out { return runTTLChoice(k, false, args.Scratch) })
		jobs = append(jobs, func() out { return runTTLChoice(k, true, args.Scratch) })
		for _, lease := range []int64{0, 1, 5} {
			lease := lease
			jobs = append(jobs, func() out { return runTTLWrite(k, "create", lease, args.Scratch) })
			jobs = append(jobs, func() out { return runTTLWrite(k, "update", lease, args.Scratch) })
		}
		jobs = append(jobs, func() out { return runTTLWrite(k, "delete", 0, args.Scratch) })
	}
	// engine TTL: create, optional update / delete / re-create before the TTL, dumps well away from the expiry instants
	e1, pa, p1, ex := "/registry/events/default/e1", "/registry/pods/a", "/registry/pods/events/p1", "/registry/eventsx/a"
	ml := "/registry/masterleases/10.0.0.1"
	memScripts := [][]tplanEv{
		{{0, "create", e1}, {0, "create", pa}, {700, "dump", ""}, {2600, "dump", ""}},
		// updated one second after creation: the timers of the create must leave the update's index and version alone
		// (former finding C17-F2: memkv's timer deleted whatever the key held when it fired)
		{{0, "create", e1}, {1000, "update", e1}, {1300, "dump", ""}, {2500, "dump", ""}, {3600, "dump", ""}},
		{{0, "create", p1}, {0, "create", ex}, {700, "dump", ""}, {2600, "dump", ""}},
		{{0, "create", e1}, {300, "delete", e1}, {1000, "create", e1}, {1300, "dump", ""}, {2500, "dump", ""}, {3600, "dump", ""}},
		// re-created over its tombstone (no compaction in between), then left alone past the TTL: index and versions of the
		// re-creation go together (the tombstone, written without a TTL, stays), the key reads absent and can be created again
		{{0, "create", e1}, {150, "delete", e1}, {300, "create", e1}, {600, "dump", ""}, {2900, "dump", ""}},
		{{0, "create", e1}, {120, "update", e1}, {240, "delete", e1}, {360, "create", e1}, {600, "dump", ""}, {2900, "dump", ""}},
		// a non-event key updated with a Lease (Kubernetes: <prefix>/masterleases/<ip>): nothing of it ever expires
		{{0, "create", pa}, {0, "create", ml}, {300, "update+lease1", pa}, {300, "update+lease1", ml}, {700, "dump", ""}, {2900, "dump", ""}},
		{{0, "create", p1}, {200, "update+lease1", p1}, {400, "update+lease5", p1}, {700, "dump", ""}, {3000, "dump", ""}},
	}
	badgerScripts := [][]tplanEv{
		{{0, "create", e1}, {0, "create", pa}, {600, "dump", ""}, {2600, "dump", ""}},
		{{0, "create", e1}, {600, "dump", ""}, {1000, "update", e1}, {2600, "dump", ""}},
		{{0, "create", p1}, {0, "create", ex}, {600, "dump", ""}, {2600, "dump", ""}},
		{{0, "create", e1}, {300, "delete", e1}, {600, "dump", ""}, {2600, "dump", ""}},
		{{0, "create", e1}, {150, "delete", e1}, {300, "create", e1}, {600, "dump", ""}, {2900, "dump", ""}},
		{{0, "create", e1}, {120, "update", e1}, {240, "delete", e1}, {360, "create", e1}, {600, "dump", ""}, {2900, "dump", ""}},
		{{0, "create", pa}, {0, "create", ml}, {300, "update+lease1", pa}, {300, "update+lease1", ml}, {700, "dump", ""}, {2900, "dump", ""}},
		{{0, "create", p1}, {200, "update+lease1", p1}, {400, "update+lease5", p1}, {700, "dump", ""}, {3000, "dump", ""}},
	}
	for i := 0; i < nEng; i++ {
		e := []string{lib.EngMem, lib.EngBadger}[i%2]
		s := memScripts[(i/2)%len(memScripts)]
		if e == lib.EngBadger {
			s = badgerScripts[(i/2)%len(badgerScripts)]
		}
		jobs = append(jobs, func() out { return runEngineTTL(tplan{engine: e, evs: s}, args.Scratch) })
	}
	outs := make([]out, len(jobs))
	var mu sync.Mutex
	_ = mu
	lib.CsRunParallel(len(jobs), 64, func(i int) {
		for try := 0; try < 3; try++ {
			outs[i] = jobs[i]()
			if outs[i].skipped == "" {
				return
			}
		}
	})
	w := lib.NewWriter(args, "C17", "c17", "From KB Require Import Model.C17Cases Model.C17Valid.\n"+tab.Header(), "c17_case", "c17_check_v", "c17_oracle", 40)
	skipped := 0
	for i, o := range outs {
		switch {
		case o.fail != "":
			w.Fail(lib.ImplFailure{CaseID: i, What: o.fail})
			// a scenario that failed in the harness: reported as an implementation failure; its placeholder does not pass the check
			w.Add(lib.Case{Kind: o.kind + "/failed", Coq: "(KTtlChoice [] 0 [] [])", JSON: o.fail, Trivial: true})
		case o.skipped != "":
			skipped++
			w.Add(lib.Case{Kind: o.kind + "/indeterminate-skipped", Coq: "KSkipped", JSON: o.skipped, Trivial: true, Outcomes: []string{"indeterminate-skipped"}})
		default:
			w.Add(lib.Case{Kind: o.kind, Coq: o.coq, JSON: o.json, Trivial: o.trivial, Outcomes: o.outcomes})
		}
	}
	w.Stats.Extra["indeterminate_skipped"] = skipped
	w.Stats.Extra["scanner_ttl_ms"] = ttl
	if skipped*3 > len(outs) {
		w.Fail(lib.ImplFailure{CaseID: -1, What: fmt.Sprintf("generator degenerate: %d of %d cases had indeterminate timing", skipped, len(outs))})
	}
	if err := w.Finish("scanner cases (scripted: substring look-alikes; update/delete before expiry with a smaller later compaction revision; a client Update landing between the scan's snapshot and the compare-and-delete of the index; a burst of >= 70 marks inside one TTL window followed by a pause, a new Event, and compactions just after the burst's TTL) and random ones: writes over 9 keys (Event keys, look-alikes such as /registry/pods/events/p1, /registry/eventsx/a, /registry/events, non-event keys, a key outside the prefix), 3-5 scanner.Compact calls with real sleeps chosen so that every (mark, later call) pair is >= 100 ms away from the 300 ms TTL, timestamps recorded around every call, cases with a measured age within 30 ms of the TTL skipped as indeterminate (after 3 tries); scripts through Backend.Compact with a request ahead of the committed revision (events TTL 2 s, memkv and TiKV mock); TTL-choice cases: per pool key one Create of a fresh key and one Create over a tombstoned index, with the engine's ttl arguments of every batch operation recorded, and per pool key Create / Update with Lease 0, 1, 5 and Delete with the ttl arguments of every batch operation; engine-TTL cases: scripted create/update/delete/re-create (incl. create, delete, create and create, update, delete, create with no compaction in between, left alone past the TTL; non-event keys updated with a Lease) under a 2 s TTL on memkv and Badger, followed by Get + Create on every key of the script, with dumps >= 250 ms away from every expiry instant; distinct = SHA-256 of the Coq case; non-trivial (scanner cases) = a compaction removed at least one record"); err != nil {
		fmt.Fprintln(os.Stderr, err)
		os.Exit(2)
	}
}
