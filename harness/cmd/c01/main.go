// Driver c01: deterministic interleavings of concurrent Create/Update/Delete clients on the real
// backend (lib.KBDrive); every case is checked against Model/KeySys.v and the chain oracle.
package main

import (
	"fmt"
	"os"

	"kbverif/lib"
)

func main() {
	lib.QuietLogs()
	args := lib.ParseArgs()
	w := lib.NewWriter(args, "C01", "c01", "From KB Require Import Model.C01Cases.", "c01_case", "c01_check", "c01_oracle", 150)
	lib.KBCompactRaces(w, args, []string{lib.EngMem, lib.EngBadger, lib.EngTiKV})
	lib.KBDoubleSuccessStress(w, args, []string{lib.EngBadger, lib.EngTiKV})
	lib.KBProxyCases(w, args)
	lib.KBDrive(w, args, lib.KBProfile{Prop: "C01", Malformed: 8, ErrPct: 4, AbortPct: 3,
		Quick: 300, QuickOther: 40, Thorough: 5000, Search: 1500, Exhaustive: true, Fronts: true,
		WrapCoq: func(coq string) string { return "(C1Sched " + coq + ")" }})
	if err := w.Finish("non-trivial = a step of one client thread happened between two steps of another"); err != nil {
		fmt.Fprintln(os.Stderr, err)
		os.Exit(2)
	}
}
