// Driver c15: leader hand-over on real Backends.
// For a generated write history H (with bursts of failing writes) and every stop point i:
//
//	fresh engine E; Backend 1 (identity A) becomes leader exactly as leader.go does it
//	(lock Get -> NotFound -> Create -> Describe() -> split/parse -> SetCurrentRevision);
//	H[:i] runs through Backend 1; Backend 1 stops (Badger: the store is closed and the SAME
//	directory reopened = restart; memkv / TiKV mock: the same store object = fail-over);
//	Backend 2 (identity B) becomes leader (lock Get -> Update -> Describe -> parse ->
//	SetCurrentRevision); the raw engine content is dumped and decoded; then the new leader serves
//	List(0), a guarded Update/Delete of every pre-existing key with its true revision, creates of
//	fresh keys (at least three requests in all), and List(0) again.
//
// Every action and what it returned becomes one element of a Coq script (Model/C15Cases.v).
package main

import (
	"bytes"
	"context"
	"encoding/json"
	"flag"
	"fmt"
	"net"
	"net/http"
	"os"
	"os/exec"
	"path/filepath"
	"strconv"
	"strings"
	"sync"
	"sync/atomic"
	"time"

	proto "github.com/kubewharf/kubebrain-client/api/v2rpc"
	apierrors "k8s.io/apimachinery/pkg/api/errors"

	"github.com/kubewharf/kubebrain/pkg/backend"
	"github.com/kubewharf/kubebrain/pkg/backend/coder"
	"github.com/kubewharf/kubebrain/pkg/metrics"
	"github.com/kubewharf/kubebrain/pkg/server/service/leader"
	"github.com/kubewharf/kubebrain/pkg/server/service/revision"
	"github.com/kubewharf/kubebrain/pkg/storage"
	ibadger "github.com/kubewharf/kubebrain/pkg/storage/badger"

	"kbverif/lib"
)

const prefix = "/r"

var (
	listFrom = []byte(prefix + "/")
	listTo   = []byte(prefix + "0")
	cd       = coder.NewNormalCoder()
	tomb     = []byte("tombstone")
)

// ---------- requests ----------

type hop struct {
	Kind string `json:"kind"` // create | update | delete
	Key  string `json:"key"`
	Val  string `json:"val,omitempty"`
	Prev uint64 `json:"prev,omitempty"`
	// Rel, when set, makes Prev relative to what the key's revision is at execution time:
	// "true" = the true revision, "stale" = true-1, "future" = true+1000000
	Rel string `json:"rel,omitempty"`
}

func (o hop) coq() string {
	switch o.Kind {
	case "create":
		return lib.App("HCreate", bytesCoq([]byte(o.Key)), bytesCoq([]byte(o.Val)))
	case "update":
		return lib.App("HUpdate", bytesCoq([]byte(o.Key)), bytesCoq([]byte(o.Val)), lib.N(o.Prev))
	default:
		return lib.App("HDelete", bytesCoq([]byte(o.Key)), lib.N(o.Prev))
	}
}

// ---------- dictionary of byte strings (defined once in the shard header) ----------

var dict = map[string]string{}
var dictDefs []string

func bytesCoq(b []byte) string {
	if len(b) == 0 {
		return "[]"
	}
	if n, ok := dict[string(b)]; ok {
		return n
	}
	n := "b" + strconv.Itoa(len(dict))
	dict[string(b)] = n
	dictDefs = append(dictDefs, fmt.Sprintf("Definition %s : bytes := %s.", n, lib.ElBytes(b)))
	return n
}

// ---------- a process: Backend + tap ----------

type proc struct {
	n   int
	id  string
	b   backend.Backend
	tap *lib.ElTap
	// the node's revision counters as tso.go maintains them (predicted; only used to know whether the sequencer can follow)
	deal, committed uint64
	seq             int
}

// setCurrent mirrors tso.Commit: both counters are raised to v if they are lower, never lowered.
func (p *proc) setCurrent(v uint64) {
	if p.committed < v {
		p.committed = v
	}
	if p.deal < v {
		p.deal = v
	}
}

func newProc(n int, id string, kv storage.KvStorage) *proc {
	tap := &lib.ElTap{KvStorage: kv}
	b := backend.NewBackend(tap, backend.Config{Prefix: prefix, Identity: id, WatchCacheSize: 16}, &lib.NopMetrics{})
	return &proc{n: n, id: id, b: b, tap: tap}
}

type stepObs struct {
	Act  string      `json:"act"`
	Obs  interface{} `json:"obs"`
	coqA string
	coqO string
	outc string
}

type runner struct {
	eng      string
	kv       storage.KvStorage
	steps    []stepObs
	fail     string
	failCode int
	// last hand-over facts, for classification
	lastBase uint64
	lastMax  uint64
}

// elect: one tryAcquireOrRenew + OnStartedLeading, as client-go's elector and leader.go do it.
func (r *runner) elect(p *proc) (acquired bool) { return r.electF(p, false) }

// electF: with tsoFault the timestamp oracle is unreachable from the moment the lock write has committed
// until the election attempt is over (Describe, if it gets that far, included).
func (r *runner) electF(p *proc, tsoFault bool) (acquired bool) {
	lock := p.b.GetResourceLock()
	p.seq++
	c0, _, _ := p.tap.Snapshot()
	old, err := lock.Get()
	g := lib.ElClassGet(err)
	c1, t1, _ := p.tap.Snapshot()
	if c1 == c0 {
		t1 = 0
	}
	createRec := lib.ElRecord(p.id, 10*p.n+p.seq, 0)
	transitions := 1
	if old != nil && err == nil {
		transitions = old.LeaderTransitions + 1
	}
	updateRec := lib.ElRecord(p.id, 10*p.n+p.seq, transitions)
	bc, bu := lib.ElMarshal(createRec), lib.ElMarshal(updateRec)
	wcls := g
	ok := false
	// the harness's own reading of the engine clock right before the acquiring write
	clockBefore, _ := r.kv.GetTimestampOracle(context.Background())
	if tsoFault {
		p.tap.ArmTsoFaultAfterCommit()
		defer p.tap.DisarmTsoFault()
	}
	switch {
	case err != nil && apierrors.IsNotFound(err):
		werr := lock.Create(createRec)
		wcls = lib.ElClassWrite(werr, true)
		ok = werr == nil
	case err == nil:
		werr := lock.Update(updateRec)
		wcls = lib.ElClassWrite(werr, true)
		ok = werr == nil
	}
	c2, t2, _ := p.tap.Snapshot()
	if c2 == c1 {
		t2 = 0
	}
	eres := "ENotAcquired"
	var version uint64
	if ok {
		// leader.go getLeaderAndVersion
		info := lock.Describe()
		parts := strings.Split(info, ",")
		// the real parser, through the exported accessor: must agree on the holder part / on failing
		ei, eerr := leader.NewLeaderElection(p.b, &lib.NopMetrics{}, nil, nil).GetElectionInfo()
		if len(parts) != 2 {
			eres = "EBadInfo"
			if eerr == nil {
				r.fail = "GetElectionInfo accepts a lock description the driver's parse rejects: " + info
			}
		} else {
			v, perr := strconv.ParseUint(parts[1], 10, 64)
			if perr != nil {
				eres = "EBadInfo"
			} else {
				if eerr != nil || ei.LeaderAddress != parts[0] {
					r.fail = fmt.Sprintf("GetElectionInfo disagrees with the driver's parse of %q: %v %v", info, ei, eerr)
				}
				version = v
				if version < clockBefore {
					r.fail = fmt.Sprintf("the version parsed from Describe() after the acquiring write (%d) is older than the engine clock read just before that write (%d): a stale timestamp would be installed", version, clockBefore)
				}
				p.b.SetCurrentRevision(version) // leader.go:105
				p.setCurrent(version)
				eres = lib.App("EAcquired", lib.N(version))
				acquired = true
			}
		}
	}
	dump, lockb, lockOK, maxRev, derr := r.decodedDump()
	if derr != nil {
		r.fail = "dump failed: " + derr.Error()
	}
	if acquired {
		r.lastBase, r.lastMax = version, maxRev
	}
	r.steps = append(r.steps, stepObs{
		Act:  fmt.Sprintf("elect proc=%d id=%s", p.n, p.id),
		Obs:  map[string]interface{}{"result": eres, "get": g, "write": wcls, "t1": t1, "t2": t2, "describe": lock.Describe(), "max_stored_revision": maxRev},
		coqA: lib.App("AElect", lib.N(uint64(p.n)), bytesCoq([]byte(p.id)), bytesCoq(bc), bytesCoq(bu), lib.N(t1), lib.N(t2), lib.Bool(tsoFault)),
		coqO: lib.App("OElect", eres, g, wcls, dump, optCoq(lockb, lockOK)),
		outc: "elect:" + strings.SplitN(strings.Trim(eres, "()"), " ", 2)[0],
	})
	return acquired
}

// standbyGet: a standby node polls the lock (resourceLock.Get() as its elector does every retry
// period) without acquiring: its r.tso is now a reading from long before any take-over.
func (r *runner) standbyGet(p *proc) {
	c0, _, _ := p.tap.Snapshot()
	_, err := p.b.GetResourceLock().Get()
	c1, t1, _ := p.tap.Snapshot()
	if c1 == c0 {
		t1 = 0
	}
	cls := lib.ElClassGet(err)
	r.steps = append(r.steps, stepObs{
		Act:  fmt.Sprintf("standby proc=%d polls the lock (Get)", p.n),
		Obs:  map[string]interface{}{"get": cls, "t": t1, "describe": p.b.GetResourceLock().Describe()},
		coqA: lib.App("AGet", lib.N(uint64(p.n)), lib.N(t1)),
		coqO: lib.App("OGet", cls),
		outc: "standby-get:" + cls,
	})
}

// followerSync: the node serves a read as a follower: revision.SyncReadRevision hands the leader's committed
// revision to Backend.SetCurrentRevision.
func (r *runner) followerSync(p *proc, rev uint64) {
	p.b.SetCurrentRevision(rev)
	p.setCurrent(rev)
	r.steps = append(r.steps, stepObs{
		Act:  fmt.Sprintf("follower proc=%d synced to revision %d (SetCurrentRevision)", p.n, rev),
		Obs:  "ok",
		coqA: lib.App("ASync", lib.N(uint64(p.n)), lib.N(rev)),
		coqO: "OSync",
		outc: "follower-sync",
	})
}

func optCoq(b []byte, ok bool) string {
	if !ok {
		return lib.None()
	}
	return lib.Some(bytesCoq(b))
}

// decodedDump renders the raw engine content as the model's dstore: per user key (ascending) the
// index record and the object records (ascending revision).
func (r *runner) decodedDump() (coq string, lockb []byte, lockOK bool, maxRev uint64, err error) {
	d, err := lib.Dump(r.kv)
	if err != nil {
		return "[]", nil, false, 0, err
	}
	type krec struct {
		key  []byte
		idx  string
		objs []string
	}
	var ks []*krec
	for _, kvp := range d {
		if bytes.Equal(kvp.K, lib.ElKey(prefix)) {
			lockb, lockOK = kvp.V, true
			continue
		}
		if len(kvp.K) < 13 || !bytes.Equal(kvp.K[:4], []byte("\x57\xfb\x80\x8b")) {
			continue // not an MVCC record
		}
		uk, rev, derr := cd.Decode(kvp.K)
		if derr != nil {
			return "[]", nil, false, 0, derr
		}
		if len(ks) == 0 || !bytes.Equal(ks[len(ks)-1].key, uk) {
			ks = append(ks, &krec{key: append([]byte{}, uk...), idx: lib.None()})
		}
		k := ks[len(ks)-1]
		if rev == 0 {
			ir, del, perr := coder.ParseRevision(kvp.V)
			if perr != nil {
				return "[]", nil, false, 0, perr
			}
			if ir > maxRev {
				maxRev = ir
			}
			k.idx = lib.Some(lib.Pair(lib.N(ir), lib.Bool(del)))
		} else {
			if rev > maxRev {
				maxRev = rev
			}
			v := lib.Some(bytesCoq(kvp.V))
			if bytes.Equal(kvp.V, tomb) {
				v = lib.None()
			}
			k.objs = append(k.objs, lib.Pair(lib.N(rev), v))
		}
	}
	xs := make([]string, len(ks))
	for i, k := range ks {
		xs[i] = lib.Pair(bytesCoq(k.key), lib.App("mkK", k.idx, lib.List(k.objs)))
	}
	return lib.List(xs), lockb, lockOK, maxRev, nil
}

// serve: one request, then wait for the sequencer (one revision per attempt).
func (r *runner) serve(p *proc, o hop) (class string, hdr uint64) {
	ctx, cancel := context.WithTimeout(context.Background(), 5*time.Second)
	defer cancel()
	defer func() {
		if x := recover(); x != nil { // a Go panic in a request handler is an outcome, not a driver crash
			class, hdr = "HErr", 0
			r.fail = fmt.Sprintf("panic in %s %s (expected revision %d) on process %d: %v", o.Kind, o.Key, o.Prev, p.n, x)
		}
	}()
	switch o.Kind {
	case "create":
		resp, err := p.b.Create(ctx, &proto.CreateRequest{Key: []byte(o.Key), Value: []byte(o.Val)})
		switch {
		case err != nil:
			class = "HErr"
		case resp.Succeeded:
			class, hdr = "HOk", resp.Header.Revision
		default:
			class, hdr = "HCond", resp.Header.Revision
		}
	case "update":
		resp, err := p.b.Update(ctx, &proto.UpdateRequest{Kv: &proto.KeyValue{Key: []byte(o.Key), Value: []byte(o.Val), Revision: o.Prev}})
		switch {
		case err != nil:
			class = "HErr"
		case resp.Succeeded:
			class, hdr = "HOk", resp.Header.Revision
		default:
			class, hdr = "HCond", resp.Header.Revision
		}
	case "delete":
		resp, err := p.b.Delete(ctx, &proto.DeleteRequest{Key: []byte(o.Key), Revision: o.Prev})
		switch {
		case err != nil:
			class = "HErr"
		case resp.Succeeded:
			class, hdr = "HOk", resp.Header.Revision
		case resp.Kv == nil:
			class, hdr = "HNotFound", resp.Header.Revision
		default:
			class, hdr = "HCond", resp.Header.Revision
		}
	}
	follows := p.deal == p.committed // the sequencer commits slot committed+1: it can only follow a gap-free counter
	p.deal++
	if follows {
		p.committed = p.deal
		if !lib.WaitUntil(8*time.Second, func() bool { return p.b.GetCurrentRevision() >= p.committed }) {
			r.fail = fmt.Sprintf("stalled: committed revision %d never reached %d after %s %s (response %s)", p.b.GetCurrentRevision(), p.committed, o.Kind, o.Key, class)
		}
	} else {
		time.Sleep(50 * time.Millisecond) // a node whose dealt counter is ahead of its committed one is wedged (reported through List)
	}
	r.steps = append(r.steps, stepObs{
		Act:  fmt.Sprintf("proc=%d %s %s val=%q prev=%d", p.n, o.Kind, o.Key, o.Val, o.Prev),
		Obs:  map[string]interface{}{"class": class, "header_revision": hdr},
		coqA: lib.App("AOp", lib.N(uint64(p.n)), o.coq()),
		coqO: lib.App("OOp", lib.App("mkRes", class, lib.N(hdr))),
		outc: o.Kind + ":" + class,
	})
	return class, hdr
}

type kvr struct {
	K, V string
	Rev  uint64
}

func (r *runner) list(p *proc) []kvr {
	ctx, cancel := context.WithTimeout(context.Background(), 20*time.Second)
	defer cancel()
	resp, err := p.b.List(ctx, &proto.RangeRequest{Key: listFrom, End: listTo})
	if err != nil {
		r.fail = "List(0) failed: " + err.Error()
		return nil
	}
	var out []kvr
	xs := []string{}
	for _, kv := range resp.Kvs {
		out = append(out, kvr{string(kv.Key), string(kv.Value), kv.Revision})
		xs = append(xs, lib.Pair(lib.Pair(bytesCoq(kv.Key), bytesCoq(kv.Value)), lib.N(kv.Revision)))
	}
	r.steps = append(r.steps, stepObs{
		Act:  fmt.Sprintf("proc=%d List(0)", p.n),
		Obs:  map[string]interface{}{"header_revision": resp.Header.Revision, "kvs": out},
		coqA: lib.App("AList", lib.N(uint64(p.n))),
		coqO: lib.App("OList", lib.N(resp.Header.Revision), lib.List(xs)),
		outc: "list",
	})
	return out
}

// ---------- one case ----------

type caseSpec struct {
	Engine  string `json:"engine"`
	History []hop  `json:"history"`
	Stop    int    `json:"stop_after"`
	Kind    string `json:"kind"`
	// Standby: node B is up from the start and polls the lock (Get) at its start-up and again later, long
	// before it takes over; no engine reopen in this flavour (the standby keeps its engine handle).
	Standby bool `json:"standby,omitempty"`
	// RestartAt >= 0: after that many requests the leader A stops and a NEW process with the same identity A
	// is elected and serves the rest of the prefix.
	RestartAt int `json:"restart_leader_at"`
	// FollowerSync (needs Standby): B is synced to the leader's committed revision (or one below it) after these many
	// requests, as a follower that serves reads is
	FollowerSync []int `json:"follower_sync_after,omitempty"`
	// TsoOutage: the new leader's first election attempt meets an unreachable timestamp oracle right after its lock
	// write has committed; it must report the error; the attempt is then repeated without the outage
	TsoOutage bool `json:"tso_outage_at_takeover,omitempty"`
}

func engCoq(e string) string {
	switch e {
	case lib.EngBadger:
		return "EBadger"
	case lib.EngTiKV:
		return "ETikv"
	}
	return "EMem"
}

var dirSeq int

func runCase(cs caseSpec, scratch string) (lib.Case, *lib.ImplFailure) {
	r := &runner{eng: cs.Engine}
	var closer func()
	var dir string
	var err error
	switch cs.Engine {
	case lib.EngBadger:
		dirSeq++
		dir = filepath.Join(scratch, fmt.Sprintf("c15-badger-%d-%d", os.Getpid(), dirSeq))
		if err = os.MkdirAll(dir, 0o755); err == nil {
			r.kv, err = ibadger.NewKvStorage(ibadger.Config{Dir: dir})
		}
		closer = func() { _ = r.kv.Close(); _ = os.RemoveAll(dir) }
	default:
		r.kv, closer, err = lib.NewEngine(cs.Engine, scratch)
	}
	js := map[string]interface{}{"spec": cs}
	if err != nil {
		return lib.Case{}, &lib.ImplFailure{What: "engine does not open: " + err.Error(), Case: js}
	}
	defer func() { lib.ElRetire(); closer() }()

	// old leader
	p1 := newProc(1, "A", r.kv)
	r.elect(p1)
	var p2 *proc
	if cs.Standby {
		p2 = newProc(2, "B", r.kv)
		r.standbyGet(p2) // B's start-up: its timestamp is from now
	}
	live := map[string]uint64{} // key -> true revision, as the responses told it
	cur := p1
	for i, o := range cs.History[:cs.Stop] {
		if r.fail != "" {
			break
		}
		if cs.RestartAt >= 0 && i == cs.RestartAt {
			// the leader restarts under the same identity: a new process, elected through the lock again
			if cs.Engine == lib.EngBadger && !cs.Standby {
				lib.ElRetire()
				if err := r.kv.Close(); err != nil {
					r.fail = "closing Badger failed: " + err.Error()
					break
				}
				if r.kv, err = ibadger.NewKvStorage(ibadger.Config{Dir: dir}); err != nil {
					return lib.Case{}, &lib.ImplFailure{What: "Badger does not reopen: " + err.Error(), Case: js}
				}
				r.steps = append(r.steps, stepObs{Act: "restart: engine closed and reopened on the same directory", Obs: "ok", coqA: "ARestart", coqO: "ORestart", outc: "restart"})
			}
			p3 := newProc(3, "A", r.kv)
			if !r.elect(p3) {
				r.fail = "the restarted leader could not re-acquire its own lock"
				break
			}
			cur = p3
			if cs.Standby {
				r.standbyGet(p2)
			}
		}
		o = resolve(o, live)
		class, hdr := r.serve(cur, o)
		track(live, o, class, hdr)
		for k, at := range cs.FollowerSync {
			if cs.Standby && at == i+1 && r.fail == "" {
				rev := cur.b.GetCurrentRevision()
				if k%2 == 1 && rev > 1 {
					rev-- // a slightly older answer of the leader
				}
				r.followerSync(p2, rev)
			}
		}
	}
	// stop the old leader; restart / fail over (a standby's Backend was created earlier: nothing is retired then)
	if !cs.Standby {
		lib.ElRetire()
	}
	if cs.Engine == lib.EngBadger && !cs.Standby && r.fail == "" {
		if err := r.kv.Close(); err != nil {
			r.fail = "closing Badger failed: " + err.Error()
		} else if r.kv, err = ibadger.NewKvStorage(ibadger.Config{Dir: dir}); err != nil {
			return lib.Case{}, &lib.ImplFailure{What: "Badger does not reopen: " + err.Error(), Case: js}
		}
		r.steps = append(r.steps, stepObs{Act: "restart: engine closed and reopened on the same directory", Obs: "ok", coqA: "ARestart", coqO: "ORestart", outc: "restart"})
	}
	if r.fail == "" {
		if p2 == nil {
			p2 = newProc(2, "B", r.kv)
		}
		if cs.TsoOutage {
			if r.electF(p2, true) {
				if r.fail == "" {
					r.fail = "the acquiring call reported success although the timestamp oracle failed right after its lock write: a hand-over without a timestamp"
				}
			}
		}
		if r.fail == "" && r.elect(p2) {
			pre := r.list(p2)
			n := 0
			for i, kv := range pre {
				if r.fail != "" {
					break
				}
				rev := trueRevision(r.kv, kv.K)
				if i%2 == 0 {
					r.serve(p2, hop{Kind: "update", Key: kv.K, Val: "n" + strconv.Itoa(i), Prev: rev})
				} else {
					r.serve(p2, hop{Kind: "delete", Key: kv.K, Prev: rev})
				}
				n++
			}
			// keys the List did not show but the store holds live (only when the hand-over went wrong)
			for _, k := range liveKeys(r.kv) {
				seen := false
				for _, kv := range pre {
					seen = seen || kv.K == k
				}
				if !seen && r.fail == "" {
					r.serve(p2, hop{Kind: "update", Key: k, Val: "m", Prev: trueRevision(r.kv, k)})
					n++
				}
			}
			for j := 0; n < 3 && r.fail == ""; j++ {
				r.serve(p2, hop{Kind: "create", Key: prefix + "/new" + strconv.Itoa(j), Val: "f"})
				n++
			}
			if r.fail == "" {
				r.list(p2)
			}
		}
	}
	js["steps"] = r.steps
	js["handover_base"] = r.lastBase
	js["max_stored_revision_at_handover"] = r.lastMax
	if r.fail != "" {
		// stalls, panics, a stale installed timestamp, a parse disagreement are never part of finding C15-F1
		// (whose consequences — drift errors, missed keys, low revisions — are ordinary responses the Coq oracle classifies)
		return lib.Case{}, &lib.ImplFailure{Code: 0, What: r.fail, Case: js}
	}
	xs := make([]string, len(r.steps))
	outs := []string{}
	for i, s := range r.steps {
		xs[i] = lib.Pair(s.coqA, s.coqO)
		outs = append(outs, s.outc)
	}
	if r.lastBase < r.lastMax {
		outs = append(outs, "handover:behind")
	} else {
		outs = append(outs, "handover:ahead")
	}
	return lib.Case{Coq: lib.App("KScript", lib.App("mkC15", engCoq(cs.Engine), lib.List(xs))), JSON: js,
		Kind: cs.Engine + "/" + cs.Kind, Trivial: cs.Stop == 0, Outcomes: outs}, nil
}

// trueRevision reads the key's index record straight from the engine.
func trueRevision(kv storage.KvStorage, key string) uint64 {
	v, err := kv.Get(context.Background(), cd.EncodeRevisionKey([]byte(key)))
	if err != nil {
		return 0
	}
	rev, _, _ := coder.ParseRevision(v)
	return rev
}

// liveKeys lists the user keys whose index record is not deleted, from the raw dump.
func liveKeys(kv storage.KvStorage) []string {
	d, _ := lib.Dump(kv)
	var out []string
	for _, x := range d {
		if len(x.K) >= 13 && bytes.Equal(x.K[:4], []byte("\x57\xfb\x80\x8b")) {
			uk, rev, err := cd.Decode(x.K)
			if err == nil && rev == 0 && len(x.V) == 8 {
				out = append(out, string(uk))
			}
		}
	}
	return out
}

func resolve(o hop, live map[string]uint64) hop {
	t := live[o.Key]
	switch o.Rel {
	case "true":
		o.Prev = t
	case "stale":
		if t > 1 {
			o.Prev = t - 1
		} else {
			o.Prev = 1
		}
	case "future":
		o.Prev = t + 1000000
	}
	return o
}

func track(live map[string]uint64, o hop, class string, hdr uint64) {
	if class != "HOk" {
		return
	}
	if o.Kind == "delete" {
		delete(live, o.Key)
	} else {
		live[o.Key] = hdr
	}
}

// ---------- histories ----------

var keys = []string{prefix + "/a", prefix + "/b", prefix + "/c", prefix + "/d"}

func genHistory(rnd *lib.Rand, n int) []hop {
	var h []hop
	v := 0
	val := func() string { v++; return "v" + strconv.Itoa(v) }
	for len(h) < n {
		k := keys[rnd.Intn(len(keys))]
		switch rnd.Intn(10) {
		case 0, 1, 2:
			h = append(h, hop{Kind: "create", Key: k, Val: val()})
		case 3, 4:
			h = append(h, hop{Kind: "update", Key: k, Val: val(), Rel: "true"})
		case 5:
			h = append(h, hop{Kind: "update", Key: k, Val: val(), Rel: []string{"stale", "future"}[rnd.Intn(2)]})
		case 6:
			h = append(h, hop{Kind: "delete", Key: k, Rel: "true"})
		case 7:
			h = append(h, hop{Kind: "delete", Key: k, Rel: []string{"stale", "future", ""}[rnd.Intn(3)]})
		case 8:
			h = append(h, hop{Kind: "update", Key: k, Val: val()}) // update with revision 0 = create path
		default: // a burst of failing writes: they consume revisions without touching the engine
			m := 2 + rnd.Intn(9)
			h = append(h, hop{Kind: "create", Key: k, Val: val()})
			for j := 0; j < m; j++ {
				if rnd.Bool() {
					h = append(h, hop{Kind: "create", Key: k, Val: val()})
				} else {
					h = append(h, hop{Kind: "update", Key: k, Val: val(), Rel: "stale"})
				}
			}
		}
	}
	return h[:n]
}

// ---------- thorough tier only: the real leader.NewLeaderElection(...).Campaign() once ----------

type gaugeMetrics struct {
	lib.NopMetrics
	mu   sync.Mutex
	seen map[string]interface{}
}

func (m *gaugeMetrics) EmitGauge(name string, v interface{}, t ...metrics.T) error {
	m.mu.Lock()
	m.seen[name] = v
	m.mu.Unlock()
	if name == "leader.election.initial.version" {
		// leader.go emits this gauge between parsing the version and SetCurrentRevision: hold the
		// callback here so that a client polling IsLeader() has a wide window
		time.Sleep(300 * time.Millisecond)
	}
	return nil
}

// campObs is what a Campaign child observed, in the vocabulary of the callback model (Model/Handover.v nstep).
type campObsT struct {
	Variant   string   `json:"variant"`
	Version   uint64   `json:"version"`    // gauge leader.election.initial.version = what SetCurrentRevision got
	MaxRev    uint64   `json:"max_stored"` // largest stored revision when the election began
	SyncCheck bool     `json:"follower_read_in_flight"`
	LateRev   uint64   `json:"late_answer"`    // revision the old leader answered after the take-over (0: none arrived)
	Early     []uint64 `json:"early_requests"` // revisions of the two requests admitted the moment IsLeader() turned true
	Later     []uint64 `json:"later_requests"`
	Committed uint64   `json:"committed_at_end"`
}

var campObs campObsT

// campaignCase: an old leader (elected through the lock as above) writes the F1 history on memkv and
// releases the lock the way client-go's release() intends to (Get, then Update to an empty holder);
// a second Backend then runs the REAL Campaign (client-go elector, 8 s lease): it acquires at once
// because the holder is empty. Checked on the Go side: OnStartedLeading handed the parsed version to
// SetCurrentRevision (gauge value == committed revision), the version is a reading of the engine clock
// not older than the acquisition, and the property itself (revisions above the stored maximum, guarded
// update works, List sees everything). The elector keeps renewing until the process exits.
func campaignCase(scratch string, hist []hop, tsoOutage bool, followerRead bool, lateAnswer bool) *lib.ImplFailure {
	followerRead = followerRead || lateAnswer
	r := &runner{eng: lib.EngMem}
	kv, _, err := lib.NewEngine(lib.EngMem, scratch)
	if err != nil {
		return &lib.ImplFailure{What: "campaign: engine does not open: " + err.Error()}
	}
	r.kv = kv
	// followerRead: node B has served follower reads through the real revision syncer (the old leader answers
	// /status over HTTP), and one more follower read is in flight — past its IsLeader() check, waiting for the old
	// leader, which has become unreachable — while B wins the election
	id1 := "A"
	var lateAnswered uint64
	var hang int32
	arrived := make(chan struct{}, 8)
	release := make(chan struct{})
	var p1 *proc
	if followerRead {
		ln, lerr := net.Listen("tcp", "127.0.0.1:0")
		if lerr != nil {
			return &lib.ImplFailure{What: "campaign: cannot listen for the old leader's status endpoint: " + lerr.Error()}
		}
		id1 = ln.Addr().String()
		mux := http.NewServeMux()
		mux.HandleFunc("/status", func(w http.ResponseWriter, req *http.Request) {
			if atomic.LoadInt32(&hang) == 1 {
				arrived <- struct{}{}
				if lateAnswer {
					// variant: the old leader's answer is merely late (it arrives after B's take-over)
					time.Sleep(600 * time.Millisecond)
					rv := p1.b.GetCurrentRevision()
					atomic.StoreUint64(&lateAnswered, rv)
					_ = json.NewEncoder(w).Encode(revision.LeaderRevision{Revision: rv})
					return
				}
				select {
				case <-release:
				case <-req.Context().Done():
				}
				return
			}
			_ = json.NewEncoder(w).Encode(revision.LeaderRevision{Revision: p1.b.GetCurrentRevision()})
		})
		go func() { _ = http.Serve(ln, mux) }()
		defer close(release)
	}
	p1 = newProc(1, id1, kv)
	r.elect(p1)
	p2 := newProc(2, "B", kv)
	gm := &gaugeMetrics{seen: map[string]interface{}{}}
	started := make(chan struct{})
	le := leader.NewLeaderElection(p2.b, gm, func(context.Context) { close(started) }, func() {})
	syncer := revision.NewRevisionSyncer(p2.b, gm, le, nil)
	live := map[string]uint64{}
	var syncedTo uint64
	for i, o := range hist {
		o = resolve(o, live)
		c, h := r.serve(p1, o)
		track(live, o, c, h)
		if followerRead && i == 2 {
			// B, a follower, learns who leads (its elector's Get) and serves a read: revision fetched from the leader
			if _, gerr := p2.b.GetResourceLock().Get(); gerr != nil {
				return &lib.ImplFailure{What: "campaign: the follower cannot read the lock: " + gerr.Error()}
			}
			if serr := syncer.SyncReadRevision(); serr != nil {
				return &lib.ImplFailure{What: "campaign: follower read: SyncReadRevision failed although the leader answers: " + serr.Error()}
			}
			syncedTo = p2.b.GetCurrentRevision()
			if syncedTo != p1.b.GetCurrentRevision() {
				return &lib.ImplFailure{What: fmt.Sprintf("campaign: follower read synced to %d, the leader is at %d", syncedTo, p1.b.GetCurrentRevision())}
			}
		}
	}
	readDone := make(chan error, 1)
	if followerRead {
		atomic.StoreInt32(&hang, 1) // the old leader stops answering
		go func() { readDone <- syncer.SyncReadRevision() }()
		select {
		case <-arrived:
		case <-time.After(5 * time.Second):
			return &lib.ImplFailure{What: "campaign: the in-flight follower read never reached the old leader"}
		}
	}
	l1 := p1.b.GetResourceLock()
	if _, err := l1.Get(); err != nil {
		return &lib.ImplFailure{What: "campaign: old leader cannot read its lock: " + err.Error()}
	}
	if err := l1.Update(lib.ElRecord("", 50, 1)); err != nil {
		return &lib.ImplFailure{What: "campaign: releasing the lock failed: " + err.Error()}
	}
	_, _, _, maxRev, _ := r.decodedDump()
	before, _ := kv.GetTimestampOracle(context.Background())
	// a client that is admitted as soon as IsLeader() says so (the role check of the front-ends) and at once
	// issues a guarded Update of a pre-existing key and a Create: the flag must imply an installed base
	type early struct {
		updClass, creClass string
		updRev, creRev     uint64
	}
	earlyDone := make(chan early, 1)
	probeKey := prefix + "/b"
	probeRev := trueRevision(kv, probeKey)
	go func() {
		deadline := time.Now().Add(25 * time.Second)
		for !le.IsLeader() {
			if time.Now().After(deadline) {
				earlyDone <- early{updClass: "never-leader"}
				return
			}
			time.Sleep(50 * time.Microsecond)
		}
		var e early
		ctx := context.Background()
		if resp, err := p2.b.Update(ctx, &proto.UpdateRequest{Kv: &proto.KeyValue{Key: []byte(probeKey), Value: []byte("early"), Revision: probeRev}}); err != nil {
			e.updClass = "HErr: " + err.Error()
		} else if resp.Succeeded {
			e.updClass, e.updRev = "HOk", resp.Header.Revision
		} else {
			e.updClass, e.updRev = "HCond", resp.Header.Revision
		}
		if resp, err := p2.b.Create(ctx, &proto.CreateRequest{Key: []byte(prefix + "/early"), Value: []byte("e")}); err != nil {
			e.creClass = "HErr: " + err.Error()
		} else if resp.Succeeded {
			e.creClass, e.creRev = "HOk", resp.Header.Revision
		} else {
			e.creClass, e.creRev = "HCond", resp.Header.Revision
		}
		earlyDone <- e
	}()
	if tsoOutage {
		// the timestamp oracle becomes unreachable the moment the elector's lock write has committed and stays so
		// for 300 ms after the first failed read (a winning callback reads Describe() within that time); the real
		// elector must see its Update fail and acquire on its next retry (about 1 s later), with a real timestamp
		p2.tap.ArmTsoFaultAfterCommit()
		go func() {
			for {
				if _, _, err := p2.tap.Snapshot(); err == lib.ErrInjected {
					break
				}
				time.Sleep(200 * time.Microsecond)
			}
			time.Sleep(300 * time.Millisecond)
			p2.tap.DisarmTsoFault()
		}()
	}
	go le.Campaign()
	select {
	case <-started:
	case <-time.After(20 * time.Second):
		return &lib.ImplFailure{What: "campaign: the real elector did not start leading within 20 s on a released lock"}
	}
	var ea early
	select {
	case ea = <-earlyDone:
	case <-time.After(10 * time.Second):
		return &lib.ImplFailure{What: "campaign: the requests issued as soon as IsLeader() turned true did not return"}
	}
	if ea.updClass != "HOk" || ea.creClass != "HOk" || ea.updRev <= maxRev || ea.creRev <= maxRev {
		return &lib.ImplFailure{What: fmt.Sprintf("campaign: requests admitted as soon as IsLeader() is true: guarded update of %s (true revision %d) -> %s rev %d, create -> %s rev %d; stored maximum %d: the leader flag was visible before the base was installed",
			probeKey, probeRev, ea.updClass, ea.updRev, ea.creClass, ea.creRev, maxRev),
			Case: map[string]interface{}{"engine": "memkv", "old_leader_history": hist, "then": "old leader releases the lock (Get, Update to empty holder); second Backend runs leader.NewLeaderElection(...).Campaign() with the initial-version gauge delayed by 300ms; a client polls IsLeader() and at once issues the two requests",
				"max_stored_revision": maxRev, "guarded_update": map[string]interface{}{"key": probeKey, "expected_revision": probeRev, "result": ea.updClass, "revision": ea.updRev},
				"create": map[string]interface{}{"key": prefix + "/early", "result": ea.creClass, "revision": ea.creRev}}}
	}
	after, _ := kv.GetTimestampOracle(context.Background())
	if !lib.WaitUntil(3*time.Second, func() bool { return p2.b.GetCurrentRevision() >= ea.creRev }) {
		return &lib.ImplFailure{What: "campaign: stalled after the early requests"}
	}
	v := p2.b.GetCurrentRevision() - 2 // two requests have been served since SetCurrentRevision(version)
	if followerRead {
		select {
		case rerr := <-readDone: // lost answer: an error (time-out of the syncer); late answer: nil, the answer was installed
			if rerr == nil {
				campObs.LateRev = atomic.LoadUint64(&lateAnswered)
			}
		case <-time.After(5 * time.Second):
			return &lib.ImplFailure{What: "campaign: the in-flight follower read did not return"}
		}
		if now := p2.b.GetCurrentRevision(); now < v+2 {
			// (the late-answer variant is the witness of the repaired finding C15-F2: tso.Commit only raises)
			return &lib.ImplFailure{Code: 0, What: fmt.Sprintf("campaign: a follower read that was in flight across the election moved the new leader's revision backwards: SetCurrentRevision(%d) at take-over, %d after two requests, now %d (the follower had synced to %d earlier); stored maximum %d",
				v, v+2, now, syncedTo, maxRev),
				Case: map[string]interface{}{"engine": "memkv", "old_leader_history": hist, "follower_synced_after_request": 3, "follower_synced_to": syncedTo,
					"then":              "old leader stops answering /status; a follower read (SyncReadRevision) is in flight; old leader releases the lock; B runs the real Campaign()",
					"version_installed": v, "revision_now": now, "max_stored_revision": maxRev}}
		}
	}
	js := map[string]interface{}{"history": hist, "max_stored_revision": maxRev, "version": v, "clock_before": before, "clock_after": after, "early_update_rev": ea.updRev, "early_create_rev": ea.creRev}
	gm.mu.Lock()
	gv, ok := gm.seen["leader.election.initial.version"].(uint64)
	gm.mu.Unlock()
	if !ok || gv != v {
		return &lib.ImplFailure{What: fmt.Sprintf("campaign: OnStartedLeading reported version %v but the committed revision is %d", gm.seen["leader.election.initial.version"], v), Case: js}
	}
	if v < before || v > after {
		return &lib.ImplFailure{What: fmt.Sprintf("campaign: version %d is not an engine clock reading between %d and %d", v, before, after), Case: js}
	}
	if !le.IsLeader() {
		return &lib.ImplFailure{What: "campaign: IsLeader() is false after OnStartedLeading", Case: js}
	}
	campObs.Version, campObs.MaxRev, campObs.SyncCheck = gv, maxRev, followerRead
	campObs.Early = []uint64{ea.updRev, ea.creRev}
	p2.deal, p2.committed = v+2, v+2
	pre := r.list(p2)
	if len(pre) != len(liveKeys(kv)) {
		return &lib.ImplFailure{What: fmt.Sprintf("campaign: List(0) at the new leader shows %d keys, the store holds %d live keys", len(pre), len(liveKeys(kv))), Case: js}
	}
	for _, kvx := range pre {
		c, h := r.serve(p2, hop{Kind: "update", Key: kvx.K, Val: "n", Prev: trueRevision(kv, kvx.K)})
		if c != "HOk" || h <= maxRev {
			return &lib.ImplFailure{What: fmt.Sprintf("campaign: guarded update of %s with its true revision -> %s, revision %d (stored maximum %d)", kvx.K, c, h, maxRev), Case: js}
		}
		campObs.Later = append(campObs.Later, h)
	}
	if r.fail != "" {
		return &lib.ImplFailure{What: "campaign: " + r.fail, Case: js}
	}
	campObs.Committed = p2.b.GetCurrentRevision()
	return nil
}

// campCoq renders a Campaign child's observations as a case of the callback model.
func campCoq(o campObsT) string {
	var labels, handed []string
	add := func(l, h string) { labels, handed = append(labels, l), append(handed, h) }
	if o.SyncCheck {
		add("NSyncCheck", lib.None())
	}
	add(lib.App("NParse", lib.N(o.Version)), lib.None())
	add("NInstall", lib.None())
	add("NFlag", lib.None())
	for _, r := range o.Early {
		add("NRequest", lib.Some(lib.N(r)))
	}
	if o.LateRev != 0 {
		add(lib.App("NSyncInstall", lib.N(o.LateRev)), lib.None())
	}
	for _, r := range o.Later {
		add("NRequest", lib.Some(lib.N(r)))
	}
	return lib.App("KCampaign", lib.App("mkCamp", lib.N(o.Version), lib.N(o.MaxRev), lib.List(labels), lib.List(handed), lib.N(o.Committed)))
}

// f1Witness: one success, ten failed creates, one success (finding C15-F1's history)
func f1Witness() []hop {
	w := []hop{{Kind: "create", Key: prefix + "/a", Val: "x"}}
	for i := 0; i < 10; i++ {
		w = append(w, hop{Kind: "create", Key: prefix + "/a", Val: "y" + strconv.Itoa(i)})
	}
	return append(w, hop{Kind: "create", Key: prefix + "/b", Val: "z"})
}

// runCampaignChild runs campaignCase in a child process: Campaign() never returns, its elector keeps
// renewing, and OnStoppedLeading ends the process through klog.Fatal — the child prints its verdict and
// exits at once without ever cancelling the elector; the parent only reads the verdict.
func runCampaignChild(scratch string, tsoOutage bool, followerRead bool, lateAnswer bool) (string, *lib.ImplFailure, *campObsT) {
	ctx, cancel := context.WithTimeout(context.Background(), 60*time.Second)
	defer cancel()
	cargs := []string{"-campaign-child", "-scratch", scratch}
	if tsoOutage {
		cargs = append(cargs, "-campaign-tso-outage")
	}
	if followerRead {
		cargs = append(cargs, "-campaign-follower-read")
	}
	if lateAnswer {
		cargs = append(cargs, "-campaign-late-answer")
	}
	cmd := exec.CommandContext(ctx, os.Args[0], cargs...)
	cmd.Stderr = nil
	out, err := cmd.Output()
	i := bytes.LastIndex(out, []byte("CAMPAIGN-VERDICT "))
	if i < 0 {
		return "", &lib.ImplFailure{What: fmt.Sprintf("campaign: the child process running the real Campaign() ended without a verdict (%v): a panic, klog.Fatal (leader lost / invalid leader info) or a hang", err)}, nil
	}
	var v struct {
		OK   bool             `json:"ok"`
		Fail *lib.ImplFailure `json:"fail"`
		Obs  campObsT         `json:"obs"`
	}
	if jerr := json.Unmarshal(bytes.TrimSpace(out[i+len("CAMPAIGN-VERDICT "):]), &v); jerr != nil {
		return "", &lib.ImplFailure{What: "campaign: unreadable verdict: " + jerr.Error()}, nil
	}
	if !v.OK {
		return "", v.Fail, nil
	}
	return "real leader.NewLeaderElection(...).Campaign() in a child process: acquired a released lock on memkv over a store with data; callback delayed at its gauge while a client polled IsLeader() and at once issued a guarded Update and a Create; version, IsLeader, List(0) and guarded updates checked", nil, &v.Obs
}

func main() {
	lib.QuietLogs()
	lib.ElInstallHook()
	child := flag.Bool("campaign-child", false, "internal: run the real Campaign() once and print the verdict")
	childOutage := flag.Bool("campaign-tso-outage", false, "internal: with a timestamp-oracle outage right after the elector's lock write")
	childFollower := flag.Bool("campaign-follower-read", false, "internal: with a follower read in flight across the election")
	childLate := flag.Bool("campaign-late-answer", false, "internal: the old leader's answer to the in-flight follower read arrives after the take-over")
	args := lib.ParseArgs()
	if *child {
		f := campaignCase(args.Scratch, f1Witness(), *childOutage, *childFollower, *childLate)
		b, _ := json.Marshal(map[string]interface{}{"ok": f == nil, "fail": f, "obs": campObs})
		fmt.Printf("\nCAMPAIGN-VERDICT %s\n", b)
		os.Stdout.Sync()
		os.Exit(0)
	}
	rnd := lib.NewRand(args.Seed)
	engines := []string{lib.EngBadger, lib.EngTiKV, lib.EngMem}
	nHist, hLen := 6, 10
	if args.Tier == "thorough" {
		nHist, hLen = 24, 16
	} else if args.Tier == "search" {
		nHist, hLen = 10, 12
	}

	var cases []lib.Case
	var fails []lib.ImplFailure
	add := func(cs caseSpec) {
		if len(fails) >= 6 {
			return // enough concrete failing inputs; every further case would cost its time-outs
		}
		c, f := runCase(cs, args.Scratch)
		if f != nil {
			f.CaseID = len(cases)
			fails = append(fails, *f)
			return
		}
		cases = append(cases, c)
	}

	// the witness of finding C15-F1 (DESIGN.md 0.1): one success, ten failed creates, one success
	witness := []hop{{Kind: "create", Key: prefix + "/a", Val: "x"}}
	for i := 0; i < 10; i++ {
		witness = append(witness, hop{Kind: "create", Key: prefix + "/a", Val: "y" + strconv.Itoa(i)})
	}
	witness = append(witness, hop{Kind: "create", Key: prefix + "/b", Val: "z"})
	// the old wedge of txn.go (fixed by 83355f7): a drift error must still resolve the revision
	drift := []hop{{Kind: "create", Key: prefix + "/a", Val: "x"}, {Kind: "update", Key: prefix + "/a", Val: "y", Rel: "future"},
		{Kind: "delete", Key: prefix + "/a", Rel: "future"}, {Kind: "create", Key: prefix + "/b", Val: "z"}}

	for _, eng := range engines {
		add(caseSpec{Engine: eng, History: witness, Stop: len(witness), Kind: "corpus-F1-witness", RestartAt: -1})
		add(caseSpec{Engine: eng, History: witness, Stop: 2, Kind: "corpus-F1-one-failure", RestartAt: -1})
		add(caseSpec{Engine: eng, History: drift, Stop: len(drift), Kind: "corpus-drift-resolves", RestartAt: -1})
		// a standby that fetched its timestamp at start-up, the leader restarting under the same identity and
		// writing more, then the standby taking over: the base must be the clock AT take-over
		add(caseSpec{Engine: eng, History: witness, Stop: len(witness), Kind: "corpus-standby-takeover", Standby: true, RestartAt: 6})
		add(caseSpec{Engine: eng, History: witness, Stop: len(witness), Kind: "corpus-leader-restart", RestartAt: 6})
		// the new leader was a follower that served reads: its revision counter has been set k >= 1 times before
		add(caseSpec{Engine: eng, History: witness, Stop: len(witness), Kind: "corpus-follower-synced", Standby: true, RestartAt: -1, FollowerSync: []int{1}})
		add(caseSpec{Engine: eng, History: witness, Stop: len(witness), Kind: "corpus-follower-synced", Standby: true, RestartAt: -1, FollowerSync: []int{1, 4, 12}})
		add(caseSpec{Engine: eng, History: drift, Stop: len(drift), Kind: "corpus-follower-synced", Standby: true, RestartAt: 2, FollowerSync: []int{2, 3}})
		// the timestamp oracle is unreachable right after the take-over write
		add(caseSpec{Engine: eng, History: witness, Stop: 3, Kind: "corpus-tso-outage", RestartAt: -1, TsoOutage: true})
		add(caseSpec{Engine: eng, History: drift, Stop: len(drift), Kind: "corpus-tso-outage", Standby: true, RestartAt: -1, TsoOutage: true, FollowerSync: []int{1}})
		for h := 0; h < nHist; h++ {
			hist := genHistory(rnd, hLen)
			for i := 0; i <= len(hist); i++ {
				add(caseSpec{Engine: eng, History: hist, Stop: i, Kind: "history", RestartAt: -1})
				if i >= 2 && i%3 == 0 {
					add(caseSpec{Engine: eng, History: hist, Stop: i, Kind: "history-standby", Standby: true, RestartAt: rnd.Intn(i)})
					add(caseSpec{Engine: eng, History: hist, Stop: i, Kind: "history-follower-synced", Standby: true, RestartAt: -1,
						FollowerSync: []int{1 + rnd.Intn(i), 1 + rnd.Intn(i), i}, TsoOutage: rnd.Chance(1, 3)})
				}
			}
		}
	}

	// every tier: the real Campaign() once (child process, about 1-2 s)
	type cres struct {
		s string
		f *lib.ImplFailure
		o *campObsT
	}
	ch1, ch2, ch3, ch4 := make(chan cres, 1), make(chan cres, 1), make(chan cres, 1), make(chan cres, 1)
	go func() { s, f, o := runCampaignChild(args.Scratch, false, false, false); ch1 <- cres{s, f, o} }()
	go func() { s, f, o := runCampaignChild(args.Scratch, true, false, false); ch2 <- cres{s, f, o} }()
	go func() { s, f, o := runCampaignChild(args.Scratch, false, true, false); ch3 <- cres{s, f, o} }()
	go func() { s, f, o := runCampaignChild(args.Scratch, false, true, true); ch4 <- cres{s, f, o} }()
	campaign := ""
	for k, ch := range []chan cres{ch1, ch2, ch3, ch4} {
		c := <-ch
		label := []string{"plain: ", "with a timestamp-oracle outage right after the elector's lock write: ",
			"with a follower read (real revision syncer, old leader unreachable) in flight across the election: ",
			"with a follower read in flight whose answer from the old leader arrives after the take-over (regression witness of the repaired C15-F2): "}[k]
		if c.f != nil {
			c.f.CaseID = len(cases)
			c.f.What = label + c.f.What
			fails = append(fails, *c.f)
			campaign += label + "failed: " + c.f.What + "; "
		} else {
			campaign += label + c.s + "; "
			c.o.Variant = []string{"plain", "tso-outage", "follower-read-lost", "follower-read-late"}[k]
			cases = append(cases, lib.Case{Coq: campCoq(*c.o), JSON: c.o, Kind: "memkv/campaign-" + c.o.Variant,
				Outcomes: []string{"campaign:" + c.o.Variant}})
		}
	}

	header := "From Coq Require Import String.\nFrom KB Require Import Model.C15Cases.\n" + strings.Join(dictDefs, "\n")
	w := lib.NewWriter(args, "C15", "c15", header, "c15_any", "c15_any_check", "c15_any_oracle", 120)
	for _, c := range cases {
		w.Add(c)
	}
	for _, f := range fails {
		w.Fail(f)
	}
	w.Stats.Extra["campaign"] = campaign
	w.Stats.Extra["invalid_cases"] = "validity (c15_validb) is part of the evaluated check c15_checkv: an invalid script case counts as a mismatch; 0 whenever mismatches = 0"
	if err := w.Finish("one case = (engine, history, stop point): old leader elected through the real lock, history prefix, restart/fail-over, new leader elected through the real lock + Describe + parse + SetCurrentRevision, probes; distinct = SHA-256 of the Coq script with observations; non-trivial = at least one request before the hand-over"); err != nil {
		fmt.Fprintln(os.Stderr, err)
		os.Exit(2)
	}
}
