// gen_consts: a small translator. It parses the Go sources of the repository ($VERIF_REPO, default /repo)
// and regenerates coq/Gen/Consts.v ($VERIF_DIR, default /verif) with the values of the constants and
// package-level variables the Coq models depend on (magic bytes, split byte, tombstone marker, channel
// capacities, batch sizes, ...). The per-property files coq/ConstChecks/Cxx.v then prove, by reflexivity,
// that the hand-written models use exactly these values: an edit of a constant in the code breaks that
// obligation. Only literal-valued declarations are supported; anything else is emitted as `Unknown`
// and fails the check.
package main

import (
	"fmt"
	"go/ast"
	"go/parser"
	"go/token"
	"os"
	"path/filepath"
	"sort"
	"strconv"
	"strings"
)

type want struct{ file, name string }

var wants = []want{
	{"pkg/backend/coder/normal.go", "magic"},
	{"pkg/backend/coder/normal.go", "splitByte"},
	{"pkg/backend/coder/rev.go", "RevisionValueLength"},
	{"pkg/backend/coder/rev.go", "RevisionValueLengthWithDeletionFlag"},
	{"pkg/backend/util.go", "tombStoneBytes"},
	{"pkg/backend/util.go", "noPrefixEnd"},
	{"pkg/backend/util.go", "events"},
	{"pkg/backend/util.go", "compactKey"},
	{"pkg/backend/util.go", "eventsTTL"},
	{"pkg/backend/util.go", "retryInterval"},
	{"pkg/backend/util.go", "checkInterval"},
	{"pkg/backend/backend.go", "historyCapacity"},
	{"pkg/backend/backend.go", "watchersChanCapacity"},
	{"pkg/backend/backend.go", "eventBatchSize"},
	{"pkg/backend/watcherhub.go", "watchBuffer"},
	{"pkg/backend/watch.go", "resultChanLength"},
	{"pkg/backend/scanner/scanner.go", "rangeStreamBatch"},
	{"pkg/backend/scanner/scanner.go", "scanBackoffSteps"},
	{"pkg/backend/scanner/scanner.go", "revisionValueLengthWithDeletionFlag"},
	{"pkg/server/etcd/kv.go", "GetPartitionMagic"},
}

type val struct {
	isBytes bool
	n       uint64
	b       []byte
	ok      bool
}

var units = map[string]uint64{"Nanosecond": 1, "Microsecond": 1000, "Millisecond": 1000000, "Second": 1000000000, "Minute": 60000000000, "Hour": 3600000000000}

func eval(e ast.Expr, env map[string]val) val {
	switch x := e.(type) {
	case *ast.BasicLit:
		switch x.Kind {
		case token.INT:
			n, err := strconv.ParseUint(strings.ReplaceAll(x.Value, "_", ""), 0, 64)
			return val{n: n, ok: err == nil}
		case token.CHAR:
			s, err := strconv.Unquote(x.Value)
			if err != nil || len(s) == 0 {
				return val{}
			}
			r := []rune(s)
			return val{n: uint64(r[0]), ok: true}
		case token.STRING:
			s, err := strconv.Unquote(x.Value)
			return val{isBytes: true, b: []byte(s), ok: err == nil}
		}
	case *ast.ParenExpr:
		return eval(x.X, env)
	case *ast.Ident:
		if v, ok := env[x.Name]; ok {
			return v
		}
	case *ast.SelectorExpr: // time.Second etc.
		if id, ok := x.X.(*ast.Ident); ok && id.Name == "time" {
			if u, ok := units[x.Sel.Name]; ok {
				return val{n: u, ok: true}
			}
		}
	case *ast.BinaryExpr:
		a, b := eval(x.X, env), eval(x.Y, env)
		if !a.ok || !b.ok || a.isBytes || b.isBytes {
			return val{}
		}
		switch x.Op {
		case token.MUL:
			return val{n: a.n * b.n, ok: true}
		case token.ADD:
			return val{n: a.n + b.n, ok: true}
		case token.SUB:
			return val{n: a.n - b.n, ok: true}
		case token.SHL:
			return val{n: a.n << b.n, ok: true}
		}
	case *ast.CallExpr: // conversions: byte('x'), []byte("..."), string(x), int64(n), time.Duration(n)
		if len(x.Args) != 1 {
			return val{}
		}
		a := eval(x.Args[0], env)
		if !a.ok {
			return val{}
		}
		switch f := x.Fun.(type) {
		case *ast.Ident:
			switch f.Name {
			case "byte", "int", "int64", "uint64", "uint", "int32":
				return a
			case "string":
				if a.isBytes {
					return a
				}
				return val{isBytes: true, b: []byte(string(rune(a.n))), ok: true}
			}
		case *ast.ArrayType:
			return a
		case *ast.SelectorExpr:
			return a
		}
	case *ast.CompositeLit: // []byte{0}
		var bs []byte
		for _, el := range x.Elts {
			v := eval(el, env)
			if !v.ok || v.isBytes || v.n > 255 {
				return val{}
			}
			bs = append(bs, byte(v.n))
		}
		return val{isBytes: true, b: bs, ok: true}
	}
	return val{}
}

func coqName(file, name string) string {
	d := filepath.Base(filepath.Dir(file))
	return "go_" + d + "_" + name
}

func main() {
	repo := os.Getenv("VERIF_REPO")
	if repo == "" {
		repo = "/repo"
	}
	vdir := os.Getenv("VERIF_DIR")
	if vdir == "" {
		vdir = "/verif"
	}
	byFile := map[string][]string{}
	for _, w := range wants {
		byFile[w.file] = append(byFile[w.file], w.name)
	}
	files := []string{}
	for f := range byFile {
		files = append(files, f)
	}
	sort.Strings(files)
	var sb strings.Builder
	sb.WriteString("(* regenerated from the Go sources by harness/cmd/gen_consts on every check; never committed *)\nFrom KB Require Import Base.Bytes.\nOpen Scope N_scope.\nInductive go_unknown := Unknown.\n")
	fset := token.NewFileSet()
	for _, f := range files {
		af, err := parser.ParseFile(fset, filepath.Join(repo, f), nil, 0)
		if err != nil {
			fmt.Fprintln(os.Stderr, "parse", f, err)
			os.Exit(1)
		}
		env := map[string]val{}
		// two passes so that declarations may refer to later ones
		for pass := 0; pass < 2; pass++ {
			for _, d := range af.Decls {
				gd, ok := d.(*ast.GenDecl)
				if !ok || (gd.Tok != token.CONST && gd.Tok != token.VAR) {
					continue
				}
				for _, sp := range gd.Specs {
					vs := sp.(*ast.ValueSpec)
					for i, n := range vs.Names {
						if i < len(vs.Values) {
							if v := eval(vs.Values[i], env); v.ok {
								env[n.Name] = v
							}
						}
					}
				}
			}
		}
		for _, name := range byFile[f] {
			v, ok := env[name]
			cn := coqName(f, name)
			switch {
			case !ok || !v.ok:
				fmt.Fprintf(&sb, "Definition %s := Unknown. (* %s:%s not a literal-valued declaration any more *)\n", cn, f, name)
			case v.isBytes:
				xs := make([]string, len(v.b))
				for i, c := range v.b {
					xs[i] = strconv.Itoa(int(c))
				}
				fmt.Fprintf(&sb, "Definition %s : bytes := [%s].\n", cn, strings.Join(xs, ";"))
			default:
				fmt.Fprintf(&sb, "Definition %s : N := %d.\n", cn, v.n)
			}
		}
	}
	out := filepath.Join(vdir, "coq", "Gen", "Consts.v")
	os.MkdirAll(filepath.Dir(out), 0o755)
	tmp := fmt.Sprintf("%s.%d.tmp", out, os.Getpid())
	if err := os.WriteFile(tmp, []byte(sb.String()), 0o644); err != nil {
		fmt.Fprintln(os.Stderr, err)
		os.Exit(1)
	}
	if err := os.Rename(tmp, out); err != nil {
		fmt.Fprintln(os.Stderr, err)
		os.Exit(1)
	}
}
