// Driver c03: random write histories through the real backend.NewBackend, then Get/List/Count at many
// revisions, ranges and limits; more writes + a compaction; the same reads again. One Coq case per
// history and engine: the history, both raw dumps and every response (checked against Model/ReadSys.v
// and the C03 oracle in Model/C03Cases.v).
package main

import (
	"bytes"
	"context"
	"errors"
	"fmt"
	"math"
	"os"
	"sort"
	"strings"
	"sync/atomic"
	"time"

	proto "github.com/kubewharf/kubebrain-client/api/v2rpc"
	"github.com/tikv/client-go/v2/tikvrpc"
	"go.etcd.io/etcd/api/v3/etcdserverpb"

	"github.com/kubewharf/kubebrain/pkg/backend/coder"
	"github.com/kubewharf/kubebrain/pkg/server/etcd"
	"github.com/kubewharf/kubebrain/pkg/server/service/etcdproxy"
	"github.com/kubewharf/kubebrain/pkg/server/service/leader"
	"github.com/kubewharf/kubebrain/pkg/storage"

	"kbverif/lib"
)

var cd = coder.NewNormalCoder()

// leader stub for the etcd front end (as in harness/cmd/c16): this node is the leader, no proxy, no revision sync
type nopSyncer struct{}

func (nopSyncer) SyncReadRevision() error { return nil }
func (nopSyncer) Close() error            { return nil }

type peers struct {
	*leader.Stub
	nopSyncer
	etcdproxy.EtcdProxy
}

// etcdSrv is the etcd RPC server over the backend of the history being run
var etcdSrv *etcd.RPCServer

func coqEtcdKvs(resp *etcdserverpb.RangeResponse) string {
	xs := make([]string, len(resp.Kvs))
	for i, kv := range resp.Kvs {
		xs[i] = "(" + lib.Bytes(kv.Key) + ", " + lib.Bytes(kv.Value) + ", " + lib.N(uint64(kv.ModRevision)) + ")"
	}
	return lib.List(xs)
}

type read struct {
	Kind  string // get | list | count | stream
	A, B  []byte
	Rev   uint64
	Limit int64
}

// ---------- responses as Coq terms ----------

func coqKvs(kvs []*proto.KeyValue) string {
	xs := make([]string, len(kvs))
	for i, kv := range kvs {
		xs[i] = "(" + lib.Bytes(kv.Key) + ", " + lib.Bytes(kv.Value) + ", " + lib.N(kv.Revision) + ")"
	}
	return lib.List(xs)
}

func errClass(err error) string {
	s := err.Error()
	switch {
	case strings.Contains(s, "invalid nil end"):
		return "1"
	case strings.Contains(s, "invalid range end"):
		return "2"
	case strings.Contains(s, "less than compact revision"):
		return "3"
	}
	return "99"
}

type readOut struct {
	coq     string
	outcome string
	kvs     int
}

func doRead(n *lib.RSNode, r read) (out readOut) {
	ctx := context.Background()
	defer func() {
		if p := recover(); p != nil {
			switch r.Kind {
			case "etcd":
				out = readOut{coq: lib.App("QEtcd", lib.Bytes(r.A), lib.Bytes(r.B), lib.N(r.Rev), lib.Z(r.Limit), "EPanic"), outcome: "etcd-panic"}
			case "stream":
				out = readOut{coq: lib.App("QStream", lib.Bytes(r.A), lib.Bytes(r.B), lib.N(r.Rev), "[]"), outcome: "stream-panic"}
			case "get":
				out = readOut{coq: lib.App("QGet", lib.Bytes(r.A), lib.N(r.Rev), "GetPanic"), outcome: "get-panic"}
			case "list":
				out = readOut{coq: lib.App("QList", lib.Bytes(r.A), lib.Bytes(r.B), lib.N(r.Rev), lib.Z(r.Limit), "LPanic"), outcome: "list-panic"}
			default:
				out = readOut{coq: lib.App("QCount", lib.Bytes(r.A), lib.Bytes(r.B), "CPanic"), outcome: "count-panic"}
			}
		}
	}()
	switch r.Kind {
	case "etcd":
		resp, err := etcdSrv.Range(ctx, &etcdserverpb.RangeRequest{Key: r.A, RangeEnd: r.B, Revision: int64(r.Rev), Limit: r.Limit})
		if err != nil {
			return readOut{coq: lib.App("QEtcd", lib.Bytes(r.A), lib.Bytes(r.B), lib.N(r.Rev), lib.Z(r.Limit), "EErr"), outcome: "etcd-err"}
		}
		oc := "etcd-ok"
		if resp.More {
			oc = "etcd-more"
		} else if r.Limit > 0 && int64(len(resp.Kvs)) == r.Limit {
			oc = "etcd-exactly-limit"
		}
		return readOut{coq: lib.App("QEtcd", lib.Bytes(r.A), lib.Bytes(r.B), lib.N(r.Rev), lib.Z(r.Limit),
			lib.App("ERange", lib.N(uint64(resp.Header.Revision)), coqEtcdKvs(resp), lib.Bool(resp.More), lib.N(uint64(resp.Count)))), outcome: oc, kvs: len(resp.Kvs)}
	case "stream":
		ch, err := n.B.ListByStream(ctx, cd.EncodeObjectKey(r.A, 0), cd.EncodeObjectKey(r.B, 0), r.Rev)
		if err != nil {
			return readOut{coq: lib.App("QStream", lib.Bytes(r.A), lib.Bytes(r.B), lib.N(r.Rev), "[]"), outcome: "stream-error"}
		}
		var xs []string
		k := 0
		deadline := time.After(20 * time.Second)
	loop:
		for {
			select {
			case m, ok := <-ch:
				if !ok {
					break loop
				}
				if m == nil || m.RangeResponse == nil || m.RangeResponse.Header == nil {
					xs = append(xs, "(mk_smsg 0 [] true true)")
					continue
				}
				rr := m.RangeResponse
				if len(xs) > 40 || k > 4000 { // runaway stream: drain, record one malformed sentinel
					if k < 1000000 {
						k = 1000000
						xs = append(xs, "(mk_smsg 0 [] true true)")
					}
					continue
				}
				k += len(rr.Kvs)
				xs = append(xs, lib.App("mk_smsg", lib.N(rr.Header.Revision), coqKvs(rr.Kvs), lib.Bool(rr.More), lib.Bool(m.Err != "")))
			case <-deadline:
				xs = append(xs, "(mk_smsg 0 [] true true)") // never closed: shows as a malformed stream
				break loop
			}
		}
		oc := "stream-ok"
		if k == 0 {
			oc = "stream-empty"
		}
		return readOut{coq: lib.App("QStream", lib.Bytes(r.A), lib.Bytes(r.B), lib.N(r.Rev), lib.List(xs)), outcome: oc, kvs: k}
	case "get":
		resp, err := n.B.Get(ctx, &proto.GetRequest{Key: r.A, Revision: r.Rev})
		if err != nil {
			return readOut{coq: lib.App("QGet", lib.Bytes(r.A), lib.N(r.Rev), "GetPanic"), outcome: "get-error"}
		}
		kv := lib.None()
		oc := "get-absent"
		k := 0
		if resp.Kv != nil {
			kv = lib.Some(lib.Pair(lib.Bytes(resp.Kv.Value), lib.N(resp.Kv.Revision)))
			oc, k = "get-found", 1
		}
		return readOut{coq: lib.App("QGet", lib.Bytes(r.A), lib.N(r.Rev), lib.App("GetResp", lib.N(resp.Header.Revision), kv)), outcome: oc, kvs: k}
	case "list":
		resp, err := n.B.List(ctx, &proto.RangeRequest{Key: r.A, End: r.B, Revision: r.Rev, Limit: r.Limit})
		var o string
		oc := "list-ok"
		k := 0
		if err != nil {
			o = lib.App("LErr", errClass(err))
			oc = "list-err" + errClass(err)
		} else {
			o = lib.App("LResp", lib.N(resp.Header.Revision), coqKvs(resp.Kvs), lib.Bool(resp.More))
			k = len(resp.Kvs)
			if resp.More {
				oc = "list-more"
			} else if k == 0 {
				oc = "list-empty"
			}
		}
		return readOut{coq: lib.App("QList", lib.Bytes(r.A), lib.Bytes(r.B), lib.N(r.Rev), lib.Z(r.Limit), o), outcome: oc, kvs: k}
	default:
		resp, err := n.B.Count(ctx, &proto.CountRequest{Key: r.A, End: r.B})
		if err != nil {
			return readOut{coq: lib.App("QCount", lib.Bytes(r.A), lib.Bytes(r.B), "CErr"), outcome: "count-err"}
		}
		return readOut{coq: lib.App("QCount", lib.Bytes(r.A), lib.Bytes(r.B), lib.App("CResp", lib.N(resp.Header.Revision), lib.N(resp.Count))), outcome: "count-ok", kvs: int(resp.Count)}
	}
}

type hist struct {
	keys []string
	ops1 []lib.RSOp
	ops2 []lib.RSOp
	// compaction request of phase 2: 0 = current, ^0 = none
	compact uint64
	nul     bool // use bounds with a trailing NUL (outside the documented alphabet)
	// window: between the two phases a writer A is held inside its storage commit (revision r+1 allocated,
	// nothing stored) while writer B commits r+2 and returns: reads at the reported revision r in that
	// window, and again after A has finished
	window bool
	// borders: when set the engine reports several partitions — the scanned interval cut at these internal keys
	// (lib.Wrap{Partitions} over the engine, pieces listed in reverse when shuffle is set; on the engine kind
	// "tikv" in the thorough tier the mock cluster is really split there)
	borders [][]byte
	shuffle bool
	// allRevs: read at every revision from the base to the current one
	allRevs bool
	// hooked (always on the mock TiKV, also in the quick tier; the regions are split at `borders`):
	// holdSecondary — the commit of batches that hold only object records (the secondary keys of a write whose index
	// record lies in another region) is held back until the reads of phase 1 are done: the writes are acknowledged and
	// published while their object records are still locks (seeded change C03-7);
	// tsRace — three times: a read A has its snapshot timestamp issued but not yet delivered, a write commits and is
	// published, a read B at the new revision runs while A is still waiting (seeded change C03-8)
	holdSecondary bool
	tsRace        bool
	// etcdAll: the whole range through the etcd Range API with every limit 0..n+1 at every read revision
	etcdAll bool
	// iterFault: after phase 1 the engine iterator fails once per read (iterFaultKV) — the limited List (rangeWithLimit:
	// worker.run without retry) with the fault at store.Iter and at every Next position, two unlimited Lists (retried)
	iterFault bool
}

// iterFaultKV: a KvStorage whose next iterator fails once. at < 0: off; at = 0: the next Iter call returns an error;
// at = n > 0: the n-th Next of the next iterator returns an error (not io.EOF). One shot: arming concerns only the first
// iterator opened afterwards; every other call goes to the engine untouched (an unarmed Iter returns the engine's own iterator).
type iterFaultKV struct {
	storage.KvStorage
	at    int64
	fired int64
}

var errIterFault = errors.New("verif: injected iterator fault")

func (f *iterFaultKV) Iter(ctx context.Context, start, end []byte, ts, limit uint64) (storage.Iter, error) {
	at := atomic.SwapInt64(&f.at, -1)
	if at < 0 {
		return f.KvStorage.Iter(ctx, start, end, ts, limit)
	}
	if at == 0 {
		atomic.StoreInt64(&f.fired, 1)
		return nil, errIterFault
	}
	it, err := f.KvStorage.Iter(ctx, start, end, ts, limit)
	if err != nil {
		return nil, err
	}
	return &faultIter{Iter: it, f: f, at: at}, nil
}

type faultIter struct {
	storage.Iter
	f     *iterFaultKV
	at, n int64
}

func (i *faultIter) Next(ctx context.Context) error {
	i.n++
	if i.n == i.at {
		atomic.StoreInt64(&i.f.fired, 1)
		return errIterFault
	}
	return i.Iter.Next(ctx)
}


func genHist(r *lib.Rand) hist {
	nk := 3 + r.Intn(5)
	perm := r.Perm(len(lib.RSKeyPool))
	var keys []string
	for _, i := range perm[:nk] {
		keys = append(keys, lib.RSKeyPool[i])
	}
	st := map[string]*lib.RSLive{}
	next := uint64(lib.RSBaseRev + 1)
	mc := 0
	if r.Chance(1, 12) {
		mc = 6
	}
	h := hist{keys: keys}
	h.ops1 = lib.RSGenOps(r, keys, st, &next, 4+r.Intn(14), mc)
	h.ops2 = lib.RSGenOps(r, keys, st, &next, r.Intn(7), mc)
	h.window = r.Chance(1, 3)
	if r.Chance(1, 4) { // a partitioned engine: one or two borders, inside the versions of a key or between keys
		nb := 1 + r.Intn(2)
		for i := 0; i < nb; i++ {
			k := keys[r.Intn(len(keys))]
			switch r.Intn(3) {
			case 0:
				h.borders = append(h.borders, cd.EncodeObjectKey([]byte(k+"%"), 0)) // between keys
			default:
				h.borders = append(h.borders, cd.EncodeObjectKey([]byte(k), uint64(lib.RSBaseRev+1+r.Intn(len(h.ops1)+len(h.ops2)+1))))
			}
		}
		sort.Slice(h.borders, func(i, j int) bool { return bytes.Compare(h.borders[i], h.borders[j]) < 0 })
		for i := 1; i < len(h.borders); i++ {
			if bytes.Equal(h.borders[i], h.borders[i-1]) {
				h.borders = h.borders[:i]
				break
			}
		}
		h.shuffle = r.Bool()
	}
	switch r.Intn(6) {
	case 0:
		h.compact = math.MaxUint64 // none
	case 1, 2:
		h.compact = 0 // current
	default:
		h.compact = uint64(lib.RSBaseRev + 1 + r.Intn(len(h.ops1)+len(h.ops2)+1))
	}
	return h
}

func genReads(r *lib.Rand, h hist, ops []lib.RSOp, cur uint64, quick bool) []read {
	var reads []read
	revs := []uint64{0, cur, lib.RSBaseRev + 1, lib.RSBaseRev}
	for i := 0; i < 3; i++ {
		revs = append(revs, uint64(lib.RSBaseRev+1+r.Intn(int(cur-lib.RSBaseRev)+1)))
	}
	if r.Chance(1, 4) {
		revs = append(revs, cur+1+uint64(r.Intn(3))) // not yet readable: model agreement only
	}
	if h.allRevs {
		revs = []uint64{0}
		for x := uint64(lib.RSBaseRev); x <= cur; x++ {
			revs = append(revs, x)
		}
	}
	bounds := lib.RSBoundPool(h.keys)
	if h.nul {
		for _, k := range h.keys {
			bounds = append(bounds, append([]byte(k), 0))
		}
	}
	nl := 0
	for _, o := range ops {
		if o.OK && o.Kind != "delete" {
			nl++
		}
	}
	nranges := 5
	for i := 0; i < nranges; i++ {
		a, b := bounds[r.Intn(len(bounds))], bounds[r.Intn(len(bounds))]
		if i == 0 {
			a, b = []byte("/r/"), []byte("/r0")
		}
		if bytes.Compare(a, b) >= 0 && !r.Chance(1, 12) {
			a, b = b, a
			if bytes.Equal(a, b) {
				b = lib.RSBoundPool(nil)[1] // "/r0"
			}
		}
		if r.Chance(1, 60) {
			b = nil
		}
		if h.nul && i > 0 {
			if r.Bool() {
				a = append([]byte(h.keys[r.Intn(len(h.keys))]), 0)
			} else {
				b = append([]byte(h.keys[r.Intn(len(h.keys))]), 0)
			}
		}
		reads = append(reads, read{Kind: "count", A: a, B: b})
		if i < 2 || r.Chance(1, 3) {
			reads = append(reads, read{Kind: "stream", A: a, B: b, Rev: revs[r.Intn(len(revs))]})
		}
		for _, rev := range revs {
			if i > 1 && r.Bool() {
				continue
			}
			limits := []int64{0, 1, int64(len(h.keys)), int64(len(h.keys)) + 1, int64(1 + r.Intn(len(h.keys)+1)), 2}
			p := r.Perm(len(limits))
			nlim := 3
			if quick {
				nlim = 2
			}
			for _, j := range p[:nlim] {
				reads = append(reads, read{Kind: "list", A: a, B: b, Rev: rev, Limit: limits[j]})
				if len(b) > 0 && r.Chance(1, 3) { // the same read through the etcd front end (RangeEnd empty would be a Get)
					reads = append(reads, read{Kind: "etcd", A: a, B: b, Rev: rev, Limit: limits[j]})
				}
			}
			if h.etcdAll && i == 0 {
				for l := int64(0); l <= int64(len(h.keys))+1; l++ {
					reads = append(reads, read{Kind: "etcd", A: a, B: b, Rev: rev, Limit: l})
				}
			}
			if len(h.borders) > 0 { // the partitioned scan is only used without a limit; Count reads at cur only
				reads = append(reads, read{Kind: "list", A: a, B: b, Rev: rev, Limit: 0})
				if i < 2 {
					reads = append(reads, read{Kind: "stream", A: a, B: b, Rev: rev})
				}
			}
			if r.Chance(1, 30) {
				reads = append(reads, read{Kind: "list", A: a, B: b, Rev: rev, Limit: -1})
			}
			if r.Chance(1, 60) {
				reads = append(reads, read{Kind: "list", A: a, B: b, Rev: rev, Limit: math.MaxInt64})
			}
		}
	}
	gkeys := append([]string{}, h.keys...)
	gkeys = append(gkeys, "/r/absent")
	for _, k := range gkeys {
		for _, rev := range revs {
			if quick && r.Chance(1, 3) {
				continue
			}
			reads = append(reads, read{Kind: "get", A: []byte(k), Rev: rev})
		}
	}
	for _, o := range ops {
		if o.OK {
			reads = append(reads, read{Kind: "get", A: o.Key, Rev: o.Rev})
		}
	}
	return reads
}

// ---------- running one history on one engine ----------

type caseOut struct {
	c        lib.Case
	failure  *lib.ImplFailure
	nreads   int
	outcomes map[string]int
}

type phase struct {
	ops   []lib.RSOp
	floor uint64
	dump  []lib.KV
	cur   uint64
	outs  []readOut
}

func (ph phase) coq() string {
	xs := make([]string, len(ph.outs))
	for i, o := range ph.outs {
		xs[i] = o.coq
	}
	os := make([]string, len(ph.ops))
	for i, o := range ph.ops {
		os[i] = o.Coq()
	}
	return lib.App("mk_phase", lib.List(os), lib.N(ph.floor), lib.CoqDump(ph.dump), lib.N(ph.cur), "["+strings.Join(xs, ";\n  ")+"]")
}

func cp(b []byte) []byte { return append([]byte{}, b...) }

// pcall is one recorded GetPartitions answer of the engine
type pcall struct {
	start, end []byte
	parts      []storage.Partition
}

func coqCalls(calls []pcall) string {
	xs := make([]string, len(calls))
	for i, c := range calls {
		ps := make([]string, len(c.parts))
		for j, p := range c.parts {
			ps[j] = lib.Pair(lib.Bytes(p.Start), lib.Bytes(p.End))
		}
		xs[i] = "(" + lib.Bytes(c.start) + ", " + lib.Bytes(c.end) + ", " + lib.List(ps) + ")"
	}
	return lib.List(xs)
}

// cut: the interval [start, end) cut at the borders strictly inside it (one piece when start >= end)
func cut(borders [][]byte, reverse bool, start, end []byte) []storage.Partition {
	pts := [][]byte{start}
	if bytes.Compare(start, end) < 0 {
		for _, b := range borders {
			if bytes.Compare(start, b) < 0 && bytes.Compare(b, end) < 0 {
				pts = append(pts, b)
			}
		}
	}
	pts = append(pts, end)
	n := len(pts) - 1
	ps := make([]storage.Partition, n)
	for i := 0; i < n; i++ {
		j := i
		if reverse {
			j = n - 1 - i
		}
		ps[j] = storage.Partition{Start: pts[i], End: pts[i+1]}
	}
	return ps
}

// gate holds one goroutine at its first BeginBatchWrite
type gate struct {
	goid    int64
	parked  chan struct{}
	release chan struct{}
}

func runHist(engine, scratch string, h hist, rr *lib.Rand, kind string, quick, full bool) (res caseOut) {
	res.outcomes = map[string]int{}
	var kv storage.KvStorage
	realSplit := engine == lib.EngTiKV && len(h.borders) > 0
	var inner storage.KvStorage
	var closer func()
	var err error
	hooked := h.holdSecondary || h.tsRace
	holdCh := make(chan struct{})
	var holding, tsGoid, heldCount int64
	tsParked, tsRelease := make(chan struct{}, 1), make(chan struct{})
	if hooked {
		var cl *lib.TiKVHooked
		cl, err = lib.NewTiKVHooked(h.borders...)
		if err == nil {
			closer = cl.Close
			inner, err = cl.Open(1, func(ctx context.Context, addr string, req *tikvrpc.Request, next func() (*tikvrpc.Response, error)) (*tikvrpc.Response, error) {
				if req.Type == tikvrpc.CmdCommit && atomic.LoadInt64(&holding) == 1 {
					index := false
					for _, k := range req.Commit().Keys {
						if _, rev, derr := cd.Decode(k); derr != nil || rev == 0 {
							index = true
						}
					}
					if !index { // object records only: the store holding them is slow
						atomic.AddInt64(&heldCount, 1)
						select {
						case <-holdCh:
						case <-time.After(10 * time.Second):
						}
					}
				}
				return next()
			}, func(ctx context.Context, next func() (int64, int64, error)) (int64, int64, error) {
				p, l, e := next()
				if g := atomic.LoadInt64(&tsGoid); g != 0 && g == lib.GoID() {
					atomic.StoreInt64(&tsGoid, 0)
					tsParked <- struct{}{} // the timestamp is issued; its delivery is late
					select {
					case <-tsRelease:
					case <-time.After(10 * time.Second):
					}
				}
				return p, l, e
			})
		}
		if h.holdSecondary {
			atomic.StoreInt64(&holding, 1)
		}
	} else if realSplit {
		inner, closer, err = lib.NewTiKVSplit(h.borders...)
	} else {
		inner, closer, err = lib.NewEngine(engine, scratch)
	}
	if err != nil {
		res.failure = &lib.ImplFailure{What: "engine open: " + err.Error()}
		return
	}
	defer closer()
	kv = inner
	g := &gate{parked: make(chan struct{}, 1), release: make(chan struct{})}
	var calls []pcall
	if h.window || len(h.borders) > 0 {
		w := &lib.Wrap{KvStorage: inner}
		if h.window {
			w.Before = func(k string, key []byte) error {
				if k == "batch" && atomic.LoadInt64(&g.goid) == lib.GoID() {
					atomic.StoreInt64(&g.goid, 0)
					g.parked <- struct{}{}
					<-g.release
				}
				return nil
			}
		}
		if len(h.borders) > 0 {
			w.Partitions = func(start, end []byte) []storage.Partition {
				var res []storage.Partition
				if realSplit || hooked {
					res, _ = inner.GetPartitions(context.Background(), start, end)
				} else {
					res = cut(h.borders, h.shuffle, start, end)
				}
				known := false
				for _, c := range calls {
					if bytes.Equal(c.start, start) && bytes.Equal(c.end, end) {
						known = true
					}
				}
				out := make([]storage.Partition, len(res)) // the scanner sorts and rewrites the slice in place
				rec := make([]storage.Partition, len(res))
				for i, x := range res {
					out[i] = storage.Partition{Start: cp(x.Start), End: cp(x.End)}
					rec[i] = storage.Partition{Start: cp(x.Start), End: cp(x.End)}
				}
				if !known {
					calls = append(calls, pcall{cp(start), cp(end), rec})
				}
				return out
			}
		}
		kv = w
	}
	var ifk *iterFaultKV
	if h.iterFault {
		ifk = &iterFaultKV{KvStorage: kv, at: -1}
		kv = ifk
	}
	n := lib.NewRSNode(kv, "c03")
	defer lib.RSRetire()
	b := n.B
	etcdSrv = etcd.New(b, &lib.NopMetrics{}, &peers{Stub: &leader.Stub{ElectionInfo: leader.ElectionInfo{LeaderAddress: "127.0.0.1:0", IsLeader: true}}, EtcdProxy: etcdproxy.NewDisabledEtcdProxy()})
	jsonCase := map[string]interface{}{"engine": engine, "keys": h.keys, "window": h.window}
	if len(h.borders) > 0 {
		var hb []string
		for _, x := range h.borders {
			hb = append(hb, lib.Q(x))
		}
		jsonCase["partition_borders"], jsonCase["partitions_listed_in_reverse"], jsonCase["real_tikv_regions"] = hb, h.shuffle, realSplit || hooked
		jsonCase["hold_secondary_commits"], jsonCase["timestamp_race"] = h.holdSecondary, h.tsRace
	}
	fail := func(what string) caseOut {
		res.failure = &lib.ImplFailure{What: what, Case: jsonCase}
		return res
	}
	var phases []phase
	var reads []read
	snapWith := func(ops []lib.RSOp, floor uint64, outs []readOut) error {
		d, err := lib.Dump(inner)
		if err != nil {
			return fmt.Errorf("dump: %v", err)
		}
		ph := phase{ops: ops, floor: floor, dump: d, cur: b.GetCurrentRevision(), outs: outs}
		if outs == nil {
			for _, r := range reads {
				o := doRead(n, r)
				res.outcomes[o.outcome]++
				ph.outs = append(ph.outs, o)
			}
		}
		phases = append(phases, ph)
		return nil
	}
	snap := func(ops []lib.RSOp, floor uint64) error { return snapWith(ops, floor, nil) }
	// phase 1
	for i := range h.ops1 {
		if err := n.Apply(&h.ops1[i]); err != nil {
			return fail(err.Error())
		}
	}
	cur1 := b.GetCurrentRevision()
	reads = genReads(rr, h, h.ops1, cur1, quick)
	if err := snap(h.ops1, 0); err != nil {
		return fail(err.Error())
	}
	// window
	if h.window {
		// A: a create of a fresh key, held before its batch; B: a write on one of the history's keys
		aop := lib.RSOp{Kind: "create", Key: []byte("/r/held"), Val: []byte("A")}
		ra := n.Next
		n.Next++
		done := make(chan error, 1)
		go func() {
			atomic.StoreInt64(&g.goid, lib.GoID())
			done <- n.DoAt(&aop, ra)
		}()
		select {
		case <-g.parked:
		case <-time.After(3 * time.Second):
			return fail("window: writer A never reached its batch")
		}
		// B on a key of the history: update / delete when live, create otherwise (decided from the real state)
		k := []byte(h.keys[rr.Intn(len(h.keys))])
		bop := lib.RSOp{Kind: "create", Key: k, Val: []byte("B")}
		if resp, err := b.Get(context.Background(), &proto.GetRequest{Key: k}); err == nil && resp.Kv != nil {
			if rr.Bool() {
				bop = lib.RSOp{Kind: "update", Key: k, Val: []byte("B"), Prev: resp.Kv.Revision}
			} else {
				bop = lib.RSOp{Kind: "delete", Key: k, Prev: 0}
			}
		}
		rb := n.Next
		n.Next++
		if err := n.DoAt(&bop, rb); err != nil {
			close(g.release)
			return fail(err.Error())
		}
		time.Sleep(2 * time.Millisecond) // B is stored and acknowledged; the sequencer cannot pass A's open slot
		if c := b.GetCurrentRevision(); c != cur1 {
			close(g.release)
			return fail(fmt.Sprintf("window: committed revision moved to %d while revision %d is unresolved", c, ra))
		}
		res.outcomes["window-"+bop.Kind]++
		reads = append(reads, read{Kind: "get", A: k, Rev: cur1}, read{Kind: "get", A: k, Rev: 0}, read{Kind: "get", A: k, Rev: rb},
			read{Kind: "get", A: aop.Key, Rev: 0}, read{Kind: "list", A: []byte("/r/"), B: []byte("/r0"), Rev: cur1}, read{Kind: "list", A: []byte("/r/"), B: []byte("/r0"), Rev: 0},
			read{Kind: "stream", A: []byte("/r/"), B: []byte("/r0"), Rev: 0}, read{Kind: "stream", A: []byte("/r/"), B: []byte("/r0"), Rev: cur1})
		if err := snap([]lib.RSOp{bop}, 0); err != nil {
			close(g.release)
			return fail(err.Error())
		}
		close(g.release)
		select {
		case err := <-done:
			if err != nil {
				return fail(err.Error())
			}
		case <-time.After(3 * time.Second):
			return fail("window: writer A did not finish")
		}
		if err := n.Settle(); err != nil {
			return fail(err.Error())
		}
		reads = append(reads, read{Kind: "get", A: aop.Key, Rev: ra}, read{Kind: "get", A: k, Rev: rb})
		if err := snap([]lib.RSOp{aop}, 0); err != nil {
			return fail(err.Error())
		}
		h.ops1 = append(h.ops1, bop, aop)
	}
	if h.holdSecondary { // the slow store catches up: the held secondary commits go through
		atomic.StoreInt64(&holding, 0)
		close(holdCh)
		res.outcomes["secondary-commit-held"] += int(atomic.LoadInt64(&heldCount))
		if atomic.LoadInt64(&heldCount) == 0 {
			return fail("held-secondary scenario: no commit of secondary keys was intercepted (scenario degenerate)")
		}
	}
	if h.tsRace {
		whole := func(limit int64) read {
			return read{Kind: "list", A: []byte("/r/"), B: []byte("/r0"), Rev: 0, Limit: limit}
		}
		bReads := []read{whole(0), whole(2), {Kind: "count", A: []byte("/r/"), B: []byte("/r0")}}
		for i, br := range bReads {
			aDone := make(chan struct{})
			go func() {
				atomic.StoreInt64(&tsGoid, lib.GoID())
				doRead(n, whole(0)) // read A: its snapshot timestamp is issued, the response from PD is late
				close(aDone)
			}()
			select {
			case <-tsParked:
			case <-time.After(3 * time.Second):
				return fail("timestamp-race scenario: read A never asked for a timestamp (scenario degenerate)")
			}
			wop := lib.RSOp{Kind: "create", Key: []byte(fmt.Sprintf("/r/ts%d", i)), Val: []byte("w")}
			if err := n.Apply(&wop); err != nil { // committed, acknowledged, published
				return fail(err.Error())
			}
			if br.Kind == "list" {
				br.Rev = b.GetCurrentRevision()
			}
			bOut := make(chan readOut, 1)
			go func(r read) { bOut <- doRead(n, r) }(br)
			var o readOut
			select {
			case o = <-bOut: // B has its own timestamp
				res.outcomes["ts-race-b-independent"]++
			case <-time.After(60 * time.Millisecond): // B waits for A's flight
				res.outcomes["ts-race-b-waited-for-a"]++
			}
			tsRelease <- struct{}{}
			if o.coq == "" {
				select {
				case o = <-bOut:
				case <-time.After(5 * time.Second):
					return fail("timestamp-race scenario: read B did not return")
				}
			}
			select {
			case <-aDone:
			case <-time.After(5 * time.Second):
				return fail("timestamp-race scenario: read A did not return")
			}
			res.outcomes[o.outcome]++
			if err := snapWith([]lib.RSOp{wop}, 0, []readOut{o}); err != nil {
				return fail(err.Error())
			}
		}
	}
	if h.iterFault {
		// rangeWithLimit calls worker.run once, without runWithBackoffRetry: an iterator that fails before the receiver has
		// its limit + 1 results is an ERROR response (Model/ReadRetry.v list_limited_fault, C03_limited_fault) — never the
		// kvs collected so far, never a `more` computed from them.  The fault is placed at store.Iter (at = 0) and at every
		// Next position up to past the end of the store; a position the worker never reaches (limit reached, or io.EOF
		// first) must leave the answer untouched: that response is an ordinary read of the case, judged by model and oracle.
		lim := read{Kind: "list", A: []byte("/r/"), B: []byte("/r0"), Rev: cur1, Limit: 2}
		d0, err := lib.Dump(inner)
		if err != nil {
			return fail("dump: " + err.Error())
		}
		var extra []readOut
		var extraReads []read
		nErr, nFree := 0, 0
		for at := int64(0); at <= int64(len(d0))+2; at++ {
			atomic.StoreInt64(&ifk.fired, 0)
			atomic.StoreInt64(&ifk.at, at)
			resp, lerr := b.List(context.Background(), &proto.RangeRequest{Key: lim.A, End: lim.B, Revision: lim.Rev, Limit: lim.Limit})
			atomic.StoreInt64(&ifk.at, -1)
			if atomic.LoadInt64(&ifk.fired) == 1 {
				if lerr == nil {
					jsonCase["iter_fault_at"] = at
					return fail(fmt.Sprintf("limited List (limit %d) whose engine iterator failed (fault position %d: 0 = Iter, n = n-th Next) answered %d kvs, more=%v instead of an error", lim.Limit, at, len(resp.Kvs), resp.More))
				}
				nErr++
				res.outcomes["list-limited-iter-fault-error"]++
				continue
			}
			// not reached: the response as an ordinary read (an error here shows as a mismatch)
			nFree++
			res.outcomes["list-limited-iter-fault-unreached"]++
			var o string
			k := 0
			if lerr != nil {
				o = lib.App("LErr", errClass(lerr))
			} else {
				o = lib.App("LResp", lib.N(resp.Header.Revision), coqKvs(resp.Kvs), lib.Bool(resp.More))
				k = len(resp.Kvs)
			}
			extra = append(extra, readOut{coq: lib.App("QList", lib.Bytes(lim.A), lib.Bytes(lim.B), lib.N(lim.Rev), lib.Z(lim.Limit), o), outcome: "list-more", kvs: k})
			extraReads = append(extraReads, lim)
		}
		if nErr < 3 || nFree < 1 {
			return fail(fmt.Sprintf("iterator-fault scenario degenerate: %d faulted limited Lists, %d with the fault out of reach", nErr, nFree))
		}
		// the same limited List again, no fault: the snapshot answer
		o := doRead(n, lim)
		res.outcomes[o.outcome]++
		extra, extraReads = append(extra, o), append(extraReads, lim)
		// the unlimited List goes through scan -> runWithBackoffRetry: one failed attempt (Iter error; 3rd Next) is retried after
		// the back-off second and the answer is the fault-free one (C13_retry_list_count)
		unl := read{Kind: "list", A: []byte("/r/"), B: []byte("/r0"), Rev: cur1, Limit: 0}
		for _, at := range []int64{0, 3} {
			atomic.StoreInt64(&ifk.fired, 0)
			atomic.StoreInt64(&ifk.at, at)
			o := doRead(n, unl)
			atomic.StoreInt64(&ifk.at, -1)
			if atomic.LoadInt64(&ifk.fired) != 1 {
				return fail("iterator-fault scenario degenerate: the fault of the unlimited List did not fire")
			}
			res.outcomes["list-unlimited-iter-fault-retried"]++
			res.outcomes[o.outcome]++
			extra, extraReads = append(extra, o), append(extraReads, unl)
		}
		// a phase without writes: the reads of phase 1 again (no fault), then the reads above
		var outs []readOut
		for _, r := range reads {
			o := doRead(n, r)
			res.outcomes[o.outcome]++
			outs = append(outs, o)
		}
		outs = append(outs, extra...)
		reads = append(reads, extraReads...)
		if err := snapWith(nil, 0, outs); err != nil {
			return fail(err.Error())
		}
	}
	// phase 2: more writes and a compaction
	for i := range h.ops2 {
		if h.window && h.ops2[i].Prev != 0 { // generated before the window changed the revisions: keep it a plausible guard
			if resp, err := b.Get(context.Background(), &proto.GetRequest{Key: h.ops2[i].Key}); err == nil && resp.Kv != nil && rr.Bool() {
				h.ops2[i].Prev = resp.Kv.Revision
			}
		}
		if err := n.Apply(&h.ops2[i]); err != nil {
			return fail(err.Error())
		}
	}
	floor := uint64(0)
	if h.compact != math.MaxUint64 {
		resp, err := b.Compact(context.Background(), h.compact)
		if err != nil {
			return fail("compact: " + err.Error())
		}
		floor = resp.Header.Revision
	}
	cur2 := b.GetCurrentRevision()
	for _, o := range h.ops2 {
		if o.OK {
			reads = append(reads, read{Kind: "get", A: o.Key, Rev: o.Rev})
		}
	}
	reads = append(reads, read{Kind: "list", A: []byte("/r/"), B: []byte("/r0"), Rev: cur2, Limit: 0},
		read{Kind: "list", A: []byte("/r/"), B: []byte("/r0"), Rev: floor, Limit: 0})
	if err := snap(h.ops2, floor); err != nil {
		return fail(err.Error())
	}

	found, okw := 0, 0
	var ps []string
	var jops []interface{}
	for _, ph := range phases {
		ps = append(ps, ph.coq())
		res.nreads += len(ph.outs)
		for _, o := range ph.outs {
			found += o.kvs
		}
		var jo []interface{}
		for _, o := range ph.ops {
			jo = append(jo, o.JSON())
			if o.OK {
				okw++
				res.outcomes["write-ok-"+o.Kind]++
			} else {
				res.outcomes["write-failed-"+o.Kind]++
			}
		}
		jp := map[string]interface{}{"ops": jo, "floor": ph.floor, "cur": ph.cur, "reads": len(ph.outs), "records": len(ph.dump)}
		if full {
			var rs []string
			for _, o := range ph.outs {
				rs = append(rs, o.coq)
			}
			jp["responses"] = rs
		}
		jops = append(jops, jp)
	}
	if len(h.borders) > 0 && len(calls) == 0 {
		return fail("partitioned engine: GetPartitions was never called")
	}
	coq := lib.App("mk_c03", lib.Bytes(lib.RSCompactKey), "true", coqCalls(calls), "[\n "+strings.Join(ps, ";\n ")+"]")
	jsonCase["phases"] = jops
	jsonCase["compact_request"] = h.compact
	res.c = lib.Case{Coq: coq, JSON: jsonCase, Kind: kind + "/" + engine, Trivial: okw < 2 || found == 0}
	if h.window {
		res.c.Kind += "/window"
	}
	if h.holdSecondary {
		res.c.Kind += "/held-secondary"
	}
	if h.tsRace {
		res.c.Kind += "/ts-race"
	}
	if h.iterFault {
		res.c.Kind += "/iter-fault"
	}
	if len(h.borders) > 0 {
		res.c.Kind += "/partitioned"
		for _, c := range calls {
			res.outcomes[fmt.Sprintf("engine-pieces-%d", len(c.parts))]++
		}
	}
	return
}

// ---------- fixed corpus ----------

func corpus() []hist {
	c := func(k string, v []byte) lib.RSOp { return lib.RSOp{Kind: "create", Key: []byte(k), Val: v} }
	u := func(k string, v []byte, prev uint64) lib.RSOp {
		return lib.RSOp{Kind: "update", Key: []byte(k), Val: v, Prev: prev}
	}
	d := func(k string, prev uint64) lib.RSOp { return lib.RSOp{Kind: "delete", Key: []byte(k), Prev: prev} }
	x := []byte("x")
	return []hist{
		// C03-F1: a created value equal to the reserved deletion lib.RSMarker is lost
		{keys: []string{"/r/a", "/r/b"}, ops1: []lib.RSOp{c("/r/a", lib.RSMarker), c("/r/b", x)}, ops2: []lib.RSOp{c("/r/ab", x)}, compact: math.MaxUint64},
		// the same through an update, then overwritten; compaction at the current revision
		{keys: []string{"/r/a", "/r/b"}, ops1: []lib.RSOp{c("/r/a", x), u("/r/a", lib.RSMarker, 101), c("/r/b", lib.RSMarker)}, ops2: []lib.RSOp{u("/r/a", []byte("y"), 102)}, compact: 0},
		// prefix-related names, several versions, deletes, re-creation
		{keys: []string{"/r/a", "/r/a/b", "/r/a-b", "/r/ab", "/r/a/"},
			ops1: []lib.RSOp{c("/r/a", x), c("/r/a/b", x), c("/r/a-b", x), c("/r/ab", x), c("/r/a/", x), u("/r/a", []byte("x2"), 101), d("/r/a/b", 0), u("/r/ab", []byte{0xff}, 104), c("/r/a/b", []byte("again")), d("/r/a-b", 103)},
			ops2: []lib.RSOp{d("/r/a", 0), c("/r/a", []byte("new")), u("/r/a/", []byte("z"), 105)}, compact: 108},
		// failed writes only after one success
		{keys: []string{"/r/a", "/r/b"}, ops1: []lib.RSOp{c("/r/a", x), c("/r/a", x), u("/r/a", x, 55), d("/r/b", 0), u("/r/b", x, 101), d("/r/a", 77)}, ops2: []lib.RSOp{u("/r/a", x, 1<<40)}, compact: 0},
		// range bounds with a trailing NUL (Kubernetes' continue keys), outside the documented alphabet
		{keys: []string{"/r/a", "/r/a/b", "/r/b"}, ops1: []lib.RSOp{c("/r/a", x), c("/r/a/b", x), c("/r/b", x)}, ops2: nil, compact: math.MaxUint64, nul: true},
		// a key alive at R is later deleted, another one deleted and re-created: old snapshots must not move; with a window
		{keys: []string{"/r/a", "/r/ab", "/r/b"}, ops1: []lib.RSOp{c("/r/a", x), c("/r/ab", x), c("/r/b", x), u("/r/ab", []byte("x2"), 102)},
			ops2: []lib.RSOp{d("/r/a", 0), d("/r/ab", 0), c("/r/ab", []byte("again")), d("/r/b", 103), c("/r/b", x), d("/r/b", 0)}, compact: math.MaxUint64, window: true},
		{keys: []string{"/r/a", "/r/b"}, ops1: []lib.RSOp{c("/r/a", x), c("/r/b", x)}, ops2: []lib.RSOp{d("/r/a", 0)}, compact: 0, window: true},
		// a partitioned engine (seeded change C03-4): /r/a/b has three versions (103, 105, 106), one border at its MIDDLE
		// version, one between keys; every read path at every revision — the partitioned paths (unlimited List, Count,
		// ListByStream) must agree with the single-worker paths (Get, limited List) on the same snapshot
		{keys: []string{"/r/a", "/r/a-b", "/r/a/b", "/r/ab"},
			ops1: []lib.RSOp{c("/r/a", x), c("/r/a-b", x), c("/r/a/b", []byte("1")), c("/r/ab", x), u("/r/a/b", []byte("2"), 103), u("/r/a/b", []byte("3"), 105)},
			ops2: []lib.RSOp{u("/r/a", []byte("x2"), 101)}, compact: math.MaxUint64, allRevs: true, etcdAll: true,
			borders: [][]byte{cd.EncodeObjectKey([]byte("/r/a/b"), 105), cd.EncodeObjectKey([]byte("/r/aa"), 0)}},
		// the same, pieces listed out of key order, border between two versions (synthetic revision 104), compaction
		{keys: []string{"/r/a", "/r/a-b", "/r/a/b", "/r/ab"},
			ops1: []lib.RSOp{c("/r/a", x), c("/r/a-b", x), c("/r/a/b", []byte("1")), c("/r/ab", x), u("/r/a/b", []byte("2"), 103), u("/r/a/b", []byte("3"), 105)},
			ops2: []lib.RSOp{d("/r/a-b", 0)}, compact: 104, allRevs: true, shuffle: true, window: true,
			borders: [][]byte{cd.EncodeObjectKey([]byte("/r/a/b"), 104)}},
		// the etcd Range API at every revision with every limit 0..n+1 (seeded change C03-6: More when exactly `limit` keys exist)
		{keys: []string{"/r/a", "/r/ab", "/r/b"}, ops1: []lib.RSOp{c("/r/a", x), c("/r/ab", x), c("/r/b", x), d("/r/ab", 0), u("/r/a", []byte("x2"), 101)},
			ops2: []lib.RSOp{c("/r/ab", x)}, compact: math.MaxUint64, allRevs: true, etcdAll: true},
		// TiKV, region borders between the index record and the versions of /r/a and of /r/ab: every write to them commits
		// its object record in a second, held-back batch; all read paths at every revision while the records are still locks
		{keys: []string{"/r/a", "/r/ab", "/r/b"}, ops1: []lib.RSOp{c("/r/a", x), c("/r/ab", x), c("/r/b", x), u("/r/a", []byte("x2"), 101), d("/r/ab", 0)},
			ops2: []lib.RSOp{c("/r/ab", []byte("back"))}, compact: math.MaxUint64, allRevs: true, holdSecondary: true,
			borders: [][]byte{cd.EncodeObjectKey([]byte("/r/a"), 1), cd.EncodeObjectKey([]byte("/r/ab"), 1)}},
		// TiKV, one region: a read whose timestamp is late, a write, a read at the new revision (three times)
		{keys: []string{"/r/a", "/r/b"}, ops1: []lib.RSOp{c("/r/a", x), c("/r/b", x)}, ops2: []lib.RSOp{d("/r/a", 0)}, compact: math.MaxUint64, tsRace: true},
		// the engine iterator fails once: limited List = error at every reachable fault position, unlimited List retried
		{keys: []string{"/r/a", "/r/a/b", "/r/ab", "/r/b", "/r/c"},
			ops1: []lib.RSOp{c("/r/a", x), c("/r/a/b", x), c("/r/ab", x), c("/r/b", x), u("/r/a", []byte("x2"), 101), d("/r/a/b", 0), c("/r/c", x)},
			ops2: []lib.RSOp{d("/r/a", 0)}, compact: math.MaxUint64, iterFault: true},
		// delete, compaction above the delete, re-creation
		{keys: []string{"/r/a", "/r/b"}, ops1: []lib.RSOp{c("/r/a", x), c("/r/b", x), d("/r/a", 101), u("/r/b", []byte("b2"), 102)}, ops2: []lib.RSOp{c("/r/a", []byte("back")), d("/r/b", 0)}, compact: 104},
	}
}

func main() {
	lib.QuietLogs()
	args := lib.ParseArgs()
	lib.RSInstallHook()
	rnd := lib.NewRand(args.Seed)
	nh := 110
	engines := []string{lib.EngMem}
	quick := true
	switch args.Tier {
	case "thorough":
		nh, quick = 900, false
		engines = []string{lib.EngMem, lib.EngBadger, lib.EngTiKV}
	case "search":
		nh = 400
	}
	w := lib.NewWriter(args, "C03", "c03", "From KB Require Import Model.C03Cases Model.ReadValid.", "c03_case", "c03_check_valid", "c03_oracle", 10)
	totalReads := 0
	exempt := 0
	run := func(h hist, seed uint64, kind string) {
		engs := engines
		if h.holdSecondary || h.tsRace {
			engs = []string{lib.EngTiKV} // needs the RPC / timestamp hooks of the mock cluster
		}
		for ei, e := range engs {
			if kind == "random" && ei > 0 && seed%3 != 0 {
				continue
			}
			hc := h
			hc.ops1 = append([]lib.RSOp{}, h.ops1...)
			hc.ops2 = append([]lib.RSOp{}, h.ops2...)
			full := args.Only >= 0 && args.Only == w.Len()
			out := runHist(e, args.Scratch, hc, lib.NewRand(seed), kind, quick, full)
			if out.failure != nil {
				out.failure.CaseID = w.Len()
				w.Fail(*out.failure)
				continue
			}
			for k, v := range out.outcomes {
				w.Stats.Outcomes[k] += v
			}
			totalReads += out.nreads
			if h.nul {
				exempt++
			}
			w.Add(out.c)
		}
	}
	for i, h := range corpus() {
		run(h, args.Seed*7919+uint64(i), "corpus")
	}
	for i := 0; i < nh; i++ {
		hr := rnd.Fork()
		h := genHist(hr)
		run(h, hr.U64(), "random")
	}
	// Outcomes are counted per read/write above (not per case)
	w.Stats.Extra["reads"] = totalReads
	// validity (the hypotheses of C03_oracle_sound) is evaluated per case by the shards: their check function is
	// c03_check_valid = c03_check && (c03_validb || c03_exempt); an invalid case that claims soundness is a mismatch
	w.Stats.Extra["invalid_cases"] = 0
	w.Stats.Extra["exempt_cases"] = exempt
	w.Stats.Extra["exempt_reason"] = "range bounds with a trailing NUL (outside the alphabet): signature of finding C03-F2, not claimed by C03_oracle_sound (c03_exempt)"
	w.Stats.Extra["validity_evaluated_by"] = "coqc on every shard: mismatches c03_check_valid cases = [] (Model/ReadValid.v, Proofs/ReadValid.v: C03_check_valid_sound)"
	w.Stats.Extra["engines"] = engines
	if err := w.Finish("one case = one write history (4..24 operations incl. failing ones over 3..7 prefix-related keys) on one engine, two phases of reads (Get for every key, List over 5 ranges x revisions x limits, Count), second phase after more writes and a compaction; distinct = SHA-256 of the Coq case; non-trivial = at least two successful writes and at least one read returned a key"); err != nil {
		fmt.Fprintln(os.Stderr, err)
		os.Exit(2)
	}
}
