// Driver c12: generated sequential request histories run through backend.NewBackend on every engine
// (memkv, Badger, TiKV mock, metrics wrapper over memkv and Badger) from the same fixed initial revision.
// The transcripts (success flags, error classes, values, revisions, range results, header revisions, watch
// events) are written as Coq cases: they must be equal across engines (c12_oracle: implementation against
// implementation) and equal to the sequential request programs of Model/BackendSeq.v run over the adapter
// models (c12_check).
//
// A Backend can never be stopped (sequencer, hub and retry goroutines, ~4 MB of buffers), so histories are
// executed in short-lived child processes: the parent sends a chunk of histories as JSON on stdin and reads
// the runs from a file in the chunk's scratch directory.
package main

import (
	"bytes"
	"context"
	"encoding/json"
	"fmt"
	"os"
	"os/exec"
	"path/filepath"
	"sort"
	"sync"
	"sync/atomic"
	"syscall"
	"time"

	proto "github.com/kubewharf/kubebrain-client/api/v2rpc"

	"github.com/kubewharf/kubebrain/pkg/backend"
	"github.com/kubewharf/kubebrain/pkg/backend/coder"
	"github.com/kubewharf/kubebrain/pkg/storage"
	ibadger "github.com/kubewharf/kubebrain/pkg/storage/badger"
	imetrics "github.com/kubewharf/kubebrain/pkg/storage/metrics"
	itikv "github.com/kubewharf/kubebrain/pkg/storage/tikv"
	"github.com/tikv/client-go/v2/testutils"
	"github.com/tikv/client-go/v2/tikv"

	"kbverif/lib"
)

const initRev = 1000

type Req struct {
	Kind  string // create | update | delete | get | list | compact | count | stream | restart (the node restarts; rendered as QRestart, which the model proves invisible)
	Key   []byte
	Val   []byte
	End   []byte
	Rev   uint64
	Limit int64
}

type KVR struct {
	K, V []byte
	R    uint64
}

type Resp struct {
	Kind   string // err | panic | hang | create | update | delete | get | list | compact | count | stream
	Count  uint64
	Ok     bool
	Hdr    uint64
	HasKv  bool
	KvVal  []byte
	KvRev  uint64
	Kvs    []KVR
	More   bool
	Err    bool
	ErrStr string
}

type Event struct {
	Type  int
	Key   []byte
	Val   []byte
	KvRev uint64
	Rev   uint64
}

type Run struct {
	Engine  string
	Resps   []Resp
	Events  []Event
	Final   []KVR
	Stalled int // index of the request after which the committed revision did not catch up; -1 = never
	Fail    string
}

type History struct {
	Name    string
	Reqs    []Req
	Engines []string // nil = all of `engines`
}

type Result struct {
	Runs []Run
}

// two more TiKV mocks with a second region: the border between two keys, and between two versions of one key
const (
	engTiKVSplitKey = "tikv-split-key"
	engTiKVSplitVer = "tikv-split-version"
	engTiKVMany     = "tikv-many-regions" // one region per key of manyKeys: more regions than one PD page
	engWrapTiKV     = "wrap-tikv"         // the metrics wrapper over the one-region TiKV mock
	engTiKV2        = "tikv-2-clients"    // the adapter balances its calls over several clients, each with its own
	engTiKV4        = "tikv-4-clients"    // timestamp oracle (200 in the production constructor), over one cluster
	manyKeys        = 150
)

func manyKey(i int) []byte { return []byte(fmt.Sprintf("/registry/k%04d", i)) }

var engines = []string{lib.EngMem, lib.EngBadger, lib.EngTiKV, lib.EngWrapMem, lib.EngWrapBadger, engWrapTiKV, engTiKVSplitKey, engTiKVSplitVer, engTiKV2, engTiKV4}

func newTiKVClients(n int) (storage.KvStorage, func(), error) {
	rpcClient, cluster, pdClient, err := testutils.NewMockTiKV("", nil)
	if err != nil {
		return nil, nil, err
	}
	testutils.BootstrapWithSingleStore(cluster)
	stores := make([]*tikv.KVStore, 0, n)
	for i := 0; i < n; i++ {
		st, err := tikv.NewTestTiKVStore(rpcClient, pdClient, nil, nil, 0)
		if err != nil {
			return nil, nil, err
		}
		stores = append(stores, st)
	}
	kv := itikv.NewKvStoreWithStorage(stores)
	return kv, func() { _ = kv.Close() }, nil
}

var badgerSeq int64

// openBadger opens Badger (optionally behind the metrics wrapper) on its own directory and also returns `reopen`:
// close the database and open the same directory again — what a restart of the node does to the engine.
func openBadger(scratch string, wrapped bool) (storage.KvStorage, func(), func() (storage.KvStorage, error), error) {
	dir := filepath.Join(scratch, fmt.Sprintf("badger-c12-%d-%d", os.Getpid(), atomic.AddInt64(&badgerSeq, 1)))
	if err := os.MkdirAll(dir, 0o755); err != nil {
		return nil, nil, nil, err
	}
	var inner storage.KvStorage
	open := func() (storage.KvStorage, error) {
		kv, err := ibadger.NewKvStorage(ibadger.Config{Dir: dir})
		if err != nil {
			return nil, err
		}
		inner = kv
		if wrapped {
			return imetrics.NewKvStorage(kv, &lib.NopMetrics{}), nil
		}
		return kv, nil
	}
	kv, err := open()
	if err != nil {
		return nil, nil, nil, err
	}
	closer := func() { _ = inner.Close(); _ = os.RemoveAll(dir) }
	reopen := func() (storage.KvStorage, error) {
		if err := inner.Close(); err != nil {
			return nil, err
		}
		return open()
	}
	return kv, closer, reopen, nil
}

// openEngineR is openEngine plus the engine's restart (nil for engines that do not persist: a restart of the node
// keeps their content, as the mock cluster / the in-memory map outlive the backend)
func openEngineR(eng, scratch string) (storage.KvStorage, func(), func() (storage.KvStorage, error), error) {
	switch eng {
	case lib.EngBadger:
		return openBadger(scratch, false)
	case lib.EngWrapBadger:
		return openBadger(scratch, true)
	}
	kv, cl, err := openEngine(eng, scratch)
	return kv, cl, nil, err
}

func openEngine(eng, scratch string) (storage.KvStorage, func(), error) {
	cd := coder.NewNormalCoder()
	switch eng {
	case engTiKVSplitKey:
		return lib.NewTiKVSplit(cd.EncodeObjectKey([]byte("/registry/b"), 0))
	case engTiKVSplitVer:
		return lib.NewTiKVSplit(cd.EncodeObjectKey([]byte("/registry/a"), initRev+3))
	case engWrapTiKV:
		kv, cl, err := lib.NewEngine(lib.EngTiKV, scratch)
		if err != nil {
			return nil, nil, err
		}
		return imetrics.NewKvStorage(kv, &lib.NopMetrics{}), cl, nil
	case engTiKV2:
		return newTiKVClients(2)
	case engTiKV4:
		return newTiKVClients(4)
	case engTiKVMany:
		var splits [][]byte
		for i := 0; i < manyKeys; i++ {
			splits = append(splits, cd.EncodeRevisionKey(manyKey(i)))
		}
		return lib.NewTiKVSplit(splits...)
	}
	return lib.NewEngine(eng, scratch)
}

// ---------- child: run histories on the real code ----------

func call(b backend.Backend, r Req) (res Resp) {
	ctx := context.Background()
	defer func() {
		if p := recover(); p != nil {
			res = Resp{Kind: "panic", ErrStr: fmt.Sprint(p)}
		}
	}()
	kvOf := func(kv *proto.KeyValue) (bool, []byte, uint64) {
		if kv == nil {
			return false, nil, 0
		}
		return true, kv.Value, kv.Revision
	}
	switch r.Kind {
	case "create":
		resp, err := b.Create(ctx, &proto.CreateRequest{Key: r.Key, Value: r.Val})
		if err != nil {
			return Resp{Kind: "err", ErrStr: err.Error()}
		}
		return Resp{Kind: "create", Ok: resp.Succeeded, Hdr: resp.Header.GetRevision()}
	case "update":
		resp, err := b.Update(ctx, &proto.UpdateRequest{Kv: &proto.KeyValue{Key: r.Key, Value: r.Val, Revision: r.Rev}})
		if err != nil {
			return Resp{Kind: "err", ErrStr: err.Error()}
		}
		res = Resp{Kind: "update", Ok: resp.Succeeded, Hdr: resp.Header.GetRevision()}
		res.HasKv, res.KvVal, res.KvRev = kvOf(resp.Kv)
		return res
	case "delete":
		resp, err := b.Delete(ctx, &proto.DeleteRequest{Key: r.Key, Revision: r.Rev})
		if err != nil {
			return Resp{Kind: "err", ErrStr: err.Error()}
		}
		res = Resp{Kind: "delete", Ok: resp.Succeeded, Hdr: resp.Header.GetRevision()}
		res.HasKv, res.KvVal, res.KvRev = kvOf(resp.Kv)
		return res
	case "get":
		resp, err := b.Get(ctx, &proto.GetRequest{Key: r.Key, Revision: r.Rev})
		if err != nil {
			return Resp{Kind: "err", ErrStr: err.Error()}
		}
		res = Resp{Kind: "get", Hdr: resp.Header.GetRevision()}
		res.HasKv, res.KvVal, res.KvRev = kvOf(resp.Kv)
		return res
	case "list":
		resp, err := b.List(ctx, &proto.RangeRequest{Key: r.Key, End: r.End, Revision: r.Rev, Limit: r.Limit})
		if err != nil {
			return Resp{Kind: "err", ErrStr: err.Error()}
		}
		res = Resp{Kind: "list", Hdr: resp.Header.GetRevision(), More: resp.More}
		for _, kv := range resp.Kvs {
			res.Kvs = append(res.Kvs, KVR{kv.Key, kv.Value, kv.Revision})
		}
		return res
	case "count":
		resp, err := b.Count(ctx, &proto.CountRequest{Key: r.Key, End: r.End})
		if err != nil {
			return Resp{Kind: "err", ErrStr: err.Error()}
		}
		return Resp{Kind: "count", Hdr: resp.Header.GetRevision(), Count: resp.Count}
	case "stream":
		cd := coder.NewNormalCoder()
		ch, err := b.ListByStream(ctx, cd.EncodeObjectKey(r.Key, 0), cd.EncodeObjectKey(r.End, 0), r.Rev)
		if err != nil {
			return Resp{Kind: "err", ErrStr: err.Error()}
		}
		res = Resp{Kind: "stream"}
		for m := range ch {
			if m.Err != "" {
				res.Err, res.ErrStr = true, m.Err
			}
			for _, kv := range m.GetRangeResponse().GetKvs() {
				res.Kvs = append(res.Kvs, KVR{kv.Key, kv.Value, kv.Revision})
			}
		}
		// the partitions' workers stream concurrently: the order of the batches is a schedule artefact, the
		// multiset of records is not (a gap or a duplicate survives the sorting)
		sort.SliceStable(res.Kvs, func(i, j int) bool {
			if c := bytes.Compare(res.Kvs[i].K, res.Kvs[j].K); c != 0 {
				return c < 0
			}
			return res.Kvs[i].R < res.Kvs[j].R
		})
		return res
	case "compact":
		resp, err := b.Compact(ctx, r.Rev)
		res = Resp{Kind: "compact", Err: err != nil}
		if resp != nil {
			res.Hdr = resp.Header.GetRevision()
		}
		if err != nil {
			res.ErrStr = err.Error()
		}
		return res
	}
	return Resp{Kind: "err", ErrStr: "unknown request"}
}

// requestTimeout: a request that has not answered by then is recorded as `hang` (generous for a loaded machine)
const requestTimeout = 10 * time.Second

func callWatched(b backend.Backend, r Req) Resp {
	done := make(chan Resp, 1)
	go func() { done <- call(b, r) }()
	select {
	case res := <-done:
		return res
	case <-time.After(requestTimeout):
		return Resp{Kind: "hang", ErrStr: fmt.Sprintf("no answer within %s", requestTimeout)}
	}
}

func isWrite(k string) bool { return k == "create" || k == "update" || k == "delete" }

func runHistory(h History, eng, scratch string) Run {
	run := Run{Engine: eng, Stalled: -1}
	kv, closer, reopen, err := openEngineR(eng, scratch)
	if err != nil {
		run.Fail = "open: " + err.Error()
		return run
	}
	hung := false
	defer func() {
		if hung {
			go closer() // a wedged engine may never close
		} else {
			closer()
		}
	}()
	var mu sync.Mutex
	var events []Event
	var cancelWatch context.CancelFunc
	// start brings a backend up over kv at the given revision, with one watch from revision 0 feeding `events`
	start := func(kv storage.KvStorage, rev uint64) (backend.Backend, error) {
		b := backend.NewBackend(kv, backend.Config{Prefix: "/registry", Identity: "verif", EnableEtcdCompatibility: true}, &lib.NopMetrics{})
		b.SetCurrentRevision(rev)
		wctx, cancel := context.WithCancel(context.Background())
		ch, err := b.Watch(wctx, "", 0)
		if err != nil {
			cancel()
			return nil, err
		}
		cancelWatch = cancel
		go func() {
			for batch := range ch {
				mu.Lock()
				for _, e := range batch {
					ev := Event{Type: int(e.Type), Rev: e.Revision}
					if e.Kv != nil {
						ev.Key, ev.Val, ev.KvRev = e.Kv.Key, e.Kv.Value, e.Kv.Revision
					}
					events = append(events, ev)
				}
				mu.Unlock()
			}
		}()
		return b, nil
	}
	b, err := start(kv, initRev)
	if err != nil {
		run.Fail = "watch: " + err.Error()
		return run
	}
	defer func() { cancelWatch() }()
	dealt := uint64(initRev)
	nvalid := 0
	for i, r := range h.Reqs {
		if r.Kind == "restart" {
			// the node restarts: the engine is closed and opened again where it persists, and a new backend takes over
			// at the revision the old one had reached.  Clients see nothing of it.
			run.Resps = append(run.Resps, Resp{Kind: "restart"})
			if reopen == nil {
				continue
			}
			lib.WaitUntil(2*time.Second, func() bool { mu.Lock(); defer mu.Unlock(); return len(events) >= nvalid })
			cancelWatch()
			nkv, err := reopen()
			if err != nil {
				run.Fail = "reopen: " + err.Error()
				break
			}
			kv = nkv
			if b, err = start(kv, dealt); err != nil {
				run.Fail = "watch after restart: " + err.Error()
				break
			}
			continue
		}
		res := callWatched(b, r)
		run.Resps = append(run.Resps, res)
		if res.Kind == "hang" {
			hung = true // the backend is wedged: no further request, no dump (memkv would block on its mutex)
			break
		}
		if res.Kind == "panic" {
			break
		}
		if isWrite(r.Kind) {
			dealt++
			if (res.Kind == "create" || res.Kind == "update" || res.Kind == "delete") && res.Ok {
				nvalid++
			}
			if !lib.WaitUntil(3*time.Second, func() bool { return b.GetCurrentRevision() >= dealt }) {
				run.Stalled = i
				break
			}
		}
	}
	// quiescence: every valid write has produced its event (bounded)
	lib.WaitUntil(2*time.Second, func() bool { mu.Lock(); defer mu.Unlock(); return len(events) >= nvalid })
	time.Sleep(3 * time.Millisecond)
	mu.Lock()
	run.Events = append([]Event{}, events...)
	mu.Unlock()
	if hung {
		mu.Lock()
		run.Events = append([]Event{}, events...)
		mu.Unlock()
		return run
	}
	d, err := lib.Dump(kv)
	if err != nil {
		run.Fail = "dump: " + err.Error()
	}
	for _, e := range d {
		run.Final = append(run.Final, KVR{K: e.K, V: e.V})
	}
	return run
}

func child(scratch string) {
	// the sequencer of every backend spins when idle: slow the current ones down, park the old ones for good
	var gmu sync.Mutex
	gen := map[int64]int{}
	current := 0
	backend.VerifYieldHook = func(point string) {
		if point != "seq.idle" {
			return
		}
		id := lib.GoID()
		gmu.Lock()
		g, ok := gen[id]
		if !ok {
			g = current
			gen[id] = g
		}
		cur := current
		gmu.Unlock()
		if g < cur {
			select {}
		}
		time.Sleep(100 * time.Microsecond)
	}
	var hs []History
	if err := json.NewDecoder(os.Stdin).Decode(&hs); err != nil {
		fmt.Fprintln(os.Stderr, "child: bad input:", err)
		os.Exit(3)
	}
	out := make([]Result, len(hs))
	for i, h := range hs {
		var wg sync.WaitGroup
		engs := h.Engines
		if engs == nil {
			engs = engines
		}
		runs := make([]Run, len(engs))
		for j, e := range engs {
			wg.Add(1)
			go func(j int, e string) {
				defer wg.Done()
				runs[j] = runHistory(h, e, scratch)
			}(j, e)
		}
		wg.Wait()
		out[i] = Result{Runs: runs}
		gmu.Lock()
		current++
		gmu.Unlock()
	}
	f, err := os.Create(scratch + "/result.json")
	if err != nil {
		fmt.Fprintln(os.Stderr, "child:", err)
		os.Exit(3)
	}
	_ = json.NewEncoder(f).Encode(out)
	_ = f.Close()
}

// ---------- parent: generation ----------

var keys = [][]byte{[]byte("/registry/a"), []byte("/registry/a/b"), []byte("/registry/ab"), []byte("/registry/b"), []byte("/registry/c"), []byte("/other/x")}
var vals = [][]byte{[]byte("v1"), []byte("v2"), []byte("v3"), []byte("v4"), []byte("longer-value-5")}
var bounds = [][]byte{[]byte("/registry/"), []byte("/registry0"), []byte("/registry/a"), []byte("/registry/a0"), []byte("/registry/b"), []byte("/registry/c"), []byte("/registry/d"), []byte("/"), []byte("0"), []byte("/other/"), []byte("/other0")}

// a coarse picture of what the backend holds, only to steer expectations (correct / stale / future revisions)
type ref struct {
	rev     uint64
	live    map[string]uint64   // key -> mod revision
	dead    map[string]uint64   // key -> deletion revision (index record still there)
	history map[string][]uint64 // key -> earlier mod revisions
	compact uint64
}

func (g *ref) apply(r Req) {
	k := string(r.Key)
	switch r.Kind {
	case "create":
		g.rev++
		if _, ok := g.live[k]; !ok {
			g.history[k] = append(g.history[k], g.rev)
			g.live[k] = g.rev
			delete(g.dead, k)
		}
	case "update":
		if r.Rev == 0 {
			g.apply(Req{Kind: "create", Key: r.Key, Val: r.Val})
			return
		}
		g.rev++
		if m, ok := g.live[k]; ok && m == r.Rev && g.rev >= r.Rev {
			g.history[k] = append(g.history[k], g.rev)
			g.live[k] = g.rev
		}
	case "delete":
		g.rev++
		if m, ok := g.live[k]; ok && (r.Rev == 0 || r.Rev == m) && g.rev >= r.Rev {
			delete(g.live, k)
			g.dead[k] = g.rev
		}
	case "compact":
		c := r.Rev
		if c == 0 || c > g.rev {
			c = g.rev
		}
		if c > g.compact {
			g.compact = c
		}
		for k, d := range g.dead {
			if d <= c && len(k) > 10 && k[:10] == "/registry/" {
				delete(g.dead, k)
			}
		}
	}
}

func genHistory(r *lib.Rand, withEmpty bool) History {
	g := &ref{rev: initRev, live: map[string]uint64{}, dead: map[string]uint64{}, history: map[string][]uint64{}}
	n := 8 + r.Intn(23)
	var reqs []Req
	val := func() []byte {
		if withEmpty && r.Chance(1, 3) {
			return []byte{}
		}
		if r.Chance(1, 40) {
			return []byte("tombstone")
		}
		return r.PickB(vals)
	}
	expected := func(k []byte, zeroShare int) uint64 {
		m, live := g.live[string(k)]
		hist := g.history[string(k)]
		switch c := r.Intn(10); {
		case c < zeroShare:
			return 0
		case c < 6 && live:
			return m
		case c < 8 && len(hist) > 0:
			return hist[r.Intn(len(hist))] // stale (or current)
		case c < 9:
			return g.rev + uint64(r.Intn(3)) // the committed revision, the one about to be allocated, or the next
		default:
			if r.Bool() {
				return g.rev + 1000000
			}
			return uint64(initRev - r.Intn(3))
		}
	}
	for i := 0; i < n; i++ {
		var q Req
		k := r.PickB(keys)
		if r.Chance(1, 3) {
			k = keys[0] // /registry/a collects versions (the tikv-split-version border lies inside them)
		}
		switch c := r.Intn(100); {
		case c < 25:
			q = Req{Kind: "create", Key: k, Val: val()}
		case c < 48:
			q = Req{Kind: "update", Key: k, Val: val(), Rev: expected(k, 1)}
		case c < 63:
			q = Req{Kind: "delete", Key: k, Rev: expected(k, 4)}
		case c < 78:
			q = Req{Kind: "get", Key: k}
			switch r.Intn(5) {
			case 0:
				q.Rev = g.rev - uint64(r.Intn(int(g.rev-initRev)+1))
			case 1:
				q.Rev = g.rev + uint64(r.Intn(3))
			case 2:
				if h := g.history[string(k)]; len(h) > 0 {
					q.Rev = h[r.Intn(len(h))]
				}
			}
		case c < 90:
			a, b := r.PickB(bounds), r.PickB(bounds)
			if r.Chance(2, 3) {
				a, b = []byte("/registry/"), []byte("/registry0")
			}
			if r.Chance(1, 15) {
				b = []byte{}
			}
			q = Req{Kind: "list", Key: a, End: b, Limit: int64(r.Intn(4))}
			if r.Bool() {
				q.Limit = 0
			}
			switch r.Intn(5) {
			case 0:
				q.Rev = g.rev - uint64(r.Intn(int(g.rev-initRev)+1))
			case 1:
				q.Rev = g.rev + uint64(r.Intn(3))
			}
		case c < 94:
			a, b := []byte("/registry/"), []byte("/registry0")
			if r.Chance(1, 3) {
				a, b = r.PickB(bounds), r.PickB(bounds)
				if string(a) >= string(b) {
					a, b = []byte("/registry/a"), []byte("/registry/c")
				}
			}
			if r.Bool() {
				q = Req{Kind: "count", Key: a, End: b}
			} else {
				q = Req{Kind: "stream", Key: a, End: b}
				if r.Chance(1, 3) {
					q.Rev = g.rev - uint64(r.Intn(int(g.rev-initRev)+1))
				}
			}
		default:
			q = Req{Kind: "compact"}
			switch r.Intn(4) {
			case 0:
				q.Rev = g.rev - uint64(r.Intn(int(g.rev-initRev)+1))
			case 1:
				q.Rev = g.rev + 5
			case 2:
				q.Rev = g.rev
			}
		}
		g.apply(q)
		reqs = append(reqs, q)
		if r.Chance(1, 40) {
			reqs = append(reqs, Req{Kind: "restart"})
		}
	}
	return History{Name: "random", Reqs: reqs}
}

func B(s string) []byte { return []byte(s) }

// several versions of two keys, then reads pinned to every revision from before the first write to the latest:
// with a region border between two versions of /registry/a (tikv-split-version) no read may lose or duplicate a key
func versionsHistory() History {
	a, b, ab := B("/registry/a"), B("/registry/b"), B("/registry/ab")
	lo, hi := B("/registry/"), B("/registry0")
	reqs := []Req{
		{Kind: "create", Key: a, Val: B("v1")},                   // 1001
		{Kind: "update", Key: a, Val: B("v2"), Rev: initRev + 1}, // 1002
		{Kind: "update", Key: a, Val: B("v3"), Rev: initRev + 2}, // 1003
		{Kind: "update", Key: a, Val: B("v4"), Rev: initRev + 3}, // 1004
		{Kind: "create", Key: b, Val: B("w1")},                   // 1005
		{Kind: "update", Key: a, Val: B("v5"), Rev: initRev + 4}, // 1006
		{Kind: "create", Key: ab, Val: B("x1")},                  // 1007
		{Kind: "update", Key: b, Val: B("w2"), Rev: initRev + 5}, // 1008
		{Kind: "delete", Key: ab, Rev: initRev + 7},              // 1009
	}
	for r := uint64(initRev); r <= initRev+10; r++ {
		reqs = append(reqs, Req{Kind: "list", Key: lo, End: hi, Rev: r},
			Req{Kind: "list", Key: lo, End: hi, Rev: r, Limit: 1},
			Req{Kind: "list", Key: lo, End: hi, Rev: r, Limit: 2},
			Req{Kind: "get", Key: a, Rev: r})
	}
	reqs = append(reqs, Req{Kind: "compact", Rev: initRev + 5})
	for r := uint64(initRev + 4); r <= initRev+10; r++ {
		reqs = append(reqs, Req{Kind: "list", Key: lo, End: hi, Rev: r}, Req{Kind: "list", Key: lo, End: hi, Rev: r, Limit: 1},
			Req{Kind: "get", Key: a, Rev: r})
	}
	return History{Name: "fixed:versions-across-region-border", Reqs: reqs}
}

// more regions than one page of PD's region scan (128): every partition-driven scan (unlimited List, Count,
// ListByStream, Compact) must still cover the whole range, like the single-worker limited List does
func manyRegionsHistory() History {
	lo, hi := B("/registry/"), B("/registry0")
	var reqs []Req
	for i := 0; i < manyKeys; i++ {
		reqs = append(reqs, Req{Kind: "create", Key: manyKey(i), Val: []byte(fmt.Sprintf("v%04d", i))})
	}
	reqs = append(reqs,
		Req{Kind: "delete", Key: manyKey(140)},
		Req{Kind: "update", Key: manyKey(145), Val: B("w"), Rev: initRev + 146},
		Req{Kind: "list", Key: lo, End: hi},
		Req{Kind: "list", Key: manyKey(10), End: manyKey(145)},
		Req{Kind: "list", Key: manyKey(100), End: manyKey(148)},
		// bounds strictly inside a region (between two keys): the outermost partitions must be clipped to the request
		Req{Kind: "list", Key: append(manyKey(10), 'x'), End: append(manyKey(145), 'x')},
		Req{Kind: "count", Key: append(manyKey(10), 'x'), End: append(manyKey(145), 'x')},
		Req{Kind: "stream", Key: append(manyKey(20), 'x'), End: append(manyKey(30), 'x')},
		Req{Kind: "list", Key: append(manyKey(138), 'x'), End: append(manyKey(139), 'x')},
		Req{Kind: "list", Key: lo, End: hi, Limit: 140},
		Req{Kind: "count", Key: lo, End: hi},
		Req{Kind: "stream", Key: lo, End: hi},
		Req{Kind: "stream", Key: manyKey(5), End: manyKey(149), Rev: initRev + 149},
		Req{Kind: "get", Key: manyKey(manyKeys - 1)},
		Req{Kind: "compact"},
		Req{Kind: "list", Key: lo, End: hi},
		Req{Kind: "count", Key: lo, End: hi})
	return History{Name: "fixed:many-regions", Reqs: reqs, Engines: []string{lib.EngMem, lib.EngBadger, lib.EngTiKV, engTiKVMany}}
}

// every acknowledged (and published) write is followed at once by the partition-driven reads: they must see it on
// every engine configuration, also when the TiKV adapter spreads its calls over several clients
func readYourWritesHistory() History {
	a, b, c := B("/registry/a"), B("/registry/b"), B("/registry/c")
	lo, hi := B("/registry/"), B("/registry0")
	reads := func() []Req {
		return []Req{{Kind: "list", Key: lo, End: hi}, {Kind: "list", Key: lo, End: hi, Limit: 2},
			{Kind: "count", Key: lo, End: hi}, {Kind: "stream", Key: lo, End: hi}, {Kind: "get", Key: a}}
	}
	writes := []Req{
		{Kind: "create", Key: a, Val: B("v1")}, {Kind: "create", Key: b, Val: B("v2")},
		{Kind: "update", Key: a, Val: B("v3"), Rev: initRev + 1}, {Kind: "delete", Key: b},
		{Kind: "create", Key: c, Val: B("v4")}, {Kind: "update", Key: a, Val: B("v5"), Rev: initRev + 3},
		{Kind: "delete", Key: a, Rev: initRev + 6}, {Kind: "create", Key: a, Val: B("v6")},
		{Kind: "compact"}, {Kind: "update", Key: c, Val: B("v7"), Rev: initRev + 5},
	}
	var reqs []Req
	for _, w := range writes {
		reqs = append(reqs, w)
		reqs = append(reqs, reads()...)
	}
	return History{Name: "fixed:read-your-writes", Reqs: reqs}
}

func corpus() []History {
	a, b := B("/registry/a"), B("/registry/b")
	lo, hi := B("/registry/"), B("/registry0")
	return []History{
		{Name: "fixed:update-missing-key", Reqs: []Req{ // da987ef: TiKV answered with an RPC error
			{Kind: "update", Key: a, Val: B("v1"), Rev: 7},
			{Kind: "update", Key: a, Val: B("v1"), Rev: initRev},
			{Kind: "get", Key: a}, {Kind: "list", Key: lo, End: hi}}},
		{Name: "fixed:create-update-delete-recreate", Reqs: []Req{
			{Kind: "create", Key: a, Val: B("v1")}, {Kind: "create", Key: a, Val: B("v2")},
			{Kind: "update", Key: a, Val: B("v3"), Rev: initRev + 1}, {Kind: "update", Key: a, Val: B("v4"), Rev: initRev + 1},
			{Kind: "get", Key: a}, {Kind: "get", Key: a, Rev: initRev + 2},
			{Kind: "delete", Key: a, Rev: initRev + 1}, {Kind: "delete", Key: a, Rev: 0}, {Kind: "delete", Key: a, Rev: 0},
			{Kind: "get", Key: a}, {Kind: "update", Key: a, Val: B("v5"), Rev: initRev + 3},
			{Kind: "create", Key: a, Val: B("v6")}, {Kind: "get", Key: a},
			{Kind: "list", Key: lo, End: hi}, {Kind: "list", Key: lo, End: hi, Rev: initRev + 3}}},
		{Name: "fixed:future-and-drift", Reqs: []Req{ // 83355f7: the allocated revision is reported on the drift path
			{Kind: "create", Key: a, Val: B("v1")},
			{Kind: "update", Key: a, Val: B("v2"), Rev: initRev + 1000000},
			{Kind: "delete", Key: a, Rev: initRev + 1000000},
			{Kind: "update", Key: a, Val: B("v3"), Rev: initRev + 3},
			{Kind: "update", Key: a, Val: B("v3"), Rev: initRev + 1},
			{Kind: "get", Key: a}}},
		{Name: "fixed:compact-deleted", Reqs: []Req{
			{Kind: "create", Key: a, Val: B("v1")}, {Kind: "create", Key: b, Val: B("v2")},
			{Kind: "update", Key: a, Val: B("v3"), Rev: initRev + 1}, {Kind: "delete", Key: b},
			{Kind: "compact", Rev: initRev + 3}, {Kind: "list", Key: lo, End: hi},
			{Kind: "list", Key: lo, End: hi, Rev: initRev + 2},
			{Kind: "compact"}, {Kind: "get", Key: b}, {Kind: "update", Key: b, Val: B("v4"), Rev: initRev + 4},
			{Kind: "delete", Key: b, Rev: initRev + 2}, {Kind: "create", Key: b, Val: B("v5")},
			{Kind: "compact", Rev: initRev + 1}, {Kind: "list", Key: lo, End: hi, Limit: 1}, {Kind: "list", Key: lo, End: hi, Limit: 2}}},
		{Name: "fixed:list-limits-and-bad-ranges", Reqs: []Req{
			{Kind: "create", Key: a, Val: B("v1")}, {Kind: "create", Key: B("/registry/ab"), Val: B("v2")}, {Kind: "create", Key: b, Val: B("v3")},
			{Kind: "list", Key: lo, End: hi, Limit: 1}, {Kind: "list", Key: lo, End: hi, Limit: 3}, {Kind: "list", Key: lo, End: hi, Limit: 4},
			{Kind: "list", Key: hi, End: lo}, {Kind: "list", Key: lo, End: B("")}, {Kind: "list", Key: a, End: a},
			{Kind: "list", Key: a, End: b}, {Kind: "list", Key: B("/"), End: B("0")}}},
		{Name: "fixed:update-after-compacted-delete", Reqs: []Req{ // the index record is gone again: not an error on any engine
			{Kind: "create", Key: a, Val: B("v1")}, {Kind: "delete", Key: a, Rev: initRev + 1},
			{Kind: "update", Key: a, Val: B("v2"), Rev: initRev + 1},
			{Kind: "compact"}, {Kind: "get", Key: a},
			{Kind: "update", Key: a, Val: B("v3"), Rev: initRev + 1}, {Kind: "update", Key: a, Val: B("v3"), Rev: initRev + 2},
			{Kind: "delete", Key: a, Rev: initRev + 1}, {Kind: "get", Key: a}, {Kind: "list", Key: lo, End: hi},
			{Kind: "create", Key: a, Val: B("v4")}, {Kind: "get", Key: a}}},
		versionsHistory(),
		{Name: "fixed:stale-compact-request", Reqs: []Req{ // a Compact older than the recorded one must be answered on every engine
			{Kind: "create", Key: a, Val: B("v1")}, {Kind: "create", Key: b, Val: B("v2")},
			{Kind: "update", Key: a, Val: B("v1b"), Rev: initRev + 1},
			{Kind: "compact", Rev: initRev + 3}, {Kind: "compact", Rev: initRev + 2},
			{Kind: "get", Key: a}, {Kind: "list", Key: lo, End: hi}, {Kind: "create", Key: B("/registry/c"), Val: B("v3")},
			{Kind: "compact", Rev: initRev + 1}, {Kind: "count", Key: lo, End: hi}, {Kind: "stream", Key: lo, End: hi}}},
		manyRegionsHistory(),
		readYourWritesHistory(),
		{Name: "fixed:compact-after-delete-of-smaller-key", Reqs: []Req{ // superseded versions behind a deleted key must go on every engine
			{Kind: "create", Key: a, Val: B("a1")}, {Kind: "create", Key: b, Val: B("b1")}, {Kind: "create", Key: B("/registry/c"), Val: B("c1")},
			{Kind: "update", Key: b, Val: B("b2"), Rev: initRev + 2}, {Kind: "update", Key: B("/registry/c"), Val: B("c2"), Rev: initRev + 3},
			{Kind: "delete", Key: a}, {Kind: "compact"},
			{Kind: "get", Key: b, Rev: initRev + 2}, {Kind: "get", Key: B("/registry/c"), Rev: initRev + 4}, {Kind: "get", Key: a, Rev: initRev + 1},
			{Kind: "get", Key: b, Rev: initRev + 3}, {Kind: "get", Key: b}, {Kind: "get", Key: B("/registry/c")}, {Kind: "get", Key: a},
			{Kind: "list", Key: lo, End: hi}, {Kind: "count", Key: lo, End: hi}}},
		{Name: "fixed:restart-then-rewrite-last-key", Reqs: []Req{ // a persistent engine is reopened; the greatest key is then rewritten
			{Kind: "create", Key: a, Val: B("a1")}, {Kind: "create", Key: b, Val: B("b1")}, {Kind: "create", Key: B("/registry/m"), Val: B("m1")},
			{Kind: "restart"},
			{Kind: "update", Key: B("/registry/m"), Val: B("m2"), Rev: initRev + 3},
			{Kind: "list", Key: lo, End: hi}, {Kind: "count", Key: lo, End: hi}, {Kind: "stream", Key: lo, End: hi},
			{Kind: "create", Key: B("/registry/z"), Val: B("z1")}, {Kind: "delete", Key: B("/registry/m")},
			{Kind: "list", Key: lo, End: hi}, {Kind: "count", Key: lo, End: hi}, {Kind: "stream", Key: lo, End: hi}, {Kind: "list", Key: lo, End: hi, Limit: 2},
			{Kind: "restart"},
			{Kind: "update", Key: B("/registry/z"), Val: B("z2"), Rev: initRev + 5}, {Kind: "list", Key: lo, End: hi}, {Kind: "count", Key: lo, End: hi},
			{Kind: "compact"}, {Kind: "get", Key: B("/registry/m")}, {Kind: "get", Key: B("/registry/m"), Rev: initRev + 3},
			{Kind: "get", Key: B("/registry/z"), Rev: initRev + 5}, {Kind: "list", Key: lo, End: hi}, {Kind: "count", Key: lo, End: hi}}},
		{Name: "fixed:empty-value", Reqs: []Req{
			{Kind: "create", Key: a, Val: B("")}, {Kind: "get", Key: a}, {Kind: "list", Key: lo, End: hi},
			{Kind: "update", Key: a, Val: B("v2"), Rev: initRev + 1}, {Kind: "get", Key: a}}},
	}
}

// ---------- rendering ----------

func coqReq(r Req) string {
	switch r.Kind {
	case "create":
		return lib.App("QCreate", lib.Bytes(r.Key), lib.Bytes(r.Val))
	case "update":
		return lib.App("QUpdate", lib.Bytes(r.Key), lib.Bytes(r.Val), lib.N(r.Rev))
	case "delete":
		return lib.App("QDelete", lib.Bytes(r.Key), lib.N(r.Rev))
	case "get":
		return lib.App("QGet", lib.Bytes(r.Key), lib.N(r.Rev))
	case "list":
		return lib.App("QList", lib.Bytes(r.Key), lib.Bytes(r.End), lib.N(r.Rev), lib.N(uint64(r.Limit)))
	case "restart":
		return "QRestart"
	case "count":
		return lib.App("QCount", lib.Bytes(r.Key), lib.Bytes(r.End))
	case "stream":
		return lib.App("QStream", lib.Bytes(r.Key), lib.Bytes(r.End), lib.N(r.Rev))
	}
	return lib.App("QCompact", lib.N(r.Rev))
}

func coqKv(has bool, v []byte, rev uint64) string {
	if !has {
		return lib.None()
	}
	return lib.Some(lib.Pair(lib.Bytes(v), lib.N(rev)))
}

func coqKvs(kvs []KVR) string {
	xs := make([]string, len(kvs))
	for i, e := range kvs {
		xs[i] = "(" + lib.Bytes(e.K) + ", " + lib.Bytes(e.V) + ", " + lib.N(e.R) + ")"
	}
	return lib.List(xs)
}

func coqResp(r Resp) string {
	switch r.Kind {
	case "err":
		return "PErr"
	case "panic":
		return "PPanic"
	case "hang":
		return "PHang"
	case "restart":
		return "PRestarted"
	case "count":
		return lib.App("PCount", lib.N(r.Hdr), lib.N(r.Count))
	case "stream":
		return lib.App("PStream", coqKvs(r.Kvs), lib.Bool(r.Err))
	case "create":
		return lib.App("PCreate", lib.Bool(r.Ok), lib.N(r.Hdr))
	case "update":
		return lib.App("PUpdate", lib.Bool(r.Ok), lib.N(r.Hdr), coqKv(r.HasKv, r.KvVal, r.KvRev))
	case "delete":
		return lib.App("PDelete", lib.Bool(r.Ok), lib.N(r.Hdr), coqKv(r.HasKv, r.KvVal, r.KvRev))
	case "get":
		return lib.App("PGet", lib.N(r.Hdr), coqKv(r.HasKv, r.KvVal, r.KvRev))
	case "list":
		xs := make([]string, len(r.Kvs))
		for i, e := range r.Kvs {
			xs[i] = "(" + lib.Bytes(e.K) + ", " + lib.Bytes(e.V) + ", " + lib.N(e.R) + ")"
		}
		return lib.App("PList", lib.N(r.Hdr), lib.List(xs), lib.Bool(r.More))
	}
	return lib.App("PCompact", lib.N(r.Hdr), lib.Bool(r.Err))
}

// the region layout is not part of the adapter model: all three TiKV mocks are checked against the same model
var coqEng = map[string]string{lib.EngMem: "EMem", lib.EngBadger: "EBadger", lib.EngTiKV: "ETiKV",
	lib.EngWrapMem: "EWrapMem", lib.EngWrapBadger: "EWrapBadger", engTiKVSplitKey: "ETiKV", engTiKVSplitVer: "ETiKV", engTiKVMany: "ETiKV", engTiKV2: "ETiKV", engTiKV4: "ETiKV", engWrapTiKV: "EWrapTiKV"}

func coqRun(r Run) string {
	var rs []string
	for _, x := range r.Resps {
		rs = append(rs, coqResp(x))
	}
	es := make([]string, len(r.Events))
	for i, e := range r.Events {
		es[i] = "(" + lib.N(uint64(e.Type)) + ", " + lib.Bytes(e.Key) + ", " + lib.Bytes(e.Val) + ", " + lib.N(e.KvRev) + ", " + lib.N(e.Rev) + ")"
	}
	fs := make([]string, len(r.Final))
	for i, e := range r.Final {
		fs[i] = lib.Pair(lib.Bytes(e.K), lib.Bytes(e.V))
	}
	return lib.App("mk_run", coqEng[r.Engine], lib.List(rs), lib.List(es), lib.List(fs))
}

func jsonReq(r Req) string {
	switch r.Kind {
	case "create":
		return fmt.Sprintf("create(%q,%q)", r.Key, r.Val)
	case "update":
		return fmt.Sprintf("update(%q,%q,rev=%d)", r.Key, r.Val, r.Rev)
	case "delete":
		return fmt.Sprintf("delete(%q,rev=%d)", r.Key, r.Rev)
	case "get":
		return fmt.Sprintf("get(%q,rev=%d)", r.Key, r.Rev)
	case "list":
		return fmt.Sprintf("list(%q,%q,rev=%d,limit=%d)", r.Key, r.End, r.Rev, r.Limit)
	case "restart":
		return "restart"
	case "count":
		return fmt.Sprintf("count(%q,%q)", r.Key, r.End)
	case "stream":
		return fmt.Sprintf("stream(%q,%q,rev=%d)", r.Key, r.End, r.Rev)
	}
	return fmt.Sprintf("compact(%d)", r.Rev)
}

func jsonResp(r Resp) string {
	kv := "-"
	if r.HasKv {
		kv = fmt.Sprintf("%q@%d", r.KvVal, r.KvRev)
	}
	switch r.Kind {
	case "restart":
		return "-"
	case "err", "panic", "hang":
		return r.Kind + ":" + r.ErrStr
	case "count":
		return fmt.Sprintf("hdr=%d count=%d", r.Hdr, r.Count)
	case "stream":
		s := fmt.Sprintf("%d kvs err=%v", len(r.Kvs), r.Err)
		for i, e := range r.Kvs {
			if i < 3 || i >= len(r.Kvs)-2 {
				s += fmt.Sprintf(" %q=%q@%d", e.K, e.V, e.R)
			}
		}
		return s
	case "create":
		return fmt.Sprintf("ok=%v hdr=%d", r.Ok, r.Hdr)
	case "update", "delete":
		return fmt.Sprintf("ok=%v hdr=%d kv=%s", r.Ok, r.Hdr, kv)
	case "get":
		return fmt.Sprintf("hdr=%d kv=%s", r.Hdr, kv)
	case "list":
		s := fmt.Sprintf("hdr=%d more=%v (%d kvs)", r.Hdr, r.More, len(r.Kvs))
		for i, e := range r.Kvs {
			if len(r.Kvs) <= 8 || i < 3 || i >= len(r.Kvs)-2 {
				s += fmt.Sprintf(" %q=%q@%d", e.K, e.V, e.R)
			}
		}
		return s
	}
	return fmt.Sprintf("hdr=%d err=%v", r.Hdr, r.Err)
}

// ---------- parent: main ----------

func runChunk(hs []History, scratch string) ([]Result, error) {
	in, _ := json.Marshal(hs)
	// a chunk that does not finish (every request of every history wedged) is killed, never left behind
	cctx, cancel := context.WithTimeout(context.Background(), 10*time.Minute)
	defer cancel()
	cmd := exec.CommandContext(cctx, os.Args[0])
	cmd.SysProcAttr = &syscall.SysProcAttr{Pdeathsig: syscall.SIGKILL} // and it dies with the driver
	cmd.Env = append(os.Environ(), "C12_CHILD="+scratch)
	stdin, _ := cmd.StdinPipe()
	go func() { stdin.Write(in); stdin.Close() }()
	if err := cmd.Run(); err != nil {
		return nil, fmt.Errorf("child failed: %v", err)
	}
	outb, err := os.ReadFile(scratch + "/result.json")
	if err != nil {
		return nil, fmt.Errorf("child result: %v", err)
	}
	var res []Result
	if err := json.Unmarshal(outb, &res); err != nil {
		return nil, fmt.Errorf("child output: %v", err)
	}
	return res, nil
}

func main() {
	lib.QuietLogs()
	if sc := os.Getenv("C12_CHILD"); sc != "" {
		child(sc)
		return
	}
	args := lib.ParseArgs()
	rnd := lib.NewRand(args.Seed)
	n := 100
	switch args.Tier {
	case "thorough":
		n = 2500
	case "search":
		n = 500
	}
	hs := corpus()
	for i := 0; i < n; i++ {
		hs = append(hs, genHistory(rnd, i%20 == 19))
	}
	const chunk = 12
	const par = 4
	results := make([]Result, len(hs))
	errs := make([]error, (len(hs)+chunk-1)/chunk)
	sem := make(chan struct{}, par)
	var wg sync.WaitGroup
	for c := 0; c*chunk < len(hs); c++ {
		lo, hi := c*chunk, (c+1)*chunk
		if hi > len(hs) {
			hi = len(hs)
		}
		wg.Add(1)
		sem <- struct{}{}
		go func(c, lo, hi int) {
			defer wg.Done()
			defer func() { <-sem }()
			sc := fmt.Sprintf("%s/c12-%d", args.Scratch, c)
			_ = os.MkdirAll(sc, 0o755)
			defer os.RemoveAll(sc)
			res, err := runChunk(hs[lo:hi], sc)
			if err != nil {
				errs[c] = err
				return
			}
			copy(results[lo:hi], res)
		}(c, lo, hi)
	}
	wg.Wait()

	w := lib.NewWriter(args, "C12", "c12", "From KB Require Import Model.C12Cases.", "c12_case", "c12_check", "c12_oracle", 12)
	reqKinds := map[string]int{}
	invalid := map[string]int{}
	for c, e := range errs {
		if e != nil {
			w.Fail(lib.ImplFailure{CaseID: -1, What: fmt.Sprintf("chunk %d: %v", c, e)})
		}
	}
	for i, h := range hs {
		res := results[i]
		if len(res.Runs) == 0 {
			continue
		}
		var qs []string
		jq := make([]string, len(h.Reqs))
		for j, r := range h.Reqs {
			qs = append(qs, coqReq(r))
			jq[j] = jsonReq(r)
			reqKinds[r.Kind]++
		}
		// mirrors c12_validb (Model/C12Cases.v): an empty value written while a TiKV configuration takes part
		for _, r := range h.Reqs {
			if (r.Kind == "create" || r.Kind == "update") && len(r.Val) == 0 {
				invalid["empty value written with TiKV among the engines (precondition of finding C12-F1)"]++
				break
			}
		}
		runs := make([]string, len(res.Runs))
		jr := map[string]interface{}{}
		outcomes := map[string]bool{}
		for j, r := range res.Runs {
			runs[j] = coqRun(r)
			var rs []string
			for k, x := range r.Resps {
				rs = append(rs, jsonResp(x))
				oc := h.Reqs[k].Kind + ":" + x.Kind
				if x.Kind == "create" || x.Kind == "update" || x.Kind == "delete" {
					oc += fmt.Sprintf(":ok=%v", x.Ok)
				}
				outcomes[oc] = true
			}
			jr[r.Engine] = map[string]interface{}{"resps": rs, "events": len(r.Events), "stalled": r.Stalled, "fail": r.Fail}
			if r.Stalled >= 0 || r.Fail != "" {
				w.Fail(lib.ImplFailure{CaseID: w.Len(), What: fmt.Sprintf("engine %s: stalled after request %d / failure %q", r.Engine, r.Stalled, r.Fail),
					Case: map[string]interface{}{"history": jq}})
			}
		}
		var ocs []string
		for k := range outcomes {
			ocs = append(ocs, k)
		}
		w.Add(lib.Case{Kind: h.Name,
			Coq:      lib.App("mk_c12", lib.N(initRev), lib.List(qs), lib.List(runs)),
			JSON:     map[string]interface{}{"name": h.Name, "history": jq, "runs": jr},
			Trivial:  len(outcomes) < 3,
			Outcomes: ocs})
	}
	w.Stats.Extra["request_kinds"] = reqKinds
	// histories outside c12_validb (the Coq side proves C12_oracle_sound_checked for all the others), by reason
	w.Stats.Extra["invalid_cases"] = invalid
	if err := w.Finish("one case = one sequential history (8-30 requests) run on 10 engine configurations (memkv, Badger, TiKV mock with one region / a border between two keys / a border inside one key's versions / 2 clients / 4 clients, metrics wrapper over memkv, Badger and TiKV) from revision 1000; keys from a pool of 6 (5 under the backend prefix), expectations steered to be correct / stale / zero / future; non-trivial = at least three different request outcomes; distinct = SHA-256 of the Coq case"); err != nil {
		fmt.Fprintln(os.Stderr, err)
		os.Exit(2)
	}
}
