// Driver c11: random operation sequences against the real storage adapters (memkv, Badger, TiKV mock,
// metrics wrapper over memkv and Badger). Every step's result class, conflict payload and iterator
// output, and the final raw contents, are written as Coq cases: Model/Adapters.v must reproduce them
// exactly (c11_check) and they must agree with the engine contract Model/Store.v under the C11
// projection (c11_oracle).  The decor-* configurations run metrics.NewKvStorage with a recording client: every
// step's emissions are part of the case (KWrapMetrics, Model/C11Wrap.v).
package main

import (
	"bytes"
	"context"
	"errors"
	"fmt"
	"io"
	"os"
	"sort"
	"strings"
	"sync"
	"time"

	"github.com/kubewharf/kubebrain/pkg/metrics"
	"github.com/kubewharf/kubebrain/pkg/storage"
	imetrics "github.com/kubewharf/kubebrain/pkg/storage/metrics"

	"kbverif/lib"
)

// ---------- operations ----------

type bop struct {
	Kind     string // putnx | cas | put | del | delcur
	K, V, Ov []byte
}

type op struct {
	Kind       string // batch | get | del | iter | hold | delcur | holddrain (iterate, commit Batch, drain)
	Batch      []bop
	K          []byte
	Start, End []byte
	Limit      uint64
	J          int
}

type kvp struct{ K, V []byte }

type obs struct {
	Class  string // ROk | RCond | RNotFound | ROther | RPanic
	HasCf  bool
	CfIdx  int
	CfKey  []byte
	CfVal  []byte
	Val    []byte
	Out    []kvp
	Held   bool
	ErrStr string
	After  []kvp  // holddrain: what the iterator delivered after the batch
	BClass string // holddrain: the class of the batch
}

func cp(b []byte) []byte { c := make([]byte, len(b)); copy(c, b); return c }

func classify(err error) (string, bool, int, []byte, []byte) {
	if err == nil {
		return "ROk", false, 0, nil, nil
	}
	var cf *storage.Conflict
	if c, ok := err.(*storage.Conflict); ok {
		cf = c
	}
	switch {
	case errors.Is(err, storage.ErrCASFailed):
		if cf != nil {
			return "RCond", true, cf.Idx, cp(cf.Key), cp(cf.Val)
		}
		return "RCond", false, 0, nil, nil
	case errors.Is(err, storage.ErrKeyNotFound):
		return "RNotFound", false, 0, nil, nil
	}
	return "ROther", false, 0, nil, nil
}

type runner struct {
	kv   storage.KvStorage
	held storage.Iter
}

func (r *runner) closeHeld() {
	if r.held != nil {
		_ = r.held.Close()
		r.held = nil
	}
}

func (r *runner) exec(o op) (res obs) {
	ctx := context.Background()
	defer func() {
		if p := recover(); p != nil {
			res = obs{Class: "RPanic", ErrStr: fmt.Sprint(p)}
		}
	}()
	switch o.Kind {
	case "batch":
		b := r.kv.BeginBatchWrite()
		for _, x := range o.Batch {
			switch x.Kind {
			case "putnx":
				b.PutIfNotExist(cp(x.K), cp(x.V), 0)
			case "cas":
				b.CAS(cp(x.K), cp(x.V), cp(x.Ov), 0)
			case "put":
				b.Put(cp(x.K), cp(x.V), 0)
			case "del":
				b.Del(cp(x.K))
			case "delcur":
				b.DelCurrent(r.held)
			}
		}
		err := b.Commit(ctx)
		res.Class, res.HasCf, res.CfIdx, res.CfKey, res.CfVal = classify(err)
		if err != nil {
			res.ErrStr = err.Error()
		}
	case "get":
		v, err := r.kv.Get(ctx, cp(o.K))
		res.Class, _, _, _, _ = classify(err)
		if err == nil {
			res.Val = cp(v)
		} else {
			res.ErrStr = err.Error()
		}
	case "del":
		err := r.kv.Del(ctx, cp(o.K))
		res.Class, _, _, _, _ = classify(err)
	case "delcur":
		err := r.kv.DelCurrent(ctx, r.held)
		res.Class, res.HasCf, res.CfIdx, res.CfKey, res.CfVal = classify(err)
		if err != nil {
			res.ErrStr = err.Error()
		}
	case "iter":
		it, err := r.kv.Iter(ctx, cp(o.Start), cp(o.End), 0, o.Limit)
		if err != nil {
			res.Class, _, _, _, _ = classify(err)
			return
		}
		defer it.Close()
		res.Class = "ROk"
		for n := 0; n < 10000; n++ {
			err := it.Next(ctx)
			if err == io.EOF {
				return
			}
			if err != nil {
				res.Class, _, _, _, _ = classify(err)
				res.ErrStr = err.Error()
				return
			}
			res.Out = append(res.Out, kvp{cp(it.Key()), cp(it.Val())})
		}
		res.Class, res.ErrStr = "ROther", "iterator did not end"
	case "hold":
		r.closeHeld()
		it, err := r.kv.Iter(ctx, cp(o.Start), cp(o.End), 0, o.Limit)
		if err != nil {
			res.Class, _, _, _, _ = classify(err)
			return
		}
		res.Class = "ROk"
		for n := 0; n <= o.J; n++ {
			err := it.Next(ctx)
			if err == io.EOF {
				_ = it.Close()
				return
			}
			if err != nil {
				res.Class, _, _, _, _ = classify(err)
				_ = it.Close()
				return
			}
			res.Out = append(res.Out, kvp{cp(it.Key()), cp(it.Val())})
		}
		r.held = it
		res.Held = true
	case "holddrain":
		it, err := r.kv.Iter(ctx, cp(o.Start), cp(o.End), 0, o.Limit)
		if err != nil {
			res.Class, _, _, _, _ = classify(err)
			return
		}
		defer it.Close()
		res.Class = "ROk"
		eof := false
		next := func(dst *[]kvp) bool {
			err := it.Next(ctx)
			if err == io.EOF {
				eof = true
				return false
			}
			if err != nil {
				res.Class, _, _, _, _ = classify(err)
				res.ErrStr = err.Error()
				eof = true
				return false
			}
			*dst = append(*dst, kvp{cp(it.Key()), cp(it.Val())})
			return true
		}
		for n := 0; n <= o.J && next(&res.Out); n++ {
		}
		b := r.kv.BeginBatchWrite()
		for _, x := range o.Batch {
			switch x.Kind {
			case "putnx":
				b.PutIfNotExist(cp(x.K), cp(x.V), 0)
			case "cas":
				b.CAS(cp(x.K), cp(x.V), cp(x.Ov), 0)
			case "put":
				b.Put(cp(x.K), cp(x.V), 0)
			case "del":
				b.Del(cp(x.K))
			case "delcur":
				b.DelCurrent(r.held)
			}
		}
		berr := b.Commit(ctx)
		res.BClass, res.HasCf, res.CfIdx, res.CfKey, res.CfVal = classify(berr)
		for n := 0; !eof && n < 100000 && next(&res.After); n++ {
		}
	}
	return
}

// ---------- Coq / JSON rendering ----------

func coqBop(x bop) string {
	switch x.Kind {
	case "putnx":
		return lib.App("BPutNX", lib.Bytes(x.K), lib.Bytes(x.V), "0")
	case "cas":
		return lib.App("BCAS", lib.Bytes(x.K), lib.Bytes(x.V), lib.Bytes(x.Ov), "0")
	case "put":
		return lib.App("BPut", lib.Bytes(x.K), lib.Bytes(x.V), "0")
	case "del":
		return lib.App("BDel", lib.Bytes(x.K))
	}
	return "BDelCurH"
}

func coqOp(o op) string {
	switch o.Kind {
	case "batch":
		xs := make([]string, len(o.Batch))
		for i, x := range o.Batch {
			xs[i] = coqBop(x)
		}
		return lib.App("SBatch", lib.List(xs))
	case "get":
		return lib.App("SGet", lib.Bytes(o.K))
	case "del":
		return lib.App("SDel", lib.Bytes(o.K))
	case "iter":
		return lib.App("SIter", lib.Bytes(o.Start), lib.Bytes(o.End), lib.N(o.Limit))
	case "hold":
		return lib.App("SHold", lib.Bytes(o.Start), lib.Bytes(o.End), lib.N(o.Limit), lib.Nat(o.J))
	case "holddrain":
		xs := make([]string, len(o.Batch))
		for i, x := range o.Batch {
			xs[i] = coqBop(x)
		}
		return lib.App("SHoldDrain", lib.Bytes(o.Start), lib.Bytes(o.End), lib.N(o.Limit), lib.Nat(o.J), lib.List(xs))
	}
	return "SDelCur"
}

func coqCf(r obs) string {
	if !r.HasCf {
		return lib.None()
	}
	v := lib.None()
	if len(r.CfVal) > 0 {
		v = lib.Some(lib.Bytes(r.CfVal))
	}
	return lib.Some("(" + lib.Nat(r.CfIdx) + ", " + lib.Bytes(r.CfKey) + ", " + v + ")")
}

func coqOut(out []kvp) string {
	xs := make([]string, len(out))
	for i, e := range out {
		xs[i] = lib.Pair(lib.Bytes(e.K), lib.Bytes(e.V))
	}
	return lib.List(xs)
}

func coqObs(o op, r obs) string {
	switch o.Kind {
	case "batch":
		return lib.App("OBatch", r.Class, coqCf(r))
	case "get":
		return lib.App("OGet", r.Class, lib.Bytes(r.Val))
	case "del":
		return lib.App("ODel", r.Class)
	case "iter":
		return lib.App("OIter", r.Class, coqOut(r.Out))
	case "hold":
		return lib.App("OHold", r.Class, coqOut(r.Out), lib.Bool(r.Held))
	case "holddrain":
		return lib.App("OHoldDrain", r.Class, coqOut(r.Out), r.BClass, coqCf(r), coqOut(r.After))
	}
	return lib.App("ODelCur", r.Class, coqCf(r))
}

func jsonOut(out []kvp) []string {
	xs := make([]string, len(out))
	for i, e := range out {
		xs[i] = lib.Q(e.K) + "=" + lib.Q(e.V)
	}
	return xs
}

func jsonStep(o op, r obs) map[string]interface{} {
	m := map[string]interface{}{"op": o.Kind, "class": r.Class}
	switch o.Kind {
	case "batch":
		var xs []string
		for _, x := range o.Batch {
			switch x.Kind {
			case "cas":
				xs = append(xs, fmt.Sprintf("cas(%q,new=%q,old=%q)", x.K, x.V, x.Ov))
			case "del":
				xs = append(xs, fmt.Sprintf("del(%q)", x.K))
			case "delcur":
				xs = append(xs, "delcur(held)")
			default:
				xs = append(xs, fmt.Sprintf("%s(%q,%q)", x.Kind, x.K, x.V))
			}
		}
		m["batch"] = xs
	case "get", "del":
		m["key"] = lib.Q(o.K)
		if o.Kind == "get" {
			m["val"] = lib.Q(r.Val)
		}
	case "iter", "hold":
		m["start"], m["end"], m["limit"] = lib.Q(o.Start), lib.Q(o.End), o.Limit
		m["out"] = jsonOut(r.Out)
		if o.Kind == "hold" {
			m["j"], m["held"] = o.J, r.Held
		}
	case "holddrain":
		short := func(xs []string) []string {
			if len(xs) > 8 {
				return append(append([]string{}, xs[:3]...), append([]string{fmt.Sprintf("… %d more …", len(xs)-6)}, xs[len(xs)-3:]...)...)
			}
			return xs
		}
		var bs []string
		for _, x := range o.Batch {
			bs = append(bs, fmt.Sprintf("%s(%q,%q)", x.Kind, x.K, x.V))
		}
		m["start"], m["end"], m["limit"], m["j"] = lib.Q(o.Start), lib.Q(o.End), o.Limit, o.J
		m["before_batch"], m["batch"], m["batch_class"], m["after_batch"] = short(jsonOut(r.Out)), bs, r.BClass, short(jsonOut(r.After))
	}
	if r.HasCf {
		m["conflict"] = fmt.Sprintf("idx=%d key=%q val=%q", r.CfIdx, r.CfKey, r.CfVal)
	}
	if r.ErrStr != "" {
		m["err"] = r.ErrStr
	}
	return m
}

var coqEng = map[string]string{lib.EngMem: "EMem", lib.EngBadger: "EBadger", lib.EngTiKV: "ETiKV",
	lib.EngWrapMem: "EWrapMem", lib.EngWrapBadger: "EWrapBadger", engWrapTiKV: "EWrapTiKV"}

// the metrics wrapper over the TiKV mock (lib.NewEngine knows the wrapper over memkv and Badger only)
const engWrapTiKV = "wrap-tikv"

// the metrics decorator with a recording client (case kind KWrapMetrics, Model/C11Wrap.v): the emissions of every
// step are part of the observation
const (
	engDecorMem    = "decor-memkv"
	engDecorBadger = "decor-badger"
	engDecorTiKV   = "decor-tikv"
)

var decorInner = map[string]string{engDecorMem: lib.EngMem, engDecorBadger: lib.EngBadger, engDecorTiKV: lib.EngTiKV}

type recorder struct {
	mu  sync.Mutex
	ems []string // Coq terms of type emission
	raw []string
}

func tagOf(tags []metrics.T, name string) (string, bool) {
	for _, t := range tags {
		if t.Name == name {
			return t.Value, true
		}
	}
	return "", false
}

var coqState = map[string]string{"success": "TSuccess", "error": "TError", "key_not_found": "TNotFound", "cas_failed": "TCasFailed"}
var coqWop = map[string]string{"get": "WGet", "del": "WDel", "cmp_and_del": "WCmpDel"}

func asInt(v interface{}) (uint64, bool) {
	switch x := v.(type) {
	case int:
		if x >= 0 {
			return uint64(x), true
		}
	case int64:
		if x >= 0 {
			return uint64(x), true
		}
	case uint64:
		return x, true
	}
	return 0, false
}

// render maps one emission to the model's vocabulary; whatever does not fit exactly (name, kind, tag set, value) is EOther
func render(kind, name string, v interface{}, tags []metrics.T) string {
	state, hasState := tagOf(tags, "state")
	st, stOK := coqState[state]
	ltdS, hasLtd := tagOf(tags, "limited")
	ltd := lib.Bool(ltdS == "true")
	ltdOK := hasLtd && (ltdS == "true" || ltdS == "false") && len(tags) == 1
	n, isInt := asInt(v)
	switch {
	case kind == "histogram" && name == "storage.op" && len(tags) == 2 && hasState && stOK:
		if o, ok := tagOf(tags, "op"); ok && coqWop[o] != "" {
			return lib.App("EOp", coqWop[o], st)
		}
	case kind == "counter" && name == "storage.iter.start" && len(tags) == 1 && stOK && isInt && n == 1:
		return lib.App("EIterStart", st)
	case kind == "counter" && name == "storage.iter.start.success" && ltdOK && isInt && n == 1:
		return lib.App("EIterOpened", ltd)
	case kind == "counter" && name == "storage.iter.fetch.error" && ltdOK && isInt && n == 1:
		return lib.App("EIterFetchErr", ltd)
	case kind == "counter" && name == "storage.iter.fetch.success" && ltdOK && isInt:
		return lib.App("EIterFetched", lib.N(n), ltd)
	case kind == "histogram" && name == "storage.iter.duration.avg" && ltdOK:
		return lib.App("EIterAvg", ltd)
	case kind == "histogram" && name == "storage.iter.duration.sum" && ltdOK:
		return lib.App("EIterSum", ltd)
	case kind == "histogram" && (name == "storage.batch.count" || name == "storage.batch.duration") && len(tags) == 2 && stOK:
		if o, ok := tagOf(tags, "op"); ok && o == "write_batch" {
			if name == "storage.batch.duration" {
				return lib.App("EBatchDur", st)
			}
			if isInt {
				return lib.App("EBatchCount", lib.N(n), st)
			}
		}
	}
	return "EOther"
}

func (r *recorder) hook(kind, name string, v interface{}, tags []metrics.T) {
	r.mu.Lock()
	defer r.mu.Unlock()
	r.ems = append(r.ems, render(kind, name, v, tags))
	ts := make([]string, len(tags))
	for i, t := range tags {
		ts[i] = t.Name + "=" + t.Value
	}
	val := ""
	if n, ok := asInt(v); ok {
		val = fmt.Sprintf("=%d", n)
	}
	r.raw = append(r.raw, kind+" "+name+val+"{"+strings.Join(ts, ",")+"}")
}

func (r *recorder) take() ([]string, []string) {
	r.mu.Lock()
	defer r.mu.Unlock()
	e, w := r.ems, r.raw
	r.ems, r.raw = nil, nil
	return e, w
}

var recorders = map[string]*recorder{}

func newEngine(eng, scratch string) (storage.KvStorage, func(), error) {
	if inner, ok := decorInner[eng]; ok {
		kv, cl, err := lib.NewEngine(inner, scratch)
		if err != nil {
			return nil, nil, err
		}
		rec := &recorder{}
		recorders[eng] = rec
		return imetrics.NewKvStorage(kv, &lib.NopMetrics{HookV: rec.hook}), cl, nil
	}
	if eng == engWrapTiKV {
		kv, cl, err := lib.NewEngine(lib.EngTiKV, scratch)
		if err != nil {
			return nil, nil, err
		}
		return imetrics.NewKvStorage(kv, &lib.NopMetrics{}), cl, nil
	}
	return lib.NewEngine(eng, scratch)
}

// ---------- generation ----------

var keyPool = [][]byte{[]byte("a"), []byte("a\x00"), []byte("ab"), []byte("b"), []byte("b\xff"), []byte("d"), []byte("\x00"), []byte("\xff"), []byte("f")}
var boundPool = [][]byte{[]byte("0"), []byte("a\x00\x00"), []byte("aa"), []byte("bz"), []byte("c0"), []byte("c9"), []byte("e"), []byte("\xff\xff"), []byte("\x00\x00"), []byte("g")}
var valPool = [][]byte{[]byte("1"), []byte("2"), []byte("3"), []byte("x"), []byte("\x00\x00\x00\x00\x00\x00\x00\x07"), []byte("tombstone")}

type gen struct {
	r      *lib.Rand
	shadow map[string][]byte // what the driver believes is stored (guides CAS expectations only)
	held   bool
	empty  bool // this sequence may write empty values
}

func (g *gen) key() []byte { return g.r.PickB(keyPool) }
func (g *gen) bound() []byte {
	if g.r.Chance(3, 5) {
		return g.r.PickB(keyPool)
	}
	return g.r.PickB(boundPool)
}
func (g *gen) val() []byte {
	if g.empty && g.r.Chance(1, 4) {
		return []byte{}
	}
	return g.r.PickB(valPool)
}

func (g *gen) batch() op {
	n := 1 + g.r.Intn(4)
	if g.r.Chance(1, 3) {
		n = 1
	}
	local := map[string][]byte{}
	deleted := map[string]bool{}
	cur := func(k []byte) ([]byte, bool) {
		if deleted[string(k)] {
			return nil, false
		}
		if v, ok := local[string(k)]; ok {
			return v, true
		}
		v, ok := g.shadow[string(k)]
		return v, ok
	}
	var ops []bop
	var lastKey []byte
	for i := 0; i < n; i++ {
		k := g.key()
		if lastKey != nil && g.r.Chance(1, 3) {
			k = lastKey // same key twice in one batch
		}
		lastKey = k
		switch c := g.r.Intn(10); {
		case c < 2:
			ops = append(ops, bop{Kind: "putnx", K: k, V: g.val()})
			if _, ok := cur(k); !ok {
				local[string(k)] = ops[len(ops)-1].V
				delete(deleted, string(k))
			}
		case c < 5:
			ov := g.val()
			if v, ok := cur(k); ok && g.r.Chance(2, 3) {
				ov = v
			}
			ops = append(ops, bop{Kind: "cas", K: k, V: g.val(), Ov: ov})
			local[string(k)] = ops[len(ops)-1].V
		case c < 8:
			ops = append(ops, bop{Kind: "put", K: k, V: g.val()})
			local[string(k)] = ops[len(ops)-1].V
			delete(deleted, string(k))
		case c < 9 || !g.held:
			ops = append(ops, bop{Kind: "del", K: k})
			deleted[string(k)] = true
		default:
			ops = append(ops, bop{Kind: "delcur"})
		}
	}
	return op{Kind: "batch", Batch: ops}
}

func (g *gen) stored() []byte {
	if len(g.shadow) == 0 {
		return g.key()
	}
	ks := make([]string, 0, len(g.shadow))
	for k := range g.shadow {
		ks = append(ks, k)
	}
	sort.Strings(ks)
	return []byte(ks[g.r.Intn(len(ks))])
}

func (g *gen) iter(kind string) op {
	s, e := g.bound(), g.bound()
	switch g.r.Intn(6) {
	case 0: // the end bound is a stored key
		e = g.stored()
	case 1: // both bounds are stored keys
		s, e = g.stored(), g.stored()
	case 2: // the start is just above a stored key that is the end: an empty backward interval
		e = g.stored()
		s = append(cp(e), 'z')
	}
	if g.r.Chance(1, 12) {
		e = s
	}
	o := op{Kind: kind, Start: s, End: e, Limit: uint64(g.r.Intn(4))}
	if g.r.Bool() {
		o.Limit = 0
	}
	if kind == "hold" {
		o.J = g.r.Intn(3)
		if g.r.Bool() {
			// wide interval so that something is held
			o.Start, o.End = []byte("\x00"), []byte("\xff\xff\xff")
			if g.r.Bool() {
				o.Start, o.End = o.End, o.Start
			}
			o.Limit = 0
		}
	}
	return o
}

func (g *gen) next() op {
	switch c := g.r.Intn(20); {
	case c < 9:
		return g.batch()
	case c < 11:
		return op{Kind: "get", K: g.key()}
	case c < 12:
		return op{Kind: "del", K: g.key()}
	case c < 16:
		return g.iter("iter")
	case c < 17:
		return g.iter("hold")
	case c < 18:
		o := g.iter("iter")
		o.Kind, o.J = "holddrain", g.r.Intn(3)
		b := g.batch()
		var plain []bop
		for _, x := range b.Batch {
			if x.Kind != "delcur" || g.held {
				plain = append(plain, x)
			}
		}
		o.Batch = plain
		return o
	case !g.held:
		return g.iter("hold")
	default:
		return op{Kind: "delcur"}
	}
}

// apply updates the driver's belief after a successful batch
func (g *gen) apply(o op, r obs) {
	if r.Class != "ROk" {
		return
	}
	if o.Kind == "holddrain" && r.BClass == "ROk" {
		g.apply(op{Kind: "batch", Batch: o.Batch}, obs{Class: "ROk"})
		return
	}
	switch o.Kind {
	case "batch":
		for _, x := range o.Batch {
			switch x.Kind {
			case "putnx", "cas", "put":
				g.shadow[string(x.K)] = x.V
			case "del":
				delete(g.shadow, string(x.K))
			}
		}
	case "del":
		delete(g.shadow, string(o.K))
	}
}

// ---------- fixed corpus ----------

func B(s string) []byte { return []byte(s) }

func put(kvs ...string) op {
	var ops []bop
	for i := 0; i+1 < len(kvs); i += 2 {
		ops = append(ops, bop{Kind: "put", K: B(kvs[i]), V: B(kvs[i+1])})
	}
	return op{Kind: "batch", Batch: ops}
}

type fixed struct {
	name    string
	ops     []op
	engines []string // nil = all
}

func corpus() []fixed {
	wide := func(kind string, j int) op {
		return op{Kind: kind, Start: B("\x00"), End: B("\xff\xff\xff"), J: j}
	}
	return []fixed{
		{name: "cas-missing-key", ops: []op{ // fixed by da987ef: TiKV returned ErrKeyNotFound
			{Kind: "batch", Batch: []bop{{Kind: "cas", K: B("a"), V: B("2"), Ov: B("1")}}},
			{Kind: "get", K: B("a")}, wide("iter", 0)}},
		{name: "backward-empty-interval-keys-below", ops: []op{ // fixed by 7c0e624: TiKV yielded b
			put("b", "1", "d", "2", "f", "3"),
			{Kind: "iter", Start: B("c9"), End: B("c0")},
			{Kind: "iter", Start: B("c9"), End: B("c0"), Limit: 1},
			{Kind: "iter", Start: B("e"), End: B("c0")},
			{Kind: "iter", Start: B("f"), End: B("b")},
			{Kind: "iter", Start: B("b"), End: B("f")},
			{Kind: "iter", Start: B("a"), End: B("a")},
			{Kind: "iter", Start: B("d"), End: B("d")}}},
		{name: "second-condition-fails", ops: []op{
			put("a", "1", "b", "2"),
			{Kind: "batch", Batch: []bop{{Kind: "cas", K: B("a"), V: B("3"), Ov: B("1")}, {Kind: "put", K: B("d"), V: B("9")},
				{Kind: "putnx", K: B("b"), V: B("7")}, {Kind: "del", K: B("a")}}},
			wide("iter", 0),
			{Kind: "batch", Batch: []bop{{Kind: "putnx", K: B("f"), V: B("1")}, {Kind: "cas", K: B("b"), V: B("3"), Ov: B("x")}}},
			wide("iter", 0)}},
		{name: "delcurrent-after-change", ops: []op{
			put("a", "1", "b", "2"),
			wide("hold", 0),
			put("a", "3"),
			{Kind: "delcur"},
			{Kind: "get", K: B("a")},
			wide("hold", 1),
			{Kind: "delcur"},
			{Kind: "delcur"},
			wide("iter", 0)}},
		{name: "delcurrent-same-value-rewritten", ops: []op{
			put("a", "1"), wide("hold", 0), put("a", "1"), {Kind: "delcur"}, wide("iter", 0)}},
		{name: "same-key-twice-and-del-then-cas", ops: []op{
			put("a", "1"),
			{Kind: "batch", Batch: []bop{{Kind: "put", K: B("a"), V: B("2")}, {Kind: "put", K: B("a"), V: B("3")}}},
			{Kind: "get", K: B("a")},
			{Kind: "batch", Batch: []bop{{Kind: "del", K: B("a")}, {Kind: "cas", K: B("a"), V: B("4"), Ov: B("3")}}},
			{Kind: "get", K: B("a")},
			{Kind: "batch", Batch: []bop{{Kind: "put", K: B("a"), V: B("5")}, {Kind: "cas", K: B("a"), V: B("6"), Ov: B("5")}, {Kind: "putnx", K: B("a"), V: B("7")}}},
			{Kind: "get", K: B("a")},
			{Kind: "batch", Batch: []bop{{Kind: "del", K: B("a")}, {Kind: "putnx", K: B("a"), V: B("8")}}},
			{Kind: "get", K: B("a")}}},
		{name: "delcurrent-in-batch-after-write", ops: []op{
			put("a", "1"),
			wide("hold", 0),
			{Kind: "batch", Batch: []bop{{Kind: "put", K: B("a"), V: B("2")}, {Kind: "delcur"}}},
			wide("iter", 0)}},
		{name: "delcurrent-in-batch-after-write-older", ops: []op{
			put("a", "1"), put("b", "1"),
			wide("hold", 0),
			{Kind: "batch", Batch: []bop{{Kind: "put", K: B("a"), V: B("2")}, {Kind: "delcur"}}},
			wide("iter", 0)}},
		{name: "empty-value", ops: []op{
			{Kind: "batch", Batch: []bop{{Kind: "putnx", K: B("a"), V: B("")}}},
			{Kind: "get", K: B("a")},
			{Kind: "batch", Batch: []bop{{Kind: "putnx", K: B("a"), V: B("1")}}},
			{Kind: "batch", Batch: []bop{{Kind: "cas", K: B("a"), V: B("2"), Ov: B("")}}},
			wide("iter", 0)}},
		{name: "empty-value-delcurrent-missing", ops: []op{
			put("a", ""), wide("hold", 0), {Kind: "del", K: B("a")}, {Kind: "delcur"}, wide("iter", 0)}},
		{name: "end-bound-on-existing-key", ops: []op{ // the end bound is exclusive in both directions
			put("k1", "1", "k2", "2", "k3", "3"),
			{Kind: "iter", Start: B("k3"), End: B("k1")},
			{Kind: "iter", Start: B("k3"), End: B("k1"), Limit: 1},
			{Kind: "iter", Start: B("k3"), End: B("k2")},
			{Kind: "iter", Start: B("k2z"), End: B("k2")},
			{Kind: "iter", Start: B("k2z"), End: B("k2"), Limit: 1},
			{Kind: "iter", Start: B("k2"), End: B("k1")},
			{Kind: "iter", Start: B("k2"), End: B("k1"), Limit: 1},
			{Kind: "iter", Start: B("k9"), End: B("k3")},
			{Kind: "iter", Start: B("k9"), End: B("k3"), Limit: 1},
			{Kind: "iter", Start: B("k1"), End: B("k3")},
			{Kind: "iter", Start: B("k1"), End: B("k3"), Limit: 1},
			{Kind: "iter", Start: B("k1"), End: B("k2")},
			{Kind: "iter", Start: B("k2"), End: B("k2z")},
			{Kind: "iter", Start: B("k2"), End: B("k3"), Limit: 1},
			{Kind: "iter", Start: B("k0"), End: B("k1")},
			{Kind: "iter", Start: B("k0"), End: B("k1"), Limit: 1},
			{Kind: "iter", Start: B("k1"), End: B("k0")},
			{Kind: "hold", Start: B("k3"), End: B("k2"), J: 1},
			{Kind: "hold", Start: B("k2z"), End: B("k2"), Limit: 1, J: 0}}},
		{name: "limits", ops: []op{
			put("a", "1", "b", "2", "d", "3", "f", "4"),
			{Kind: "iter", Start: B("a"), End: B("g"), Limit: 1},
			{Kind: "iter", Start: B("a"), End: B("g"), Limit: 2},
			{Kind: "iter", Start: B("a"), End: B("g"), Limit: 4},
			{Kind: "iter", Start: B("g"), End: B("0"), Limit: 1},
			{Kind: "iter", Start: B("f"), End: B("a"), Limit: 3},
			{Kind: "iter", Start: B("f"), End: B("a"), Limit: 5}}},
	}
}

// ---------- running ----------

func clear(kv storage.KvStorage) error {
	d, err := lib.Dump(kv)
	if err != nil {
		return err
	}
	if len(d) > 20 { // many records (snapshot cases): delete them in batches
		for lo := 0; lo < len(d); lo += 100 {
			b := kv.BeginBatchWrite()
			for i := lo; i < lo+100 && i < len(d); i++ {
				b.Del(d[i].K)
			}
			if err := b.Commit(context.Background()); err != nil {
				return err
			}
		}
		return nil
	}
	for _, e := range d {
		if err := kv.Del(context.Background(), e.K); err != nil {
			return err
		}
	}
	return nil
}

// bigBatch commits one batch of n Puts on distinct keys of keylen bytes, optionally followed by a CAS on a key
// that does not exist, and counts how many of the n keys are stored afterwards.  The keys are then removed.
func bigBatch(kv storage.KvStorage, n, keylen int, failing bool) (class string, visible int, errStr string) {
	ctx := context.Background()
	defer func() {
		if p := recover(); p != nil {
			class, errStr = "RPanic", fmt.Sprint(p)
		}
	}()
	mk := func(i int) []byte {
		k := bytes.Repeat([]byte{'x'}, keylen)
		copy(k, fmt.Sprintf("big/%08d/", i))
		return k
	}
	b := kv.BeginBatchWrite()
	for i := 0; i < n; i++ {
		b.Put(mk(i), []byte("v"), 0)
	}
	if failing {
		b.CAS([]byte("big-missing"), []byte("1"), []byte("2"), 0)
	}
	err := b.Commit(ctx)
	class, _, _, _, _ = classify(err)
	if err != nil {
		errStr = err.Error()
		if len(errStr) > 200 {
			errStr = errStr[:200]
		}
	}
	it, ierr := kv.Iter(ctx, []byte("big/"), []byte("big0"), 0, 0)
	if ierr != nil {
		return class, -1, "iter: " + ierr.Error()
	}
	var found [][]byte
	for {
		if e := it.Next(ctx); e != nil {
			break
		}
		found = append(found, cp(it.Key()))
	}
	_ = it.Close()
	for _, k := range found {
		_ = kv.Del(ctx, k)
	}
	return class, len(found), errStr
}

// interleave: batch 1 is begun and guarded by a condition on `guard`; a second batch rewrites `guard` and commits
// (memkv holds its mutex from BeginBatchWrite, so there the second batch can only start once the first has committed);
// then batch 1 commits.  Variants of the guard: 0 = CAS(guard, v1, v1) (a no-op swap), 1 = CAS(guard, v1b, v1),
// 2 = PutIfNotExist(guard2) while the second batch creates guard2.  Batch 1 also puts `other`.
// Reported: did batch 2 commit before batch 1's Commit was called; the class of batch 1; whether `other` exists
// afterwards; whether the guarded key holds batch 2's value.
func interleave(kv storage.KvStorage, variant int) (b2first bool, c1 string, other, guard2 bool, errStr string) {
	ctx := context.Background()
	defer func() {
		if p := recover(); p != nil {
			c1, errStr = "RPanic", fmt.Sprint(p)
		}
	}()
	gk := []byte("il/guard")
	if variant == 2 {
		gk = []byte("il/guard2")
	} else {
		b := kv.BeginBatchWrite()
		b.Put(gk, []byte("v1"), 0)
		if err := b.Commit(ctx); err != nil {
			return false, "RPanic", false, false, "setup: " + err.Error()
		}
	}
	b1 := kv.BeginBatchWrite()
	done2 := make(chan error, 1)
	go func() {
		b2 := kv.BeginBatchWrite()
		b2.Put(gk, []byte("v2"), 0)
		done2 <- b2.Commit(ctx)
	}()
	var err2 error
	select {
	case err2 = <-done2:
		b2first = true
	case <-time.After(150 * time.Millisecond):
	}
	switch variant {
	case 0:
		b1.CAS(gk, []byte("v1"), []byte("v1"), 0)
	case 1:
		b1.CAS(gk, []byte("v1b"), []byte("v1"), 0)
	case 2:
		b1.PutIfNotExist(gk, []byte("mine"), 0)
	}
	b1.Put([]byte("il/other"), []byte("x"), 0)
	err1 := b1.Commit(ctx)
	c1, _, _, _, _ = classify(err1)
	if err1 != nil {
		errStr = err1.Error()
	}
	if !b2first {
		select {
		case err2 = <-done2:
		case <-time.After(5 * time.Second):
			return b2first, c1, false, false, "batch 2 never finished"
		}
	}
	if err2 != nil {
		errStr += " / batch 2: " + err2.Error()
	}
	_, eo := kv.Get(ctx, []byte("il/other"))
	other = eo == nil
	gv, eg := kv.Get(ctx, gk)
	guard2 = eg == nil && string(gv) == "v2"
	return
}

// wrapFault runs one call of the metrics wrapper over an engine whose matching call fails with `inject`, and reports
// the class the wrapper's caller sees and whether the stored record survived.
func wrapFault(scratch string, kind int, inject error) (observed string, intact bool, errStr string) {
	inner, closer, err := lib.NewEngine(lib.EngMem, scratch)
	if err != nil {
		return "RPanic", false, err.Error()
	}
	defer closer()
	w := &lib.Wrap{KvStorage: inner}
	outer := imetrics.NewKvStorage(w, &lib.NopMetrics{})
	ctx := context.Background()
	defer func() {
		if p := recover(); p != nil {
			observed, errStr = "RPanic", fmt.Sprint(p)
		}
	}()
	b := outer.BeginBatchWrite()
	b.Put([]byte("a"), []byte("1"), 0)
	if err := b.Commit(ctx); err != nil {
		return "RPanic", false, "setup: " + err.Error()
	}
	it, err := outer.Iter(ctx, []byte("a"), []byte("b"), 0, 0)
	if err != nil || it.Next(ctx) != nil {
		return "RPanic", false, "setup iterator"
	}
	defer it.Close()
	target := []string{"get", "del", "delcur", "batch", "iter"}[kind]
	w.Before = func(k string, key []byte) error {
		if k == target {
			return inject
		}
		return nil
	}
	var got error
	switch kind {
	case 0:
		_, got = outer.Get(ctx, []byte("a"))
	case 1:
		got = outer.Del(ctx, []byte("a"))
	case 2:
		got = outer.DelCurrent(ctx, it)
	case 3:
		b := outer.BeginBatchWrite()
		b.Del([]byte("a"))
		got = b.Commit(ctx)
	case 4:
		var it2 storage.Iter
		it2, got = outer.Iter(ctx, []byte("a"), []byte("b"), 0, 0)
		if got == nil {
			_ = it2.Close()
		}
	}
	w.Before = nil
	observed, _, _, _, _ = classify(got)
	if got != nil {
		errStr = got.Error()
	}
	v, gerr := outer.Get(ctx, []byte("a"))
	return observed, gerr == nil && string(v) == "1", errStr
}

func main() {
	lib.QuietLogs()
	args := lib.ParseArgs()
	rnd := lib.NewRand(args.Seed)
	perEngine := 120
	switch args.Tier {
	case "thorough":
		perEngine = 2500
	case "search":
		perEngine = 500
	}
	w := lib.NewWriter(args, "C11", "c11", "From KB Require Import Model.C11Wrap.", "c11x_case", "c11x_check", "c11x_oracle", 400)
	w.InfoFn = "c11x_emissions_check" // C11 says nothing about metrics: emission disagreements are reported, not alarms
	engines := []string{lib.EngMem, lib.EngBadger, lib.EngTiKV, lib.EngWrapMem, lib.EngWrapBadger, engWrapTiKV,
		engDecorMem, engDecorBadger, engDecorTiKV}
	emissionKinds := map[string]int{}
	opKinds := map[string]int{}
	invalid := map[string]int{}

	for _, eng := range engines {
		kv, closer, err := newEngine(eng, args.Scratch)
		if err != nil {
			w.Fail(lib.ImplFailure{CaseID: -1, What: "cannot open engine " + eng + ": " + err.Error()})
			continue
		}
		runSeq := func(kind string, ops []op, g *gen, n int) {
			if err := clear(kv); err != nil {
				w.Fail(lib.ImplFailure{CaseID: w.Len(), What: "cannot clear engine " + eng + ": " + err.Error()})
				return
			}
			r := &runner{kv: kv}
			var steps []string
			var seqOps []op
			var jsteps []interface{}
			outcomes := map[string]bool{}
			i := 0
			for {
				var o op
				if g != nil {
					if i >= n {
						break
					}
					o = g.next()
				} else {
					if i >= len(ops) {
						break
					}
					o = ops[i]
				}
				i++
				if (o.Kind == "delcur" && r.held == nil) || (o.Kind == "batch" && r.held == nil && hasDelCur(o)) {
					continue
				}
				rec := recorders[eng]
				if rec != nil {
					rec.take() // emissions of clear / Dump / the previous step's bookkeeping are not part of a step
				}
				res := r.exec(o)
				var ems, rawEms []string
				if rec != nil {
					ems, rawEms = rec.take()
					for _, e := range ems {
						emissionKinds[strings.TrimPrefix(strings.SplitN(e, " ", 2)[0], "(")]++
					}
				}
				if g != nil {
					g.apply(o, res)
					g.held = r.held != nil
				}
				opKinds[o.Kind]++
				outcomes[o.Kind+":"+res.Class] = true
				seqOps = append(seqOps, o)
				if rec != nil {
					steps = append(steps, lib.Pair(coqOp(o), lib.Pair(coqObs(o, res), lib.List(ems))))
					js := jsonStep(o, res)
					js["emissions"] = rawEms
					jsteps = append(jsteps, js)
				} else {
					steps = append(steps, lib.Pair(coqOp(o), coqObs(o, res)))
					jsteps = append(jsteps, jsonStep(o, res))
				}
				if res.Class == "RPanic" {
					break
				}
			}
			r.closeHeld()
			d, err := lib.Dump(kv)
			if err != nil {
				w.Fail(lib.ImplFailure{CaseID: w.Len(), What: "dump failed on " + eng + ": " + err.Error()})
				return
			}
			var ocs []string
			classes := map[string]bool{}
			for k := range outcomes {
				ocs = append(ocs, k)
			}
			for _, s := range jsteps {
				classes[s.(map[string]interface{})["class"].(string)] = true
			}
			var fin []kvp
			for _, e := range d {
				fin = append(fin, kvp{e.K, e.V})
			}
			if why := uncleanReason(eng, seqOps, classes["RPanic"]); why != "" {
				invalid[why]++ // mirrors c11_cleanb: outside the side condition of C11_oracle_sound (a finding's precondition)
			}
			coqCase := lib.App("CX", lib.App("mk_c11", coqEng[eng], lib.List(steps), coqOut(fin)))
			if inner, ok := decorInner[eng]; ok {
				coqCase = lib.App("KWrapMetrics", coqEng[inner], lib.List(steps), coqOut(fin))
			}
			w.Add(lib.Case{Kind: kind + "/" + eng,
				Coq:      coqCase,
				JSON:     map[string]interface{}{"engine": eng, "name": kind, "steps": jsteps, "final": jsonOut(fin)},
				Trivial:  len(classes) < 2,
				Outcomes: ocs})
		}
		for _, f := range corpus() {
			runSeq("fixed:"+f.name, f.ops, nil, 0)
		}
		// all-or-nothing for a batch that may be too big for one engine transaction (~12 MB of keys)
		_, decorated := decorInner[eng]
		for _, failing := range []bool{true, false} {
			if decorated || (!failing && eng != lib.EngBadger) {
				continue
			}
			const bigN, bigLen = 3000, 4096
			_ = clear(kv)
			cl, vis, es := bigBatch(kv, bigN, bigLen, failing)
			if vis < 0 {
				w.Fail(lib.ImplFailure{CaseID: w.Len(), What: "big batch on " + eng + ": " + es})
				continue
			}
			w.Add(lib.Case{Kind: "fixed:big-batch/" + eng,
				Coq:      lib.App("CX", lib.App("KBigBatch", coqEng[eng], lib.N(bigN), lib.N(bigLen), lib.Bool(failing), cl, lib.N(uint64(vis)))),
				JSON:     map[string]interface{}{"engine": eng, "name": "big-batch", "puts": bigN, "keylen": bigLen, "failing_cas": failing, "class": cl, "visible": vis, "err": es},
				Outcomes: []string{"bigbatch:" + cl}})
		}
		// one consistent snapshot: what an open iterator delivers does not depend on a batch committed meanwhile.
		// 300 records; iterator over all of them (forward / backward); 10 records read; one batch that changes records on
		// both sides; drained.  A sequence like any other: the adapter model must reproduce it and the contract oracle
		// judges everything the iterator delivered against the state at its creation.
		for _, fwd := range []bool{true, false} {
			const snapN = 300
			key := func(i int) []byte { return []byte(fmt.Sprintf("snap/%05d", i)) }
			var ops []op
			for lo := 0; lo < snapN; lo += 100 {
				var bs []bop
				for i := lo; i < lo+100; i++ {
					bs = append(bs, bop{Kind: "put", K: key(i), V: []byte(fmt.Sprintf("v%d", i))})
				}
				ops = append(ops, op{Kind: "batch", Batch: bs})
			}
			start, end := []byte("snap/"), []byte("snap0")
			if !fwd {
				start, end = end, start
			}
			ops = append(ops,
				op{Kind: "holddrain", Start: start, End: end, J: 9, Batch: []bop{
					{Kind: "put", K: key(3), V: []byte("changed")}, {Kind: "put", K: key(snapN / 2), V: []byte("changed")}, {Kind: "del", K: key(snapN - 4)}}},
				op{Kind: "get", K: key(3)}, op{Kind: "get", K: key(snapN - 4)},
				op{Kind: "holddrain", Start: start, End: end, Limit: 5, J: 1, Batch: []bop{{Kind: "del", K: key(0)}, {Kind: "del", K: key(snapN - 1)}}})
			runSeq("fixed:snapshot", ops, nil, 0)
		}
		// two interleaved batches: the guard of the first is invalidated by the second before the first commits
		for variant := 0; variant < 3 && !decorated; variant++ {
			_ = clear(kv)
			b2first, c1, other, g2, es := interleave(kv, variant)
			w.Add(lib.Case{Kind: "fixed:interleaved-batches/" + eng,
				Coq: lib.App("CX", lib.App("KInterleave", coqEng[eng], lib.N(uint64(variant)), lib.Bool(b2first), c1, lib.Bool(other), lib.Bool(g2))),
				JSON: map[string]interface{}{"engine": eng, "name": "interleaved-batches", "guard": []string{"CAS(guard,v1,v1)", "CAS(guard,v1b,v1)", "PutIfNotExist(guard2)"}[variant],
					"batch2_committed_before_batch1_commit": b2first, "batch1_class": c1, "other_present": other, "guard_holds_batch2_value": g2, "err": es},
				Outcomes: []string{"interleave:" + c1}})
			_ = clear(kv)
		}
		er := rnd.Fork()
		nSeq := perEngine
		if decorated {
			nSeq = perEngine / 2
		}
		for s := 0; s < nSeq; s++ {
			g := &gen{r: er, shadow: map[string][]byte{}, empty: s%25 == 24}
			n := 6 + er.Intn(20)
			runSeq("random", nil, g, n)
			if eng == lib.EngMem || eng == lib.EngWrapMem || eng == engDecorMem {
				// memkv is cheap: a fresh engine for every sequence
				closer()
				kv, closer, _ = newEngine(eng, args.Scratch)
			}
		}
		closer()
	}
	// a failing engine under the metrics wrapper: every error class must pass through unchanged
	injected := []struct {
		name string
		err  error
	}{
		{"not-found", storage.ErrKeyNotFound}, {"cas-failed", storage.ErrCASFailed},
		{"conflict", storage.NewErrConflict(0, []byte("a"), []byte("1"))},
		{"other", errors.New("engine unavailable")}, {"uncertain", storage.NewErrUncertainResult(errors.New("timeout"))},
	}
	for kind, kname := range []string{"get", "del", "delcurrent", "commit", "iter"} {
		for _, in := range injected {
			want, _, _, _, _ := classify(in.err)
			obsd, intact, es := wrapFault(args.Scratch, kind, in.err)
			w.Add(lib.Case{Kind: "fixed:wrapper-fault/" + kname,
				Coq:      lib.App("CX", lib.App("KWrapFault", lib.N(uint64(kind)), want, obsd, lib.Bool(intact))),
				JSON:     map[string]interface{}{"name": "wrapper-fault", "call": kname, "injected": in.name, "injected_class": want, "observed_class": obsd, "record_intact": intact, "err": es},
				Outcomes: []string{"wrapfault:" + obsd}})
		}
	}
	w.Stats.Extra["op_kinds"] = opKinds
	w.Stats.Extra["decorator_emissions"] = emissionKinds
	// cases outside c11_cleanb (the Coq side proves C11_oracle_sound_checked for all the others), by reason
	w.Stats.Extra["invalid_cases"] = invalid
	if err := w.Finish("one case = one operation sequence (length <= 25) on one engine, starting from the emptied engine; keys from a pool of 9 (prefix-related, 0x00, 0xff), bounds from keys plus 10 in-between/outside values; non-trivial = at least two different result classes occurred in the sequence; distinct = SHA-256 of the Coq case"); err != nil {
		fmt.Fprintln(os.Stderr, err)
		os.Exit(2)
	}
	_ = bytes.Compare
}

// uncleanReason mirrors c11_cleanb (Model/C11Cases.v): "" = the case is covered by C11_oracle_sound_checked
func uncleanReason(eng string, ops []op, panicked bool) string {
	if panicked {
		return "panic"
	}
	for _, o := range ops {
		if o.Kind != "batch" && o.Kind != "holddrain" {
			continue
		}
		written := false
		for _, x := range o.Batch {
			switch x.Kind {
			case "putnx", "put", "cas":
				if (eng == lib.EngTiKV || eng == engWrapTiKV || eng == engDecorTiKV) && len(x.V) == 0 {
					return "tikv: empty value written (precondition of finding C11-F1)"
				}
				written = true
			case "delcur":
				if written && (eng == lib.EngBadger || eng == lib.EngWrapBadger || eng == engDecorBadger) {
					return "badger: DelCurrent after a write in the same batch (precondition of finding C11-F2)"
				}
			}
		}
	}
	return ""
}

func hasDelCur(o op) bool {
	for _, x := range o.Batch {
		if x.Kind == "delcur" {
			return true
		}
	}
	return false
}
