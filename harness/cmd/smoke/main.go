// smoke: opens every engine through lib, writes, dumps. Not a property driver.
package main

import (
	"context"
	"fmt"
	"os"

	"kbverif/lib"
)

func main() {
	lib.QuietLogs()
	scratch := "/var/tmp/kbverif.smoke"
	os.MkdirAll(scratch, 0o755)
	defer os.RemoveAll(scratch)
	for _, e := range []string{lib.EngMem, lib.EngBadger, lib.EngTiKV, lib.EngWrapMem, lib.EngWrapBadger} {
		kv, cl, err := lib.NewEngine(e, scratch)
		if err != nil {
			fmt.Println(e, "ERR", err)
			continue
		}
		b := kv.BeginBatchWrite()
		b.PutIfNotExist([]byte("a"), []byte("1"), 0)
		b.Put([]byte("b"), []byte("2"), 0)
		fmt.Println(e, "commit", b.Commit(context.Background()))
		d, err := lib.Dump(kv)
		fmt.Println(e, lib.CoqDump(d), err)
		cl()
	}
}
