// smoke2: exercises lib.Sched + lib.Wrap gating on a real Backend. Not a property driver.
package main

import (
	"context"
	"fmt"
	"time"

	proto "github.com/kubewharf/kubebrain-client/api/v2rpc"

	"github.com/kubewharf/kubebrain/pkg/backend"

	"kbverif/lib"
)

func main() {
	lib.QuietLogs()
	backend.VerifYieldHook = func(p string) {
		if p == "seq.idle" {
			time.Sleep(50 * time.Microsecond)
		}
	}
	kv, cl, _ := lib.NewEngine(lib.EngMem, "/var/tmp/schedtest")
	defer cl()
	s := lib.NewSched()
	w := &lib.Wrap{KvStorage: kv, Before: s.GateBefore("iter", "get", "batch")}
	b := backend.NewBackend(w, backend.Config{Prefix: "/r", Identity: "x"}, &lib.NopMetrics{})
	b.SetCurrentRevision(1000)
	ctx := context.Background()
	res := make([]string, 2)
	mk := func(i int) func() {
		return func() {
			r, err := b.Create(ctx, &proto.CreateRequest{Key: []byte("/r/a"), Value: []byte(fmt.Sprintf("v%d", i))})
			res[i] = fmt.Sprintf("%v %v", r, err)
		}
	}
	t0 := s.Go("t0", mk(0))
	t1 := s.Go("t1", mk(1))
	for _, t := range []*lib.Thread{t0, t1, t0, t1, t0, t1, t0, t1} {
		p, done := s.Step(t, 500*time.Millisecond)
		fmt.Println(t.Name, p, done)
	}
	fmt.Println(res)
	ok := lib.WaitUntil(time.Second, func() bool { return b.GetCurrentRevision() == 1002 })
	fmt.Println("caught up", ok, b.GetCurrentRevision())
	d, _ := lib.Dump(kv)
	fmt.Println(lib.CoqDump(d))
}
