package main

// Part 2n: interleavings of THREE follower reads on the real revision syncer, replayed on Model/RolesN.v (nrun_code 3).
//
// The gates are those of the two-read schedules ("sync" before the single flight, the /status handler's enter and reply,
// "set" inside SetCurrentRevision = inside the syncer's critical section, "list" before the scan).  What the gates cannot
// decide is left out of the generated schedules (the model allows it, the theorems cover it, the driver cannot force it):
//   - which of several goroutines waiting for syncMu gets it            -> at most one read waits for the mutex at a time,
//     and the waiter's step follows the release at once (as the runtime hands the mutex over at once);
//   - which of several joiners of a flight owns the next flight          -> at most one read has joined the flight in progress;
//   - there is no gate between the reply of a fetch and the mutex, nor between the end of a flight and the joiner's next
//     singleflight call                                                   -> those steps follow the reply at once.
// A consequence of the last two: no read joins two flights.  (A read joining a SECOND flight would, in the code, accept that
// flight's value when the flight started after the read's arrival; Model/RolesN.v makes every joiner fetch again.)

import (
	"context"
	"fmt"
	"strings"
	"sync/atomic"
	"time"

	"go.etcd.io/etcd/api/v3/etcdserverpb"

	"kbverif/lib"
)

const nReads = 3

type nlabel struct {
	adv bool
	t   int
}

func (l nlabel) coq() string {
	if l.adv {
		return "NAdv"
	}
	return lib.App("NStep", lib.Nat(l.t))
}

const (
	qInit = iota
	qBegun
	qWait
	qHandled
	qJoined
	qGot
	qBlocked
	qInstalling
	qSet
	qDone
)

// the mirror of Model/RolesN.v nstep true (restricted to the schedules described above)
type nmirror struct {
	pc      [nReads]int
	val     [nReads]uint64
	refetch [nReads]bool
	leader  uint64
	synced  uint64
	owner   int
	mutex   int
}

func newMirror(leader uint64) *nmirror { return &nmirror{leader: leader, owner: -1, mutex: -1} }

func (m *nmirror) count(pc int) int {
	n := 0
	for _, p := range m.pc {
		if p == pc {
			n++
		}
	}
	return n
}

func (m *nmirror) which(pc int) int {
	for i, p := range m.pc {
		if p == pc {
			return i
		}
	}
	return -1
}

// may the generator schedule thread t now?
func (m *nmirror) enabled(t int) bool {
	switch m.pc[t] {
	case qDone, qJoined, qBlocked:
		return false
	case qBegun:
		return m.owner < 0 || m.count(qJoined) == 0
	case qHandled:
		// the owner goes for the mutex right after the reply: it may have to wait, and only one read may wait
		return !(m.mutex >= 0 && m.count(qBlocked) > 0)
	}
	return true
}

func (m *nmirror) lock(u int) {
	switch {
	case m.mutex >= 0:
		m.pc[u] = qBlocked
	case m.val[u] > m.synced:
		m.mutex = u
		m.pc[u] = qInstalling
	default:
		m.pc[u] = qSet
	}
}

// one model step of thread t; returns the labels that must follow at once (canonical continuation)
func (m *nmirror) step(t int) []int {
	switch m.pc[t] {
	case qInit:
		m.pc[t] = qBegun
	case qBegun:
		m.refetch[t] = false
		if m.owner < 0 {
			m.owner = t
			m.pc[t] = qWait
		} else {
			m.pc[t] = qJoined
		}
	case qWait:
		m.pc[t] = qHandled
		m.val[t] = m.leader
	case qHandled:
		m.pc[t] = qGot
		if m.owner == t {
			m.owner = -1
		}
		follow := []int{t}
		if j := m.which(qJoined); j >= 0 {
			m.pc[j] = qBegun
			m.refetch[j] = true
			follow = append(follow, j)
		}
		return follow
	case qGot, qBlocked:
		m.lock(t)
	case qInstalling:
		m.synced = m.val[t]
		m.mutex = -1
		m.pc[t] = qSet
		if o := m.which(qBlocked); o >= 0 {
			return []int{o}
		}
	case qSet:
		m.pc[t] = qDone
	}
	return nil
}

func genSchedule3(r *lib.Rand, nAdv int) []nlabel {
	m := newMirror(10)
	var ls []nlabel
	var run func(t int)
	run = func(t int) {
		ls = append(ls, nlabel{t: t})
		for _, f := range m.step(t) {
			run(f)
		}
	}
	anyEnabled := func() bool {
		for t := 0; t < nReads; t++ {
			if m.enabled(t) {
				return true
			}
		}
		return false
	}
	// a bias per schedule: which thread tends to run (gives long solo stretches as well as fine interleavings)
	bias := r.Intn(nReads + 1)
	for anyEnabled() {
		if nAdv > 0 && r.Chance(1, 5) {
			ls = append(ls, nlabel{adv: true})
			m.leader++
			nAdv--
			continue
		}
		t := r.Intn(nReads)
		if bias < nReads && r.Chance(1, 2) {
			t = bias
		}
		for !m.enabled(t) {
			t = (t + 1) % nReads
		}
		run(t)
	}
	return ls
}

// scripted: a schedule from explicit picks (thread index, or -1 = the leader commits); the canonical followers are added
func scripted(picks []int) []nlabel {
	m := newMirror(10)
	var ls []nlabel
	var run func(t int)
	run = func(t int) {
		ls = append(ls, nlabel{t: t})
		for _, f := range m.step(t) {
			run(f)
		}
	}
	for _, p := range picks {
		if p < 0 {
			ls = append(ls, nlabel{adv: true})
			m.leader++
			continue
		}
		if !m.enabled(p) {
			panic(fmt.Sprintf("c18: scripted three-read schedule: thread %d is not enabled", p))
		}
		run(p)
	}
	for t := 0; t < nReads; t++ {
		if m.pc[t] != qDone {
			panic("c18: scripted three-read schedule does not finish every read")
		}
	}
	return ls
}

// three reads in a chain of flights with the mutex contended: 0 fetches 30 and is inside SetCurrentRevision; the leader
// moves on; 1 owns the next flight, 2 joins it; 1 gets 32 and waits for the mutex, 2 fetches again; 0 finishes, 1 installs
// 32; 2 gets 33 and installs it; 0 scans last and is served at 33.
func witnessThreeChain() []nlabel {
	return scripted([]int{0, 0, 0, 0, -1, -1, 1, 1, 2, 2, 1, -1, 1, 0, 1, 2, 2, 2, 0, 1, 2})
}

// equal revisions are dropped: 0 is inside SetCurrentRevision(30), 1 fetches 30 as well and waits for the mutex, 2's
// request is answered 30; 0 finishes, 1's and 2's revisions are not larger than what is installed: one set, all at 30.
func witnessThreeDrop() []nlabel {
	return scripted([]int{0, 0, 0, 0, 1, 1, 1, 1, 2, 2, 2, 0, 2, 1, 2, 0})
}

// runSchedule3 executes the labels on the real code under the mirror's expectations.  Anything unexpected is a failure
// (the case is emitted with what was observed, the threads are drained).
func (s *sut) runSchedule3(ls []nlabel) ([nReads]*tstate, []string, uint64, string) {
	s.configure(config{leader: false, proxy: false, reach: "ok"})
	atomic.StoreUint64(&s.st.rev, sched0)
	atomic.StoreInt32(&s.st.gated, 1)
	defer atomic.StoreInt32(&s.st.gated, 0)
	var ts [nReads]*tstate
	for i := range ts {
		ts[i] = &tstate{pc: "init"}
	}
	m := newMirror(sched0)
	d := 2 * time.Second
	fail := ""
	// after the model's lock step of thread u: where must the real thread be?
	afterLock := func(u int) {
		t := ts[u]
		switch m.pc[u] {
		case qBlocked:
			select {
			case p := <-t.th.arrive:
				t.th.parked = true
				fail = "thread expected to wait for the mutex arrived at " + p
			case <-time.After(30 * time.Millisecond):
			}
		case qInstalling:
			if p, ok := waitPoint(t.th, "set", d); !ok {
				fail = "thread expected inside SetCurrentRevision arrived at " + p
			}
		case qSet:
			if p, ok := waitPoint(t.th, "list", d); !ok {
				fail = "thread whose revision is dropped did not reach List: " + p
			}
		}
	}
	for _, l := range ls {
		if fail != "" {
			break
		}
		if l.adv {
			atomic.AddUint64(&s.st.rev, 1)
			m.leader++
			continue
		}
		i := l.t
		t := ts[i]
		before := m.pc[i]
		refetch := m.refetch[i]
		hadOwner := m.owner >= 0
		m.step(i) // the canonical followers are labels of their own in ls
		switch before {
		case qInit:
			t.begin = atomic.LoadUint64(&s.st.rev)
			th := &gthread{name: fmt.Sprint(i), arrive: make(chan string, 1), release: make(chan struct{}), done: make(chan struct{})}
			t.th = th
			ready := make(chan struct{})
			go func() {
				id := lib.GoID()
				gmu.Lock()
				gthreads[id] = th
				gmu.Unlock()
				close(ready)
				ctx, cancel := context.WithTimeout(context.Background(), 20*time.Second)
				defer cancel()
				t.resp, t.err = s.etcd.Range(ctx, &etcdserverpb.RangeRequest{Key: []byte("/c18/"), RangeEnd: []byte("/c180")})
				gmu.Lock()
				delete(gthreads, id)
				gmu.Unlock()
				close(th.done)
			}()
			<-ready
			if p, ok := waitPoint(th, "sync", d); !ok {
				fail = "thread did not reach the sync point: " + p
			}
		case qBegun:
			if refetch {
				// past the sync gate: the joiner of a flight that had started before it arrived calls the single flight
				// again by itself and must come back with a fetch of its own
				select {
				case <-s.st.enter:
				case p := <-t.th.arrive:
					t.th.parked = true
					fail = "a read that joined an older fetch did not fetch again (reached " + p + ")"
				case <-time.After(d):
					fail = "a read that joined an older fetch did not fetch again"
				}
				break
			}
			t.th.rel()
			if !hadOwner {
				select {
				case <-s.st.enter:
				case <-time.After(d):
					fail = "no /status request arrived"
				}
			} else {
				time.Sleep(3 * time.Millisecond)
				select {
				case <-s.st.enter:
					fail = "a second /status request arrived: the thread did not join the flight"
				default:
				}
				t.joined = true
			}
		case qWait:
			s.st.goEnter <- struct{}{}
			select {
			case v := <-s.st.handled:
				t.val = v
				if v != m.val[i] {
					fail = fmt.Sprintf("the handler read %d, the mirror has %d", v, m.val[i])
				}
			case <-time.After(d):
				fail = "handler did not read the revision"
			}
		case qHandled:
			s.st.goReply <- struct{}{}
			for j := range ts {
				if m.refetch[j] {
					ts[j].joined = false
				}
			}
		case qGot, qBlocked:
			afterLock(i)
		case qInstalling:
			t.th.rel()
			if p, ok := waitPoint(t.th, "list", d); !ok {
				fail = "thread did not reach List after SetCurrentRevision: " + p
			}
		case qSet:
			t.th.rel()
			if p, ok := waitPoint(t.th, "done", d); !ok {
				fail = "thread did not finish: " + p
				break
			}
			t.pc = "done"
			if t.err == nil && t.resp != nil && t.resp.Header != nil {
				t.scan = uint64(t.resp.Header.Revision)
			} else {
				fail = fmt.Sprintf("read failed: %v", t.err)
			}
		}
	}
	if fail != "" {
		var ths []*gthread
		for _, t := range ts {
			if t.th != nil {
				ths = append(ths, t.th)
			}
		}
		s.drain(ths...)
		for _, t := range ts {
			if t.th == nil || t.pc == "done" {
				continue
			}
			select {
			case <-t.th.done:
				t.pc = "done"
				if t.err == nil && t.resp != nil && t.resp.Header != nil {
					t.scan = uint64(t.resp.Header.Revision)
				}
			default:
			}
		}
	}
	var sets []string
	for _, c := range s.rec.take() {
		if strings.HasPrefix(c, "set:") {
			sets = append(sets, c)
		}
	}
	quiesce()
	return ts, sets, s.inner.GetCurrentRevision(), fail
}

// runThreeReadSchedules: the witnesses, then n generated schedules; returns how many could not be realised
func (s *sut) runThreeReadSchedules(w *lib.Writer, rnd *lib.Rand, n int) int {
	scheds := [][]nlabel{witnessThreeChain(), witnessThreeDrop()}
	kinds := []string{"corpus-three-chain", "corpus-three-drop"}
	for i := 0; i < n; i++ {
		scheds = append(scheds, genSchedule3(rnd, rnd.Intn(5)))
		kinds = append(kinds, "schedule-3")
	}
	unrealised := 0
	for i, ls := range scheds {
		if unrealised >= 3 {
			break
		}
		var ts [nReads]*tstate
		var sets []string
		var frevEnd uint64
		fail := ""
		for attempt := 0; attempt < 2; attempt++ {
			ts, sets, frevEnd, fail = s.runSchedule3(ls)
			if fail == "" {
				break
			}
			time.Sleep(20 * time.Millisecond)
		}
		lc := make([]string, len(ls))
		for k, l := range ls {
			lc[k] = l.coq()
		}
		var setc []string
		for _, c := range sets {
			var before, v uint64
			fmt.Sscanf(c, "set:%d:%d", &before, &v)
			setc = append(setc, lib.Pair(lib.N(before), lib.N(v)))
		}
		oc := "fresh-3"
		var obs []string
		reads := map[string]interface{}{}
		for k, t := range ts {
			if t.pc == "done" && t.scan < t.begin {
				oc = "stale-read-3"
			}
			obs = append(obs, lib.App("TObs", lib.Bool(t.pc == "done"), lib.N(t.begin), lib.N(t.scan), lib.Bool(t.joined)))
			reads[fmt.Sprint(k)] = map[string]interface{}{"begin": t.begin, "scan": t.scan, "joined": t.joined, "pc": t.pc}
		}
		j := map[string]interface{}{"schedule": strings.Join(lc, " "), "sets": sets, "reads": reads, "frev_end": frevEnd}
		w.Add(lib.Case{Kind: kinds[i], Coq: lib.App("SchedNCase", lib.Nat(nReads), lib.N(sched0), lib.N(baseRev), lib.List(lc), lib.List(obs), lib.List(setc), lib.N(frevEnd)),
			JSON: j, Outcomes: []string{oc}, Trivial: len(ls) < 12})
		if fail != "" {
			unrealised++
			w.Fail(lib.ImplFailure{CaseID: w.Len() - 1, What: "three-read schedule could not be realised on the real code: " + fail, Case: j})
		}
	}
	return unrealised
}
