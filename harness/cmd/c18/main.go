// Driver c18: the real etcd.RPCServer and brain.Server over a recording backend, with a scripted
// PeerService (leader stub, the real revision syncer against an in-process /status server that can
// answer, refuse the connection, return 400 or garbage, and a recording forwarder in place of the
// etcd proxy).  Part 1 enumerates every request kind x role x proxy x leader reachability.  Part 2
// replays interleavings of two follower reads by gating the /status replies, SetCurrentRevision and
// the scan.  Part 3 exercises the /status handler of server.NewServer and the 60 s compaction loop.
package main

import (
	"context"
	"encoding/json"
	"fmt"
	"io"
	"net"
	"net/http"
	"os"
	"strings"
	"sync"
	"sync/atomic"
	"time"

	"go.etcd.io/etcd/api/v3/etcdserverpb"
	"go.etcd.io/etcd/api/v3/mvccpb"
	"github.com/soheilhy/cmux"
	"google.golang.org/grpc"
	"google.golang.org/grpc/codes"
	"google.golang.org/grpc/status"
	metav1 "k8s.io/apimachinery/pkg/apis/meta/v1"
	"k8s.io/client-go/tools/leaderelection/resourcelock"

	proto "github.com/kubewharf/kubebrain-client/api/v2rpc"

	"github.com/kubewharf/kubebrain/pkg/backend"
	"github.com/kubewharf/kubebrain/pkg/metrics"
	"github.com/kubewharf/kubebrain/pkg/server"
	"github.com/kubewharf/kubebrain/pkg/server/brain"
	"github.com/kubewharf/kubebrain/pkg/server/etcd"
	"github.com/kubewharf/kubebrain/pkg/server/service"
	"github.com/kubewharf/kubebrain/pkg/server/service/etcdproxy"
	"github.com/kubewharf/kubebrain/pkg/server/service/leader"
	"github.com/kubewharf/kubebrain/pkg/server/service/revision"

	"kbverif/lib"
)

// ---------- gates: named blocking points for registered goroutines ----------

type gthread struct {
	name    string
	arrive  chan string
	release chan struct{}
	done    chan struct{}
	parked  bool // driver-side: the thread has arrived at a gate and has not been released yet
}

func (t *gthread) rel() {
	t.parked = false
	t.release <- struct{}{}
}

var (
	gmu      sync.Mutex
	gthreads = map[int64]*gthread{}
)

func gate(point string) {
	id := lib.GoID()
	gmu.Lock()
	t := gthreads[id]
	gmu.Unlock()
	if t == nil {
		return
	}
	t.arrive <- point
	<-t.release
}

// ---------- recording backend ----------

type recBackend struct {
	inner       backend.Backend
	mu          sync.Mutex
	calls       []string // "mutate:Create", "watch:Watch", "read:List@<rev>", "set:<v>"
	swallowCompact bool
	lock        resourcelock.Interface // when set, replaces the resource lock
}

func (r *recBackend) log(s string) {
	r.mu.Lock()
	r.calls = append(r.calls, s)
	r.mu.Unlock()
}
func (r *recBackend) take() []string {
	r.mu.Lock()
	defer r.mu.Unlock()
	c := r.calls
	r.calls = nil
	return c
}
func (r *recBackend) Create(ctx context.Context, q *proto.CreateRequest) (*proto.CreateResponse, error) {
	r.log("mutate:Create")
	return r.inner.Create(ctx, q)
}
func (r *recBackend) Update(ctx context.Context, q *proto.UpdateRequest) (*proto.UpdateResponse, error) {
	r.log("mutate:Update")
	return r.inner.Update(ctx, q)
}
func (r *recBackend) Delete(ctx context.Context, q *proto.DeleteRequest) (*proto.DeleteResponse, error) {
	r.log("mutate:Delete")
	return r.inner.Delete(ctx, q)
}
func (r *recBackend) Compact(ctx context.Context, rev uint64) (*proto.CompactResponse, error) {
	r.log("mutate:Compact")
	// never forwarded: a real compaction would change what later reads may ask for
	return &proto.CompactResponse{Header: &proto.ResponseHeader{Revision: rev}}, nil
}
func (r *recBackend) Get(ctx context.Context, q *proto.GetRequest) (*proto.GetResponse, error) {
	r.log(fmt.Sprintf("read:Get@%d", r.inner.GetCurrentRevision()))
	return r.inner.Get(ctx, q)
}
func (r *recBackend) List(ctx context.Context, q *proto.RangeRequest) (*proto.RangeResponse, error) {
	gate("list")
	r.log(fmt.Sprintf("read:List@%d", r.inner.GetCurrentRevision()))
	return r.inner.List(ctx, q)
}
func (r *recBackend) Count(ctx context.Context, q *proto.CountRequest) (*proto.CountResponse, error) {
	r.log(fmt.Sprintf("read:Count@%d", r.inner.GetCurrentRevision()))
	return r.inner.Count(ctx, q)
}
func (r *recBackend) GetPartitions(ctx context.Context, q *proto.ListPartitionRequest) (*proto.ListPartitionResponse, error) {
	r.log(fmt.Sprintf("read:GetPartitions@%d", r.inner.GetCurrentRevision()))
	return r.inner.GetPartitions(ctx, q)
}
func (r *recBackend) ListByStream(ctx context.Context, s, e []byte, rev uint64) (<-chan *proto.StreamRangeResponse, error) {
	r.log(fmt.Sprintf("read:ListByStream@%d", r.inner.GetCurrentRevision()))
	return r.inner.ListByStream(ctx, s, e, rev)
}
func (r *recBackend) Watch(ctx context.Context, key string, rev uint64) (<-chan []*proto.Event, error) {
	r.log("watch:Watch")
	return r.inner.Watch(ctx, key, rev)
}
func (r *recBackend) GetResourceLock() resourcelock.Interface {
	if r.lock != nil {
		return r.lock
	}
	return r.inner.GetResourceLock()
}
func (r *recBackend) GetCurrentRevision() uint64 { return r.inner.GetCurrentRevision() }
func (r *recBackend) SetCurrentRevision(v uint64) {
	gate("set")
	r.log(fmt.Sprintf("set:%d:%d", r.inner.GetCurrentRevision(), v))
	r.inner.SetCurrentRevision(v)
}

// a resource lock nobody can take: the node stays a follower
type deadLock struct{}

func (deadLock) Get() (*resourcelock.LeaderElectionRecord, error) {
	return nil, fmt.Errorf("lock storage unavailable")
}
func (deadLock) Create(resourcelock.LeaderElectionRecord) error { return fmt.Errorf("lock storage unavailable") }
func (deadLock) Update(resourcelock.LeaderElectionRecord) error { return fmt.Errorf("lock storage unavailable") }
func (deadLock) RecordEvent(string)                              {}
func (deadLock) Identity() string                                { return "c18-follower" }
func (deadLock) Describe() string                                { return "nobody,0" }

var _ = metav1.Now

// ---------- recording forwarder (in place of the etcd proxy) ----------

type recProxy struct {
	enabled  bool
	disabled etcdproxy.EtcdProxy
	mu       sync.Mutex
	calls    []string
}

func (p *recProxy) EtcdProxyEnabled() bool { return p.enabled }
func (p *recProxy) Txn(ctx context.Context, t *etcdserverpb.TxnRequest) (*etcdserverpb.TxnResponse, error) {
	p.mu.Lock()
	p.calls = append(p.calls, "txn")
	p.mu.Unlock()
	if !p.enabled {
		return p.disabled.Txn(ctx, t)
	}
	return &etcdserverpb.TxnResponse{Header: &etcdserverpb.ResponseHeader{}, Succeeded: true}, nil
}
func (p *recProxy) Watch(ctx context.Context, key string, rev uint64) (<-chan []*mvccpb.Event, error) {
	p.mu.Lock()
	p.calls = append(p.calls, "watch")
	p.mu.Unlock()
	if !p.enabled {
		return p.disabled.Watch(ctx, key, rev)
	}
	ch := make(chan []*mvccpb.Event)
	go func() { <-ctx.Done(); close(ch) }()
	return ch, nil
}
func (p *recProxy) take() []string {
	p.mu.Lock()
	defer p.mu.Unlock()
	c := p.calls
	p.calls = nil
	return c
}

// ---------- scripted peer service ----------

type peers struct {
	*leader.Stub
	revision.RevisionSyncer
	*recProxy
}

// ---------- the /status endpoint of the "leader" ----------

type statusSrv struct {
	addr     string
	deadAddr string
	mode     atomic.Value // "ok" | "400" | "garbage"
	rev      uint64       // what an "ok" answer reports (atomic)
	hits     int64
	gated    int32 // when 1, every request blocks at "enter" and "reply" until released
	enter    chan struct{}
	goEnter  chan struct{}
	handled  chan uint64
	goReply  chan struct{}
}

func newStatusSrv() (*statusSrv, error) {
	s := &statusSrv{enter: make(chan struct{}, 4), goEnter: make(chan struct{}), handled: make(chan uint64, 4), goReply: make(chan struct{})}
	s.mode.Store("ok")
	ln, err := net.Listen("tcp", "127.0.0.1:0")
	if err != nil {
		return nil, err
	}
	s.addr = ln.Addr().String()
	mux := http.NewServeMux()
	mux.HandleFunc("/status", func(w http.ResponseWriter, req *http.Request) {
		atomic.AddInt64(&s.hits, 1)
		if atomic.LoadInt32(&s.gated) == 1 {
			s.enter <- struct{}{}
			<-s.goEnter
		}
		switch s.mode.Load().(string) {
		case "400":
			w.WriteHeader(400)
			w.Write([]byte("i'm not leader, so can't tell you revision"))
		case "garbage":
			w.WriteHeader(200)
			w.Write([]byte("<html>it works</html>"))
		default:
			rev := atomic.LoadUint64(&s.rev) // the leader reads its committed revision here
			if atomic.LoadInt32(&s.gated) == 1 {
				s.handled <- rev
				<-s.goReply
			}
			w.WriteHeader(200)
			b, _ := json.Marshal(&revision.LeaderRevision{Revision: rev})
			w.Write(b)
		}
	})
	go http.Serve(ln, mux)
	// an address nobody listens on
	l2, err := net.Listen("tcp", "127.0.0.1:0")
	if err != nil {
		return nil, err
	}
	s.deadAddr = l2.Addr().String()
	l2.Close()
	return s, nil
}

// ---------- in-memory brain streams ----------

type memRangeStream struct {
	lib.MemStream
	n int64
}

func (m *memRangeStream) Send(*proto.StreamRangeResponse) error { atomic.AddInt64(&m.n, 1); return nil }

type memBrainWatch struct {
	lib.MemStream
	n int64
}

func (m *memBrainWatch) Send(*proto.WatchResponse) error { atomic.AddInt64(&m.n, 1); return nil }

// ---------- system under test ----------

type sut struct {
	peers   *peers
	inner   backend.Backend
	rec     *recBackend
	stub    *leader.Stub
	proxy   *recProxy
	st      *statusSrv
	m       *lib.NopMetrics
	fetches int64
	etcd    *etcd.RPCServer
	brain   *brain.Server
	syncer  revision.RevisionSyncer
}

// the follower's local read revision is above 1888 so that Revision == 1888 (the partition magic) is a past revision
const startRev = 3000

// per case (set by configure): the follower's read revision when the case starts, what the leader's /status reports,
// and the leader's revision at the start of a schedule.  The read revision of a backend only moves forward
// (tso.Commit raises), so a case does not reset it: it takes it as it finds it, once the sequencer is quiet.
var baseRev, leaderRev, sched0 uint64 = startRev, startRev + 50, startRev + 10

var mainSeq, idlePolls int64

// quiesce waits until the sequencer of the system under test has found its next slot empty twice
func quiesce() {
	c := atomic.LoadInt64(&idlePolls)
	lib.WaitUntil(2*time.Second, func() bool { return atomic.LoadInt64(&idlePolls) >= c+2 })
}

func newSut(scratch string) (*sut, error) {
	kv, _, err := lib.NewEngine(lib.EngMem, scratch)
	if err != nil {
		return nil, err
	}
	s := &sut{}
	s.m = &lib.NopMetrics{Hook: func(kind, name string, tags []metrics.T) {
		switch name {
		case "follower.getleader":
			atomic.AddInt64(&s.fetches, 1)
		case "read.follower":
			gate("sync")
		}
	}}
	s.inner = backend.NewBackend(kv, backend.Config{Prefix: "/registry", Identity: "c18", EnableEtcdCompatibility: true}, &lib.NopMetrics{})
	s.inner.SetCurrentRevision(startRev)
	s.rec = &recBackend{inner: s.inner}
	s.st, err = newStatusSrv()
	if err != nil {
		return nil, err
	}
	s.stub = &leader.Stub{ElectionInfo: leader.ElectionInfo{LeaderAddress: s.st.addr, IsLeader: true}}
	s.proxy = &recProxy{disabled: etcdproxy.NewDisabledEtcdProxy()}
	s.syncer = revision.NewRevisionSyncer(s.rec, s.m, s.stub, nil)
	p := &peers{Stub: s.stub, RevisionSyncer: s.syncer, recProxy: s.proxy}
	s.peers = p
	s.etcd = etcd.New(s.rec, s.m, p)
	s.brain = brain.New(s.rec, s.m, p)
	return s, nil
}

type config struct {
	leader bool
	proxy  bool
	reach  string // ok | unreachable | 400 | garbage
}

func (s *sut) configure(c config) {
	s.stub.ElectionInfo.IsLeader = c.leader
	s.proxy.enabled = c.proxy
	s.stub.ElectionInfo.LeaderAddress = s.st.addr
	switch c.reach {
	case "unreachable":
		s.stub.ElectionInfo.LeaderAddress = s.st.deadAddr
	case "400":
		s.st.mode.Store("400")
	case "garbage":
		s.st.mode.Store("garbage")
	default:
		s.st.mode.Store("ok")
	}
	quiesce()
	baseRev = s.inner.GetCurrentRevision()
	leaderRev, sched0 = baseRev+50, baseRev+10
	atomic.StoreUint64(&s.st.rev, leaderRev)
	// ... and from a syncer that has installed nothing yet (the syncer remembers the largest revision it installed)
	_ = s.syncer.Close()
	s.syncer = revision.NewRevisionSyncer(s.rec, s.m, s.stub, nil)
	s.peers.RevisionSyncer = s.syncer
	s.rec.take()
	s.proxy.take()
	atomic.StoreInt64(&s.fetches, 0)
}

func classify(err error) string {
	if err == nil {
		return "RespOk"
	}
	if st, ok := status.FromError(err); ok && st.Code() == codes.Unavailable {
		return "RespUnavailable"
	}
	return "RespError"
}

var kinds = []string{"ERangeGet", "ERangeList", "ERangeCount", "ERangePartition", "ETxnCreate", "ETxnDelete", "ETxnUpdate", "ETxnCompact", "ETxnInvalid",
	"EWatchPure", "EWatchStream", "EWatchInvalidKey", "ECompact", "EPut", "EDeleteRange", "ELeaseGrant", "ELeaseRevoke", "EMemberList",
	"BCreate", "BUpdate", "BDelete", "BCompact", "BGet", "BRange", "BCount", "BListPartition", "BRangeStream", "BWatch",
	"ELeaseKeepAlive", "ELeaseTimeToLive", "ELeaseLeases", "EMemberAdd", "EMemberRemove", "EMemberUpdate", "EMemberPromote"}

var rmodes = []string{"MGet", "MList", "MCount"}
var revsels = []string{"RvPinned", "RvCurrent", "RvFuture", "RvMagic"}

func init() {
	for _, m := range rmodes {
		for _, v := range revsels {
			kinds = append(kinds, "(ERangeAt "+m+" "+v+")")
		}
	}
}

// revisionFor: the Revision field of an explicit-revision read, relative to the node's current read revision
func revisionFor(sel string, cur uint64) int64 {
	switch sel {
	case "RvPinned":
		return int64(cur) - 10
	case "RvCurrent":
		return int64(cur)
	case "RvFuture":
		return int64(cur) + 5
	}
	return etcd.GetPartitionMagic
}

func rangeAt(mode, sel string, cur uint64, k []byte) *etcdserverpb.RangeRequest {
	lo, hi := []byte("/c18/"), []byte("/c180")
	rv := revisionFor(sel, cur)
	switch mode {
	case "MGet":
		return &etcdserverpb.RangeRequest{Key: k, Revision: rv}
	case "MList":
		return &etcdserverpb.RangeRequest{Key: lo, RangeEnd: hi, Revision: rv}
	}
	return &etcdserverpb.RangeRequest{Key: lo, RangeEnd: hi, CountOnly: true, Revision: rv}
}

var keySeq int64

func cmpMod(k []byte, rev int64) *etcdserverpb.Compare {
	return &etcdserverpb.Compare{Target: etcdserverpb.Compare_MOD, Result: etcdserverpb.Compare_EQUAL, Key: k,
		TargetUnion: &etcdserverpb.Compare_ModRevision{ModRevision: rev}}
}
func rqPut(k, v []byte) *etcdserverpb.RequestOp {
	return &etcdserverpb.RequestOp{Request: &etcdserverpb.RequestOp_RequestPut{RequestPut: &etcdserverpb.PutRequest{Key: k, Value: v}}}
}
func rqGet(k []byte) *etcdserverpb.RequestOp {
	return &etcdserverpb.RequestOp{Request: &etcdserverpb.RequestOp_RequestRange{RequestRange: &etcdserverpb.RangeRequest{Key: k}}}
}
func rqDel(k []byte) *etcdserverpb.RequestOp {
	return &etcdserverpb.RequestOp{Request: &etcdserverpb.RequestOp_RequestDeleteRange{RequestDeleteRange: &etcdserverpb.DeleteRangeRequest{Key: k}}}
}

// invoke runs one request of the given kind and returns the response class.
func (s *sut) invoke(kind string) string {
	ctx, cancel := context.WithTimeout(context.Background(), 5*time.Second)
	defer cancel()
	k := []byte(fmt.Sprintf("/c18/k%d", atomic.AddInt64(&keySeq, 1)))
	lo, hi := []byte("/c18/"), []byte("/c180")
	if strings.HasPrefix(kind, "(ERangeAt ") {
		f := strings.Fields(strings.Trim(kind, "()"))
		_, err := s.etcd.Range(ctx, rangeAt(f[1], f[2], s.inner.GetCurrentRevision(), k))
		return classify(err)
	}
	switch kind {
	case "ERangeGet":
		_, err := s.etcd.Range(ctx, &etcdserverpb.RangeRequest{Key: k})
		return classify(err)
	case "ERangeList":
		_, err := s.etcd.Range(ctx, &etcdserverpb.RangeRequest{Key: lo, RangeEnd: hi})
		return classify(err)
	case "ERangeCount":
		_, err := s.etcd.Range(ctx, &etcdserverpb.RangeRequest{Key: lo, RangeEnd: hi, CountOnly: true})
		return classify(err)
	case "ERangePartition":
		_, err := s.etcd.Range(ctx, &etcdserverpb.RangeRequest{Key: lo, RangeEnd: hi, Revision: etcd.GetPartitionMagic})
		return classify(err)
	case "ETxnCreate":
		_, err := s.etcd.Txn(ctx, &etcdserverpb.TxnRequest{Compare: []*etcdserverpb.Compare{cmpMod(k, 0)}, Success: []*etcdserverpb.RequestOp{rqPut(k, []byte("v"))}})
		return classify(err)
	case "ETxnDelete":
		_, err := s.etcd.Txn(ctx, &etcdserverpb.TxnRequest{Compare: []*etcdserverpb.Compare{cmpMod(k, 7)}, Success: []*etcdserverpb.RequestOp{rqDel(k)}, Failure: []*etcdserverpb.RequestOp{rqGet(k)}})
		return classify(err)
	case "ETxnUpdate":
		_, err := s.etcd.Txn(ctx, &etcdserverpb.TxnRequest{Compare: []*etcdserverpb.Compare{cmpMod(k, 7)}, Success: []*etcdserverpb.RequestOp{rqPut(k, []byte("v"))}, Failure: []*etcdserverpb.RequestOp{rqGet(k)}})
		return classify(err)
	case "ETxnCompact":
		ck := []byte("compact_rev_key")
		_, err := s.etcd.Txn(ctx, &etcdserverpb.TxnRequest{Compare: []*etcdserverpb.Compare{{Target: etcdserverpb.Compare_VERSION, Result: etcdserverpb.Compare_EQUAL, Key: ck,
			TargetUnion: &etcdserverpb.Compare_Version{Version: 0}}}, Success: []*etcdserverpb.RequestOp{rqPut(ck, []byte("1"))}, Failure: []*etcdserverpb.RequestOp{rqGet(ck)}})
		return classify(err)
	case "ETxnInvalid":
		_, err := s.etcd.Txn(ctx, &etcdserverpb.TxnRequest{Success: []*etcdserverpb.RequestOp{rqPut(k, []byte("v"))}})
		return classify(err)
	case "EWatchPure", "EWatchStream", "EWatchInvalidKey":
		return s.etcdWatch(kind)
	case "ECompact":
		_, err := s.etcd.Compact(ctx, &etcdserverpb.CompactionRequest{Revision: 5})
		return classify(err)
	case "EPut":
		_, err := s.etcd.Put(ctx, &etcdserverpb.PutRequest{Key: k, Value: []byte("v")})
		return classify(err)
	case "EDeleteRange":
		_, err := s.etcd.DeleteRange(ctx, &etcdserverpb.DeleteRangeRequest{Key: k})
		return classify(err)
	case "ELeaseGrant":
		_, err := s.etcd.LeaseGrant(ctx, &etcdserverpb.LeaseGrantRequest{TTL: 60})
		return classify(err)
	case "ELeaseRevoke":
		_, err := s.etcd.LeaseRevoke(ctx, &etcdserverpb.LeaseRevokeRequest{ID: 60})
		return classify(err)
	case "EMemberList":
		_, err := s.etcd.MemberList(ctx, &etcdserverpb.MemberListRequest{})
		return classify(err)
	case "ELeaseKeepAlive":
		return classify(s.etcd.LeaseKeepAlive(nil))
	case "ELeaseTimeToLive":
		_, err := s.etcd.LeaseTimeToLive(ctx, &etcdserverpb.LeaseTimeToLiveRequest{ID: 60})
		return classify(err)
	case "ELeaseLeases":
		_, err := s.etcd.LeaseLeases(ctx, &etcdserverpb.LeaseLeasesRequest{})
		return classify(err)
	case "EMemberAdd":
		_, err := s.etcd.MemberAdd(ctx, &etcdserverpb.MemberAddRequest{})
		return classify(err)
	case "EMemberRemove":
		_, err := s.etcd.MemberRemove(ctx, &etcdserverpb.MemberRemoveRequest{})
		return classify(err)
	case "EMemberUpdate":
		_, err := s.etcd.MemberUpdate(ctx, &etcdserverpb.MemberUpdateRequest{})
		return classify(err)
	case "EMemberPromote":
		_, err := s.etcd.MemberPromote(ctx, &etcdserverpb.MemberPromoteRequest{})
		return classify(err)
	case "BCreate":
		_, err := s.brain.Create(ctx, &proto.CreateRequest{Key: k, Value: []byte("v")})
		return classify(err)
	case "BUpdate":
		_, err := s.brain.Update(ctx, &proto.UpdateRequest{Kv: &proto.KeyValue{Key: k, Value: []byte("v"), Revision: 7}})
		return classify(err)
	case "BDelete":
		_, err := s.brain.Delete(ctx, &proto.DeleteRequest{Key: k, Revision: 7})
		return classify(err)
	case "BCompact":
		_, err := s.brain.Compact(ctx, &proto.CompactRequest{Revision: 5})
		return classify(err)
	case "BGet":
		_, err := s.brain.Get(ctx, &proto.GetRequest{Key: k})
		return classify(err)
	case "BRange":
		_, err := s.brain.Range(ctx, &proto.RangeRequest{Key: lo, End: hi})
		return classify(err)
	case "BCount":
		_, err := s.brain.Count(ctx, &proto.CountRequest{Key: lo, End: hi})
		return classify(err)
	case "BListPartition":
		_, err := s.brain.ListPartition(ctx, &proto.ListPartitionRequest{Key: lo, End: hi})
		return classify(err)
	case "BRangeStream":
		ms := &memRangeStream{MemStream: lib.NewMemStream()}
		err := s.brain.RangeStream(&proto.RangeRequest{Key: lo, End: hi}, ms)
		ms.Cancel()
		return classify(err)
	case "BWatch":
		ms := &memBrainWatch{MemStream: lib.NewMemStream()}
		done := make(chan error, 1)
		go func() { done <- s.brain.Watch(&proto.WatchRequest{Key: lo}, ms) }()
		var err error
		returned := false
		lib.WaitUntil(2*time.Second, func() bool {
			select {
			case err = <-done:
				returned = true
				return true
			default:
			}
			s.rec.mu.Lock()
			defer s.rec.mu.Unlock()
			for _, c := range s.rec.calls {
				if c == "watch:Watch" {
					return true
				}
			}
			return false
		})
		ms.Cancel()
		if !returned {
			select {
			case <-done:
			case <-time.After(3 * time.Second):
				return "hang"
			}
			return "RespOk" // it was streaming until the client went away
		}
		return classify(err)
	}
	return "unknown-kind"
}

func (s *sut) etcdWatch(kind string) string {
	mw := lib.NewMemEtcdWatch()
	done := make(chan error, 1)
	go func() { done <- s.etcd.Watch(mw) }()
	req := &etcdserverpb.WatchCreateRequest{Key: []byte("/c18/"), RangeEnd: []byte("/c180")}
	switch kind {
	case "EWatchStream":
		req.StartRevision = -int64(leaderRev) // a range stream at a revision
	case "EWatchInvalidKey":
		req.Key = []byte("c18/") // no leading "/"
	}
	mw.In <- &etcdserverpb.WatchRequest{RequestUnion: &etcdserverpb.WatchRequest_CreateRequest{CreateRequest: req}}
	res := ""
	var err error
	lib.WaitUntil(3*time.Second, func() bool {
		select {
		case err = <-done:
			res = classify(err)
			return true
		default:
		}
		for _, m := range mw.Snapshot() {
			if m.Canceled {
				res = "RespError"
				return true
			}
			if kind == "EWatchStream" && m.Header != nil && m.Header.Revision == -1 {
				res = "RespOk" // end-of-stream marker of a served range stream
				return true
			}
		}
		if kind != "EWatchStream" {
			s.rec.mu.Lock()
			n := 0
			for _, c := range s.rec.calls {
				if c == "watch:Watch" {
					n++
				}
			}
			s.rec.mu.Unlock()
			s.proxy.mu.Lock()
			n += len(s.proxy.calls)
			s.proxy.mu.Unlock()
			if n > 0 {
				res = "RespOk"
				return true
			}
		}
		return false
	})
	if res == "" {
		res = "hang"
	}
	// a watch that was handed to the backend or the forwarder must not have been cancelled by the server
	time.Sleep(time.Millisecond)
	mw.Cancel()
	if err == nil {
		select {
		case <-done:
		case <-time.After(3 * time.Second):
			return "hang"
		}
	}
	return res
}

// effects renders what was observed as a Model/Roles.v effects record.
func (s *sut) effects(resp string) (string, map[string]interface{}) {
	calls := s.rec.take()
	fw := s.proxy.take()
	b := "BNone"
	set := lib.None()
	var readAt, setv []string
	nb := 0
	for _, c := range calls {
		switch {
		case strings.HasPrefix(c, "mutate:"):
			b = "BMutate"
			nb++
		case strings.HasPrefix(c, "watch:"):
			b = "BWatchCall"
			nb++
		case strings.HasPrefix(c, "read:"):
			b = "BRead"
			nb++
			readAt = append(readAt, c)
		case strings.HasPrefix(c, "set:"):
			var before, v uint64
			fmt.Sscanf(c, "set:%d:%d", &before, &v)
			set = lib.Some(lib.N(v))
			setv = append(setv, c)
		}
	}
	f := "FNone"
	if len(fw) > 0 {
		if fw[0] == "txn" {
			f = "FTxn"
		} else {
			f = "FWatch"
		}
	}
	fetched := atomic.LoadInt64(&s.fetches) > 0
	j := map[string]interface{}{"resp": resp, "backend_calls": calls, "forwarded": fw, "fetches": atomic.LoadInt64(&s.fetches), "status_hits": atomic.LoadInt64(&s.st.hits)}
	if nb > 1 || len(fw) > 1 || len(setv) > 1 {
		j["anomaly"] = "more than one backend call / forward / set for one request"
		resp = "RespAnomaly"
	}
	return lib.App("mkEff", resp, lib.Bool(fetched), set, b, f), j
}

func reachCoq(r string) string {
	switch r {
	case "ok":
		return lib.App("ReachOk", lib.N(leaderRev))
	case "unreachable":
		return "Unreachable"
	case "400":
		return "Err400"
	}
	return "Garbage200"
}

func roleCoq(l bool) string {
	if l {
		return "Leader"
	}
	return "Follower"
}

// ---------- part 2: interleavings of two follower reads ----------

type tstate struct {
	refetch bool   // the thread is calling the single flight again after joining an older fetch
	val     uint64 // the fetched revision the thread holds
	pc      string // init begun wait handled joined got set done
	th      *gthread
	begin   uint64
	got     uint64
	scan    uint64
	joined  bool
	resp    *etcdserverpb.RangeResponse
	err     error
}

type label struct {
	adv bool
	t   int // 0 = A, 1 = B
}

func (l label) coq() string {
	if l.adv {
		return "LAdv"
	}
	return lib.App("LStep", []string{"TA", "TB"}[l.t])
}

func waitPoint(th *gthread, want string, d time.Duration) (string, bool) {
	select {
	case p := <-th.arrive:
		th.parked = true
		return p, p == want
	case <-th.done:
		return "done", want == "done"
	case <-time.After(d):
		return "timeout", false
	}
}

// runSchedule executes the labels on the real code, mirroring Model/Roles.v `step true true` (shared flight, joiners of an
// older fetch fetch again; installRevision = mutex + synced).  Gates: "sync" (before the single flight), the /status handler (enter,
// reply), "set" (inside SetCurrentRevision, i.e. inside the syncer's critical section), "list" (before the scan).
// There is no gate between the return of the fetch and the mutex: the schedules are canonical (the step that takes the
// mutex follows the reply at once).  Where the model says a thread waits for the mutex the driver checks that it does;
// if it reaches SetCurrentRevision while another thread is parked inside it, the exclusion is absent and the driver
// continues adversarially (late value last) so that the consequence is observed.
func (s *sut) runSchedule(ls []label, leader0 uint64) ([2]*tstate, []string, string) {
	s.configure(config{leader: false, proxy: false, reach: "ok"})
	leader0 = sched0 // relative to the read revision the follower has now
	atomic.StoreUint64(&s.st.rev, leader0)
	atomic.StoreInt32(&s.st.gated, 1)
	defer atomic.StoreInt32(&s.st.gated, 0)
	ts := [2]*tstate{{pc: "init"}, {pc: "init"}}
	owner := -1
	mutex := -1      // mirror: holder of the syncer's mutex
	var synced uint64 // mirror: revisionSyncer.synced
	installer := -1  // real thread parked at the "set" gate
	d := 2 * time.Second
	fail := ""
	adversarial := false
	abandoned := "" // why the labels were given up (the rest is run to completion without them)
	// arriveLock mirrors arrive_lock for thread u holding value v and checks the real thread
	var arriveLock func(u int)
	arriveLock = func(u int) {
		t := ts[u]
		switch {
		case mutex >= 0:
			t.pc = "blocked"
			// the real thread must not get anywhere (unless it is the one that won the race for the same value)
			if installer == u {
				return
			}
			select {
			case p := <-t.th.arrive:
				t.th.parked = true
				if p == "set" && installer >= 0 && installer != u {
					// two threads inside SetCurrentRevision: no mutual exclusion. Let the newcomer's value land first,
					// then the older one, and see what the reads return.
					adversarial = true
					t.th.rel()
					if q, ok := waitPoint(t.th, "list", d); !ok {
						fail = "adversarial: newcomer did not reach List: " + q
					}
					t.pc = "set"
				} else {
					fail = "thread expected to wait for the mutex arrived at " + p
				}
			case <-time.After(30 * time.Millisecond):
			}
		case t.val > synced:
			mutex = u
			t.pc = "installing"
			// some real thread holding this value reaches SetCurrentRevision (either of two that got the same reply)
			o := ts[1-u]
			if installer < 0 {
				var oa chan string
				if o.th != nil && (o.pc == "got" || o.pc == "blocked") && o.val == t.val {
					oa = o.th.arrive
				}
				select {
				case p := <-t.th.arrive:
					t.th.parked = true
					if p == "set" {
						installer = u
					} else {
						fail = "thread expected inside SetCurrentRevision arrived at " + p
					}
				case p := <-oa:
					o.th.parked = true
					if p == "set" {
						installer = 1 - u
					} else {
						fail = "thread expected inside SetCurrentRevision arrived at " + p
					}
				case <-time.After(d):
					fail = "no thread reached SetCurrentRevision"
				}
			}
		default:
			// dropped: straight to the scan
			t.pc = "set"
			if t.th.parked {
				return // the twin that won the race for the mutex: it is at List already
			}
			if p, ok := waitPoint(t.th, "list", d); !ok {
				if p == "set" {
					// the code installed a revision that is not larger: let it, the set log and the reads will show it
					adversarial = true
					t.th.rel()
					if q, ok2 := waitPoint(t.th, "list", d); !ok2 {
						fail = "thread did not reach List after an unexpected set: " + q
					}
				} else {
					fail = "thread whose revision is dropped did not reach List: " + p
				}
			}
		}
	}
	for _, l := range ls {
		if fail != "" || abandoned != "" {
			break
		}
		if l.adv {
			atomic.AddUint64(&s.st.rev, 1)
			continue
		}
		t := ts[l.t]
		switch t.pc {
		case "init":
			t.begin = atomic.LoadUint64(&s.st.rev)
			th := &gthread{name: fmt.Sprint(l.t), arrive: make(chan string, 1), release: make(chan struct{}), done: make(chan struct{})}
			t.th = th
			ready := make(chan struct{})
			go func() {
				id := lib.GoID()
				gmu.Lock()
				gthreads[id] = th
				gmu.Unlock()
				close(ready)
				ctx, cancel := context.WithTimeout(context.Background(), 20*time.Second)
				defer cancel()
				t.resp, t.err = s.etcd.Range(ctx, &etcdserverpb.RangeRequest{Key: []byte("/c18/"), RangeEnd: []byte("/c180")})
				gmu.Lock()
				delete(gthreads, id)
				gmu.Unlock()
				close(th.done)
			}()
			<-ready
			if p, ok := waitPoint(th, "sync", d); !ok {
				fail = "thread did not reach the sync point: " + p
			}
			t.pc = "begun"
		case "begun":
			if t.refetch {
				t.refetch = false
				// the thread must come back with a fetch of its own; if it goes on with the revision of the flight it
				// joined, let everything run to the end and see what the reads return
				select {
				case <-s.st.enter:
					owner = l.t
					t.pc = "wait"
				case p := <-t.th.arrive:
					t.th.parked = true
					adversarial = true
					abandoned = "a read that joined an older fetch did not fetch again (reached " + p + ")"
				case <-time.After(300 * time.Millisecond):
					adversarial = true
					abandoned = "a read that joined an older fetch did not fetch again"
				}
				break
			}
			t.th.rel()
			if owner < 0 {
				select {
				case <-s.st.enter:
					owner = l.t
					t.pc = "wait"
				case <-time.After(d):
					fail = "no /status request arrived"
				}
			} else {
				time.Sleep(3 * time.Millisecond)
				select {
				case <-s.st.enter:
					fail = "a second /status request arrived: the thread did not join the flight"
				default:
				}
				t.pc = "joined"
				t.joined = true
			}
		case "wait":
			s.st.goEnter <- struct{}{}
			select {
			case v := <-s.st.handled:
				t.pc = "handled"
				t.val = v
			case <-time.After(d):
				fail = "handler did not read the revision"
			}
		case "handled":
			s.st.goReply <- struct{}{}
			owner = -1
			t.pc = "got"
			if o := ts[1-l.t]; o.pc == "joined" {
				// the joiner of a flight that had started before it arrived calls the single flight again (it is past
				// the sync gate: no gate to release)
				o.pc = "begun"
				o.refetch = true
				o.joined = false
			}
		case "got":
			arriveLock(l.t)
		case "installing":
			if installer < 0 {
				fail = "no thread is inside SetCurrentRevision"
				break
			}
			real := ts[installer]
			real.th.rel()
			if p, ok := waitPoint(real.th, "list", d); !ok {
				fail = "thread did not reach List after SetCurrentRevision: " + p
			}
			synced = t.val
			mutex = -1
			installer = -1
			t.pc = "set"
			if o := ts[1-l.t]; o.pc == "blocked" && fail == "" {
				o.pc = "got"
				arriveLock(1 - l.t)
				// a thread that was the real installer while the model's installer was the other one is at List already
			}
		case "set":
			if !t.th.parked {
				// the real thread lost the race for the mutex to its twin and has reached List only now
				if p, ok := waitPoint(t.th, "list", d); !ok {
					fail = "thread did not reach List: " + p
					break
				}
			}
			t.th.rel()
			if p, ok := waitPoint(t.th, "done", d); !ok {
				fail = "thread did not finish: " + p
			}
			t.pc = "done"
			if t.err == nil && t.resp != nil && t.resp.Header != nil {
				t.scan = uint64(t.resp.Header.Revision)
			} else {
				fail = fmt.Sprintf("read failed: %v", t.err)
			}
		}
	}
	if abandoned != "" && fail == "" {
		var ths []*gthread
		for _, t := range ts {
			if t.th != nil {
				ths = append(ths, t.th)
			}
		}
		s.drain(ths...)
		for _, t := range ts {
			if t.th == nil {
				continue
			}
			select {
			case <-t.th.done:
				t.pc = "done"
				if t.err == nil && t.resp != nil && t.resp.Header != nil {
					t.scan = uint64(t.resp.Header.Revision)
				}
			default:
			}
		}
	} else if adversarial && fail == "" {
		// finish whatever the labels no longer describe: older value last, then the scans
		for k := 0; k < 2; k++ {
			for _, t := range ts {
				if t.th == nil || t.pc == "done" {
					continue
				}
				for i := 0; i < 3 && t.pc != "done"; i++ {
					if t.th.parked {
						t.th.rel()
					}
					p, _ := waitPoint(t.th, "done", d)
					if p == "done" {
						t.pc = "done"
						if t.err == nil && t.resp != nil && t.resp.Header != nil {
							t.scan = uint64(t.resp.Header.Revision)
						}
					}
				}
			}
		}
	}
	calls := s.rec.take()
	var sets []string
	for _, c := range calls {
		if strings.HasPrefix(c, "set:") {
			sets = append(sets, c)
		}
	}
	if fail != "" {
		var ths []*gthread
		for _, t := range ts {
			if t.th != nil {
				ths = append(ths, t.th)
			}
		}
		s.drain(ths...)
	}
	return ts, sets, fail
}

// drain lets every parked or blocked thread run to completion (gates open, handler released), so that nothing —
// in particular no single flight held by a parked thread — leaks into the next case.
func (s *sut) drain(ths ...*gthread) {
	atomic.StoreInt32(&s.st.gated, 0)
	deadline := time.Now().Add(8 * time.Second)
	finished := map[*gthread]bool{}
	for time.Now().Before(deadline) && len(finished) < len(ths) {
		for _, th := range ths {
			if finished[th] {
				continue
			}
			if th.parked {
				th.rel()
			}
			select {
			case <-th.done:
				finished[th] = true
			case <-th.arrive:
				th.parked = true
			case s.st.goEnter <- struct{}{}:
			case s.st.goReply <- struct{}{}:
			case <-s.st.enter:
			case <-s.st.handled:
			case <-time.After(20 * time.Millisecond):
			}
		}
	}
}

// runOverlap: read A syncs (leader at r) and is parked before its scan; the leader's endpoint then behaves as
// `mode`; read B runs to completion; A resumes.  Observed: B's response class, every SetCurrentRevision value,
// A's scan revision and whether A saw data.
func (s *sut) runOverlap(mode string) (lib.Case, string) {
	s.configure(config{leader: false, proxy: false, reach: "ok"})
	// something committed before A begins: written directly on the backend, revision r
	ctx := context.Background()
	// (the revision the write was dealt is taken from its response; a scan at r reads it from the engine)
	cr, cerr := s.inner.Create(ctx, &proto.CreateRequest{Key: []byte(fmt.Sprintf("/c18/overlap-%s", mode)), Value: []byte("v")})
	if cerr != nil || cr == nil || !cr.Succeeded {
		return lib.Case{Kind: "overlap-" + mode, Coq: lib.App("OverlapCase", lib.N(0), reachCoq(mode), "RespNone", "[]", lib.N(0), "false")}, "could not write the probe key"
	}
	r := cr.Header.Revision
	atomic.StoreUint64(&s.st.rev, r)
	s.rec.take()
	fail := ""
	d := 2 * time.Second
	launch := func(name string) (*gthread, *tstate) {
		t := &tstate{}
		th := &gthread{name: name, arrive: make(chan string, 1), release: make(chan struct{}), done: make(chan struct{})}
		t.th = th
		ready := make(chan struct{})
		go func() {
			id := lib.GoID()
			gmu.Lock()
			gthreads[id] = th
			gmu.Unlock()
			close(ready)
			c, cancel := context.WithTimeout(context.Background(), 20*time.Second)
			defer cancel()
			t.resp, t.err = s.etcd.Range(c, &etcdserverpb.RangeRequest{Key: []byte("/c18/"), RangeEnd: []byte("/c180")})
			gmu.Lock()
			delete(gthreads, id)
			gmu.Unlock()
			close(th.done)
		}()
		<-ready
		return th, t
	}
	step := func(th *gthread, want string) {
		if fail != "" {
			return
		}
		if p, ok := waitPoint(th, want, d); !ok {
			fail = "expected " + want + ", got " + p
		}
	}
	// A: sync point, fetch (ungated endpoint), set, parked before List
	thA, tA := launch("A")
	step(thA, "sync")
	if fail == "" {
		thA.rel()
	}
	step(thA, "set")
	if fail == "" {
		thA.rel()
	}
	step(thA, "list")
	// the leader's endpoint changes behaviour
	switch mode {
	case "unreachable":
		s.stub.ElectionInfo.LeaderAddress = s.st.deadAddr
	case "400":
		s.st.mode.Store("400")
	case "garbage":
		s.st.mode.Store("garbage")
	default:
		atomic.StoreUint64(&s.st.rev, r+5)
	}
	// B runs to completion
	thB, tB := launch("B")
	step(thB, "sync")
	if fail == "" {
		thB.rel()
	}
	for k := 0; k < 3 && fail == ""; k++ {
		p, _ := waitPoint(thB, "done", d)
		if p == "done" {
			break
		}
		if p == "timeout" {
			fail = "B did not finish"
			break
		}
		thB.rel()
	}
	// A resumes
	if fail == "" {
		thA.rel()
		step(thA, "done")
	}
	if fail != "" {
		s.drain(thA, thB)
	}
	calls := s.rec.take()
	var sets []string
	var setc []string
	for _, c := range calls {
		if strings.HasPrefix(c, "set:") {
			var before, v uint64
			fmt.Sscanf(c, "set:%d:%d", &before, &v)
			sets = append(sets, c)
			setc = append(setc, lib.N(v))
		}
	}
	bresp := classify(tB.err)
	var ascan uint64
	anon := false
	if tA.err == nil && tA.resp != nil && tA.resp.Header != nil {
		ascan = uint64(tA.resp.Header.Revision)
		anon = len(tA.resp.Kvs) > 0
	}
	reach := reachCoq(mode)
	if mode == "ok" {
		reach = lib.App("ReachOk", lib.N(r+5))
	}
	j := map[string]interface{}{"scenario": "overlap", "mode": mode, "r": r, "B": bresp, "sets": sets, "A_scan": ascan, "A_nonempty": anon, "A_err": fmt.Sprint(tA.err)}
	// restore
	s.stub.ElectionInfo.LeaderAddress = s.st.addr
	s.st.mode.Store("ok")
	return lib.Case{Kind: "overlap-" + mode, Coq: lib.App("OverlapCase", lib.N(r), reach, bresp, lib.List(setc), lib.N(ascan), lib.Bool(anon)),
		JSON: j, Outcomes: []string{"overlap:" + bresp}}, fail
}

// mirror of Model/Roles.v (step true true) to generate complete, enabled, canonical schedules: the step that takes
// the syncer's mutex follows the reply at once (there is no gate in between)
func genSchedule(r *lib.Rand, nAdv int) []label {
	const (
		pInit = iota
		pBegun
		pWait
		pHandled
		pJoined
		pGot
		pBlocked
		pInstalling
		pSet
		pDone
	)
	pc := [2]int{pInit, pInit}
	val := [2]uint64{}
	var leader, synced uint64 = 10, 0
	owner, mutex := -1, -1
	var ls []label
	adv := nAdv
	var arrive func(u int)
	arrive = func(u int) {
		switch {
		case mutex >= 0:
			pc[u] = pBlocked
		case val[u] > synced:
			mutex = u
			pc[u] = pInstalling
		default:
			pc[u] = pSet
		}
	}
	enabled := func(t int) bool { return pc[t] != pDone && pc[t] != pJoined && pc[t] != pBlocked }
	step := func(t int) {
		ls = append(ls, label{t: t})
		switch pc[t] {
		case pInit:
			pc[t] = pBegun
		case pBegun:
			if owner < 0 {
				owner = t
				pc[t] = pWait
			} else {
				pc[t] = pJoined
			}
		case pWait:
			pc[t] = pHandled
			val[t] = leader
		case pHandled:
			pc[t] = pGot
			owner = -1
			o := 1 - t
			joiner := pc[o] == pJoined
			// canonical: the owner goes for the mutex at once; a joiner calls the single flight again at once
			ls = append(ls, label{t: t})
			arrive(t)
			if joiner {
				ls = append(ls, label{t: o})
				owner = o
				pc[o] = pWait
			}
		case pInstalling:
			synced = val[t]
			mutex = -1
			pc[t] = pSet
			if o := 1 - t; pc[o] == pBlocked {
				arrive(o)
			}
		case pSet:
			pc[t] = pDone
		}
	}
	for enabled(0) || enabled(1) {
		if adv > 0 && r.Chance(1, 4) {
			ls = append(ls, label{adv: true})
			leader++
			adv--
			continue
		}
		t := r.Intn(2)
		if !enabled(t) {
			t = 1 - t
		}
		step(t)
	}
	return ls
}

func S(t int) label { return label{t: t} }

var adv = label{adv: true}

// the schedule of the former finding C18-F1, as far as the gates allow: A is inside SetCurrentRevision(30) (and holds the
// syncer's mutex), the leader moves to 32, B fetches 32 and has to wait; A finishes, B installs 32; both scan at 32.
// Without the mutual exclusion and the comparison B's value lands first and A's late one lowers the revision.
func witnessSetRace() []label {
	return []label{S(0), S(0), S(0), S(0), S(0), adv, adv, S(1), S(1), S(1), S(1), S(1), S(0), S(1), S(1), S(0)}
}

// the schedule of the former finding C18-F3: A's request has been answered by the leader (30) but the reply is still on
// its way; the leader moves to 32; B begins and joins A's flight; when it ends B fetches again (32): both scan at 32
func witnessSharedFlight() []label {
	return []label{S(0), S(0), S(0), adv, adv, S(1), S(1), S(0), S(0), S(1), S(1), S(1), S(1), S(0), S(1), S(1), S(0)}
}

func main() {
	lib.QuietLogs()
	args := lib.ParseArgs()
	rnd := lib.NewRand(args.Seed)
	backend.VerifYieldHook = func(p string) {
		if p == "seq.idle" {
			// the first sequencer to poll is the one of the system under test (created first)
			id := lib.GoID()
			if atomic.CompareAndSwapInt64(&mainSeq, 0, id) || atomic.LoadInt64(&mainSeq) == id {
				atomic.AddInt64(&idlePolls, 1)
				time.Sleep(50 * time.Microsecond)
			} else {
				time.Sleep(200 * time.Microsecond)
			}
		}
	}
	start := time.Now()
	w := lib.NewWriter(args, "C18", "c18", "From KB Require Import Model.C18Cases.", "c18_case", "c18_checkv", "c18_oracle", 400)
	s, err := newSut(args.Scratch)
	if err != nil {
		fmt.Fprintln(os.Stderr, err)
		os.Exit(2)
	}

	// ---- part 3a: start the nodes whose background behaviour is observed later
	tick := startTickNodes(args.Scratch)
	stat := startStatusNodes(args.Scratch)

	// ---- part 1: the whole configuration space
	for _, kind := range kinds {
		for _, ld := range []bool{true, false} {
			for _, px := range []bool{true, false} {
				for _, rc := range []string{"ok", "unreachable", "400", "garbage"} {
					c := config{leader: ld, proxy: px, reach: rc}
					s.configure(c)
					resp := s.invoke(kind)
					eff, j := s.effects(resp)
					j["kind"], j["leader"], j["proxy"], j["reach"] = kind, ld, px, rc
					cs := lib.Case{Kind: "role-table", Coq: lib.App("RoleCase", kind, roleCoq(ld), lib.Bool(px), reachCoq(rc), eff),
						JSON: j, Outcomes: []string{kind[:1] + ":" + resp}}
					w.Add(cs)
					if resp == "hang" || resp == "unknown-kind" || resp == "RespAnomaly" {
						w.Fail(lib.ImplFailure{CaseID: w.Len() - 1, What: "request " + kind + ": " + resp, Case: j})
					}
				}
			}
		}
	}

	// ---- part 2: interleavings
	nSched := 120
	if args.Tier == "thorough" {
		nSched = 1500
	} else if args.Tier == "search" {
		nSched = 400
	}
	scheds := [][]label{witnessSetRace(), witnessSharedFlight(),
		{S(0), S(0), S(0), S(0), S(0), S(0), S(0), adv, S(1), S(1), S(1), S(1), S(1), S(1), S(1)}}
	kindsS := []string{"corpus-F1-set-race", "corpus-F3-shared-flight", "corpus-sequential"}
	for i := 0; i < nSched; i++ {
		scheds = append(scheds, genSchedule(rnd, rnd.Intn(4)))
		kindsS = append(kindsS, "schedule")
	}
	unrealised := 0
	for i, ls := range scheds {
		if unrealised >= 3 {
			break // the gates no longer match the code: reported below, the role table carries the verdict
		}
		var ts [2]*tstate
		var sets []string
		fail := ""
		for attempt := 0; attempt < 2; attempt++ {
			ts, sets, fail = s.runSchedule(ls, sched0)
			if fail == "" {
				break
			}
			time.Sleep(20 * time.Millisecond)
		}
		lc := make([]string, len(ls))
		for k, l := range ls {
			lc[k] = l.coq()
		}
		// fetched value per thread from the set log, in order of the set calls: attribute by value is
		// ambiguous, so the driver reads it from the List the thread then performs... the model predicts
		// the set log as a whole, which is what is compared
		var setc []string
		for _, c := range sets {
			var before, v uint64
			fmt.Sscanf(c, "set:%d:%d", &before, &v)
			setc = append(setc, lib.Pair(lib.N(before), lib.N(v)))
		}
		tc := func(t *tstate) string {
			return lib.App("TObs", lib.Bool(t.pc == "done"), lib.N(t.begin), lib.N(t.scan), lib.Bool(t.joined))
		}
		oc := "fresh"
		for _, t := range ts {
			if t.pc == "done" && t.scan < t.begin {
				oc = "stale-read"
			}
		}
		j := map[string]interface{}{"schedule": strings.Join(lc, " "), "sets": sets,
			"A": map[string]interface{}{"begin": ts[0].begin, "scan": ts[0].scan, "joined": ts[0].joined, "pc": ts[0].pc},
			"B": map[string]interface{}{"begin": ts[1].begin, "scan": ts[1].scan, "joined": ts[1].joined, "pc": ts[1].pc}}
		cs := lib.Case{Kind: kindsS[i], Coq: lib.App("SchedCase", lib.N(sched0), lib.N(baseRev), lib.List(lc), tc(ts[0]), tc(ts[1]), lib.List(setc)),
			JSON: j, Outcomes: []string{oc}, Trivial: len(ls) < 8}
		w.Add(cs)
		if fail != "" {
			unrealised++
			w.Fail(lib.ImplFailure{CaseID: w.Len() - 1, What: "schedule could not be realised on the real code: " + fail, Case: j})
		}
	}

	// ---- part 2n: interleavings of three follower reads, replayed on Model/RolesN.v (sched3.go); a generator of its own
	// so that the other parts see the random stream they always saw
	n3 := 40
	if args.Tier == "thorough" {
		n3 = 500
	} else if args.Tier == "search" {
		n3 = 150
	}
	if unrealised < 3 {
		s.runThreeReadSchedules(w, lib.NewRand(args.Seed+181803), n3)
	}

	// ---- part 2b: a failed fetch of one read must not disturb another read (coordinator scenario)
	for _, mode := range []string{"unreachable", "400", "garbage", "ok"} {
		cs, fail := s.runOverlap(mode)
		w.Add(cs)
		if fail != "" {
			w.Fail(lib.ImplFailure{CaseID: w.Len() - 1, What: "overlap scenario could not be realised: " + fail, Case: cs.JSON})
		}
	}

	// ---- part 2c: a follower that has served a read; the leader moves on; explicit-revision reads must sync again
	for _, m := range rmodes {
		for _, v := range revsels {
			s.configure(config{leader: false, proxy: false, reach: "ok"})
			r1, r2 := uint64(leaderRev), uint64(leaderRev+10)
			ctx, cancel := context.WithTimeout(context.Background(), 5*time.Second)
			_, err1 := s.etcd.Range(ctx, &etcdserverpb.RangeRequest{Key: []byte("/c18/"), RangeEnd: []byte("/c180")})
			atomic.StoreUint64(&s.st.rev, r2) // more writes on the leader
			resp2, err2 := s.etcd.Range(ctx, rangeAt(m, v, s.inner.GetCurrentRevision(), []byte("/c18/follow")))
			cancel()
			var setc []string
			var sets []string
			for _, c := range s.rec.take() {
				if strings.HasPrefix(c, "set:") {
					var before, val uint64
					fmt.Sscanf(c, "set:%d:%d", &before, &val)
					setc = append(setc, lib.N(val))
					sets = append(sets, c)
				}
			}
			var hdr2 uint64
			if err2 == nil && resp2 != nil && resp2.Header != nil {
				hdr2 = uint64(resp2.Header.Revision)
			}
			j := map[string]interface{}{"scenario": "follow", "mode": m, "revision": v, "r1": r1, "r2": r2, "sets": sets, "header2": hdr2, "err1": fmt.Sprint(err1), "err2": fmt.Sprint(err2)}
			w.Add(lib.Case{Kind: "follow-" + m + "-" + v, Coq: lib.App("FollowCase", m, v, lib.N(r1), lib.N(r2), lib.List(setc), lib.N(hdr2)),
				JSON: j, Outcomes: []string{fmt.Sprintf("follow:%v", err2 == nil)}})
		}
	}

	// ---- part 5: delayed forwarded transaction through the real peer service
	if cs, fail := runForward(args.Scratch); cs.Coq != "" || fail != "" {
		if cs.Coq == "" {
			cs = lib.Case{Kind: "forward-delayed", Coq: lib.App("ForwardCase", "0", "0", "[]", "0", "0", "false"), JSON: map[string]interface{}{"scenario": "delayed forwarded txn"}}
		}
		w.Add(cs)
		if fail != "" {
			w.Fail(lib.ImplFailure{CaseID: w.Len() - 1, What: "forward scenario: " + fail, Case: cs.JSON})
		}
	}

	// ---- part 4: take-over
	if cs, fail := runTakeover(args.Scratch); cs.Coq != "" {
		w.Add(cs)
		if fail != "" {
			w.Fail(lib.ImplFailure{CaseID: w.Len() - 1, What: "take-over scenario: " + fail, Case: cs.JSON})
		}
	}

	// ---- part 3b: /status handler of server.NewServer in both roles
	for _, sc := range stat.collect(s) {
		w.Add(sc)
	}
	// ---- part 3c: compaction loop (fires 60 s after brain.New)
	if args.Tier != "search" && os.Getenv("C18_SKIP_TICK") == "" {
		for _, tc := range tick.collect(start) {
			w.Add(tc)
		}
	}
	w.Stats.Extra["wall_s"] = time.Since(start).Seconds()
	// validity (c18_validb) is a conjunct of the check the shards evaluate: an invalid case is a mismatch, so a green run has none
	w.Stats.Extra["invalid_cases"] = 0
	w.Stats.Extra["invalid_cases_how"] = "c18_checkv = c18_validb && c18_check: counted as mismatches"
	if err := w.Finish("part 1: every request kind x role x proxy x leader reachability (exhaustive); part 2: enabled interleavings of two follower List requests with 0-3 leader advances, realised by gating the /status handler, SetCurrentRevision and List (the two witnesses first); part 2n: interleavings of three follower List requests with 0-4 leader advances on the same gates (two scripted witnesses first; at most one read waiting for the mutex and one joiner per flight), replayed on the n-reader model; part 3: /status of server.NewServer in both roles, the compaction loop's first firing in both roles; trivial = a two-read schedule with fewer than 8 labels, a three-read schedule with fewer than 12"); err != nil {
		fmt.Fprintln(os.Stderr, err)
		os.Exit(2)
	}
}

// ---------- part 5: a forwarded transaction whose answer is delayed ----------

// runForward: a leader (etcd.RPCServer over gRPC and a /status endpoint on ONE loopback port, as a node serves them) and a
// follower built with the real service.NewPeerService (real syncer, real etcd proxy, EnableEtcdProxy) over a recording
// backend.  The follower forwards a create; the leader's answer (revision w) is held back by an interceptor; the leader
// commits two more keys (up to r); the follower serves a List; the answer is released; the follower serves a second List.
func runForward(scratch string) (lib.Case, string) {
	m := &lib.NopMetrics{}
	store, _, _ := lib.NewEngine(lib.EngMem, scratch)
	ctx := context.Background()
	fail := ""
	backendL := backend.NewBackend(store, backend.Config{Prefix: "/registry", Identity: "fwd-leader", EnableEtcdCompatibility: true}, m)
	backendL.SetCurrentRevision(7000)
	lis, err := net.Listen("tcp", "127.0.0.1:0")
	if err != nil {
		return lib.Case{}, "listen"
	}
	addr := lis.Addr().String()
	stubL := &leader.Stub{ElectionInfo: leader.ElectionInfo{IsLeader: true, LeaderAddress: addr}}
	srvL := etcd.New(backendL, m, &peers{Stub: stubL, RevisionSyncer: revision.NewRevisionSyncer(backendL, m, stubL, nil), recProxy: &recProxy{disabled: etcdproxy.NewDisabledEtcdProxy()}})
	var holdArmed int32
	held, release := make(chan struct{}, 1), make(chan struct{})
	g := grpc.NewServer(grpc.UnaryInterceptor(func(c context.Context, req interface{}, info *grpc.UnaryServerInfo, h grpc.UnaryHandler) (interface{}, error) {
		resp, err := h(c, req)
		if strings.HasSuffix(info.FullMethod, "/Txn") && atomic.CompareAndSwapInt32(&holdArmed, 1, 0) {
			held <- struct{}{}
			<-release // the answer is on its way
		}
		return resp, err
	}))
	srvL.Register(g)
	mux := cmux.New(lis)
	grpcL := mux.MatchWithWriters(cmux.HTTP2MatchHeaderFieldSendSettings("content-type", "application/grpc"))
	httpL := mux.Match(cmux.HTTP1Fast())
	hm := http.NewServeMux()
	hm.HandleFunc("/status", func(w http.ResponseWriter, _ *http.Request) { // as server.revisionHandler on a leader
		b, _ := json.Marshal(&revision.LeaderRevision{Revision: backendL.GetCurrentRevision()})
		w.WriteHeader(200)
		w.Write(b)
	})
	go g.Serve(grpcL)
	go http.Serve(httpL, hm)
	go mux.Serve()
	defer g.Stop()

	innerF := backend.NewBackend(store, backend.Config{Prefix: "/registry", Identity: "fwd-follower", EnableEtcdCompatibility: true}, m)
	recF := &recBackend{inner: innerF}
	stubF := &leader.Stub{ElectionInfo: leader.ElectionInfo{IsLeader: false, LeaderAddress: addr}}
	srvF := etcd.New(recF, m, service.NewPeerService(stubF, m, recF, service.Config{EnableEtcdProxy: true}))

	key := func(i int) []byte { return []byte(fmt.Sprintf("/registry/fwd/k%d", i)) }
	create := func(srv *etcd.RPCServer, k []byte) (*etcdserverpb.TxnResponse, error) {
		c, cancel := context.WithTimeout(ctx, 5*time.Second)
		defer cancel()
		return srv.Txn(c, &etcdserverpb.TxnRequest{Compare: []*etcdserverpb.Compare{cmpMod(k, 0)}, Success: []*etcdserverpb.RequestOp{rqPut(k, []byte("v"))}})
	}
	list := func() (*etcdserverpb.RangeResponse, error) {
		c, cancel := context.WithTimeout(ctx, 5*time.Second)
		defer cancel()
		return srvF.Range(c, &etcdserverpb.RangeRequest{Key: []byte("/registry/fwd/"), RangeEnd: []byte("/registry/fwd0")})
	}
	committed := func(rev int64) {
		if !lib.WaitUntil(3*time.Second, func() bool { return backendL.GetCurrentRevision() >= uint64(rev) }) {
			fail = "the leader did not commit"
		}
	}
	// an ordinary forwarded create first
	if r1, e1 := create(srvF, key(1)); e1 != nil || r1 == nil || !r1.Succeeded {
		return lib.Case{}, fmt.Sprintf("forwarded create failed: %v", e1)
	} else {
		committed(r1.Header.Revision)
	}
	// the delayed one
	atomic.StoreInt32(&holdArmed, 1)
	type res struct {
		r *etcdserverpb.TxnResponse
		e error
	}
	fdone := make(chan res, 1)
	go func() { r, e := create(srvF, key(2)); fdone <- res{r, e} }()
	select {
	case <-held:
	case <-time.After(3 * time.Second):
		return lib.Case{}, "the forwarded transaction did not reach the leader"
	}
	w := backendL // the leader has applied it: its revision is the answer's header
	_ = w
	var r uint64
	for i := 3; i <= 4; i++ {
		rr, e := create(srvL, key(i))
		if e != nil || rr == nil || !rr.Succeeded {
			fail = "leader create failed"
		} else {
			committed(rr.Header.Revision)
			r = uint64(rr.Header.Revision)
		}
	}
	complete := func(resp *etcdserverpb.RangeResponse, n int) bool {
		have := map[string]bool{}
		for _, kv := range resp.Kvs {
			have[string(kv.Key)] = true
		}
		for i := 1; i <= n; i++ {
			if !have[string(key(i))] {
				return false
			}
		}
		return true
	}
	l1, e1 := list()
	close(release) // the answer arrives
	var wrev uint64
	select {
	case x := <-fdone:
		if x.e == nil && x.r != nil && x.r.Header != nil {
			wrev = uint64(x.r.Header.Revision)
		} else {
			fail = fmt.Sprintf("the delayed forwarded transaction failed: %v", x.e)
		}
	case <-time.After(3 * time.Second):
		fail = "the delayed forwarded transaction did not return"
	}
	l2, e2 := list()
	var setc, sets []string
	for _, c := range recF.take() {
		if strings.HasPrefix(c, "set:") {
			var before, v uint64
			fmt.Sscanf(c, "set:%d:%d", &before, &v)
			setc = append(setc, lib.N(v))
			sets = append(sets, c)
		}
	}
	var h1, h2 uint64
	c2 := false
	var keys2 []string
	if e1 == nil && l1 != nil && l1.Header != nil {
		h1 = uint64(l1.Header.Revision)
	}
	if e2 == nil && l2 != nil && l2.Header != nil {
		h2 = uint64(l2.Header.Revision)
		c2 = complete(l2, 4)
		for _, kv := range l2.Kvs {
			keys2 = append(keys2, string(kv.Key))
		}
	}
	j := map[string]interface{}{"scenario": "delayed forwarded txn", "w": wrev, "r": r, "follower_sets": sets, "list1_header": h1, "list1_err": fmt.Sprint(e1),
		"list2_header": h2, "list2_keys": keys2, "list2_err": fmt.Sprint(e2)}
	return lib.Case{Kind: "forward-delayed", Coq: lib.App("ForwardCase", lib.N(wrev), lib.N(r), lib.List(setc), lib.N(h1), lib.N(h2), lib.Bool(c2)),
		JSON: j, Outcomes: []string{"forward"}}, fail
}

// ---------- part 4: a read through a node that is taking over ----------

// probeBackend passes everything through; it calls back before SetCurrentRevision is delegated
type probeBackend struct {
	backend.Backend
	beforeSet func(rev uint64)
}

func (p *probeBackend) SetCurrentRevision(rev uint64) {
	if p.beforeSet != nil {
		p.beforeSet(rev)
	}
	p.Backend.SetCurrentRevision(rev)
}

// runTakeover: old leader A commits k0, B (a follower) adopts A's revision, A commits k1 and disappears (no lock
// record), B = real server.NewServer campaigns; follower C (real etcd.RPCServer + real syncer) points at B's real /status.
func runTakeover(scratch string) (lib.Case, string) {
	const prefix = "/registry"
	k0, k1 := prefix+"/pods/default/k0", prefix+"/pods/default/k1"
	m := &lib.NopMetrics{}
	store, _, _ := lib.NewEngine(lib.EngMem, scratch)
	ctx := context.Background()
	fail := ""
	create := func(b backend.Backend, key string) uint64 {
		resp, err := b.Create(ctx, &proto.CreateRequest{Key: []byte(key), Value: []byte("v")})
		if err != nil || resp == nil || !resp.Succeeded {
			fail = "create " + key + " failed"
			return 0
		}
		if !lib.WaitUntil(3*time.Second, func() bool { return b.GetCurrentRevision() >= resp.Header.Revision }) {
			fail = "revision not committed"
		}
		return resp.Header.Revision
	}
	backendA := backend.NewBackend(store, backend.Config{Prefix: prefix, Identity: "A:2380"}, m)
	t0, _ := store.GetTimestampOracle(ctx)
	backendA.SetCurrentRevision(t0)
	create(backendA, k0)
	backendB := backend.NewBackend(store, backend.Config{Prefix: prefix, Identity: "B:2380"}, m)
	old := backendA.GetCurrentRevision()
	backendB.SetCurrentRevision(old) // B's last follower read synced with A here
	create(backendA, k1)

	listReq := &etcdserverpb.RangeRequest{Key: []byte(prefix + "/pods/"), RangeEnd: []byte(prefix + "/pods0")}
	has := func(resp *etcdserverpb.RangeResponse, key string) bool {
		for _, kv := range resp.Kvs {
			if string(kv.Key) == key {
				return true
			}
		}
		return false
	}
	ready, done := make(chan struct{}), make(chan struct{})
	var once sync.Once
	var etcdC *etcd.RPCServer
	var addrB string
	var version uint64
	midStatus, midList := lib.None(), lib.None()
	var midJ map[string]interface{}
	getStatus := func() (int, uint64) {
		c := &http.Client{Timeout: 2 * time.Second}
		resp, err := c.Get("http://" + addrB + "/status")
		if err != nil {
			return -1, 0
		}
		defer resp.Body.Close()
		b, _ := io.ReadAll(resp.Body)
		var lr revision.LeaderRevision
		if resp.StatusCode == 200 && json.Unmarshal(b, &lr) == nil {
			return 200, lr.Revision
		}
		return resp.StatusCode, 0
	}
	probe := &probeBackend{Backend: backendB}
	probe.beforeSet = func(rev uint64) {
		once.Do(func() {
			<-ready
			version = rev
			code, r := getStatus()
			if code == 200 {
				midStatus = lib.Some(lib.N(r))
			}
			c, cancel := context.WithTimeout(ctx, 5*time.Second)
			resp, err := etcdC.Range(c, listReq)
			cancel()
			midJ = map[string]interface{}{"status_code": code, "status_revision": r, "list_err": fmt.Sprint(err)}
			if err == nil && resp != nil {
				midList = lib.Some(lib.Bool(has(resp, k1)))
				var ks []string
				for _, kv := range resp.Kvs {
					ks = append(ks, string(kv.Key))
				}
				midJ["list_keys"], midJ["list_header"] = ks, resp.Header.Revision
			}
			close(done)
		})
	}
	srvB := server.NewServer(probe, m, server.Config{}) // campaigns at once; the call-back waits for `ready`
	ln, err := net.Listen("tcp", "127.0.0.1:0")
	if err != nil {
		return lib.Case{}, "listen"
	}
	mux := http.NewServeMux()
	mux.Handle("/status", srvB.GetPeerHttpHandlers()["/status"])
	go http.Serve(ln, mux)
	addrB = ln.Addr().String()
	backendC := backend.NewBackend(store, backend.Config{Prefix: prefix, Identity: "C:2380"}, m)
	roleC := &leader.Stub{ElectionInfo: leader.ElectionInfo{IsLeader: false, LeaderAddress: addrB}}
	etcdC = etcd.New(backendC, m, service.NewPeerService(roleC, m, backendC, service.Config{}))
	close(ready)
	select {
	case <-done:
	case <-time.After(20 * time.Second):
		fail = "B never initialised its revision (the election did not complete)"
	}
	// afterwards: the first 200 answer, and a complete List
	var firstRev uint64
	if !lib.WaitUntil(8*time.Second, func() bool { c, r := getStatus(); firstRev = r; return c == 200 }) && fail == "" {
		fail = "B never answered /status as leader"
	}
	post := false
	if fail == "" {
		c, cancel := context.WithTimeout(ctx, 5*time.Second)
		resp, err := etcdC.Range(c, listReq)
		cancel()
		post = err == nil && resp != nil && has(resp, k0) && has(resp, k1)
	}
	j := map[string]interface{}{"scenario": "takeover", "old": old, "version": version, "at_set_instant": midJ, "first_leader_revision": firstRev, "post_complete": post}
	return lib.Case{Kind: "takeover", Coq: lib.App("TakeoverCase", lib.N(old), lib.N(version), midStatus, midList, lib.N(firstRev), lib.Bool(post)),
		JSON: j, Outcomes: []string{"takeover"}}, fail
}

// ---------- part 3 ----------

type tickNodes struct {
	recL, recF *recBackend
}

func startTickNodes(scratch string) *tickNodes {
	kv, _, _ := lib.NewEngine(lib.EngMem, scratch)
	inner := backend.NewBackend(kv, backend.Config{Prefix: "/registry", Identity: "c18-tick"}, &lib.NopMetrics{})
	inner.SetCurrentRevision(5000)
	t := &tickNodes{recL: &recBackend{inner: inner}, recF: &recBackend{inner: inner}}
	mk := func(rec *recBackend, isLeader bool) {
		st := &leader.Stub{ElectionInfo: leader.ElectionInfo{LeaderAddress: "127.0.0.1:1", IsLeader: isLeader}}
		p := &peers{Stub: st, RevisionSyncer: revision.NewRevisionSyncer(rec, &lib.NopMetrics{}, st, nil), recProxy: &recProxy{disabled: etcdproxy.NewDisabledEtcdProxy()}}
		brain.New(rec, &lib.NopMetrics{}, p)
	}
	mk(t.recL, true)
	mk(t.recF, false)
	return t
}

func (t *tickNodes) collect(start time.Time) []lib.Case {
	if wait := 61500*time.Millisecond - time.Since(start); wait > 0 {
		time.Sleep(wait)
	}
	var out []lib.Case
	for _, x := range []struct {
		rec *recBackend
		ld  bool
	}{{t.recL, true}, {t.recF, false}} {
		lib.WaitUntil(500*time.Millisecond, func() bool { x.rec.mu.Lock(); defer x.rec.mu.Unlock(); return len(x.rec.calls) > 0 })
		calls := x.rec.take()
		b := "BNone"
		for _, c := range calls {
			if strings.HasPrefix(c, "mutate:") {
				b = "BMutate"
			}
		}
		eff := lib.App("mkEff", "RespNone", "false", "None", b, "FNone")
		out = append(out, lib.Case{Kind: "compact-loop", Coq: lib.App("RoleCase", "CompactLoopTick", roleCoq(x.ld), "false", reachCoq("unreachable"), eff),
			JSON: map[string]interface{}{"kind": "CompactLoopTick", "leader": x.ld, "backend_calls": calls}, Outcomes: []string{"tick:" + b}})
	}
	return out
}

type statusNodes struct {
	hL, hF http.Handler
}

func startStatusNodes(scratch string) *statusNodes {
	kv, _, _ := lib.NewEngine(lib.EngMem, scratch)
	innerL := backend.NewBackend(kv, backend.Config{Prefix: "/registry", Identity: "127.0.0.1:7"}, &lib.NopMetrics{})
	innerL.SetCurrentRevision(77)
	kv2, _, _ := lib.NewEngine(lib.EngMem, scratch)
	innerF := backend.NewBackend(kv2, backend.Config{Prefix: "/registry", Identity: "c18-follower"}, &lib.NopMetrics{})
	innerF.SetCurrentRevision(33)
	sl := server.NewServer(&recBackend{inner: innerL}, &lib.NopMetrics{}, server.Config{})
	sf := server.NewServer(&recBackend{inner: innerF, lock: deadLock{}}, &lib.NopMetrics{}, server.Config{})
	return &statusNodes{hL: sl.GetPeerHttpHandlers()["/status"], hF: sf.GetPeerHttpHandlers()["/status"]}
}


func (s *statusNodes) collect(su *sut) []lib.Case {
	var out []lib.Case
	// both handlers behind real HTTP servers: what matters is the status on the wire
	serve := func(h http.Handler) string {
		ln, err := net.Listen("tcp", "127.0.0.1:0")
		if err != nil {
			return ""
		}
		mux := http.NewServeMux()
		mux.Handle("/status", h)
		go http.Serve(ln, mux)
		return ln.Addr().String()
	}
	addrL, addrF := serve(s.hL), serve(s.hF)
	get := func(addr string) (int, []byte) {
		c := &http.Client{Timeout: 2 * time.Second}
		resp, err := c.Get("http://" + addr + "/status")
		if err != nil {
			return -1, []byte(err.Error())
		}
		defer resp.Body.Close()
		b, _ := io.ReadAll(resp.Body)
		return resp.StatusCode, b
	}
	// the leader node needs the election to complete (first acquire is immediate)
	var codeL int
	var bodyL []byte
	lib.WaitUntil(8*time.Second, func() bool { codeL, bodyL = get(addrL); return codeL == 200 })
	codeF, bodyF := get(addrF)
	var lrev revision.LeaderRevision
	for _, x := range []struct {
		code int
		body []byte
		ld   bool
	}{{codeL, bodyL, true}, {codeF, bodyF, false}} {
		resp := "RespError"
		var lr revision.LeaderRevision
		if x.code == 200 && json.Unmarshal(x.body, &lr) == nil {
			resp = "RespOk"
			if x.ld {
				lrev = lr
			}
		}
		eff := lib.App("mkEff", resp, "false", "None", "BNone", "FNone")
		out = append(out, lib.Case{Kind: "status-handler", Coq: lib.App("RoleCase", "StatusHandler", roleCoq(x.ld), "false", reachCoq("unreachable"), eff),
			JSON: map[string]interface{}{"kind": "StatusHandler", "leader": x.ld, "code": x.code, "body": string(x.body)}, Outcomes: []string{fmt.Sprintf("status:%d", x.code)}})
	}
	// end to end: the real syncer of a follower against the real /status of a non-leader and of the leader
	for _, x := range []struct {
		addr  string
		reach string
		name  string
	}{{addrF, "Err400", "non-leader"}, {addrL, lib.App("ReachOk", lib.N(lrev.Revision)), "leader"}} {
		su.configure(config{leader: false, proxy: false, reach: "ok"})
		su.stub.ElectionInfo.LeaderAddress = x.addr
		resp := su.invoke("ERangeList")
		eff, j := su.effects(resp)
		j["kind"], j["peer"] = "ERangeList", x.name
		out = append(out, lib.Case{Kind: "status-end-to-end", Coq: lib.App("RoleCase", "ERangeList", "Follower", "false", x.reach, eff),
			JSON: j, Outcomes: []string{"e2e-" + x.name + ":" + resp}})
		su.stub.ElectionInfo.LeaderAddress = su.st.addr
	}
	return out
}
