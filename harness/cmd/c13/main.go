// Driver c13: one store (a write history through the real Backend), read under several engine
// partitionings — lib.Wrap{Partitions} over memkv with chosen borders (between keys, on an index
// record, on a version record, synthetic Enc(k, r)), shuffled, and the real TiKV adapter on a mock
// cluster split at the same kinds of keys.  For each partitioning and (range, revision): unlimited
// List, Count, ListByStream over the whole range, GetPartitions, ListByStream per advertised pair,
// and the unpartitioned List.  Every engine GetPartitions answer is recorded and handed to the model.
package main

import (
	"bytes"
	"context"
	"fmt"
	"os"
	"sort"
	"strings"
	"sync/atomic"
	"time"

	"github.com/tikv/client-go/v2/tikvrpc"

	proto "github.com/kubewharf/kubebrain-client/api/v2rpc"

	"github.com/kubewharf/kubebrain/pkg/backend/coder"
	"github.com/kubewharf/kubebrain/pkg/storage"

	"kbverif/lib"
)

var cd = coder.NewNormalCoder()

func cp(b []byte) []byte { return append([]byte{}, b...) }

// ---------- recording partition wrapper ----------

type pcall struct {
	start, end []byte
	parts      []storage.Partition
}

type partitioner struct {
	inner   storage.KvStorage
	current func(start, end []byte) []storage.Partition // nil = one partition
	calls   []pcall
}

func (p *partitioner) fn(start, end []byte) []storage.Partition {
	var res []storage.Partition
	if p.current == nil {
		return []storage.Partition{{Start: cp(start), End: cp(end)}}
	}
	res = p.current(start, end)
	found := false
	for _, c := range p.calls {
		if bytes.Equal(c.start, start) && bytes.Equal(c.end, end) {
			found = true
		}
	}
	if !found {
		rec := make([]storage.Partition, len(res))
		for i, x := range res {
			rec[i] = storage.Partition{Start: cp(x.Start), End: cp(x.End)}
		}
		p.calls = append(p.calls, pcall{cp(start), cp(end), rec})
	}
	out := make([]storage.Partition, len(res)) // the scanner sorts and rewrites the slice in place
	for i, x := range res {
		out[i] = storage.Partition{Start: cp(x.Start), End: cp(x.End)}
	}
	return out
}

func coqCalls(calls []pcall) string {
	xs := make([]string, len(calls))
	for i, c := range calls {
		ps := make([]string, len(c.parts))
		for j, p := range c.parts {
			ps[j] = lib.Pair(lib.Bytes(p.Start), lib.Bytes(p.End))
		}
		xs[i] = "(" + lib.Bytes(c.start) + ", " + lib.Bytes(c.end) + ", " + lib.List(ps) + ")"
	}
	return lib.List(xs)
}

// synthetic tiling: the interval cut at the borders strictly inside it, pieces rotated / reversed
func synthetic(borders [][]byte, rot int, reverse bool) func(start, end []byte) []storage.Partition {
	return func(start, end []byte) []storage.Partition {
		pts := [][]byte{start}
		if bytes.Compare(start, end) < 0 {
			for _, b := range borders {
				if bytes.Compare(start, b) < 0 && bytes.Compare(b, end) < 0 {
					pts = append(pts, b)
				}
			}
		}
		pts = append(pts, end)
		n := len(pts) - 1
		ps := make([]storage.Partition, n)
		for i := 0; i < n; i++ {
			j := (i + rot) % n
			if reverse {
				j = n - 1 - j
			}
			ps[j] = storage.Partition{Start: pts[i], End: pts[i+1]}
		}
		return ps
	}
}

// beforeRead, when set, is told which partitioned read is about to start ("" = none): the scan-fault scenario
// arms one engine fault per read with it
var beforeRead func(kind string)

func arm(kind string) {
	if beforeRead != nil {
		beforeRead(kind)
	}
}

// ---------- reads ----------

func coqKvs(kvs []*proto.KeyValue) string {
	xs := make([]string, len(kvs))
	for i, kv := range kvs {
		xs[i] = "(" + lib.Bytes(kv.Key) + ", " + lib.Bytes(kv.Value) + ", " + lib.N(kv.Revision) + ")"
	}
	return lib.List(xs)
}

func listCoq(n *lib.RSNode, a, b []byte, rev uint64) (string, int) {
	resp, err := n.B.List(context.Background(), &proto.RangeRequest{Key: a, End: b, Revision: rev})
	if err != nil {
		s := err.Error()
		cls := "99"
		switch {
		case strings.Contains(s, "invalid nil end"):
			cls = "1"
		case strings.Contains(s, "invalid range end"):
			cls = "2"
		case strings.Contains(s, "less than compact revision"):
			cls = "3"
		}
		return lib.App("LErr", cls), -1
	}
	return lib.App("LResp", lib.N(resp.Header.Revision), coqKvs(resp.Kvs), lib.Bool(resp.More)), len(resp.Kvs)
}

func countCoq(n *lib.RSNode, a, b []byte) string {
	resp, err := n.B.Count(context.Background(), &proto.CountRequest{Key: a, End: b})
	if err != nil {
		return "CErr"
	}
	return lib.App("CResp", lib.N(resp.Header.Revision), lib.N(resp.Count))
}

type streamObs struct {
	coq     string
	batches int
	kvs     int
	maxb    int
	runaway bool
}

func streamCoq(n *lib.RSNode, start, end []byte, rev uint64) (streamObs, error) {
	ch, err := n.B.ListByStream(context.Background(), start, end, rev)
	if err != nil {
		return streamObs{}, err
	}
	var xs []string
	o := streamObs{}
	deadline := time.After(20 * time.Second)
	for {
		select {
		case m, ok := <-ch:
			if !ok {
				o.coq = lib.List(xs)
				return o, nil
			}
			if m == nil || m.RangeResponse == nil || m.RangeResponse.Header == nil {
				return o, fmt.Errorf("stream message without range response / header")
			}
			rr := m.RangeResponse
			if len(xs) > 400 || o.kvs > 4000 {
				// runaway stream (more than any store of this driver can yield): keep draining, record a
				// malformed sentinel once so that the oracle rejects the stream without a giant case
				if !o.runaway {
					o.runaway = true
					xs = append(xs, "(mk_smsg 0 [] true true)")
				}
				continue
			}
			xs = append(xs, lib.App("mk_smsg", lib.N(rr.Header.Revision), coqKvs(rr.Kvs), lib.Bool(rr.More), lib.Bool(m.Err != "")))
			if rr.More {
				o.batches++
				o.kvs += len(rr.Kvs)
				if len(rr.Kvs) > o.maxb {
					o.maxb = len(rr.Kvs)
				}
			}
		case <-deadline:
			return o, fmt.Errorf("stream not closed within 20s")
		}
	}
}

type rng struct {
	a, b []byte
	rev  uint64
}

func group(n *lib.RSNode, p *partitioner, cur func(start, end []byte) []storage.Partition, g rng, oc map[string]int) (string, error) {
	p.current = nil
	base, nb := listCoq(n, g.a, g.b, g.rev)
	p.current = cur
	arm("list")
	lst, _ := listCoq(n, g.a, g.b, g.rev)
	arm("count")
	cnt := countCoq(n, g.a, g.b)
	arm("stream")
	whole, err := streamCoq(n, cd.EncodeObjectKey(g.a, 0), cd.EncodeObjectKey(g.b, 0), g.rev)
	arm("")
	if err != nil {
		return "", err
	}
	pr, err := n.B.GetPartitions(context.Background(), &proto.ListPartitionRequest{Key: g.a, End: g.b})
	if err != nil {
		return "", err
	}
	ks := make([]string, len(pr.PartitionKeys))
	for i, k := range pr.PartitionKeys {
		ks[i] = lib.Bytes(k)
	}
	parts := "(" + lib.N(pr.Header.Revision) + ", " + lib.N(uint64(pr.PartitionNum)) + ", " + lib.List(ks) + ")"
	var pairs []string
	for i := 0; i+1 < len(pr.PartitionKeys); i++ {
		so, err := streamCoq(n, pr.PartitionKeys[i], pr.PartitionKeys[i+1], g.rev)
		if err != nil {
			return "", err
		}
		pairs = append(pairs, so.coq)
	}
	switch {
	case nb < 0:
		oc["range-refused"]++
	case nb == 0:
		oc["range-empty"]++
	default:
		oc["range-nonempty"]++
	}
	oc[fmt.Sprintf("advertised-%d", len(pr.PartitionKeys))]++
	oc[fmt.Sprintf("stream-batches-%d", whole.batches)]++
	if whole.maxb >= 300 {
		oc["stream-batch-cut-300"]++
	}
	return lib.App("mk_group", lib.Bytes(g.a), lib.Bytes(g.b), lib.N(g.rev), "\n   "+base, "\n   "+lst, cnt, "\n   "+whole.coq, "\n   "+parts, "\n   "+lib.List(pairs)), nil
}

// ---------- border generation ----------

type border struct {
	key  []byte
	kind string
}

func borderPool(r *lib.Rand, dump []lib.KV, cur uint64) []border {
	var out []border
	absent := []string{"/r/a+", "/r/aa", "/r/a/a", "/r/c", "/r/a/b/", "/r/%%", "/r/k3105"}
	for _, kv := range dump {
		if !bytes.HasPrefix(kv.K, []byte("\x57\xfb\x80\x8b")) {
			continue
		}
		uk, rev, err := cd.Decode(kv.K)
		if err != nil {
			continue
		}
		if rev == 0 {
			out = append(out, border{cp(kv.K), "index-record"})
		} else {
			out = append(out, border{cp(kv.K), "version-record"})
			out = append(out, border{cd.EncodeObjectKey(uk, rev+1), "synthetic-revision"})
			out = append(out, border{cd.EncodeObjectKey(uk, cur+40), "synthetic-revision"})
			out = append(out, border{cd.EncodeObjectKey(uk, 1), "synthetic-revision"})
		}
	}
	for _, k := range absent {
		out = append(out, border{cd.EncodeObjectKey([]byte(k), 0), "between-keys"})
		out = append(out, border{cd.EncodeObjectKey([]byte(k), uint64(1+r.Intn(200))), "between-keys"})
	}
	return out
}

func pickBorders(r *lib.Rand, pool []border, n int, oc map[string]int) [][]byte {
	var bs [][]byte
	for i := 0; i < n && len(pool) > 0; i++ {
		b := pool[r.Intn(len(pool))]
		dup := false
		for _, x := range bs {
			if bytes.Equal(x, b.key) {
				dup = true
			}
		}
		if dup {
			continue
		}
		oc["border-"+b.kind]++
		bs = append(bs, b.key)
	}
	sort.Slice(bs, func(i, j int) bool { return bytes.Compare(bs[i], bs[j]) < 0 })
	return bs
}

// ---------- one store ----------

type store struct {
	keys []string
	ops  []lib.RSOp
	big  int // > 0: that many extra keys /r/k%04d (batch cut)
	// extra ranges read in addition (corpus)
	extra []rng
}

func genStore(r *lib.Rand) store {
	nk := 4 + r.Intn(6)
	perm := r.Perm(len(lib.RSKeyPool))
	var keys []string
	for _, i := range perm[:nk] {
		keys = append(keys, lib.RSKeyPool[i])
	}
	st := map[string]*lib.RSLive{}
	next := uint64(lib.RSBaseRev + 1)
	return store{keys: keys, ops: lib.RSGenOps(r, keys, st, &next, 6+r.Intn(16), 0)}
}

func ranges(r *lib.Rand, s store, cur uint64, quick bool) []rng {
	bounds := lib.RSBoundPool(s.keys)
	out := []rng{{[]byte("/r/"), []byte("/r0"), 0}}
	out = append(out, s.extra...)
	if s.big > 0 {
		return out
	}
	out = append(out, rng{[]byte("/r/"), []byte("/r0"), uint64(lib.RSBaseRev + 1 + r.Intn(int(cur-lib.RSBaseRev)+1))})
	n := 2
	if quick {
		n = 1
	}
	for i := 0; i < n; i++ {
		a, b := bounds[r.Intn(len(bounds))], bounds[r.Intn(len(bounds))]
		if bytes.Compare(a, b) > 0 && !r.Chance(1, 10) {
			a, b = b, a
		}
		rev := cur
		if r.Bool() {
			rev = uint64(lib.RSBaseRev + 1 + r.Intn(int(cur-lib.RSBaseRev)+1))
		}
		out = append(out, rng{a, b, rev})
	}
	return out
}

func fill(n *lib.RSNode, s *store) error {
	for i := range s.ops {
		if err := n.Apply(&s.ops[i]); err != nil {
			return err
		}
	}
	for i := 0; i < s.big; i++ {
		o := lib.RSOp{Kind: "create", Key: []byte(fmt.Sprintf("/r/k%04d", i)), Val: []byte{byte('a' + i%26)}}
		if err := n.Apply(&o); err != nil {
			return err
		}
		if i%7 == 3 { // a second version, so that borders can fall between versions
			u := lib.RSOp{Kind: "update", Key: o.Key, Val: []byte("u"), Prev: o.Rev}
			if err := n.Apply(&u); err != nil {
				return err
			}
		}
	}
	return nil
}

type tilingSpec struct {
	borders [][]byte
	rot     int
	reverse bool
}

func runStore(w *lib.Writer, args lib.Args, s store, r *lib.Rand, kind string, ntil int, fixed []tilingSpec, quick bool) {
	oc := map[string]int{}
	inner, closer, err := lib.NewEngine(lib.EngMem, args.Scratch)
	if err != nil {
		w.Fail(lib.ImplFailure{CaseID: w.Len(), What: "engine: " + err.Error()})
		return
	}
	defer closer()
	p := &partitioner{inner: inner}
	wrap := &lib.Wrap{KvStorage: inner, Partitions: p.fn}
	n := lib.NewRSNode(wrap, "c13")
	defer lib.RSRetire()
	if err := fill(n, &s); err != nil {
		w.Fail(lib.ImplFailure{CaseID: w.Len(), What: err.Error()})
		return
	}
	finish(w, n, p, inner, s, r, kind, ntil, fixed, nil, oc, quick)
}

// runTiKVOn: the store on an already opened TiKV adapter (real regions, recorded GetPartitions answers)
func runTiKVOn(w *lib.Writer, inner storage.KvStorage, s store, r *lib.Rand, kind string, oc map[string]int, quick bool) {
	p := &partitioner{inner: inner}
	wrap := &lib.Wrap{KvStorage: inner, Partitions: p.fn}
	n := lib.NewRSNode(wrap, "c13")
	defer lib.RSRetire()
	if err := fill(n, &s); err != nil {
		w.Fail(lib.ImplFailure{CaseID: w.Len(), What: err.Error()})
		return
	}
	real := func(start, end []byte) []storage.Partition {
		ps, err := inner.GetPartitions(context.Background(), start, end)
		if err != nil {
			return nil
		}
		return ps
	}
	finish(w, n, p, inner, s, r, kind, 1, nil, real, oc, quick)
}

func runTiKV(w *lib.Writer, args lib.Args, s store, r *lib.Rand, kind string, splitsOf func(dump []lib.KV, cur uint64) [][]byte, quick bool) {
	oc := map[string]int{}
	// the split keys depend on the stored keys: build the store once on memkv to learn them
	probe, pcl, err := lib.NewEngine(lib.EngMem, args.Scratch)
	if err != nil {
		w.Fail(lib.ImplFailure{CaseID: w.Len(), What: "engine: " + err.Error()})
		return
	}
	pn := lib.NewRSNode(probe, "c13-probe")
	sp := s
	sp.ops = append([]lib.RSOp{}, s.ops...)
	if err := fill(pn, &sp); err != nil {
		pcl()
		lib.RSRetire()
		w.Fail(lib.ImplFailure{CaseID: w.Len(), What: err.Error()})
		return
	}
	pd, _ := lib.Dump(probe)
	splits := splitsOf(pd, pn.B.GetCurrentRevision())
	pcl()
	lib.RSRetire()

	inner, closer, err := lib.NewTiKVSplit(splits...)
	if err != nil {
		w.Fail(lib.ImplFailure{CaseID: w.Len(), What: "tikv: " + err.Error()})
		return
	}
	defer closer()
	p := &partitioner{inner: inner}
	wrap := &lib.Wrap{KvStorage: inner, Partitions: p.fn}
	n := lib.NewRSNode(wrap, "c13")
	defer lib.RSRetire()
	if err := fill(n, &s); err != nil {
		w.Fail(lib.ImplFailure{CaseID: w.Len(), What: err.Error()})
		return
	}
	real := func(start, end []byte) []storage.Partition {
		ps, err := inner.GetPartitions(context.Background(), start, end)
		if err != nil {
			return nil
		}
		return ps
	}
	oc[fmt.Sprintf("tikv-splits-%d", len(splits))]++
	finish(w, n, p, inner, s, r, kind, 1, nil, real, oc, quick)
}

func finish(w *lib.Writer, n *lib.RSNode, p *partitioner, inner storage.KvStorage, s store, r *lib.Rand, kind string,
	ntil int, fixed []tilingSpec, real func(start, end []byte) []storage.Partition, oc map[string]int, quick bool) {
	cur := n.B.GetCurrentRevision()
	dump, err := lib.Dump(inner)
	if err != nil {
		w.Fail(lib.ImplFailure{CaseID: w.Len(), What: "dump: " + err.Error()})
		return
	}
	pool := borderPool(r, dump, cur)
	rgs := ranges(r, s, cur, quick)
	var tilings []string
	var jt []interface{}
	maxPieces := 0
	for ti := 0; ti < ntil; ti++ {
		var curFn func(start, end []byte) []storage.Partition
		var desc interface{}
		if real != nil {
			curFn = real
			desc = "tikv regions"
		} else {
			var spec tilingSpec
			if ti < len(fixed) {
				spec = fixed[ti]
			} else {
				spec = tilingSpec{borders: pickBorders(r, pool, r.Intn(5), oc)}
				if r.Bool() { // the engine lists its partitions out of key order
					spec.rot, spec.reverse = r.Intn(5), r.Bool()
				}
			}
			curFn = synthetic(spec.borders, spec.rot, spec.reverse)
			hb := make([]string, len(spec.borders))
			for i, b := range spec.borders {
				hb[i] = lib.Q(b)
			}
			desc = map[string]interface{}{"borders": hb, "rot": spec.rot, "reverse": spec.reverse}
			if spec.rot%(len(spec.borders)+1) != 0 || (spec.reverse && len(spec.borders) > 0) {
				oc["engine-order-shuffled"]++
			} else {
				oc["engine-order-ascending"]++
			}
		}
		p.calls = nil
		var gs []string
		for _, g := range rgs {
			gc, err := group(n, p, curFn, g, oc)
			if err != nil {
				w.Fail(lib.ImplFailure{CaseID: w.Len(), What: err.Error(), Case: desc})
				return
			}
			gs = append(gs, gc)
		}
		for _, c := range p.calls {
			if len(c.parts) > maxPieces {
				maxPieces = len(c.parts)
			}
			oc[fmt.Sprintf("pieces-%d", len(c.parts))]++
		}
		tilings = append(tilings, lib.App("mk_tiling", coqCalls(p.calls), "["+strings.Join(gs, ";\n  ")+"]"))
		jt = append(jt, desc)
	}
	var jo []interface{}
	for _, o := range s.ops {
		jo = append(jo, o.JSON())
	}
	coq := lib.App("mk_c13", lib.Bytes(lib.RSCompactKey), lib.CoqDump(dump), lib.N(cur), "["+strings.Join(tilings, ";\n ")+"]")
	for k, v := range oc {
		w.Stats.Outcomes[k] += v
	}
	w.Add(lib.Case{Coq: coq, Kind: kind, Trivial: maxPieces < 2 || len(dump) < 4,
		JSON: map[string]interface{}{"engine": kind, "ops": jo, "big": s.big, "cur": cur, "records": len(dump), "tilings": jt}})
}

func enc(k string, r uint64) []byte { return cd.EncodeObjectKey([]byte(k), r) }

func main() {
	lib.QuietLogs()
	args := lib.ParseArgs()
	lib.RSInstallHook()
	rnd := lib.NewRand(args.Seed)
	ns, ntil, tikvEvery := 60, 4, 6
	quick := true
	switch args.Tier {
	case "thorough":
		ns, ntil, tikvEvery, quick = 500, 6, 4, false
	case "search":
		ns, ntil, tikvEvery = 200, 5, 5
	}
	w := lib.NewWriter(args, "C13", "c13", "From KB Require Import Model.C13Cases Model.ReadValid.", "c13_case", "c13_check_valid", "c13_oracle", 5)

	// corpus 3: 700 keys: the 300-entry batch cut in a single partition (300/300/100), in partitions of 250/450
	// (border between two versions of /r/k0248... resp. on a version record) and 3/302/385/10 keys
	big := store{big: 700}
	runStore(w, args, big, rnd.Fork(), "corpus/memkv-wrap-big", 3, []tilingSpec{
		{borders: nil},
		{borders: [][]byte{enc("/r/k0250", 5000)}},
		{borders: [][]byte{enc("/r/k0003", 0), enc("/r/k0305", 440), enc("/r/k0690", 1)}, reverse: true},
	}, quick)

	c := func(k, v string) lib.RSOp { return lib.RSOp{Kind: "create", Key: []byte(k), Val: []byte(v)} }
	u := func(k, v string, prev uint64) lib.RSOp {
		return lib.RSOp{Kind: "update", Key: []byte(k), Val: []byte(v), Prev: prev}
	}
	d := func(k string, prev uint64) lib.RSOp { return lib.RSOp{Kind: "delete", Key: []byte(k), Prev: prev} }
	// corpus 1: three versions of /r/a; borders between two versions (fix 51e6ded), on the index record, between keys;
	// tilings 2-4 list the pieces out of key order (fix for C13-F1: GetPartitions sorts the engine's list)
	// extra ranges start exactly at the key whose versions are split (the adjusted border = start of the interval)
	x1 := []rng{{[]byte("/r/a"), []byte("/r0"), 0}, {[]byte("/r/a"), []byte("/r/a/"), 104}, {[]byte("/r/a"), []byte("/r/b"), 103},
		// revisions at which only the versions *before* a mid-version border qualify
		{[]byte("/r/"), []byte("/r0"), 101}, {[]byte("/r/"), []byte("/r0"), 102}, {[]byte("/r/"), []byte("/r0"), 103}, {[]byte("/r/"), []byte("/r0"), 104}}
	s1 := store{keys: []string{"/r/a", "/r/a/b", "/r/b"}, extra: x1, ops: []lib.RSOp{c("/r/a", "1"), c("/r/a/b", "x"), u("/r/a", "2", 101), c("/r/b", "y"), u("/r/a", "3", 103), d("/r/a/b", 0), c("/r/ab", "z")}}
	runStore(w, args, s1, rnd.Fork(), "corpus/memkv-wrap", 5, []tilingSpec{
		{borders: [][]byte{enc("/r/a", 103)}},                                             // on a version record of /r/a
		{borders: [][]byte{enc("/r/a", 104)}, reverse: true},                              // between two versions
		{borders: [][]byte{enc("/r/a", 102), enc("/r/a", 104), enc("/r/a", 500)}, rot: 1}, // several inside one key
		{borders: [][]byte{enc("/r/a/b", 0), enc("/r/aa", 7), enc("/r/b", 0)}, rot: 2},
		{borders: nil},
	}, quick)
	// corpus 2: the same store on TiKV, region border between two versions of /r/a (fix 51e6ded), and a second split
	s1b := s1
	s1b.ops = []lib.RSOp{c("/r/a", "1"), c("/r/a/b", "x"), u("/r/a", "2", 101), c("/r/b", "y"), u("/r/a", "3", 103), d("/r/a/b", 0), c("/r/ab", "z")}
	runTiKV(w, args, s1b, rnd.Fork(), "corpus/tikv-split", func([]lib.KV, uint64) [][]byte {
		return [][]byte{enc("/r/a", 104), enc("/r/a/b", 106)}
	}, quick)
	for i := 0; i < ns; i++ {
		hr := rnd.Fork()
		s := genStore(hr)
		if i%tikvEvery == tikvEvery-1 {
			runTiKV(w, args, s, hr, "random/tikv-split", func(dump []lib.KV, cur uint64) [][]byte {
				oc := map[string]int{}
				bs := pickBorders(hr, borderPool(hr, dump, cur), 1+hr.Intn(3), oc)
				for k, v := range oc {
					w.Stats.Outcomes["tikv-"+k] += v
				}
				return bs
			}, quick)
		} else {
			runStore(w, args, s, hr, "random/memkv-wrap", ntil, nil, quick)
		}
	}
	// corpus 5: the real TiKV adapter on a mock cluster of 151 regions (seeded change C13-8: GetPartitions pages
	// ScanRegions by 128): List, Count, streams and advertised partitions over a 200-key store split at 150 keys
	{
		var splits [][]byte
		for j := 1; j <= 150; j++ {
			k := fmt.Sprintf("/r/k%04d", j*200/151)
			switch j % 3 {
			case 0:
				splits = append(splits, enc(k, 0))
			case 1:
				splits = append(splits, enc(k, 1))
			default:
				splits = append(splits, enc(k, 1<<40))
			}
		}
		inner, closer, err := lib.NewTiKVSplit(splits...)
		if err != nil {
			w.Fail(lib.ImplFailure{CaseID: w.Len(), What: "tikv: " + err.Error()})
		} else {
			runTiKVOn(w, inner, store{big: 200}, rnd.Fork(), "corpus/tikv-151-regions", map[string]int{"tikv-splits-150": 1}, quick)
			closer()
		}
	}
	// corpus 6: a store-side failure of a scan continuation (seeded change C13-7: iter.Next reports a failed fetch as
	// the end of the partition). Two regions of more than 256 records each; while a partitioned List / Count / stream
	// runs, the 2nd CmdScan batch of the first region is answered once with an empty response ("body missing"): the
	// worker must fail and be retried (one back-off second per read), never lose keys silently
	{
		split := enc("/r/k0150", 0)
		lo := enc("/r/k0000", 0)
		var left int32
		hooked, err := lib.NewTiKVHooked(split)
		if err != nil {
			w.Fail(lib.ImplFailure{CaseID: w.Len(), What: "tikv: " + err.Error()})
		} else {
			faults := 0
			inner, err := hooked.Open(1, func(ctx context.Context, addr string, req *tikvrpc.Request, next func() (*tikvrpc.Response, error)) (*tikvrpc.Response, error) {
				if req.Type == tikvrpc.CmdScan {
					sr := req.Scan()
					if !sr.Reverse && bytes.Compare(sr.StartKey, lo) > 0 && bytes.Compare(sr.StartKey, split) < 0 && atomic.AddInt32(&left, -1) >= 0 {
						faults++
						return &tikvrpc.Response{}, nil
					}
				}
				return next()
			}, nil)
			if err != nil {
				w.Fail(lib.ImplFailure{CaseID: w.Len(), What: "tikv: " + err.Error()})
			} else {
				beforeRead = func(kind string) {
					if kind == "" {
						atomic.StoreInt32(&left, 0)
					} else {
						atomic.StoreInt32(&left, 1)
					}
				}
				oc := map[string]int{}
				runTiKVOn(w, inner, store{big: 300}, rnd.Fork(), "corpus/tikv-scan-fault", oc, quick)
				beforeRead = nil
				w.Stats.Outcomes["scan-continuation-faults-injected"] += faults
				if faults == 0 {
					w.Fail(lib.ImplFailure{CaseID: w.Len() - 1, What: "scan-fault scenario: no continuation scan was intercepted (scenario degenerate)"})
				}
			}
			hooked.Close()
		}
	}

	// corpus 4 (last, so that it sits in the small tail shard): engines that cut the interval into MANY pieces — 65, 127,
	// 130 and 191 partitions of a 200-key store (seeded change C13-6: a cap on the number of workers that drops the
	// tail when the count is not a multiple of the group size); borders on index records, just behind them and
	// behind all versions of a key, one tiling listed in rotated order
	many := func(pieces int, rot int) tilingSpec {
		var bs [][]byte
		for j := 1; j < pieces; j++ {
			k := fmt.Sprintf("/r/k%04d", j*200/pieces)
			switch j % 3 {
			case 0:
				bs = append(bs, enc(k, 0))
			case 1:
				bs = append(bs, enc(k, 1))
			default:
				bs = append(bs, enc(k, 1<<40))
			}
		}
		return tilingSpec{borders: bs, rot: rot}
	}
	runStore(w, args, store{big: 200}, rnd.Fork(), "corpus/memkv-wrap-many-pieces", 4, []tilingSpec{many(65, 0), many(127, 0), many(130, 17), many(191, 0)}, quick)

	// validity (the hypotheses of C13_oracle_sound) is evaluated per case by the shards: their check function is
	// c13_check_valid = c13_check && c13_validb; an invalid case is a mismatch
	w.Stats.Extra["invalid_cases"] = 0
	w.Stats.Extra["validity_evaluated_by"] = "coqc on every shard: mismatches c13_check_valid cases = [] (Model/ReadValid.v, Proofs/ReadValid.v: C13_check_valid_sound)"
	if err := w.Finish("one case = one store (write history over 4..9 prefix-related keys, or 620 keys for the batch cut) read under 1..6 partitionings of 1..5 pieces (borders: index record, version record, synthetic Enc(k,r), between keys; shuffled; or real TiKV regions); per partitioning and (range, revision): List, Count, ListByStream whole and per advertised pair, GetPartitions, unpartitioned List; distinct = SHA-256 of the Coq case; non-trivial = some engine answer had at least 2 pieces and the store has at least 4 records"); err != nil {
		fmt.Fprintln(os.Stderr, err)
		os.Exit(2)
	}
}
