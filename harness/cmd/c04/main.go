// Driver c04: schedule cases with a high share of malformed requests (future / huge / negative
// expected revisions, missing keys), storage errors at every kind of engine call, engine-reported
// conflict aborts and out-of-order completion; GetCurrentRevision() is sampled after every step and
// at quiescence (a marker create must become readable). Judged by progress_ok.
package main

import (
	"fmt"
	"os"

	"kbverif/lib"
)

func main() {
	lib.QuietLogs()
	args := lib.ParseArgs()
	w := lib.NewWriter(args, "C04", "c04", "From KB Require Import Model.C04Cases.", "sched_case", "c04_check", "c04_oracle", 150)
	lib.KBDrive(w, args, lib.KBProfile{Prop: "C04", Malformed: 40, ErrPct: 15, AbortPct: 6,
		Quick: 300, QuickOther: 40, Thorough: 5000, Search: 1500, Exhaustive: false, SmallCache: true})
	if err := w.Finish("non-trivial = a step of one client thread happened between two steps of another"); err != nil {
		fmt.Fprintln(os.Stderr, err)
		os.Exit(2)
	}
}
