// Driver c10: runs the real coder, PrefixEnd and ParseRevision on generated inputs and writes the
// observations as Coq cases (checked against Model/Coder.v and the C10 oracle).
package main

import (
	"bytes"
	"context"
	"fmt"
	"os"
	"runtime"
	"sync"
	"sync/atomic"
	"time"

	proto "github.com/kubewharf/kubebrain-client/api/v2rpc"
	"github.com/kubewharf/kubebrain/pkg/backend"
	"github.com/kubewharf/kubebrain/pkg/backend/coder"
	"github.com/kubewharf/kubebrain/pkg/storage"
	"github.com/kubewharf/kubebrain/pkg/storage/memkv"

	"kbverif/lib"
)

var cd = coder.NewNormalCoder()

func exact(b []byte) []byte { // exact-capacity copy so out-of-range slicing panics as in the model
	c := make([]byte, len(b))
	copy(c, b)
	return c
}

func decode(ik []byte) (res string, outcome string) {
	defer func() {
		if r := recover(); r != nil {
			res, outcome = "DecPanic", "panic"
		}
	}()
	k, r, err := cd.Decode(exact(ik))
	if err != nil {
		return "DecErr", "err"
	}
	return lib.App("DecOk", lib.Bytes(k), lib.N(r)), "ok"
}

var revPool = []uint64{0, 1, 2, 255, 256, 257, 65535, 65536, 1 << 32, 1<<32 - 1, 1 << 63, 1<<63 - 1, 1<<64 - 1, 1<<64 - 2, 0x0102030405060708, 36, 0x24242424}

func genRev(r *lib.Rand) uint64 {
	switch r.Intn(4) {
	case 0:
		return revPool[r.Intn(len(revPool))]
	case 1:
		return r.U64()
	case 2:
		return r.U64() >> uint(r.Intn(64))
	default:
		return uint64(r.Intn(1000))
	}
}

// alphabet key: bytes > '$'
func genAlphaKey(r *lib.Rand) []byte {
	n := r.Intn(7)
	if r.Chance(1, 10) {
		n = 0
	}
	k := make([]byte, n)
	for i := range k {
		switch r.Intn(5) {
		case 0:
			k[i] = 0xff
		case 1:
			k[i] = 37 // '%', the smallest alphabet byte
		case 2:
			k[i] = "/-.ab"[r.Intn(5)]
		default:
			k[i] = byte(37 + r.Intn(256-37))
		}
	}
	return k
}

// related key: a prefix, an extension or a one-byte variation of k
func related(r *lib.Rand, k []byte) []byte {
	switch r.Intn(5) {
	case 0:
		if len(k) > 0 {
			return exact(k[:r.Intn(len(k))])
		}
		return exact(k)
	case 1:
		return append(exact(k), genAlphaKey(r)...)
	case 2:
		if len(k) > 0 {
			c := exact(k)
			i := r.Intn(len(c))
			if c[i] < 0xff {
				c[i]++
			} else {
				c[i]--
			}
			return c
		}
		return []byte{37}
	case 3:
		return exact(k)
	default:
		return genAlphaKey(r)
	}
}

func genAnyBytes(r *lib.Rand, max int) []byte {
	n := r.Intn(max + 1)
	b := make([]byte, n)
	for i := range b {
		switch r.Intn(4) {
		case 0:
			b[i] = 0xff
		case 1:
			b[i] = '$'
		case 2:
			b[i] = 0
		default:
			b[i] = byte(r.Intn(256))
		}
	}
	return b
}

func inBounds(lo, hi, x []byte) bool { return bytes.Compare(lo, x) <= 0 && bytes.Compare(x, hi) < 0 }

func main() {
	args := lib.ParseArgs()
	rnd := lib.NewRand(args.Seed)
	n := 2500
	if args.Tier == "thorough" {
		n = 40000
	} else if args.Tier == "search" {
		n = 12000
	}
	w := lib.NewWriter(args, "C10", "c10", "From KB Require Import Model.C10Cases.", "c10_case", "c10_check", "c10_oracle", 4000)

	for i := 0; i < n; i++ {
		switch i % 9 {
		case 0: // encode
			k, r := genAnyBytes(rnd, 8), genRev(rnd)
			out := cd.EncodeObjectKey(k, r)
			w.Add(lib.Case{Kind: "encode", Coq: lib.App("KEnc", lib.Bytes(k), lib.N(r), lib.Bytes(out)),
				JSON:    map[string]interface{}{"op": "encode", "key": lib.HexBytes(k), "rev": r, "out": lib.HexBytes(out)},
				Trivial: len(k) == 0, Outcomes: []string{"ok"}})
		case 1: // decode of arbitrary / mutated internal keys
			var ik []byte
			switch rnd.Intn(4) {
			case 0:
				ik = genAnyBytes(rnd, 16)
			case 1: // valid then truncated
				ik = cd.EncodeObjectKey(genAnyBytes(rnd, 5), genRev(rnd))
				ik = ik[:rnd.Intn(len(ik)+1)]
			case 2: // valid with one byte flipped
				ik = cd.EncodeObjectKey(genAnyBytes(rnd, 5), genRev(rnd))
				ik[rnd.Intn(len(ik))] ^= byte(1 << uint(rnd.Intn(8)))
			default:
				ik = cd.EncodeObjectKey(genAnyBytes(rnd, 5), genRev(rnd))
			}
			res, oc := decode(ik)
			w.Add(lib.Case{Kind: "decode", Coq: lib.App("KDec", lib.Bytes(ik), res),
				JSON: map[string]interface{}{"op": "decode", "ikey": lib.HexBytes(ik), "out": res}, Outcomes: []string{oc}})
		case 2: // round trip
			k, r := genAnyBytes(rnd, 8), genRev(rnd)
			if rnd.Bool() {
				k = genAlphaKey(rnd)
			}
			res, oc := decode(cd.EncodeObjectKey(k, r))
			w.Add(lib.Case{Kind: "roundtrip", Coq: lib.App("KRound", lib.Bytes(k), lib.N(r), res),
				JSON: map[string]interface{}{"op": "roundtrip", "key": lib.HexBytes(k), "rev": r, "out": res}, Outcomes: []string{oc}})
		case 3, 4: // order of two encodings
			k1 := genAlphaKey(rnd)
			k2 := related(rnd, k1)
			if rnd.Chance(1, 8) { // outside the alphabet: only model agreement is checked
				k2 = genAnyBytes(rnd, 4)
			}
			r1, r2 := genRev(rnd), genRev(rnd)
			if rnd.Chance(1, 4) {
				r2 = r1
			}
			if rnd.Chance(1, 6) {
				r2 = r1 + 1
			}
			c := bytes.Compare(cd.EncodeObjectKey(k1, r1), cd.EncodeObjectKey(k2, r2))
			w.Add(lib.Case{Kind: "order", Coq: lib.App("KCmp", lib.Bytes(k1), lib.N(r1), lib.Bytes(k2), lib.N(r2), lib.Z(int64(c))),
				JSON:     map[string]interface{}{"op": "order", "k1": lib.HexBytes(k1), "r1": r1, "k2": lib.HexBytes(k2), "r2": r2, "cmp": c},
				Outcomes: []string{fmt.Sprintf("cmp%d", c)}, Trivial: bytes.Equal(k1, k2) && r1 == r2})
		case 5: // prefix end
			p := genAnyBytes(rnd, 6)
			if rnd.Chance(1, 4) {
				p = bytes.Repeat([]byte{0xff}, rnd.Intn(4))
			}
			if rnd.Chance(1, 4) {
				p = append(genAlphaKey(rnd), bytes.Repeat([]byte{0xff}, rnd.Intn(3))...)
			}
			arg := exact(p)
			out := backend.PrefixEnd(arg)
			if !bytes.Equal(arg, p) { // the caller's prefix must survive the call
				w.Fail(lib.ImplFailure{CaseID: w.Len(), What: fmt.Sprintf("PrefixEnd modified its argument: %x became %x (returned %x)", p, arg, out),
					Case: map[string]interface{}{"op": "prefix_end", "p": lib.HexBytes(p), "p_after": lib.HexBytes(arg), "out": lib.HexBytes(out)}})
			}
			oc := "end"
			if bytes.Equal(out, []byte{0}) {
				oc = "no-end"
			}
			w.Add(lib.Case{Kind: "prefix_end", Coq: lib.App("KPfx", lib.Bytes(p), lib.Bytes(out)),
				JSON: map[string]interface{}{"op": "prefix_end", "p": lib.HexBytes(p), "out": lib.HexBytes(out)}, Outcomes: []string{oc}})
		case 6: // parse revision
			var b []byte
			switch rnd.Intn(4) {
			case 0:
				b = genAnyBytes(rnd, 12)
			case 1:
				b = genAnyBytes(rnd, 8)
				for len(b) < 8 {
					b = append(b, byte(rnd.Intn(256)))
				}
			case 2:
				b = make([]byte, 9)
				for j := range b {
					b[j] = byte(rnd.Intn(256))
				}
			default:
				b = make([]byte, 7+rnd.Intn(4))
			}
			rev, tomb, err := coder.ParseRevision(b)
			out, oc := lib.None(), "reject"
			if err == nil {
				out, oc = lib.Some(lib.Pair(lib.N(rev), lib.Bool(tomb))), fmt.Sprintf("ok-tomb-%v", tomb)
			}
			w.Add(lib.Case{Kind: "parse_revision", Coq: lib.App("KPar", lib.Bytes(b), out),
				JSON: map[string]interface{}{"op": "parse_revision", "b": lib.HexBytes(b), "out": out}, Outcomes: []string{oc}})
		case 7: // prefix enclosure computed with the real functions
			p := genAlphaKey(rnd)
			if rnd.Chance(1, 3) { // prefixes with a 0xff tail: PrefixEnd must strip it
				p = append(p, bytes.Repeat([]byte{0xff}, 1+rnd.Intn(2))...)
			}
			k := related(rnd, p)
			if rnd.Chance(1, 2) { // keys around the true end of the prefix interval
				stem := bytes.TrimRight(p, "\xff")
				if len(stem) > 0 {
					stem = exact(stem)
					stem[len(stem)-1]++
					k = append(stem, [][]byte{{}, {'/', 'x'}, {0xfe}, {0xff}, {37}}[rnd.Intn(5)]...)
				}
			}
			r := genRev(rnd)
			// one caller-owned slice for both borders, the end computed first (a caller that keeps its prefix)
			arg := exact(p)
			hi := cd.EncodeObjectKey(backend.PrefixEnd(arg), 0)
			lo := cd.EncodeObjectKey(arg, 0)
			in := inBounds(lo, hi, cd.EncodeObjectKey(k, r))
			w.Add(lib.Case{Kind: "prefix_enclosure", Coq: lib.App("KEncl", lib.Bytes(p), lib.Bytes(k), lib.N(r), lib.Bool(in)),
				JSON:     map[string]interface{}{"op": "prefix_enclosure", "p": lib.HexBytes(p), "k": lib.HexBytes(k), "rev": r, "inside": in},
				Outcomes: []string{fmt.Sprintf("inside-%v", in)}})
		case 8: // range enclosure
			a := genAlphaKey(rnd)
			b := related(rnd, a)
			k := related(rnd, a)
			if rnd.Bool() {
				k = related(rnd, b)
			}
			r := genRev(rnd)
			in := inBounds(cd.EncodeObjectKey(a, 0), cd.EncodeObjectKey(b, 0), cd.EncodeObjectKey(k, r))
			w.Add(lib.Case{Kind: "range_enclosure", Coq: lib.App("KRange", lib.Bytes(a), lib.Bytes(b), lib.Bytes(k), lib.N(r), lib.Bool(in)),
				JSON:     map[string]interface{}{"op": "range_enclosure", "a": lib.HexBytes(a), "b": lib.HexBytes(b), "k": lib.HexBytes(k), "rev": r, "inside": in},
				Outcomes: []string{fmt.Sprintf("inside-%v", in)}})
		}
	}
	compactBorders(w, rnd, n/8)
	partitionTiling(w)
	concurrentRoundTrips(w, args.Tier)
	// uint64ToBytes is unexported: observed through the index-record value format (8 bytes big endian)
	// which ParseRevision inverts; covered by KPar on 8-byte inputs.
	if err := w.Finish("inputs drawn from structured pools (alphabet keys with 0xff/'%' edges, prefix-related key pairs, revisions at byte boundaries and 2^64-1, truncated/bit-flipped internal keys); distinct = SHA-256 of the Coq case; non-trivial = not (empty key encode) and not (identical pair in an order case)"); err != nil {
		fmt.Fprintln(os.Stderr, err)
		os.Exit(2)
	}
}

// concurrentRoundTrips: the coder is one stateless value shared by all request goroutines, so the round trip
// must also hold when several goroutines encode at once (short keys included: any scratch space shared
// between calls shows up here). Every goroutine owns its keys; a failure is reported with the exact call.
func concurrentRoundTrips(w *lib.Writer, tier string) {
	dur := 400 * time.Millisecond
	if tier != "quick" {
		dur = 3 * time.Second
	}
	if runtime.GOMAXPROCS(0) < 4 {
		defer runtime.GOMAXPROCS(runtime.GOMAXPROCS(4))
	}
	keys := [][]string{{"", "/a", "/registry/pods/a"}, {"/b", "%"}, {"/cd", "/registry/x"}, {"xyz", "~"}, {"/e/f", "a"}, {"~~", "/"}, {"a.b", "\xff"}, {"/abc", "%\xff"}}
	var (
		wg    sync.WaitGroup
		stop  int32
		calls int64
		mu    sync.Mutex
		first *lib.ImplFailure
	)
	deadline := time.Now().Add(dur)
	for g := range keys {
		wg.Add(1)
		go func(g int) {
			defer wg.Done()
			n := int64(0)
			defer func() { atomic.AddInt64(&calls, n) }()
			for i := uint64(1); atomic.LoadInt32(&stop) == 0; i++ {
				key := []byte(keys[g][i%uint64(len(keys[g]))])
				rev := i<<8 | uint64(g)
				enc := cd.EncodeObjectKey(key, rev)
				uk, r, err := cd.Decode(enc)
				n++
				if err != nil || !bytes.Equal(uk, key) || r != rev || !bytes.Equal(key, []byte(keys[g][i%uint64(len(keys[g]))])) {
					mu.Lock()
					if first == nil {
						first = &lib.ImplFailure{CaseID: -1, What: fmt.Sprintf("round trip broken under concurrent encoding: EncodeObjectKey(%q, %d) = %x decodes to (%q, %d, err=%v)", keys[g][i%uint64(len(keys[g]))], rev, enc, uk, r, err),
							Case: map[string]interface{}{"op": "concurrent_roundtrip", "goroutines": len(keys), "key": lib.HexBytes([]byte(keys[g][i%uint64(len(keys[g]))])), "rev": rev, "encoded": lib.HexBytes(enc), "decoded_key": lib.HexBytes(uk), "decoded_rev": r}}
					}
					mu.Unlock()
					atomic.StoreInt32(&stop, 1)
					return
				}
				if i%1024 == 0 && time.Now().After(deadline) {
					return
				}
			}
		}(g)
	}
	wg.Wait()
	if first != nil {
		w.Fail(*first)
	}
	w.Stats.Extra["concurrent_roundtrip_calls"] = calls
}

// compactBorders: the prefix bounds as the backend itself computes them for compaction, on nodes configured
// with different key prefixes (the empty default included) and nothing skipped: getCompactBorders must give
// exactly [Enc(p/,0), Enc(PrefixEnd(p/),0)) and enclose exactly the records of the keys under p/.
func compactBorders(w *lib.Writer, rnd *lib.Rand, n int) {
	cfgs := []string{"", "/", "/registry", "/registry/", "/a/b", "%", "/registry/pods", "~", "/r\xff", "/x/y/"}
	for ci, cfg := range cfgs {
		b := backend.NewBackend(memkv.NewKvStorage(), backend.Config{Prefix: cfg, Identity: "c10", WatchCacheSize: 16}, &lib.NopMetrics{})
		borders := backend.VerifCompactBorders(b)
		if len(borders) != 2 {
			w.Fail(lib.ImplFailure{CaseID: -1, What: fmt.Sprintf("getCompactBorders of a node with prefix %q and nothing skipped gives %d borders", cfg, len(borders)),
				Case: map[string]interface{}{"op": "compact_borders", "prefix": lib.HexBytes([]byte(cfg)), "borders": len(borders)}})
			continue
		}
		lo, hi := borders[0], borders[1]
		p := []byte(cfg)
		if len(p) == 0 || p[len(p)-1] != '/' {
			p = append(exact(p), '/')
		}
		for j := 0; j < n/len(cfgs)+1; j++ {
			var k []byte
			switch rnd.Intn(5) {
			case 0:
				k = genAlphaKey(rnd)
			case 1: // around the true end of the prefix interval
				stem := exact(p)
				stem[len(stem)-1]++
				k = append(stem, [][]byte{{}, {'x'}, {0xff}, {37}}[rnd.Intn(4)]...)
			case 2: // just below the prefix
				k = exact(p[:len(p)-1])
				if rnd.Bool() {
					k = append(k, '.', 'z')
				}
			default:
				k = related(rnd, p)
			}
			r := genRev(rnd)
			in := inBounds(lo, hi, cd.EncodeObjectKey(k, r))
			w.Add(lib.Case{Kind: "compact_borders", Coq: lib.App("KBord", lib.Bytes([]byte(cfg)), lib.Bytes(lo), lib.Bytes(hi), lib.Bytes(k), lib.N(r), lib.Bool(in)),
				JSON:     map[string]interface{}{"op": "compact_borders", "prefix": lib.HexBytes([]byte(cfg)), "lo": lib.HexBytes(lo), "hi": lib.HexBytes(hi), "k": lib.HexBytes(k), "rev": r, "inside": in},
				Outcomes: []string{fmt.Sprintf("cfg%d-inside-%v", ci, in)}})
		}
	}
}

// iterRec records the bounds of every iterator the backend opens and reports fixed partition borders.
type iterRec struct {
	*lib.Wrap
	mu  sync.Mutex
	ivs [][2][]byte
}

func (r *iterRec) Iter(ctx context.Context, start, end []byte, ts, limit uint64) (storage.Iter, error) {
	r.mu.Lock()
	r.ivs = append(r.ivs, [2][]byte{exact(start), exact(end)})
	r.mu.Unlock()
	return r.Wrap.Iter(ctx, start, end, ts, limit)
}

// partitionTiling: when the engine reports partitions, the scan bounds of an unlimited range read are
// computed per partition (scanner.adjustPartitionsBorders realigns a border that falls on a version record
// to the key's index record). Whatever the borders, the scanned intervals must enclose every record of the
// raw keys inside the range exactly once: each stored record of the range lies in exactly one interval.
func partitionTiling(w *lib.Writer) {
	const prefix = "/registry/"
	kv := memkv.NewKvStorage()
	var borders [][]byte
	rec := &iterRec{Wrap: &lib.Wrap{KvStorage: kv}}
	rec.Wrap.Partitions = func(start, end []byte) []storage.Partition {
		var ps []storage.Partition
		cur := start
		for _, b := range borders {
			if bytes.Compare(cur, b) < 0 && bytes.Compare(b, end) < 0 {
				ps = append(ps, storage.Partition{Start: cur, End: b})
				cur = b
			}
		}
		return append(ps, storage.Partition{Start: cur, End: end})
	}
	b := backend.NewBackend(rec, backend.Config{Prefix: prefix, Identity: "c10", WatchCacheSize: 64}, &lib.NopMetrics{})
	b.SetCurrentRevision(1000)
	ctx := context.Background()
	keys := []string{"/registry/a", "/registry/b", "/registry/b/x", "/registry/c", "/registry/d"}
	revs := map[string][]uint64{}
	for _, k := range keys {
		resp, err := b.Create(ctx, &proto.CreateRequest{Key: []byte(k), Value: []byte("v0")})
		if err != nil || !resp.Succeeded {
			w.Fail(lib.ImplFailure{CaseID: -1, What: fmt.Sprintf("partition tiling: create %s: %v", k, err)})
			return
		}
		revs[k] = append(revs[k], resp.Header.Revision)
	}
	for i := 0; i < 4; i++ {
		for _, k := range []string{"/registry/b", "/registry/c"} {
			last := revs[k][len(revs[k])-1]
			resp, err := b.Update(ctx, &proto.UpdateRequest{Kv: &proto.KeyValue{Key: []byte(k), Value: []byte(fmt.Sprintf("v%d", i+1)), Revision: last}})
			if err != nil || !resp.Succeeded {
				w.Fail(lib.ImplFailure{CaseID: -1, What: fmt.Sprintf("partition tiling: update %s: %v", k, err)})
				return
			}
			revs[k] = append(revs[k], resp.Header.Revision)
		}
	}
	top := revs["/registry/c"][len(revs["/registry/c"])-1]
	if !lib.WaitUntil(3*time.Second, func() bool { return b.GetCurrentRevision() >= top }) {
		w.Fail(lib.ImplFailure{CaseID: -1, What: "partition tiling: writes did not become readable"})
		return
	}
	rb, rc := revs["/registry/b"], revs["/registry/c"]
	configs := [][][]byte{
		{cd.EncodeObjectKey([]byte("/registry/b"), rb[2])},                                                   // inside b's versions
		{cd.EncodeObjectKey([]byte("/registry/b"), rb[len(rb)-1])},                                           // b's newest version
		{cd.EncodeObjectKey([]byte("/registry/b"), 0)},                                                       // on b's index record
		{cd.EncodeObjectKey([]byte("/registry/b"), rb[1]), cd.EncodeObjectKey([]byte("/registry/b"), rb[3])}, // two borders in one key
		{cd.EncodeObjectKey([]byte("/registry/b"), rb[2]), cd.EncodeObjectKey([]byte("/registry/c"), rc[1])},
		{cd.EncodeObjectKey([]byte("/registry/b/x"), 0), cd.EncodeObjectKey([]byte("/registry/c"), rc[3]), cd.EncodeObjectKey([]byte("/registry/d"), 1<<40)},
	}
	dump, err := lib.Dump(kv)
	if err != nil {
		w.Fail(lib.ImplFailure{CaseID: -1, What: "partition tiling: dump: " + err.Error()})
		return
	}
	start, end := []byte(prefix), backend.PrefixEnd([]byte(prefix))
	lo, hi := cd.EncodeObjectKey(start, 0), cd.EncodeObjectKey(end, 0)
	reads := 0
	for ci, cfg := range configs {
		borders = cfg
		for _, rev := range []uint64{rb[0], rb[2], top} {
			rec.mu.Lock()
			rec.ivs = nil
			rec.mu.Unlock()
			if _, err := b.List(ctx, &proto.RangeRequest{Key: start, End: end, Revision: rev}); err != nil {
				w.Fail(lib.ImplFailure{CaseID: -1, What: fmt.Sprintf("partition tiling: list at %d: %v", rev, err)})
				continue
			}
			reads++
			rec.mu.Lock()
			ivs := rec.ivs
			rec.mu.Unlock()
			for _, d := range dump {
				if !inBounds(lo, hi, d.K) {
					continue
				}
				n := 0
				for _, iv := range ivs {
					if inBounds(iv[0], iv[1], d.K) {
						n++
					}
				}
				if n != 1 {
					hexIvs := []string{}
					for _, iv := range ivs {
						hexIvs = append(hexIvs, fmt.Sprintf("[%x,%x)", iv[0], iv[1]))
					}
					hexB := []string{}
					for _, x := range cfg {
						hexB = append(hexB, lib.HexBytes(x))
					}
					w.Fail(lib.ImplFailure{CaseID: -1, What: fmt.Sprintf("partition tiling: record %x of a key inside the range lies in %d of the scanned intervals of an unlimited List at %d (engine borders config %d)", d.K, n, rev, ci),
						Case: map[string]interface{}{"op": "partition_tiling", "engine_borders": hexB, "revision": rev, "record": lib.HexBytes(d.K), "scanned": hexIvs}})
					break
				}
			}
		}
	}
	w.Stats.Extra["partition_tiling_reads"] = reads
}
