package main

// Several concurrent list-then-watch clients on different prefixes, a deterministic mixed-prefix batch, and
// fault placements (unknown-outcome writes + compaction inside the retry window).

import (
	"bytes"
	"context"
	"errors"
	"fmt"
	"sort"
	"sync"
	"sync/atomic"
	"time"

	proto "github.com/kubewharf/kubebrain-client/api/v2rpc"

	"github.com/kubewharf/kubebrain/pkg/backend"
	"github.com/kubewharf/kubebrain/pkg/backend/coder"
	"github.com/kubewharf/kubebrain/pkg/storage"

	"kbverif/lib"
)

type lst struct {
	rev uint64
	kvs []kv
}

// lw is one list-then-watch client: a range read of P (R0, kv0), then Watch(P, R0+1).
type lw struct {
	P      []byte
	R0     uint64
	kv0    []kv
	ch     <-chan []*proto.Event
	werr   error
	cancel context.CancelFunc
	mu     sync.Mutex
	evs    []ev
	closed chan struct{}
	lag    time.Duration
}

func startLW(b backend.Backend, P []byte, lag time.Duration) (*lw, error) {
	R0, kv0, err := list(b, P, 0)
	for try := 0; err != nil && try < 20; try++ {
		R0, kv0, err = list(b, P, 0) // a compaction recorded between the revision read and the scan refuses the read
	}
	if err != nil {
		return nil, err
	}
	x := &lw{P: P, R0: R0, kv0: kv0, closed: make(chan struct{}), lag: lag}
	ctx, cancel := context.WithCancel(context.Background())
	x.cancel = cancel
	x.ch, x.werr = b.Watch(ctx, string(P), R0+1)
	if x.werr == nil {
		go func() {
			if lag > 0 {
				time.Sleep(lag) // a lagging consumer: the batches wait in the pipeline
			}
			for batch := range x.ch {
				x.mu.Lock()
				for _, e := range batch {
					x.evs = append(x.evs, ev{int(e.Type), e.Revision, e.Kv.Key, e.Kv.Value, e.Kv.Revision})
				}
				x.mu.Unlock()
			}
			close(x.closed)
		}()
	}
	return x, nil
}

func (x *lw) got() []ev {
	x.mu.Lock()
	defer x.mu.Unlock()
	return append([]ev{}, x.evs...)
}

// waitRev waits until an event of revision >= rev has arrived (events arrive in order).
func (x *lw) waitRev(rev uint64, d time.Duration) bool {
	if x.werr != nil || rev == 0 {
		return true
	}
	ok := waitUntil(d, func() bool {
		x.mu.Lock()
		defer x.mu.Unlock()
		return len(x.evs) > 0 && x.evs[len(x.evs)-1].rev >= rev
	})
	time.Sleep(300 * time.Microsecond)
	return ok
}

func (x *lw) stop() {
	x.cancel()
	if x.werr == nil {
		select {
		case <-x.closed:
		case <-time.After(15 * time.Second):
		}
	}
}

// listsAt reads the range at every revision that appears as an event revision, and at the current one.
func (x *lw) listsAt(b backend.Backend, got []ev) []lst {
	var out []lst
	seen := map[uint64]bool{}
	for _, e := range got {
		if !seen[e.rev] {
			seen[e.rev] = true
			if _, kvs, err := list(b, x.P, e.rev); err == nil {
				out = append(out, lst{e.rev, kvs})
			}
		}
	}
	cur := b.GetCurrentRevision()
	if _, kvs, err := list(b, x.P, cur); err == nil {
		out = append(out, lst{cur, kvs})
	}
	return out
}

func lastMatching(slots []slot, x *lw) uint64 {
	last := uint64(0)
	for _, s := range slots {
		if s.rev > x.R0 && s.rev > last && bytes.HasPrefix(s.key, x.P) {
			last = s.rev
		}
	}
	return last
}

// invalidKLw counts generated list-then-watch cases outside c06_validb (revisions of the resolved writes not strictly
// increasing): none is expected; the Coq side counts such a case as a disagreement. faultCases counts the
// unknown-outcome cases (KLf), which c06_validb excludes by definition (their theorems are in Proofs/C06Faults.v).
var invalidKLw, faultCases int

func slotsValid(slots []slot) bool {
	for i := 1; i < len(slots); i++ {
		if slots[i-1].rev >= slots[i].rev {
			return false
		}
	}
	return true
}

func (x *lw) caseKLw(kind string, slots []slot, got []ev, lists []lst, outcomes map[string]bool, extra map[string]interface{}) lib.Case {
	if !slotsValid(slots) {
		invalidKLw++
	}
	ss := make([]string, len(slots))
	for i, s := range slots {
		ss[i] = s.coq()
	}
	es := make([]string, len(got))
	hs := []uint64{}
	for i, e := range got {
		es[i] = e.coq()
		hs = append(hs, e.rev)
	}
	ls := make([]string, len(lists))
	lr := []uint64{}
	for i, l := range lists {
		ls[i] = lib.Pair(lib.N(l.rev), coqStore(l.kvs))
		lr = append(lr, l.rev)
	}
	j := map[string]interface{}{"prefix": string(x.P), "successful_writes": len(slots), "R0": x.R0, "first_list_size": len(x.kv0),
		"event_revisions": hs, "list_revisions": lr, "consumer_lag_ms": x.lag.Milliseconds(), "watch_refused": x.werr != nil}
	for k, v := range extra {
		j[k] = v
	}
	c := lib.Case{Kind: kind,
		Coq:     lib.App("KLw", lib.Bytes(x.P), lib.List(ss), lib.N(x.R0), coqStore(x.kv0), lib.Bool(x.werr == nil), lib.List(es), lib.List(ls)),
		JSON:    j,
		Trivial: len(got) == 0 || x.werr != nil}
	for k := range outcomes {
		c.Outcomes = append(c.Outcomes, k)
	}
	return c
}

// ---------------------------------------------------------------- engine gate: hold one write at its batch

type engGate struct {
	gid     int64
	reached chan struct{}
	release chan struct{}
}

func (g *engGate) before(kind string, key []byte) error {
	if kind == "batch" && atomic.LoadInt64(&g.gid) != 0 && lib.GoID() == atomic.LoadInt64(&g.gid) {
		atomic.StoreInt64(&g.gid, 0)
		close(g.reached)
		<-g.release
	}
	return nil
}

// mixedRun: three list-then-watch clients ("/r/a/", "/r/b/", the common "/r/"), one of them with a lagging
// consumer; then batches with mixed prefixes: the write holding the lowest revision is held at the engine while
// writes with later revisions finish, so that the sequencer finds all slots filled and forms ONE batch
// [a, b, a, b]. Every client must reconstruct its own range.
func mixedRun(w *lib.Writer, rnd *lib.Rand, scratch string, cacheSize int) {
	inner, closer, err := lib.NewEngine(lib.EngMem, scratch)
	if err != nil {
		w.Fail(lib.ImplFailure{CaseID: -1, What: "engine: " + err.Error()})
		return
	}
	defer closer()
	gate := &engGate{}
	c0 := uint64(100 + 100*rnd.Intn(3))
	b := backend.NewBackend(&lib.Wrap{KvStorage: inner, Before: gate.before}, backend.Config{Prefix: "/r", Identity: "c06", WatchCacheSize: cacheSize}, &lib.NopMetrics{})
	b.SetCurrentRevision(c0)
	defer retire()
	kn := &known{m: map[string]uint64{}}
	outcomes := map[string]bool{"engine=memkv": true, "mixed-prefix-batch": true, "multi-watcher": true}
	var slots []slot
	fail := ""
	nops := uint64(0)
	record := func(s slot, oc string) {
		nops++
		outcomes[oc] = true
		if s.valid {
			slots = append(slots, s)
		}
	}
	caughtUp := func() {
		want := c0 + nops
		if !waitUntil(20*time.Second, func() bool { return b.GetCurrentRevision() >= want }) && fail == "" {
			fail = fmt.Sprintf("committed revision %d never reached %d", b.GetCurrentRevision(), want)
		}
	}
	var fresh int64
	var cfail atomic.Value
	create := func(dir string) slot {
		n := atomic.AddInt64(&fresh, 1)
		k := []byte(fmt.Sprintf("/r/%s/m%d", dir, n))
		v := []byte(fmt.Sprintf("m%d", n))
		resp, err := b.Create(context.Background(), &proto.CreateRequest{Key: k, Value: v})
		if err != nil || !resp.Succeeded {
			cfail.Store(fmt.Sprintf("create of a fresh key %q failed: %v", k, err))
			return slot{}
		}
		return slot{rev: resp.Header.Revision, valid: true, verb: 0, key: k, val: v}
	}
	for i := 0; i < 2+rnd.Intn(4); i++ {
		s, oc := doOp(b, rnd, kn, "i", i)
		record(s, oc)
		caughtUp()
	}
	record(create("a"), "create-ok")
	record(create("b"), "create-ok")
	caughtUp()
	// the clients; which one lags is drawn
	lagging := rnd.Intn(3)
	var clients []*lw
	for i, P := range [][]byte{[]byte("/r/a/"), []byte("/r/b/"), []byte("/r/")} {
		lag := time.Duration(0)
		if i == lagging {
			lag = time.Duration(5+rnd.Intn(20)) * time.Millisecond
		}
		x, err := startLW(b, P, lag)
		if err != nil {
			w.Fail(lib.ImplFailure{CaseID: -1, What: "first list failed: " + err.Error()})
			return
		}
		clients = append(clients, x)
		if rnd.Bool() {
			s, oc := doOp(b, rnd, kn, "j", i)
			record(s, oc)
			caughtUp()
		}
	}
	// mixed batches
	for round := 0; round < 2+rnd.Intn(2) && fail == ""; round++ {
		gate.reached, gate.release = make(chan struct{}), make(chan struct{})
		done := make(chan slot, 1)
		first := []string{"a", "b"}[round%2]
		go func() {
			atomic.StoreInt64(&gate.gid, lib.GoID())
			done <- create(first)
		}()
		select {
		case <-gate.reached:
		case <-time.After(20 * time.Second):
			fail = "the held create did not reach the engine"
			continue
		}
		var later []slot
		for _, dir := range []string{"b", "a", "b", "a"}[round%2 : round%2+3] {
			later = append(later, create(dir))
		}
		close(gate.release)
		held := <-done
		record(held, "create-ok")
		for _, s := range later {
			record(s, "create-ok")
		}
		caughtUp()
		if rnd.Bool() {
			s, oc := doOp(b, rnd, kn, "k", round)
			record(s, oc)
			caughtUp()
		}
	}
	sort.Slice(slots, func(i, j int) bool { return slots[i].rev < slots[j].rev })
	for _, x := range clients {
		if !x.waitRev(lastMatching(slots, x), 15*time.Second) {
			outcomes["events-missing-after-15s"] = true
		}
	}
	for i, x := range clients {
		got := x.got()
		lists := x.listsAt(b, got)
		x.stop()
		c := x.caseKLw("list-then-watch/mixed-batch", slots, got, lists, outcomes, map[string]interface{}{"initial_revision": c0, "client": i, "lagging_client": lagging})
		w.Add(c)
		if f, ok := cfail.Load().(string); ok && fail == "" {
			fail = f
		}
		if fail != "" && i == 0 {
			w.Fail(lib.ImplFailure{CaseID: w.Len() - 1, What: fail, Case: c.JSON})
		}
	}
}

// ---------------------------------------------------------------- fault placements

// faultRun: one write (create / update / delete) is answered "uncertain" by the engine — applied or not — and a
// compaction (Compact(0) or Compact(far above)) is issued inside the retry window; further writes follow. After
// the retry queue has drained and a sentinel write per client has arrived, list@R0 + events must be the final list.
// The slots are not known from the responses here: the case (KLf) is evaluated by the oracle only.
var verbNames = []string{"create", "update", "delete", "create-over-tombstone"}

// verb 3 = create of a key that was created and deleted before (its index record still carries the deletion flag):
// the creator's first batch (put-if-absent) fails on that record and it issues a SECOND batch that takes the record
// over; the fault is placed on that second commit.
// second: 0 = no further fault; 1 = the asynchronous repair commit for that write is answered "uncertain" too and
// does NOT land; 2 = the repair commit fails with a definite error (then no compaction is placed in the window:
// the commit that is hit must be the repair's).
func faultRun(w *lib.Writer, rnd *lib.Rand, scratch string, verb int, applied bool, compactBig bool, second int) {
	// retry 120 ms after the uncertain answer (checked every 10 ms): wide enough to place a compaction inside the
	// window on a loaded machine, short enough to wait for
	backend.VerifSetIntervals(120*time.Millisecond, 10*time.Millisecond)
	defer backend.VerifSetIntervals(5*time.Second, time.Second)
	inner, closer, err := lib.NewEngine(lib.EngMem, scratch)
	if err != nil {
		w.Fail(lib.ImplFailure{CaseID: -1, What: "engine: " + err.Error()})
		return
	}
	defer closer()
	var armed int32
	var fired int32
	var armed2, fired2 int32
	var skip int32 // commits of the armed operation that pass before the fault
	mainGID := lib.GoID()
	wrap := &lib.Wrap{KvStorage: inner, CommitFault: func() (error, bool) {
		if atomic.LoadInt32(&armed) == 1 && atomic.AddInt32(&skip, -1) >= 0 {
			return nil, false // an earlier commit of the armed operation passes
		}
		if atomic.CompareAndSwapInt32(&armed, 1, 0) {
			atomic.AddInt32(&fired, 1)
			if second != 0 {
				atomic.StoreInt32(&armed2, 1)
			}
			return storage.NewErrUncertainResult(errors.New("injected: answer lost")), applied
		}
		// the next commit that is not issued by the driver's own goroutine is the repair rewrite of the retry loop
		if atomic.LoadInt32(&armed2) == 1 && lib.GoID() != mainGID && atomic.CompareAndSwapInt32(&armed2, 1, 0) {
			atomic.AddInt32(&fired2, 1)
			if second == 1 {
				return storage.NewErrUncertainResult(errors.New("injected: answer of the repair lost, not applied")), false
			}
			return errors.New("injected: storage error on the repair commit"), false
		}
		return nil, false
	}}
	c0 := uint64(100 + 100*rnd.Intn(3))
	b := backend.NewBackend(wrap, backend.Config{Prefix: "/r", Identity: "c06", WatchCacheSize: 0}, &lib.NopMetrics{})
	b.SetCurrentRevision(c0)
	defer retire()
	kn := &known{m: map[string]uint64{}}
	outcomes := map[string]bool{"engine=memkv": true, "fault": true,
		fmt.Sprintf("uncertain-%s-applied=%v", verbNames[verb], applied): true,
		fmt.Sprintf("compact-big=%v", compactBig):                                               true}
	if second != 0 {
		outcomes[fmt.Sprintf("second-fault-on-repair=%s", []string{"", "uncertain-not-applied", "definite-error"}[second])] = true
	}
	ctx := context.Background()
	fail := ""
	// quiet: retry queue empty and the committed revision no longer moving
	quiet := func() bool {
		ok := waitUntil(20*time.Second, func() bool { return backend.VerifRetryQueueSize(b) == 0 })
		last := b.GetCurrentRevision()
		stable := time.Now()
		waitUntil(20*time.Second, func() bool {
			if backend.VerifRetryQueueSize(b) != 0 {
				stable = time.Now()
				return false
			}
			if cur := b.GetCurrentRevision(); cur != last {
				last, stable = cur, time.Now()
				return false
			}
			return time.Since(stable) > 250*time.Millisecond
		})
		return ok
	}
	target := []byte("/r/a/t")
	other := []byte("/r/b/t")
	mustCreate := func(k []byte, v string) uint64 {
		resp, err := b.Create(ctx, &proto.CreateRequest{Key: k, Value: []byte(v)})
		if (err != nil || !resp.Succeeded) && fail == "" {
			fail = fmt.Sprintf("create %q failed: %v", k, err)
			return 0
		}
		return resp.Header.Revision
	}
	trev := uint64(0)
	if verb != 0 {
		trev = mustCreate(target, "t0")
	}
	if verb == 3 {
		if resp, err := b.Delete(ctx, &proto.DeleteRequest{Key: target, Revision: trev}); (err != nil || !resp.Succeeded) && fail == "" {
			fail = fmt.Sprintf("delete %q failed: %v", target, err)
		}
	}
	mustCreate(other, "o0")
	for i := 0; i < 1+rnd.Intn(3); i++ {
		doOp(b, rnd, kn, "i", i)
	}
	quiet()
	// the clients list and watch BEFORE the fault
	var clients []*lw
	for _, P := range [][]byte{[]byte("/r/a/"), []byte("/r/")}[:1+rnd.Intn(2)] {
		x, err := startLW(b, P, 0)
		if err != nil {
			w.Fail(lib.ImplFailure{CaseID: -1, What: "first list failed: " + err.Error()})
			return
		}
		clients = append(clients, x)
	}
	// the write with the unknown outcome
	if verb == 3 {
		atomic.StoreInt32(&skip, 1)
	}
	atomic.StoreInt32(&armed, 1)
	var ferr error
	switch verb {
	case 3:
		_, ferr = b.Create(ctx, &proto.CreateRequest{Key: target, Value: []byte("t-uncertain")})
	case 0:
		_, ferr = b.Create(ctx, &proto.CreateRequest{Key: target, Value: []byte("t-uncertain")})
	case 1:
		_, ferr = b.Update(ctx, &proto.UpdateRequest{Kv: &proto.KeyValue{Key: target, Value: []byte("t-uncertain"), Revision: trev}})
	case 2:
		_, ferr = b.Delete(ctx, &proto.DeleteRequest{Key: target, Revision: trev})
	}
	atomic.StoreInt32(&armed, 0)
	if atomic.LoadInt32(&fired) != 1 || ferr == nil {
		outcomes["fault-not-injected"] = true
	}
	// a compaction inside the retry window: once the sequencer has resolved the slot and queued the operation for
	// repair (that is when Backend.Compact starts to cap the revision), before the retry fires
	t0 := time.Now()
	if !waitUntil(2*time.Second, func() bool { return backend.VerifRetryQueueSize(b) >= 1 }) {
		outcomes["uncertain-write-never-queued"] = true
	}
	if time.Since(t0) > 100*time.Millisecond {
		outcomes["retry-window-possibly-missed"] = true
	}
	crev := uint64(0)
	if compactBig {
		crev = b.GetCurrentRevision() + 1000
	}
	if second == 0 {
		if _, err := b.Compact(ctx, crev); err == nil {
			outcomes["compacted-in-retry-window"] = true
		}
	}
	// other clients go on writing
	for i := 0; i < rnd.Intn(4); i++ {
		k := other
		if rnd.Chance(1, 3) {
			k = []byte("/r/a/u")
		}
		if rnd.Bool() {
			b.Create(ctx, &proto.CreateRequest{Key: k, Value: []byte(fmt.Sprintf("w%d", i))})
		} else {
			b.Delete(ctx, &proto.DeleteRequest{Key: k})
		}
	}
	if !quiet() && fail == "" {
		fail = fmt.Sprintf("the retry queue did not drain within 20s (size %d)", backend.VerifRetryQueueSize(b))
	}
	if second != 0 && atomic.LoadInt32(&fired2) == 1 {
		outcomes["second-fault-injected"] = true
	}
	if rnd.Bool() {
		b.Compact(ctx, 0)
	}
	// one sentinel write per client: when it has arrived, everything before it has
	for i, x := range clients {
		k := append(append([]byte{}, x.P...), []byte(fmt.Sprintf("sentinel%d", i))...)
		rev := mustCreate(k, "s")
		if !x.waitRev(rev, 15*time.Second) {
			outcomes["sentinel-not-delivered-after-15s"] = true
		}
	}
	quiet()
	Rf := b.GetCurrentRevision()
	for i, x := range clients {
		got := x.got()
		_, kvf, err := list(b, x.P, Rf)
		x.stop()
		if err != nil {
			outcomes["final-list-refused"] = true
			continue
		}
		es := make([]string, len(got))
		hs := []uint64{}
		for j, e := range got {
			es[j] = e.coq()
			hs = append(hs, e.rev)
		}
		c := lib.Case{Kind: "list-then-watch/uncertain-write+compaction",
			Coq: lib.App("KLf", lib.Bytes(x.P), lib.N(x.R0), coqStore(x.kv0), lib.List(es), lib.N(Rf), coqStore(kvf)),
			JSON: map[string]interface{}{"prefix": string(x.P), "initial_revision": c0, "R0": x.R0, "first_list_size": len(x.kv0),
				"uncertain_op": verbNames[verb], "applied": applied, "compact_far_above": compactBig,
				"second_fault_on_repair": []string{"none", "uncertain, not applied", "definite error"}[second],
				"event_revisions": hs, "final_revision": Rf, "final_list_size": len(kvf), "watch_refused": x.werr != nil},
			Trivial: x.werr != nil}
		for k := range outcomes {
			c.Outcomes = append(c.Outcomes, k)
		}
		if x.werr != nil {
			continue
		}
		faultCases++
		w.Add(c)
		if fail != "" && i == 0 {
			w.Fail(lib.ImplFailure{CaseID: w.Len() - 1, What: fail, Case: c.JSON})
		}
	}
}

// ---------------------------------------------------------------- the partitioned list-then-watch path

type streamRead struct {
	rev     uint64
	kvs     []kv
	errText string // Err of the end marker ("" = served)
	ended   bool   // an end marker (More=false) was received before the channel closed
}

// streamList reads one advertised partition [start, end) (internal keys) at revision rev through ListByStream.
func streamList(b backend.Backend, start, end []byte, rev uint64) (streamRead, error) {
	out := streamRead{rev: rev}
	ch, err := b.ListByStream(context.Background(), start, end, rev)
	if err != nil {
		return out, err
	}
	timeout := time.After(20 * time.Second)
	for {
		select {
		case m, ok := <-ch:
			if !ok {
				return out, nil
			}
			if m == nil || m.RangeResponse == nil {
				continue
			}
			for _, x := range m.RangeResponse.Kvs {
				out.kvs = append(out.kvs, kv{x.Key, x.Value, x.Revision})
			}
			if m.Err != "" {
				out.errText = m.Err
			}
			if !m.RangeResponse.More {
				out.ended = true
			}
		case <-timeout:
			return out, fmt.Errorf("stream did not end within 20s")
		}
	}
}

// partitionedRun: the client protocol of a partitioned (streamed) list-then-watch:
//   GetPartitions(P) -> header revision R, advertised borders;  Watch(P, R+1);  ListByStream(border i, border i+1, R).
// The end marker of every stream carries the scan's error: a read that was refused (here: a compaction above R
// recorded between GetPartitions and the streaming) must be reported there, and the client then starts over.
// compactBetween = false is the plain path. The observation is the read the client finally accepted (R, kvs), the
// events of the watch that belongs to it, later range reads; whether a refusal was reported is in the case record.
func partitionedRun(w *lib.Writer, rnd *lib.Rand, scratch string, compactBetween bool, split bool) {
	inner, closer, err := lib.NewEngine(lib.EngMem, scratch)
	if err != nil {
		w.Fail(lib.ImplFailure{CaseID: -1, What: "engine: " + err.Error()})
		return
	}
	defer closer()
	var store storage.KvStorage = inner
	if split {
		// two advertised partitions, cut at an index record in the middle of the prefix
		store = &lib.Wrap{KvStorage: inner, Partitions: func(start, end []byte) []storage.Partition {
			mid := append(append([]byte{}, start[:len(start)-9]...), []byte("m$\x00\x00\x00\x00\x00\x00\x00\x00")...)
			if bytes.Compare(start, mid) < 0 && bytes.Compare(mid, end) < 0 {
				return []storage.Partition{{Start: start, End: mid}, {Start: mid, End: end}}
			}
			return []storage.Partition{{Start: start, End: end}}
		}}
	}
	c0 := uint64(100 + 100*rnd.Intn(3))
	b := backend.NewBackend(store, backend.Config{Prefix: "/r", Identity: "c06", WatchCacheSize: 0}, &lib.NopMetrics{})
	b.SetCurrentRevision(c0)
	defer retire()
	P := []byte("/r/a/")
	outcomes := map[string]bool{"engine=memkv": true, "partitioned-stream": true, fmt.Sprintf("compact-between=%v", compactBetween): true,
		fmt.Sprintf("split=%v", split): true}
	var slots []slot
	nops := uint64(0)
	fail := ""
	kn := &known{m: map[string]uint64{}}
	caughtUp := func() {
		want := c0 + nops
		if !waitUntil(20*time.Second, func() bool { return b.GetCurrentRevision() >= want }) && fail == "" {
			fail = fmt.Sprintf("committed revision %d never reached %d", b.GetCurrentRevision(), want)
		}
	}
	record := func(s slot, oc string) {
		nops++
		outcomes[oc] = true
		if s.valid {
			slots = append(slots, s)
		}
		caughtUp()
	}
	fresh := 0
	create := func() {
		fresh++
		k := []byte(fmt.Sprintf("/r/a/%c%d", "knz"[fresh%3], fresh)) // on both sides of the cut
		v := []byte(fmt.Sprintf("p%d", fresh))
		resp, err := b.Create(context.Background(), &proto.CreateRequest{Key: k, Value: v})
		if err != nil || !resp.Succeeded {
			if fail == "" {
				fail = fmt.Sprintf("create %q failed: %v", k, err)
			}
			record(slot{}, "create-failed")
			return
		}
		record(slot{rev: resp.Header.Revision, valid: true, verb: 0, key: k, val: v}, "create-ok")
	}
	for i := 0; i < 3+rnd.Intn(3); i++ {
		create()
	}
	for i := 0; i < rnd.Intn(3); i++ {
		s, oc := doOp(b, rnd, kn, "i", i)
		record(s, oc)
	}
	var x *lw
	refusals := 0
	var R uint64
	var kv0 []kv
	for attempt := 0; attempt < 4; attempt++ {
		pr, err := b.GetPartitions(context.Background(), &proto.ListPartitionRequest{Key: P, End: backend.PrefixEnd(P)})
		if err != nil || pr.Header == nil || len(pr.PartitionKeys) < 2 {
			w.Fail(lib.ImplFailure{CaseID: -1, What: fmt.Sprintf("GetPartitions failed: %v", err)})
			return
		}
		R = pr.Header.Revision
		outcomes[fmt.Sprintf("advertised-partitions=%d", len(pr.PartitionKeys)-1)] = true
		// the watch belonging to this read
		x = &lw{P: P, R0: R, closed: make(chan struct{})}
		ctx, cancel := context.WithCancel(context.Background())
		x.cancel = cancel
		x.ch, x.werr = b.Watch(ctx, string(P), R+1)
		if x.werr == nil {
			go func(x *lw) {
				for batch := range x.ch {
					x.mu.Lock()
					for _, e := range batch {
						x.evs = append(x.evs, ev{int(e.Type), e.Revision, e.Kv.Key, e.Kv.Value, e.Kv.Revision})
					}
					x.mu.Unlock()
				}
				close(x.closed)
			}(x)
		}
		if compactBetween && attempt == 0 {
			// other clients write, and a compaction "up to now" (above R) is recorded before the streaming starts
			create()
			create()
			if _, err := b.Compact(context.Background(), 0); err == nil {
				outcomes["compacted-above-R-before-streaming"] = true
			}
		}
		kv0 = nil
		refused := false
		for i := 0; i+1 < len(pr.PartitionKeys); i++ {
			sr, err := streamList(b, pr.PartitionKeys[i], pr.PartitionKeys[i+1], R)
			if err != nil {
				w.Fail(lib.ImplFailure{CaseID: -1, What: "ListByStream: " + err.Error()})
				x.stop()
				return
			}
			if !sr.ended {
				outcomes["stream-without-end-marker"] = true
				refused = true
			}
			if sr.errText != "" {
				refused = true
			}
			kv0 = append(kv0, sr.kvs...)
		}
		if !refused {
			break
		}
		// the end marker said the read was not served: drop the watch and start over
		refusals++
		outcomes["stream-refused-then-relisted"] = true
		x.stop()
		x = nil
	}
	if x == nil {
		w.Fail(lib.ImplFailure{CaseID: -1, What: "the streamed read was refused four times in a row"})
		return
	}
	x.kv0 = kv0
	// further writes
	for i := 0; i < 2+rnd.Intn(4); i++ {
		if rnd.Bool() {
			create()
		} else {
			s, oc := doOp(b, rnd, kn, "z", i)
			record(s, oc)
		}
	}
	sort.Slice(slots, func(i, j int) bool { return slots[i].rev < slots[j].rev })
	if !x.waitRev(lastMatching(slots, x), 15*time.Second) {
		outcomes["events-missing-after-15s"] = true
	}
	got := x.got()
	lists := x.listsAt(b, got)
	x.stop()
	c := x.caseKLw("list-then-watch/partitioned-stream", slots, got, lists, outcomes,
		map[string]interface{}{"initial_revision": c0, "compaction_between_getpartitions_and_stream": compactBetween,
			"end_marker_refusals": refusals, "split_in_two_partitions": split})
	w.Add(c)
	if fail != "" {
		w.Fail(lib.ImplFailure{CaseID: w.Len() - 1, What: fail, Case: c.JSON})
	}
}

// ---------------------------------------------------------------- a partition border inside the versions of one key

func listLimit(b backend.Backend, P []byte, rev uint64, limit int64) ([]kv, error) {
	resp, err := b.List(context.Background(), &proto.RangeRequest{Key: P, End: backend.PrefixEnd(P), Revision: rev, Limit: limit})
	if err != nil {
		return nil, err
	}
	out := make([]kv, len(resp.Kvs))
	for i, x := range resp.Kvs {
		out[i] = kv{x.Key, x.Value, x.Revision}
	}
	return out, nil
}

// splitVersionRun: the engine reports two partitions whose border is a VERSION record of key K (K has an older
// version on the left of it) — what a TiKV region split does. List-then-watch on the prefix, then K is deleted and
// a compaction runs; the later reads are taken both through the partitioned scan (List) and through the
// unpartitioned one (List with a limit). Replaying the events over the first list must give every one of them.
func splitVersionRun(w *lib.Writer, rnd *lib.Rand, scratch string, engine string) {
	c0 := uint64(100)
	K := []byte("/r/a/m")
	cd := coder.NewNormalCoder()
	border := cd.EncodeObjectKey(K, c0+3) // K is written at c0+2 (create) and c0+3 (update)
	var store storage.KvStorage
	var closer func()
	switch engine {
	case lib.EngTiKV:
		kvs, cl, err := lib.NewTiKVSplit(border)
		if err != nil {
			w.Fail(lib.ImplFailure{CaseID: -1, What: "engine: " + err.Error()})
			return
		}
		store, closer = kvs, cl
	default:
		inner, cl, err := lib.NewEngine(lib.EngMem, scratch)
		if err != nil {
			w.Fail(lib.ImplFailure{CaseID: -1, What: "engine: " + err.Error()})
			return
		}
		closer = cl
		store = &lib.Wrap{KvStorage: inner, Partitions: func(start, end []byte) []storage.Partition {
			if bytes.Compare(start, border) < 0 && bytes.Compare(border, end) < 0 {
				return []storage.Partition{{Start: start, End: border}, {Start: border, End: end}}
			}
			return []storage.Partition{{Start: start, End: end}}
		}}
	}
	defer closer()
	b := backend.NewBackend(store, backend.Config{Prefix: "/r", Identity: "c06", WatchCacheSize: 0}, &lib.NopMetrics{})
	b.SetCurrentRevision(c0)
	defer retire()
	P := []byte("/r/a/")
	outcomes := map[string]bool{"engine=" + engine: true, "partition-border-on-a-version-record": true}
	var slots []slot
	nops := uint64(0)
	fail := ""
	ctx := context.Background()
	caughtUp := func() {
		want := c0 + nops
		if !waitUntil(20*time.Second, func() bool { return b.GetCurrentRevision() >= want }) && fail == "" {
			fail = fmt.Sprintf("committed revision %d never reached %d", b.GetCurrentRevision(), want)
		}
	}
	put := func(k []byte, v string, exp uint64, create bool) uint64 {
		nops++
		var rev uint64
		var ok bool
		var err error
		verb := 1
		if create {
			verb = 0
			var resp *proto.CreateResponse
			resp, err = b.Create(ctx, &proto.CreateRequest{Key: k, Value: []byte(v)})
			if err == nil {
				rev, ok = resp.Header.Revision, resp.Succeeded
			}
		} else {
			var resp *proto.UpdateResponse
			resp, err = b.Update(ctx, &proto.UpdateRequest{Kv: &proto.KeyValue{Key: k, Value: []byte(v), Revision: exp}})
			if err == nil {
				rev, ok = resp.Header.Revision, resp.Succeeded
			}
		}
		if (err != nil || !ok) && fail == "" {
			fail = fmt.Sprintf("write of %q failed: %v", k, err)
		}
		if ok {
			slots = append(slots, slot{rev: rev, prev: exp, valid: true, verb: verb, key: k, val: []byte(v)})
		}
		caughtUp()
		return rev
	}
	del := func(k []byte, exp uint64, val string) {
		nops++
		resp, err := b.Delete(ctx, &proto.DeleteRequest{Key: k, Revision: exp})
		if (err != nil || !resp.Succeeded) && fail == "" {
			fail = fmt.Sprintf("delete of %q failed: %v", k, err)
		} else if err == nil {
			slots = append(slots, slot{rev: resp.Header.Revision, prev: exp, valid: true, verb: 2, key: k, val: []byte(val)})
		}
		caughtUp()
	}
	put([]byte("/r/a/c"), "c1", 0, true) // c0+1, left of the border
	r1 := put(K, "m1", 0, true)          // c0+2
	r2 := put(K, "m2", r1, false)        // c0+3: the border is this record
	put([]byte("/r/a/x"), "x1", 0, true) // right of the border
	if r2 != c0+3 && fail == "" {
		fail = fmt.Sprintf("revisions not as planned: K updated at %d, border built for %d", r2, c0+3)
	}
	x, err := startLW(b, P, 0)
	if err != nil {
		w.Fail(lib.ImplFailure{CaseID: -1, What: "first list failed: " + err.Error()})
		return
	}
	if rnd.Bool() {
		put([]byte("/r/a/c"), "c2", c0+1, false)
	}
	del(K, r2, "m2")
	if _, err := b.Compact(ctx, 0); err == nil {
		outcomes["compacted"] = true
	}
	put([]byte("/r/a/y"), "y1", 0, true)
	if rnd.Bool() {
		b.Compact(ctx, 0)
	}
	sort.Slice(slots, func(i, j int) bool { return slots[i].rev < slots[j].rev })
	if !x.waitRev(lastMatching(slots, x), 15*time.Second) {
		outcomes["events-missing-after-15s"] = true
	}
	got := x.got()
	cur := b.GetCurrentRevision()
	var lists []lst
	if _, kvs, err := list(b, P, cur); err == nil {
		lists = append(lists, lst{cur, kvs}) // partitioned scan
	}
	if kvs, err := listLimit(b, P, cur, 1000); err == nil {
		lists = append(lists, lst{cur, kvs}) // unpartitioned scan (limit)
		outcomes["limited-list"] = true
	}
	x.stop()
	c := x.caseKLw("list-then-watch/border-on-version-record", slots, got, lists, outcomes,
		map[string]interface{}{"engine": engine, "initial_revision": c0, "border": fmt.Sprintf("%q at revision %d", K, c0+3)})
	w.Add(c)
	if fail != "" {
		w.Fail(lib.ImplFailure{CaseID: w.Len() - 1, What: fail, Case: c.JSON})
	}
}
