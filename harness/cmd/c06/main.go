// Driver c06: list-then-watch on the real Backend with concurrent writers (successful and failing), a compactor,
// a lister and a watcher on the same prefix. What is written as a Coq case is only what was observed:
// the writes as the implementation resolved them, the first range result (R0, kv0), the events the watch from
// R0+1 delivered, and range results at explicit later revisions. The oracle (c06_oracle) replays the events
// over kv0 and compares with every later range result; c06_check compares all of it with the model's snapshots.
package main

import (
	"bytes"
	"context"
	"fmt"
	"os"
	"runtime"
	"sort"
	"sync"
	"sync/atomic"
	"time"

	proto "github.com/kubewharf/kubebrain-client/api/v2rpc"

	"github.com/kubewharf/kubebrain/pkg/backend"

	"kbverif/lib"
)

var verbs = []string{"VCreate", "VPut", "VDelete"}

type slot struct {
	rev, prev uint64
	valid     bool
	verb      int
	key, val  []byte
}

func (s slot) coq() string {
	return lib.App("mkWe", lib.N(s.rev), lib.N(s.prev), lib.Bool(s.valid), verbs[s.verb], lib.Bytes(s.key), lib.Bytes(s.val))
}

type kv struct {
	k, v []byte
	rev  uint64
}

func coqStore(kvs []kv) string {
	xs := make([]string, len(kvs))
	for i, x := range kvs {
		xs[i] = lib.Pair(lib.Bytes(x.k), lib.Pair(lib.Bytes(x.v), lib.N(x.rev)))
	}
	return lib.List(xs)
}

type ev struct {
	ty    int
	rev   uint64
	key   []byte
	val   []byte
	kvrev uint64
}

func (e ev) coq() string {
	return lib.App("mkEv", verbs[e.ty], lib.N(e.rev), lib.Bytes(e.key), lib.Bytes(e.val), lib.N(e.kvrev))
}

// ---------------------------------------------------------------- sequencer goroutines of finished backends are parked

var (
	seqMu   sync.Mutex
	seqCur  int64
	retired = map[int64]bool{}
)

var sched = lib.NewSched()

func yieldHook(point string) {
	if point == "watch.subscribed" || point == "watch.cache_read" {
		sched.Yield(point)
		return
	}
	if point != "seq.idle" {
		return
	}
	gid := lib.GoID()
	seqMu.Lock()
	if retired[gid] {
		seqMu.Unlock()
		select {}
	}
	seqCur = gid
	seqMu.Unlock()
	time.Sleep(50 * time.Microsecond)
}
func retire() {
	seqMu.Lock()
	if seqCur != 0 {
		retired[seqCur] = true
	}
	seqCur = 0
	seqMu.Unlock()
}

func waitUntil(d time.Duration, cond func() bool) bool {
	start := time.Now()
	for {
		if cond() {
			return true
		}
		el := time.Since(start)
		if el > d {
			return false
		}
		if el < 300*time.Microsecond {
			runtime.Gosched()
		} else {
			time.Sleep(100 * time.Microsecond)
		}
	}
}

// ---------------------------------------------------------------- one run

var keys = [][]byte{[]byte("/r/a/k0"), []byte("/r/a/k1"), []byte("/r/a/k2"), []byte("/r/b/k0"), []byte("/r/b/k1"), []byte("/r/a"), []byte("/r/ab")}
var prefixes = [][]byte{[]byte("/r/a/"), []byte("/r/b/"), []byte("/r/"), []byte("/r/a")}

type known struct {
	mu sync.Mutex
	m  map[string]uint64 // last revision this process saw succeed for the key (a hint for expected revisions)
}

func doOp(b backend.Backend, rnd *lib.Rand, kn *known, tag string, i int) (slot, string) {
	ctx := context.Background()
	k := rnd.PickB(keys)
	v := []byte(fmt.Sprintf("%s.%d", tag, i))
	kn.mu.Lock()
	hint := kn.m[string(k)]
	kn.mu.Unlock()
	note := func(rev uint64, alive bool) {
		kn.mu.Lock()
		if alive {
			if kn.m[string(k)] < rev {
				kn.m[string(k)] = rev
			}
		}
		kn.mu.Unlock()
	}
	switch c := rnd.Intn(10); {
	case c < 3:
		resp, err := b.Create(ctx, &proto.CreateRequest{Key: k, Value: v})
		if err != nil {
			return slot{}, "create-error"
		}
		if resp.Succeeded {
			note(resp.Header.Revision, true)
			return slot{rev: resp.Header.Revision, valid: true, verb: 0, key: k, val: v}, "create-ok"
		}
		return slot{rev: resp.Header.Revision, verb: 0, key: k, val: v}, "create-failed"
	case c < 7:
		exp := hint
		if rnd.Chance(1, 5) {
			exp = 0
		} else if rnd.Chance(1, 6) && exp > 1 {
			exp--
		}
		resp, err := b.Update(ctx, &proto.UpdateRequest{Kv: &proto.KeyValue{Key: k, Value: v, Revision: exp}})
		if err != nil {
			return slot{}, "update-error"
		}
		verb := 1
		if exp == 0 {
			verb = 0
		}
		if resp.Succeeded {
			note(resp.Header.Revision, true)
			return slot{rev: resp.Header.Revision, prev: exp, valid: true, verb: verb, key: k, val: v}, "update-ok"
		}
		if resp.Kv != nil {
			note(resp.Kv.Revision, true)
		}
		return slot{rev: resp.Header.Revision, prev: exp, verb: verb, key: k, val: v}, "update-failed"
	default:
		exp := uint64(0)
		if rnd.Bool() {
			exp = hint
		}
		resp, err := b.Delete(ctx, &proto.DeleteRequest{Key: k, Revision: exp})
		if err != nil {
			return slot{}, "delete-error"
		}
		if resp.Succeeded {
			return slot{rev: resp.Header.Revision, prev: resp.Kv.Revision, valid: true, verb: 2, key: k, val: resp.Kv.Value}, "delete-ok"
		}
		return slot{rev: resp.Header.Revision, verb: 2, key: k}, "delete-failed"
	}
}

func list(b backend.Backend, P []byte, rev uint64) (uint64, []kv, error) {
	resp, err := b.List(context.Background(), &proto.RangeRequest{Key: P, End: backend.PrefixEnd(P), Revision: rev})
	if err != nil {
		return 0, nil, err
	}
	out := make([]kv, len(resp.Kvs))
	for i, x := range resp.Kvs {
		out[i] = kv{x.Key, x.Value, x.Revision}
	}
	return resp.Header.Revision, out, nil
}

func oneRun(w *lib.Writer, rnd *lib.Rand, engine, scratch string, cacheSize int) {
	store, closer, err := lib.NewEngine(engine, scratch)
	if err != nil {
		w.Fail(lib.ImplFailure{CaseID: -1, What: "engine: " + err.Error()})
		return
	}
	defer closer()
	c0 := uint64(100 + 100*rnd.Intn(3))
	b := backend.NewBackend(store, backend.Config{Prefix: "/r", Identity: "c06", WatchCacheSize: cacheSize}, &lib.NopMetrics{})
	b.SetCurrentRevision(c0)
	defer retire()
	P := rnd.PickB(prefixes)
	kn := &known{m: map[string]uint64{}}
	var mu sync.Mutex
	var slots []slot
	outcomes := map[string]bool{"engine=" + engine: true}
	mark := func(oc string) {
		mu.Lock()
		outcomes[oc] = true
		mu.Unlock()
	}
	record := func(s slot, oc string) {
		mu.Lock()
		outcomes[oc] = true
		if s.valid {
			slots = append(slots, s)
		}
		mu.Unlock()
	}
	// a few sequential writes first, so that the event cache is not empty
	for i := 0; i < 2+rnd.Intn(4); i++ {
		s, oc := doOp(b, rnd, kn, "i", i)
		record(s, oc)
	}
	nW := 2 + rnd.Intn(3)
	nOps := 6 + rnd.Intn(12)
	var wg sync.WaitGroup
	var r0 uint64 // set once the first range read is done
	stop := int32(0)
	for wi := 0; wi < nW; wi++ {
		wr := rnd.Fork()
		tag := fmt.Sprintf("w%d", wi)
		wg.Add(1)
		go func() {
			defer wg.Done()
			for i := 0; i < nOps; i++ {
				s, oc := doOp(b, wr, kn, tag, i)
				record(s, oc)
				if wr.Chance(1, 3) {
					runtime.Gosched()
				}
			}
		}()
	}
	// compactor: floor = the first list's revision once known, the committed revision before
	cdone := make(chan struct{})
	cr := rnd.Fork()
	ncompact := int32(0)
	go func() {
		defer close(cdone)
		for atomic.LoadInt32(&stop) == 0 {
			rev := atomic.LoadUint64(&r0)
			if rev == 0 {
				rev = b.GetCurrentRevision()
				if rev > c0+2 && cr.Bool() {
					rev -= uint64(cr.Intn(3))
				}
			}
			if _, err := b.Compact(context.Background(), rev); err == nil {
				atomic.AddInt32(&ncompact, 1)
			}
			time.Sleep(time.Duration(50+cr.Intn(300)) * time.Microsecond)
		}
	}()
	// lister + watcher
	time.Sleep(time.Duration(rnd.Intn(400)) * time.Microsecond)
	R0, kv0, err := list(b, P, 0)
	for try := 0; err != nil && try < 20; try++ {
		// a compaction recorded between the read of the committed revision and the scan refuses the read: again
		mark("first-list-refused-retry")
		R0, kv0, err = list(b, P, 0)
	}
	if err != nil {
		w.Fail(lib.ImplFailure{CaseID: -1, What: "first list failed: " + err.Error()})
		atomic.StoreInt32(&stop, 1)
		wg.Wait()
		<-cdone
		return
	}
	atomic.StoreUint64(&r0, R0)
	ctx, cancel := context.WithCancel(context.Background())
	ch, werr := b.Watch(ctx, string(P), R0+1)
	var emu sync.Mutex
	var evs []ev
	wclosed := make(chan struct{})
	if werr == nil {
		go func() {
			for batch := range ch {
				emu.Lock()
				for _, e := range batch {
					evs = append(evs, ev{int(e.Type), e.Revision, e.Kv.Key, e.Kv.Value, e.Kv.Revision})
				}
				emu.Unlock()
			}
			close(wclosed)
		}()
	}
	var lists []lst
	// range reads at the committed revision of the moment, given explicitly, while the writers run
	for i := 0; i < 3; i++ {
		time.Sleep(time.Duration(rnd.Intn(300)) * time.Microsecond)
		cur := b.GetCurrentRevision()
		if cur < R0 {
			continue
		}
		if _, kvs, err := list(b, P, cur); err == nil {
			lists = append(lists, lst{cur, kvs})
			mark("list-during-writes")
		} else {
			mark("list-refused")
		}
	}
	// further list-then-watch clients on other prefixes (and the common one), started while the writers run
	var extras []*lw
	for _, P2 := range prefixes[:3] {
		if bytes.Equal(P2, P) || len(extras) >= 2 {
			continue
		}
		time.Sleep(time.Duration(rnd.Intn(200)) * time.Microsecond)
		lag := time.Duration(0)
		if rnd.Chance(1, 3) {
			lag = time.Duration(1+rnd.Intn(5)) * time.Millisecond
		}
		if x, err := startLW(b, P2, lag); err == nil {
			extras = append(extras, x)
		}
	}
	wg.Wait()
	// quiescence: every successful write committed, the watcher has the last matching event
	mu.Lock()
	sort.Slice(slots, func(i, j int) bool { return slots[i].rev < slots[j].rev })
	last, lastMatch := c0, uint64(0)
	for _, s := range slots {
		if s.rev > last {
			last = s.rev
		}
		if s.rev > R0 && bytes.HasPrefix(s.key, P) {
			lastMatch = s.rev
		}
	}
	mu.Unlock()
	stalled := !waitUntil(20*time.Second, func() bool { return b.GetCurrentRevision() >= last })
	if werr == nil && lastMatch > 0 {
		waitUntil(15*time.Second, func() bool {
			emu.Lock()
			defer emu.Unlock()
			return len(evs) > 0 && evs[len(evs)-1].rev >= lastMatch
		})
		time.Sleep(300 * time.Microsecond)
	}
	// range reads at every revision that appears as an event revision (the compactor still runs, floor <= R0)
	emu.Lock()
	got := append([]ev{}, evs...)
	emu.Unlock()
	seen := map[uint64]bool{}
	for _, l := range lists {
		seen[l.rev] = true
	}
	for _, e := range got {
		if !seen[e.rev] {
			seen[e.rev] = true
			if _, kvs, err := list(b, P, e.rev); err == nil {
				lists = append(lists, lst{e.rev, kvs})
			} else {
				mark("list-refused")
			}
		}
	}
	if _, kvs, err := list(b, P, b.GetCurrentRevision()); err == nil {
		lists = append(lists, lst{b.GetCurrentRevision(), kvs})
	}
	// the other clients: same history, their own prefix, their own first list
	type extraRes struct {
		x     *lw
		got   []ev
		lists []lst
	}
	var extraOut []extraRes
	for _, x := range extras {
		if !x.waitRev(lastMatching(slots, x), 15*time.Second) {
			mark("events-missing-after-15s")
		}
		got := x.got()
		extraOut = append(extraOut, extraRes{x, got, x.listsAt(b, got)})
	}
	atomic.StoreInt32(&stop, 1)
	<-cdone
	for _, x := range extras {
		x.stop()
	}
	cancel()
	if werr == nil {
		select {
		case <-wclosed:
		case <-time.After(15 * time.Second):
		}
	}
	if atomic.LoadInt32(&ncompact) > 0 {
		mark("compacted")
	}
	if werr != nil {
		mark("watch-refused")
	}
	// the case
	ss := make([]string, len(slots))
	for i, s := range slots {
		ss[i] = s.coq()
	}
	es := make([]string, len(got))
	hs := []uint64{}
	for i, e := range got {
		es[i] = e.coq()
		hs = append(hs, e.rev)
	}
	ls := make([]string, len(lists))
	lr := []uint64{}
	for i, l := range lists {
		ls[i] = lib.Pair(lib.N(l.rev), coqStore(l.kvs))
		lr = append(lr, l.rev)
	}
	c := lib.Case{Kind: "list-then-watch/" + engine,
		Coq: func() string {
			if !slotsValid(slots) {
				invalidKLw++
			}
			return lib.App("KLw", lib.Bytes(P), lib.List(ss), lib.N(R0), coqStore(kv0), lib.Bool(werr == nil), lib.List(es), lib.List(ls))
		}(),
		JSON: map[string]interface{}{"engine": engine, "prefix": string(P), "initial_revision": c0, "writers": nW, "ops_per_writer": nOps,
			"successful_writes": len(slots), "R0": R0, "first_list_size": len(kv0), "event_revisions": hs, "list_revisions": lr,
			"compactions": atomic.LoadInt32(&ncompact)},
		Trivial: len(got) == 0 || len(lists) < 2}
	for k := range outcomes {
		c.Outcomes = append(c.Outcomes, k)
	}
	if werr != nil {
		// nothing to replay: the case degenerates to the snapshot checks
		c.Trivial = true
	}
	w.Add(c)
	if stalled {
		w.Fail(lib.ImplFailure{CaseID: w.Len() - 1, What: fmt.Sprintf("committed revision %d never reached %d", b.GetCurrentRevision(), last), Case: c.JSON})
	}
	for i, e := range extraOut {
		w.Add(e.x.caseKLw("list-then-watch/"+engine+"/concurrent-client", slots, e.got, e.lists, outcomes,
			map[string]interface{}{"engine": engine, "initial_revision": c0, "writers": nW, "client": i + 1}))
	}
}

// scanGate runs `do` once, on goroutine gid, at its next engine call of kind "parts" or "iter" (i.e. inside the
// scan of a List whose header revision has already been read).
type scanGate struct {
	gid int64
	do  func()
}

func (g *scanGate) before(kind string, key []byte) error {
	if (kind == "parts" || kind == "iter") && atomic.LoadInt64(&g.gid) != 0 && lib.GoID() == atomic.LoadInt64(&g.gid) {
		atomic.StoreInt64(&g.gid, 0)
		g.do()
	}
	return nil
}

// hookedRun: deterministic placements. (a) another client's Create commits WHILE the List scans (after the
// header revision was read); (b) writes by another client inside the Watch call: between the hub registration
// and the cache read, and between the cache read and the start of processEvents. midScan=false gives the
// live-only path of Watch (start revision above the newest cached event), true the catch-up path.
func hookedRun(w *lib.Writer, rnd *lib.Rand, scratch string, midScan bool, cacheSize int) {
	inner, closer, err := lib.NewEngine(lib.EngMem, scratch)
	if err != nil {
		w.Fail(lib.ImplFailure{CaseID: -1, What: "engine: " + err.Error()})
		return
	}
	defer closer()
	gate := &scanGate{}
	c0 := uint64(100 + 100*rnd.Intn(3))
	b := backend.NewBackend(&lib.Wrap{KvStorage: inner, Before: gate.before}, backend.Config{Prefix: "/r", Identity: "c06", WatchCacheSize: cacheSize}, &lib.NopMetrics{})
	b.SetCurrentRevision(c0)
	defer retire()
	P := rnd.PickB(prefixes[:3])
	kn := &known{m: map[string]uint64{}}
	outcomes := map[string]bool{"engine=memkv": true, "hooked": true}
	var slots []slot
	fail := ""
	// monitor: counts the events the hub has fanned out
	mctx, mcancel := context.WithCancel(context.Background())
	defer mcancel()
	mch, _ := b.Watch(mctx, "", 0)
	var mcount int64
	go func() {
		for batch := range mch {
			atomic.AddInt64(&mcount, int64(len(batch)))
		}
	}()
	nops, nvalid := uint64(0), int64(0)
	settle := func(s slot, oc string) {
		nops++
		outcomes[oc] = true
		if s.valid {
			nvalid++
			slots = append(slots, s)
		}
		want, wantEv := c0+nops, nvalid
		if !waitUntil(20*time.Second, func() bool { return b.GetCurrentRevision() >= want && atomic.LoadInt64(&mcount) >= wantEv }) && fail == "" {
			fail = fmt.Sprintf("write %d not committed and fanned out within 20s (committed %d, want %d)", nops, b.GetCurrentRevision(), want)
		}
	}
	write := func(tag string) {
		s, oc := doOp(b, rnd, kn, tag, int(nops))
		settle(s, oc)
	}
	fresh := 0
	create := func(tag string) {
		fresh++
		k := append(append([]byte{}, P...), []byte(fmt.Sprintf("n%d", fresh))...)
		v := []byte(tag)
		resp, err := b.Create(context.Background(), &proto.CreateRequest{Key: k, Value: v})
		if err != nil || !resp.Succeeded {
			if fail == "" {
				fail = fmt.Sprintf("create of a fresh key %q failed: %v", k, err)
			}
			settle(slot{}, "create-failed")
			return
		}
		settle(slot{rev: resp.Header.Revision, valid: true, verb: 0, key: k, val: v}, "create-ok")
	}
	for i := 0; i < 2+rnd.Intn(5); i++ {
		write("i")
	}
	create("before")
	// (a) the first range read, with a Create committing while it scans
	if midScan {
		gate.do = func() { create("during-scan") }
		atomic.StoreInt64(&gate.gid, lib.GoID())
		outcomes["create-during-scan"] = true
	}
	R0, kv0, err := list(b, P, 0)
	atomic.StoreInt64(&gate.gid, 0)
	if err != nil {
		w.Fail(lib.ImplFailure{CaseID: -1, What: "first list failed: " + err.Error()})
		return
	}
	if !midScan && rnd.Bool() {
		write("x") // possibly a failed write: the committed revision moves, no event
	}
	// (b) Watch from R0+1 with writes placed inside the call
	ctx, cancel := context.WithCancel(context.Background())
	var ch <-chan []*proto.Event
	var werr error
	th := sched.Go(fmt.Sprintf("watch-%p", b), func() { ch, werr = b.Watch(ctx, string(P), R0+1) })
	pt, done := sched.Step(th, 20*time.Second)
	if !done && pt == "watch.subscribed" {
		if rnd.Chance(2, 3) {
			create("after-subscribe")
			outcomes["write-between-subscribe-and-cache-read"] = true
		}
		pt, done = sched.Step(th, 20*time.Second)
	}
	if !done && pt == "watch.cache_read" {
		create("after-cache-read")
		outcomes["write-between-cache-read-and-spawn"] = true
		if rnd.Bool() {
			write("y")
		}
		pt, done = sched.Step(th, 20*time.Second)
	}
	if !done {
		w.Fail(lib.ImplFailure{CaseID: -1, What: "Watch did not return, parked at " + pt})
		cancel()
		return
	}
	var emu sync.Mutex
	var evs []ev
	wclosed := make(chan struct{})
	if werr == nil {
		go func() {
			for batch := range ch {
				emu.Lock()
				for _, e := range batch {
					evs = append(evs, ev{int(e.Type), e.Revision, e.Kv.Key, e.Kv.Value, e.Kv.Revision})
				}
				emu.Unlock()
			}
			close(wclosed)
		}()
	} else {
		outcomes["watch-refused"] = true
	}
	for i := 0; i < 1+rnd.Intn(5); i++ {
		write("z")
	}
	sort.Slice(slots, func(i, j int) bool { return slots[i].rev < slots[j].rev })
	lastMatch := uint64(0)
	for _, s := range slots {
		if s.rev > R0 && bytes.HasPrefix(s.key, P) {
			lastMatch = s.rev
		}
	}
	if werr == nil && lastMatch > 0 {
		waitUntil(15*time.Second, func() bool {
			emu.Lock()
			defer emu.Unlock()
			return len(evs) > 0 && evs[len(evs)-1].rev >= lastMatch
		})
		time.Sleep(300 * time.Microsecond)
	}
	emu.Lock()
	got := append([]ev{}, evs...)
	emu.Unlock()
	var lists []lst
	seen := map[uint64]bool{}
	for _, e := range got {
		if !seen[e.rev] {
			seen[e.rev] = true
			if _, kvs, err := list(b, P, e.rev); err == nil {
				lists = append(lists, lst{e.rev, kvs})
			}
		}
	}
	if _, kvs, err := list(b, P, b.GetCurrentRevision()); err == nil {
		lists = append(lists, lst{b.GetCurrentRevision(), kvs})
	}
	cancel()
	if werr == nil {
		select {
		case <-wclosed:
		case <-time.After(15 * time.Second):
		}
	}
	ss := make([]string, len(slots))
	for i, s := range slots {
		ss[i] = s.coq()
	}
	es := make([]string, len(got))
	hs := []uint64{}
	for i, e := range got {
		es[i] = e.coq()
		hs = append(hs, e.rev)
	}
	ls := make([]string, len(lists))
	lr := []uint64{}
	for i, l := range lists {
		ls[i] = lib.Pair(lib.N(l.rev), coqStore(l.kvs))
		lr = append(lr, l.rev)
	}
	kind := "list-then-watch/hooked-live-only"
	if midScan {
		kind = "list-then-watch/hooked-write-during-scan"
	}
	c := lib.Case{Kind: kind,
		Coq: func() string {
			if !slotsValid(slots) {
				invalidKLw++
			}
			return lib.App("KLw", lib.Bytes(P), lib.List(ss), lib.N(R0), coqStore(kv0), lib.Bool(werr == nil), lib.List(es), lib.List(ls))
		}(),
		JSON: map[string]interface{}{"engine": "memkv", "prefix": string(P), "initial_revision": c0, "successful_writes": len(slots),
			"R0": R0, "first_list_size": len(kv0), "event_revisions": hs, "list_revisions": lr, "write_during_scan": midScan},
		Trivial: len(got) == 0 || werr != nil}
	for k := range outcomes {
		c.Outcomes = append(c.Outcomes, k)
	}
	w.Add(c)
	if fail != "" {
		w.Fail(lib.ImplFailure{CaseID: w.Len() - 1, What: fail, Case: c.JSON})
	}
}

func main() {
	lib.QuietLogs()
	args := lib.ParseArgs()
	rnd := lib.NewRand(args.Seed)
	backend.VerifYieldHook = yieldHook
	w := lib.NewWriter(args, "C06", "c06", "From KB Require Import Model.C06Cases.", "c06_case", "c06_check", "c06_oracle", 40)
	n := 150
	engines := []string{lib.EngMem}
	if args.Tier == "thorough" {
		n = 1500
		engines = []string{lib.EngMem, lib.EngMem, lib.EngMem, lib.EngBadger}
	} else if args.Tier == "search" {
		n = 500
	}
	// deterministic placements first (fixed corpus + seeded ones)
	nh := 30
	if args.Tier != "quick" {
		nh = 200
	}
	for i := 0; i < nh; i++ {
		cs := 0
		if i%3 == 2 {
			cs = 1 + i%5
		}
		hookedRun(w, rnd.Fork(), args.Scratch, i%2 == 0, cs)
	}
	// deterministic mixed-prefix batches with three clients, one of them lagging
	nm := 12
	if args.Tier != "quick" {
		nm = 80
	}
	for i := 0; i < nm; i++ {
		cs := 0
		if i%3 == 2 {
			cs = 4 + i%7
		}
		mixedRun(w, rnd.Fork(), args.Scratch, cs)
	}
	// unknown-outcome writes (create/update/delete, applied or not) + compaction inside the retry window
	nf := 1
	if args.Tier != "quick" {
		nf = 6
	}
	for r := 0; r < nf; r++ {
		for verb := 0; verb < 4; verb++ {
			for _, applied := range []bool{true, false} {
				for _, big := range []bool{false, true} {
					faultRun(w, rnd.Fork(), args.Scratch, verb, applied, big, 0)
				}
			}
			// two faults in sequence on one key: the write lands but is answered "uncertain"; its repair commit
			// is answered "uncertain" and does not land / fails outright
			for second := 1; second <= 2; second++ {
				faultRun(w, rnd.Fork(), args.Scratch, verb, true, false, second)
			}
		}
	}
	// the partitioned (streamed) list-then-watch path, with and without a compaction above R before the streaming
	np := 3
	if args.Tier != "quick" {
		np = 20
	}
	for i := 0; i < np; i++ {
		for _, cb := range []bool{true, false} {
			for _, split := range []bool{false, true} {
				partitionedRun(w, rnd.Fork(), args.Scratch, cb, split)
			}
		}
	}
	// a partition border on a version record of a key that is then deleted and compacted (memkv behind a wrapper
	// that reports two partitions; in the other tiers also the TiKV mock with a real region split there)
	for i := 0; i < 3; i++ {
		splitVersionRun(w, rnd.Fork(), args.Scratch, lib.EngMem)
	}
	if args.Tier != "quick" {
		for i := 0; i < 3; i++ {
			splitVersionRun(w, rnd.Fork(), args.Scratch, lib.EngTiKV)
		}
	}
	for i := 0; i < n; i++ {
		cs := 0
		if i%4 == 3 {
			cs = 256
		}
		oneRun(w, rnd.Fork(), engines[i%len(engines)], args.Scratch, cs)
	}
	w.Stats.Extra["invalid_cases"] = invalidKLw
	w.Stats.Extra["unknown_outcome_cases_outside_c06_validb"] = faultCases
	if err := w.Finish("trivial = the watch delivered no event, or fewer than two later range reads were taken"); err != nil {
		fmt.Fprintln(os.Stderr, err)
		os.Exit(2)
	}
}
