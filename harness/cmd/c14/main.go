// Driver c14: 2–3 real resourcelock.Interface objects (pkg/backend/election, obtained through
// backend.NewBackend(...).GetResourceLock() or — for the bulk, to keep the number of never-stopping
// backend goroutines bounded — through election.NewResourceLockManager with the configuration
// NewBackend passes) over ONE shared engine, run as logical threads that are parked before every
// engine call on the lock record (Get, BeginBatchWrite) and resumed one at a time.
// Exhaustive schedules for the small configurations, random schedules with injected engine faults
// beyond. Every executed operation becomes one step of a Coq case: label (with the environment
// outcome), observed error class, whether the timestamp oracle was read, the stored record right
// after the step, Describe() of the acting candidate.
package main

import (
	"bytes"
	"context"
	"fmt"
	"os"
	"sort"
	"strconv"
	"strings"
	"sync/atomic"
	"time"

	"github.com/pingcap/kvproto/pkg/kvrpcpb"
	"github.com/tikv/client-go/v2/tikvrpc"
	"k8s.io/client-go/tools/leaderelection/resourcelock"

	"github.com/kubewharf/kubebrain/pkg/backend"
	"github.com/kubewharf/kubebrain/pkg/backend/election"
	"github.com/kubewharf/kubebrain/pkg/server/service/leader"
	"github.com/kubewharf/kubebrain/pkg/storage"

	"kbverif/lib"
)

// ---------- case description ----------

type opSpec struct {
	Kind  string `json:"kind"`            // release (Update to an empty holder without a Get: client-go's release()) | get | create | update | acquire (Get, then Create if NotFound else Update) | info (leader.go GetLeaderInfo/GetElectionInfo/Describe on the node)
	Fault string `json:"fault,omitempty"` // "" | err (engine call fails) | unknown (commit answers storage.ErrUncertainResult, applied iff its condition holds) | unknown-lost (same answer, nothing applied) | tso (timestamp read fails)
}

type candSpec struct {
	ID   string   `json:"id"`
	Prog []opSpec `json:"prog"`
}

type caseSpec struct {
	Engine  string     `json:"engine"`
	Init    string     `json:"init"` // absent | held | released | garbage
	Cands   []candSpec `json:"cands"`
	Kind    string     `json:"kind"`
	Backend bool       `json:"via_new_backend"`
	// CommitPark: a second yield point inside every batch, right before the engine Commit (the batch is begun
	// and staged, the thread parks, others run, then the commit goes through)
	CommitPark bool   `json:"park_before_commit,omitempty"`
	Mutant     string `json:"mutant,omitempty"`
}

// one executed lock operation, as the Coq step
type opObs struct {
	Cand    int    `json:"cand"`
	Kind    string `json:"op"`
	Holder  string `json:"holder,omitempty"`
	Bytes   []byte `json:"-"`
	BytesQ  string `json:"bytes,omitempty"`
	Env     string `json:"env"`
	TsoRead bool   `json:"tso_read"`
	Stale   bool   `json:"other_engine_steps_between_begin_and_commit,omitempty"`
	Ts      uint64 `json:"ts"`
	TsErr   bool   `json:"ts_err"`
	Res     string `json:"res"`
	Stored  string `json:"stored_after"`
	Desc    string `json:"describe"`

	Got      string `json:"get_returned,omitempty"`
	gotB     []byte
	gotOK    bool
	seq      int64 // global completion order
	storedB  []byte
	storedOK bool
	descH    string
	descT    uint64
}

// ---------- a candidate: lock object over tap over gate/fault wrapper over the shared engine ----------

type cand struct {
	idx         int
	spec        candSpec
	lock        resourcelock.Interface
	tap         *lib.ElTap
	le          leader.LeaderElection // the node's leaderElection object (information lookups)
	sched       *lib.Sched
	cur         *opSpec // fault plan of the operation in progress
	commitPark  bool
	atCommit    bool // parked inside a begun batch, right before its engine Commit
	stale       bool // another thread was stepped while this one was parked there
	engineCalls int
	log         []opObs
	seq         int // record counter: makes every written record distinct
}

// mutantKV is the harness self-test: an engine whose compare-and-swap ignores the old value
// (C14_SELFTEST=upsert) or whose put-if-absent overwrites (C14_SELFTEST=createupsert).
type mutantKV struct {
	storage.KvStorage
	mode string
}
type mutantBatch struct {
	storage.BatchWrite
	mode string
}

func (m *mutantKV) BeginBatchWrite() storage.BatchWrite {
	return &mutantBatch{BatchWrite: m.KvStorage.BeginBatchWrite(), mode: m.mode}
}
func (b *mutantBatch) CAS(k, n, o []byte, ttl int64) {
	if b.mode == "upsert" {
		b.BatchWrite.Put(k, n, ttl)
		return
	}
	b.BatchWrite.CAS(k, n, o, ttl)
}
func (b *mutantBatch) PutIfNotExist(k, v []byte, ttl int64) {
	if b.mode == "createupsert" {
		b.BatchWrite.Put(k, v, ttl)
		return
	}
	b.BatchWrite.PutIfNotExist(k, v, ttl)
}

// EngTiKVRPC: the TiKV adapter over a mock cluster with one client store per candidate slot, each behind its own
// RPC interceptor: a candidate's planned fault "rpc-retryable" / "rpc-abort" answers the prewrite of its lock write
// with a Retryable / Abort key error (nothing is written), below the adapter, the way a cluster produces it.
const EngTiKVRPC = "tikv-rpc"

var (
	slotKV   [3]storage.KvStorage
	slotCand [3]*cand
)

func openRPCSlots() (storage.KvStorage, func(), error) {
	h, err := lib.NewTiKVHooked()
	if err != nil {
		return nil, nil, err
	}
	raw, err := h.Open(1, nil, nil) // the harness's own reads and seeding: no interceptor
	if err != nil {
		return nil, nil, err
	}
	for i := range slotKV {
		i := i
		hook := func(ctx context.Context, addr string, req *tikvrpc.Request, next func() (*tikvrpc.Response, error)) (*tikvrpc.Response, error) {
			if c := slotCand[i]; c != nil && req.Type == tikvrpc.CmdPrewrite {
				if cur := c.cur; cur != nil {
					switch cur.Fault {
					case "rpc-retryable":
						return &tikvrpc.Response{Resp: &kvrpcpb.PrewriteResponse{Errors: []*kvrpcpb.KeyError{{Retryable: "injected: retry the transaction"}}}}, nil
					case "rpc-abort":
						return &tikvrpc.Response{Resp: &kvrpcpb.PrewriteResponse{Errors: []*kvrpcpb.KeyError{{Abort: "injected: transaction aborted"}}}}, nil
					}
				}
			}
			return next()
		}
		if slotKV[i], err = h.Open(1, hook, nil); err != nil {
			return nil, nil, err
		}
	}
	return raw, h.Close, nil
}

var backendsMade int
var opSeq int64

func newCand(i int, spec candSpec, kv storage.KvStorage, prefix string, sched *lib.Sched, viaBackend bool, mutant string, commitPark bool, rpcSlots bool) *cand {
	c := &cand{idx: i, spec: spec, sched: sched, commitPark: commitPark}
	inner := kv
	if rpcSlots {
		inner = slotKV[i]
		slotCand[i] = c
	}
	if mutant != "" {
		inner = &mutantKV{KvStorage: kv, mode: mutant}
	}
	w := &lib.Wrap{KvStorage: inner}
	w.Before = func(kind string, key []byte) error {
		switch kind {
		case "get", "batch":
			c.engineCalls++
			sched.Yield("engine." + kind)
			if c.cur != nil && c.cur.Fault == "err" {
				return lib.ErrInjected
			}
		case "tso":
			if c.cur != nil && c.cur.Fault == "tso" {
				return lib.ErrInjected
			}
		}
		return nil
	}
	w.CommitFault = func() (error, bool) {
		if c.commitPark {
			c.atCommit = true
			sched.Yield("engine.commit")
			c.atCommit = false
		}
		// unknown outcome, as the engines report it (storage.ErrUncertainResult): the commit is evaluated by the
		// engine and takes effect iff its condition holds ("unknown"), or is lost altogether ("unknown-lost");
		// either way the caller only learns that it cannot tell
		if c.cur != nil && c.cur.Fault == "unknown" {
			return storage.NewErrUncertainResult(lib.ErrInjected), true
		}
		if c.cur != nil && c.cur.Fault == "unknown-lost" {
			return storage.NewErrUncertainResult(lib.ErrInjected), false
		}
		return nil, false
	}
	c.tap = &lib.ElTap{KvStorage: w}
	if viaBackend {
		b := backend.NewBackend(c.tap, backend.Config{Prefix: prefix, Identity: spec.ID, WatchCacheSize: 16}, &lib.NopMetrics{})
		backendsMade++
		c.lock = b.GetResourceLock()
		c.le = leader.NewLeaderElection(b, &lib.NopMetrics{}, nil, nil)
	} else {
		// exactly what NewBackend does (backend.go: electionConfig) without the backend's goroutines
		c.lock = election.NewResourceLockManager(election.Config{Prefix: prefix, Identity: spec.ID, Timeout: time.Second}, c.tap).GetResourceLock()
		c.le = leader.NewLeaderElection(lockOnlyBackend{l: c.lock}, &lib.NopMetrics{}, nil, nil)
	}
	return c
}

// lockOnlyBackend gives leader.NewLeaderElection the one method it uses at construction.
type lockOnlyBackend struct {
	backend.Backend
	l resourcelock.Interface
}

func (x lockOnlyBackend) GetResourceLock() resourcelock.Interface { return x.l }

func envName(kind, fault string) string {
	if kind == "get" {
		if fault == "err" {
			return "GErr"
		}
		return "GOk"
	}
	switch fault {
	case "rpc-retryable", "rpc-abort":
		return "CRefused"
	case "err", "unknown-lost":
		return "CErr"
	case "unknown":
		return "CUnknown"
	}
	return "COk"
}

// doOp performs one lock operation on the calling logical thread and logs it.
func (c *cand) doOp(op opSpec) string {
	c.cur = &op
	c.stale = false
	calls0 := c.engineCalls
	tso0, _, _ := c.tap.Snapshot()
	o := opObs{Cand: c.idx + 1, Kind: op.Kind, Env: envName(op.Kind, op.Fault)}
	switch op.Kind {
	case "info":
		// what request goroutines do on this node while the elector runs (leader.go:116-146)
		c.sched.Yield("info")
		_ = c.le.GetLeaderInfo()
		_, err := c.le.GetElectionInfo()
		_ = c.lock.Describe()
		o.Res = "ROk"
		if err != nil {
			o.Res = "RErr"
		}
	case "get":
		g0, _, _ := c.tap.GetSnapshot()
		_, err := c.lock.Get()
		o.Res = lib.ElClassGet(err)
		// the harness's own record of what the engine returned to THIS interface-level Get
		if g1, b, ok := c.tap.GetSnapshot(); g1 > g0 && ok {
			o.gotB, o.gotOK, o.Got = b, true, string(b)
		}
	case "create", "update", "release":
		c.seq++
		transitions := 0
		if op.Kind != "create" {
			transitions = c.seq
		}
		holder := c.spec.ID
		if op.Kind == "release" {
			// what client-go's release() sends: an Update with an empty holder, with no Get before it
			holder, o.Kind = "", "update"
		}
		ler := lib.ElRecord(holder, 100*(c.idx+1)+c.seq, transitions)
		o.Holder = holder
		o.Bytes = lib.ElMarshal(ler)
		o.BytesQ = string(o.Bytes)
		var err error
		if op.Kind == "create" {
			err = c.lock.Create(ler)
		} else {
			err = c.lock.Update(ler)
		}
		o.Res = lib.ElClassWrite(err, c.engineCalls > calls0)
	}
	tso1, ts, terr := c.tap.Snapshot()
	o.TsoRead = tso1 > tso0
	if o.TsoRead {
		o.Ts, o.TsErr = ts, terr != nil
	} else {
		o.TsErr = op.Fault == "tso"
	}
	o.Stale = c.stale
	o.seq = atomic.AddInt64(&opSeq, 1)
	c.cur = nil
	c.log = append(c.log, o)
	return o.Res
}

func (c *cand) run() {
	for _, op := range c.spec.Prog {
		if op.Kind == "acquire" { // what tryAcquireOrRenew does with the lock
			r := c.doOp(opSpec{Kind: "get"})
			switch r {
			case "RNotFound":
				c.doOp(opSpec{Kind: "create"})
			case "ROk":
				c.doOp(opSpec{Kind: "update"})
			}
			continue
		}
		c.doOp(op)
	}
}

// ---------- running one schedule ----------

type runResult struct {
	trace   []int   // thread chosen at each decision
	alive   [][]int // threads that could have been chosen
	steps   []opObs
	blocked []string // steps that did not return because the engine made the thread wait
	initRec []byte
	initOK  bool
	initDec string // "holder" value, or "" with initUndec
	initUnd bool
	fail    string
}

var caseSeq int

func seedInit(kv storage.KvStorage, prefix, init string) (b []byte, present bool, holder string, undec bool, err error) {
	switch init {
	case "absent":
		return nil, false, "", false, nil
	case "held":
		b = lib.ElMarshal(lib.ElRecord("X", 1, 3))
		holder = "X"
	case "released":
		b = lib.ElMarshal(lib.ElRecord("", 2, 4))
	case "garbage":
		b = []byte("{not json")
		undec = true
	}
	bw := kv.BeginBatchWrite()
	bw.Put(lib.ElKey(prefix), b, 0)
	err = bw.Commit(context.Background())
	return b, true, holder, undec, err
}

func runSchedule(cs caseSpec, kv storage.KvStorage, forced []int, rnd *lib.Rand) runResult {
	caseSeq++
	prefix := "/c14-" + strconv.Itoa(caseSeq)
	var res runResult
	var err error
	res.initRec, res.initOK, res.initDec, res.initUnd, err = seedInit(kv, prefix, cs.Init)
	if err != nil {
		res.fail = "seeding the initial record failed: " + err.Error()
		return res
	}
	sched := lib.NewSched()
	cands := make([]*cand, len(cs.Cands))
	threads := make([]*lib.Thread, len(cs.Cands))
	for i, sp := range cs.Cands {
		cands[i] = newCand(i, sp, kv, prefix, sched, cs.Backend, cs.Mutant, cs.CommitPark, cs.Engine == EngTiKVRPC)
	}
	for i := range cands {
		c := cands[i]
		threads[i] = sched.Go("cand"+strconv.Itoa(i+1), c.run)
	}
	done := make([]bool, len(cands))
	seen := make([]int, len(cands))
	lastB, lastOK := res.initRec, res.initOK
	derived := false
	holdsOpenBatch := func() bool {
		for _, c := range cands {
			if c.atCommit {
				return true
			}
		}
		return false
	}
	// collectAll logs the operations completed since the last call, in completion order, each with the stored
	// record right after it. memkv keeps its mutex from BeginBatchWrite to Commit (and a waiting thread takes it the
	// moment it is released), so while a thread is parked inside a batch the record cannot be read: it is then derived
	// from the operations' own results (commit-park cases carry no fault injection) and cross-checked at the next read.
	collectAll := func() {
		type ent struct {
			i int
			o opObs
		}
		var xs []ent
		for i, c := range cands {
			for seen[i] < len(c.log) {
				xs = append(xs, ent{i, c.log[seen[i]]})
				seen[i]++
			}
		}
		if len(xs) == 0 {
			return
		}
		sort.Slice(xs, func(a, b int) bool { return xs[a].o.seq < xs[b].o.seq })
		type val struct {
			b  []byte
			ok bool
		}
		vals := make([]val, len(xs))
		cur := val{lastB, lastOK}
		for k, x := range xs {
			if (x.o.Kind == "create" || x.o.Kind == "update") && x.o.Res == "ROk" {
				cur = val{x.o.Bytes, true}
			}
			vals[k] = cur
		}
		canRead := !(cs.Engine == lib.EngMem && holdsOpenBatch())
		if canRead {
			b, ok, gerr := lib.ElStored(kv, prefix)
			if gerr != nil {
				res.fail = "reading the stored record failed: " + gerr.Error()
			}
			n := len(xs)
			if derived && n > 0 && xs[0].o.Kind != "create" && xs[0].o.Kind != "update" && len(xs) == 1 && (ok != lastOK || !bytes.Equal(b, lastB)) {
				res.fail = fmt.Sprintf("the stored record %q is not what the last reported successful write wrote (%q)", b, lastB)
			}
			vals[n-1] = val{b, ok}
			for k := n - 2; k >= 0; k-- { // operations that cannot write leave the record as their predecessor left it
				if nk := xs[k+1].o.Kind; nk == "get" || nk == "info" || xs[k+1].o.Res == "RUninit" {
					vals[k] = vals[k+1]
				}
			}
			derived = false
		} else {
			derived = true
		}
		lastB, lastOK = vals[len(xs)-1].b, vals[len(xs)-1].ok
		for k, x := range xs {
			o := x.o
			c := cands[x.i]
			o.storedB, o.storedOK = vals[k].b, vals[k].ok
			if o.storedOK {
				o.Stored = string(o.storedB)
			} else {
				o.Stored = "<absent>"
			}
			o.Desc = c.lock.Describe()
			j := strings.LastIndexByte(o.Desc, ',')
			if j < 0 {
				res.fail = "Describe() without a comma: " + o.Desc
			} else {
				o.descH = o.Desc[:j]
				o.descT, err = strconv.ParseUint(o.Desc[j+1:], 10, 64)
				if err != nil {
					res.fail = "Describe() timestamp does not parse: " + o.Desc
				}
			}
			res.steps = append(res.steps, o)
		}
	}
	collect := func(int) { collectAll() }
	// every thread first runs from its start to its first engine call: local work only (an Update on
	// an uninitialised lock completes here), so the order is immaterial and not part of the schedule
	for i := range threads {
		p, fin := sched.Step(threads[i], 5*time.Second)
		if p == "<blocked>" {
			res.fail = fmt.Sprintf("thread %d blocked before its first engine call", i+1)
		}
		if fin {
			done[i] = true
		}
		collect(i)
	}
	inflight := make([]bool, len(cands)) // resumed, but made to wait by the engine (memkv: store mutex held by an open batch)
	settle := func() {                   // let waiting threads reach their next yield point once they can
		for j := range threads {
			if inflight[j] {
				p, fin := sched.Wait(threads[j], 150*time.Millisecond)
				if p == "<blocked>" {
					continue
				}
				inflight[j] = false
				if fin {
					done[j] = true
				}
			}
		}
	}
	for step := 0; ; step++ {
		var al []int
		for i := range threads {
			if !done[i] && !inflight[i] {
				al = append(al, i)
			}
		}
		if len(al) == 0 || res.fail != "" {
			break
		}
		var pick int
		switch {
		case step < len(forced):
			pick = forced[step]
			if done[pick] || inflight[pick] {
				pick = al[0]
			}
		case rnd != nil:
			pick = al[rnd.Intn(len(al))]
		default:
			pick = al[0]
		}
		res.trace = append(res.trace, pick)
		res.alive = append(res.alive, al)
		mayWait := false
		for j, c := range cands {
			if j != pick && c.atCommit {
				c.stale = true
				mayWait = cs.Engine == lib.EngMem
			}
		}
		d := 5 * time.Second
		if mayWait {
			d = 150 * time.Millisecond
		}
		p, fin := sched.Step(threads[pick], d)
		if p == "<blocked>" {
			if !mayWait {
				res.fail = fmt.Sprintf("thread %d blocked for 5s at step %d", pick+1, step)
				break
			}
			inflight[pick] = true
			res.blocked = append(res.blocked, fmt.Sprintf("step %d: candidate %d waits for the engine (a batch of another candidate is open)", step, pick+1))
		} else {
			if fin {
				done[pick] = true
			}
			// a waiting thread takes the engine's mutex as soon as it is released: let it reach its next yield
			// point first, so that nothing is half-way when the record is read
			settleFirst := false
			for j := range inflight {
				settleFirst = settleFirst || inflight[j]
			}
			if settleFirst {
				settle()
			}
			collect(pick)
		}
		settle()
		collectAll()
	}
	for j := range threads {
		if inflight[j] && res.fail == "" {
			res.fail = fmt.Sprintf("thread %d still waits for the engine at the end of the schedule", j+1)
		}
	}
	for i, t := range threads {
		if !done[i] {
			sched.Release(t, 2*time.Second)
		}
	}
	return res
}

// ---------- Coq rendering ----------

// Every record a candidate can write is a function of (candidate, counter, create|update), so the
// shard header defines each of them once and the cases refer to them by name: Coq spends its time
// on type-checking byte-string literals, not on evaluating the model.
var dict = map[string]string{}
var dictDefs []string

func register(name string, b []byte) {
	if _, ok := dict[string(b)]; ok {
		return
	}
	dict[string(b)] = name
	dictDefs = append(dictDefs, fmt.Sprintf("Definition %s : bytes := %s.", name, lib.ElBytes(b)))
}

func buildDict(maxSeq int) string {
	register("r_held", lib.ElMarshal(lib.ElRecord("X", 1, 3)))
	register("r_released", lib.ElMarshal(lib.ElRecord("", 2, 4)))
	register("r_garbage", []byte("{not json"))
	register("w_empty", []byte("empty"))
	for _, id := range append([]string{"X"}, ids...) {
		register("id_"+id, []byte(id))
	}
	for i, id := range ids {
		for seq := 1; seq <= maxSeq; seq++ {
			register(fmt.Sprintf("c_%s_%d", id, seq), lib.ElMarshal(lib.ElRecord(id, 100*(i+1)+seq, 0)))
			register(fmt.Sprintf("u_%s_%d", id, seq), lib.ElMarshal(lib.ElRecord(id, 100*(i+1)+seq, seq)))
			register(fmt.Sprintf("x_%s_%d", id, seq), lib.ElMarshal(lib.ElRecord("", 100*(i+1)+seq, seq)))
		}
	}
	return strings.Join(dictDefs, "\n")
}

func bytesCoq(b []byte) string {
	if n, ok := dict[string(b)]; ok {
		return n
	}
	return lib.ElBytes(b)
}
func optBytesCoq(b []byte, present bool) string {
	if !present {
		return lib.None()
	}
	return lib.Some(bytesCoq(b))
}

func tenvCoq(o opObs) string {
	if o.TsErr {
		return "TErr"
	}
	return lib.App("TOk", lib.N(o.Ts))
}

func stepCoq(o opObs) string {
	var lab string
	switch o.Kind {
	case "get":
		lab = lib.App("LGet", lib.N(uint64(o.Cand)), o.Env, tenvCoq(o))
	case "create":
		lab = lib.App("LCreate", lib.N(uint64(o.Cand)), bytesCoq([]byte(o.Holder)), bytesCoq(o.Bytes), o.Env, tenvCoq(o))
	case "update":
		lab = lib.App("LUpdate", lib.N(uint64(o.Cand)), bytesCoq([]byte(o.Holder)), bytesCoq(o.Bytes), o.Env, tenvCoq(o))
	case "info":
		lab = lib.App("LInfo", lib.N(uint64(o.Cand)))
	}
	return lib.App("mkStep", lab, o.Res, lib.Bool(o.TsoRead), lib.Bool(o.Stale), optBytesCoq(o.gotB, o.gotOK), optBytesCoq(o.storedB, o.storedOK),
		lib.Pair(bytesCoq([]byte(o.descH)), lib.N(o.descT)))
}

func caseCoq(r runResult) string {
	init := lib.None()
	if r.initOK {
		h := lib.Some(bytesCoq([]byte(r.initDec)))
		if r.initUnd {
			h = lib.None()
		}
		init = lib.Some(lib.App("mkRec", bytesCoq(r.initRec), h))
	}
	xs := make([]string, len(r.steps))
	for i, o := range r.steps {
		xs[i] = stepCoq(o)
	}
	return lib.App("mkCase", init, lib.List(xs))
}

// ---------- generation ----------

func prog(kinds ...string) []opSpec {
	p := make([]opSpec, len(kinds))
	for i, k := range kinds {
		p[i] = opSpec{Kind: k}
	}
	return p
}

var ids = []string{"A", "B", "C"}

func mk(engine, init, kind string, progs ...[]opSpec) caseSpec {
	cs := caseSpec{Engine: engine, Init: init, Kind: kind}
	for i, p := range progs {
		cs.Cands = append(cs.Cands, candSpec{ID: ids[i], Prog: p})
	}
	return cs
}

func main() {
	lib.QuietLogs()
	lib.ElInstallHook()
	args := lib.ParseArgs()
	rnd := lib.NewRand(args.Seed)
	mutant := os.Getenv("C14_SELFTEST")
	w := lib.NewWriter(args, "C14", "c14", "From Coq Require Import String.\nFrom KB Require Import Model.C14Cases.\n"+buildDict(16), "c14_case", "c14_check", "c14_oracle", 600)

	engines := []string{lib.EngMem, lib.EngBadger, lib.EngTiKV}
	maxBackends := 36
	nRandom := 120
	if args.Tier == "thorough" {
		maxBackends, nRandom = 120, 1500
	} else if args.Tier == "search" {
		nRandom = 600
	}
	schedules := 0
	perEngine := map[string]int{}

	emit := func(cs caseSpec, r runResult) {
		schedules++
		perEngine[cs.Engine]++
		writes, rejected, applied := 0, 0, 0
		outs := []string{}
		for _, o := range r.steps {
			outs = append(outs, o.Kind+":"+o.Res)
			if o.Kind != "get" && o.Kind != "info" {
				writes++
				switch o.Res {
				case "ROk":
					applied++
				case "RConflict":
					rejected++
				}
			}
		}
		js := map[string]interface{}{"spec": cs, "schedule": r.trace, "steps": r.steps, "engine_waits": r.blocked}
		if len(r.blocked) > 0 {
			outs = append(outs, "engine-wait")
		}
		if r.fail != "" {
			w.Fail(lib.ImplFailure{CaseID: w.Len(), Code: 0, What: r.fail, Case: js})
			return
		}
		w.Add(lib.Case{Coq: caseCoq(r), JSON: js, Kind: cs.Engine + "/" + cs.Kind, Trivial: writes == 0, Outcomes: outs})
	}

	for _, eng := range append(append([]string{}, engines...), EngTiKVRPC) {
		var kv storage.KvStorage
		var closer func()
		var err error
		if eng == EngTiKVRPC {
			kv, closer, err = openRPCSlots()
		} else {
			kv, closer, err = lib.NewEngine(eng, args.Scratch)
		}
		if err != nil {
			w.Fail(lib.ImplFailure{Code: 0, What: "engine " + eng + " does not open: " + err.Error()})
			continue
		}
		madeHere := 0
		useBackend := func(n int) bool { // the first cases of every engine go through backend.NewBackend
			if eng != EngTiKVRPC && backendsMade+n <= maxBackends && madeHere+n <= maxBackends/len(engines) {
				madeHere += n
				return true
			}
			return false
		}
		explore := func(cs caseSpec) {
			cs.Mutant = mutant
			var rec func(forced []int)
			rec = func(forced []int) {
				c := cs
				c.Backend = useBackend(len(cs.Cands))
				r := runSchedule(c, kv, forced, nil)
				emit(c, r)
				for p := len(forced); p < len(r.trace); p++ {
					for _, alt := range r.alive[p] {
						if alt != r.trace[p] {
							nf := append(append([]int{}, r.trace[:p]...), alt)
							rec(nf)
						}
					}
				}
			}
			rec(nil)
		}

		// --- fixed corpus: the situations the theorems name, first ---
		// take-over against a renewal: A reads R0, the holder renews (R0 -> R1), an information lookup runs on
		// A's node, A's take-over decided on R0 must fail and R1 must stay (all schedules, incl. that one)
		explore(mk(eng, "absent", "corpus-takeover-vs-renewal", prog("create", "get", "update"), prog("get", "info", "update")))
		// three nodes over one kv: A.Get(R0); B.Get(R0) + B.Update accepted; information lookups on A's and C's
		// nodes in between; A.Update must fail
		explore(mk(eng, "held", "corpus-info-lookup", prog("get", "info", "update"), prog("get", "update"), prog("info")))
		// the same three nodes as three real backend.NewBackend over one kv and the real leader.NewLeaderElection(backendA, ...),
		// in exactly this order: A.Get(R0); B.Get(R0); B.Update accepted; GetLeaderInfo/GetElectionInfo on node A; (on node C);
		// A.Update — which must be refused, B's record staying stored
		{
			cs := mk(eng, "held", "corpus-info-lookup-3-backends", prog("get", "info", "update"), prog("get", "update"), prog("info"))
			cs.Backend, cs.Mutant = true, mutant
			r := runSchedule(cs, kv, []int{0, 1, 1, 0, 2, 0}, nil)
			emit(cs, r)
		}
		// a second yield point inside the batch, right before the engine Commit: A stages and parks; B runs its whole
		// Create/Update (memkv: B must wait for the store mutex until A has committed; Badger/TiKV: B completes and
		// A's commit must then fail); at most one of the two is applied
		for _, cfg := range []caseSpec{
			mk(eng, "absent", "corpus-commit-park-create-race", prog("get", "create"), prog("get", "create")),
			mk(eng, "held", "corpus-commit-park-same-observed", prog("get", "update"), prog("get", "update")),
			mk(eng, "absent", "corpus-commit-park-acquire", prog("acquire"), prog("acquire", "acquire")),
		} {
			cfg.CommitPark = true
			explore(cfg)
		}
		// a stalled ex-leader resumes and releases (Update to an empty holder, no Get before it: client-go's release())
		// after a competitor has taken over: the release must be refused, the new leader's record stays, and a third
		// candidate must not find the lock free
		explore(mk(eng, "absent", "corpus-stale-release", prog("create", "release"), prog("get", "update"), prog("acquire")))
		explore(mk(eng, "held", "corpus-stale-release", prog("get", "update", "release", "get", "release"), prog("get", "update")))
		if eng == EngTiKVRPC {
			// the engine refuses one candidate's lock write at its commit (prewrite answered with a Retryable / Abort key
			// error) while another candidate conditioned on the same record does the real write: the refused candidate must
			// see an error; whoever reports success must be the stored holder
			for _, f := range []string{"rpc-retryable", "rpc-abort"} {
				explore(caseSpec{Engine: eng, Init: "held", Kind: "corpus-refused-update-" + f, Cands: []candSpec{
					{ID: "A", Prog: []opSpec{{Kind: "get"}, {Kind: "update", Fault: f}, {Kind: "get"}, {Kind: "update"}}},
					{ID: "B", Prog: prog("get", "update")}}})
				explore(caseSpec{Engine: eng, Init: "absent", Kind: "corpus-refused-create-" + f, Cands: []candSpec{
					{ID: "A", Prog: []opSpec{{Kind: "get"}, {Kind: "create", Fault: f}, {Kind: "get"}}},
					{ID: "B", Prog: prog("get", "create")}}})
			}
			two := [][]opSpec{prog("get", "create"), prog("get", "update"), prog("acquire")}
			for _, init := range []string{"absent", "held"} {
				for _, pa := range two {
					for _, pb := range two {
						explore(mk(eng, init, "exh-2x2", pa, pb))
					}
				}
			}
			lib.ElRetire()
			closer()
			continue
		}
		// unknown-outcome commits that did NOT land because a competitor won: the lock object may only report them
		// as errors, never as an acquisition
		for _, f := range []string{"unknown", "unknown-lost"} {
			explore(caseSpec{Engine: eng, Init: "held", Kind: "corpus-lost-update-" + f, Cands: []candSpec{
				{ID: "A", Prog: []opSpec{{Kind: "get"}, {Kind: "update", Fault: f}, {Kind: "get"}, {Kind: "update"}}},
				{ID: "B", Prog: prog("get", "update")}}})
			explore(caseSpec{Engine: eng, Init: "absent", Kind: "corpus-lost-create-" + f, Cands: []candSpec{
				{ID: "A", Prog: []opSpec{{Kind: "get"}, {Kind: "create", Fault: f}, {Kind: "get"}}},
				{ID: "B", Prog: prog("get", "create")}}})
		}
		explore(mk(eng, "absent", "corpus-renew-twice", prog("create", "update", "update", "get", "update")))
		explore(mk(eng, "held", "corpus-same-observed", prog("get", "update"), prog("get", "update")))
		explore(mk(eng, "absent", "corpus-create-race", prog("get", "create"), prog("get", "create")))
		explore(mk(eng, "garbage", "corpus-undecodable", prog("get", "update", "create"), prog("acquire")))
		explore(mk(eng, "absent", "corpus-uninit", prog("update", "get", "update"), prog("create")))
		explore(caseSpec{Engine: eng, Init: "absent", Kind: "corpus-faults", Cands: []candSpec{
			{ID: "A", Prog: []opSpec{{Kind: "create", Fault: "tso"}, {Kind: "update"}, {Kind: "get"}, {Kind: "update", Fault: "unknown"}}},
			{ID: "B", Prog: []opSpec{{Kind: "get", Fault: "err"}, {Kind: "create", Fault: "unknown"}, {Kind: "get", Fault: "tso"}, {Kind: "update", Fault: "err"}}}}})

		// --- exhaustive: 2 candidates x (Get, Create|Update), every initial record ---
		two := [][]opSpec{prog("get", "create"), prog("get", "update"), prog("acquire")}
		for _, init := range []string{"absent", "held", "released", "garbage"} {
			for _, pa := range two {
				for _, pb := range two {
					explore(mk(eng, init, "exh-2x2", pa, pb))
				}
			}
		}
		if eng != lib.EngMem { // on memkv every step against an open batch costs a wait: the corpus above covers it
			for _, init := range []string{"absent", "held", "released"} {
				for _, pa := range two {
					for _, pb := range two {
						cfg := mk(eng, init, "exh-2x2-commit-park", pa, pb)
						cfg.CommitPark = true
						explore(cfg)
					}
				}
			}
		}
		for _, init := range []string{"absent", "held"} {
			explore(mk(eng, init, "exh-2-long", prog("get", "update", "update"), prog("get", "update")))
			explore(mk(eng, init, "exh-2-long", prog("acquire", "update"), prog("acquire")))
			explore(mk(eng, init, "exh-2-long", prog("acquire", "acquire"), prog("acquire")))
			explore(mk(eng, init, "exh-2-short", prog("create"), prog("create")))
			explore(mk(eng, init, "exh-2-short", prog("create"), prog("get", "update")))
			explore(mk(eng, init, "exh-2-short", prog("update"), prog("get", "create")))
		}
		// --- exhaustive: 3 candidates x one attempt each ---
		for _, init := range []string{"absent", "held", "released"} {
			explore(mk(eng, init, "exh-3x1", prog("acquire"), prog("acquire"), prog("acquire")))
		}
		explore(mk(eng, "held", "exh-3x1", prog("get", "update"), prog("get", "update"), prog("get", "update")))
		explore(mk(eng, "absent", "exh-3x1", prog("get", "create"), prog("get", "create"), prog("acquire")))

		// --- random beyond: 2..3 candidates, longer programs, engine faults, random schedules ---
		kinds := []string{"get", "get", "update", "update", "create", "acquire", "acquire", "info", "release"}
		faults := []string{"", "", "", "", "", "err", "unknown", "unknown-lost", "tso"}
		for i := 0; i < nRandom; i++ {
			n := 2 + rnd.Intn(2)
			cs := caseSpec{Engine: eng, Kind: "random", Init: []string{"absent", "held", "released", "garbage"}[rnd.Intn(4)], Mutant: mutant}
			for c := 0; c < n; c++ {
				m := 3 + rnd.Intn(4)
				p := make([]opSpec, m)
				for j := range p {
					p[j] = opSpec{Kind: kinds[rnd.Intn(len(kinds))]}
					if p[j].Kind != "acquire" && p[j].Kind != "info" {
						p[j].Fault = faults[rnd.Intn(len(faults))]
						if p[j].Kind == "get" && strings.HasPrefix(p[j].Fault, "unknown") {
							p[j].Fault = ""
						}
					}
				}
				cs.Cands = append(cs.Cands, candSpec{ID: ids[c], Prog: p})
			}
			r := runSchedule(cs, kv, nil, rnd.Fork())
			emit(cs, r)
		}
		lib.ElRetire()
		closer()
	}
	w.Stats.Extra["schedules"] = schedules
	w.Stats.Extra["per_engine"] = perEngine
	w.Stats.Extra["candidates_via_backend_NewBackend"] = backendsMade
	if mutant != "" {
		w.Stats.Extra["selftest_mutant"] = mutant
	}
	if err := w.Finish("one case = one complete schedule of 2-3 real lock objects over one shared engine; exhaustive enumeration (every interleaving of the engine calls) for 2 candidates x (Get, Create|Update|adaptive) on 4 initial records and 3 candidates x one attempt, random schedules with injected faults beyond; distinct = SHA-256 of the Coq case (labels, outcomes, stored record after each step); non-trivial = at least one Create/Update executed"); err != nil {
		fmt.Fprintln(os.Stderr, err)
		os.Exit(2)
	}
}
