package main

import (
	proto "github.com/kubewharf/kubebrain-client/api/v2rpc"

	"github.com/kubewharf/kubebrain/pkg/backend"

	"kbverif/lib"
)

// ---------------------------------------------------------------- (a) ring alone

func ringCase(w *coll, l int, revs []uint64, S uint64, kind string) {
	r := backend.NewRing(l)
	for _, rv := range revs {
		r.Add(&proto.Event{Type: proto.Event_PUT, Revision: rv, Kv: &proto.KeyValue{Revision: rv}})
	}
	obsStr, outcome := func() (o string, oc string) {
		defer func() {
			if rec := recover(); rec != nil {
				o, oc = "ROPanic", "panic"
			}
		}()
		ret := r.VerifFind(S)
		switch {
		case ret.Empty:
			return "ROEmpty", "empty"
		case ret.High:
			return lib.App("ROHigh", lib.N(ret.Newest.Revision), lib.N(ret.Oldest.Revision)), "high"
		case ret.Low:
			return lib.App("ROLow", lib.N(ret.Newest.Revision), lib.N(ret.Oldest.Revision)), "low"
		}
		xs := make([]string, len(ret.Events))
		for i, e := range ret.Events {
			if e == nil {
				xs[i] = "None"
			} else {
				xs[i] = lib.Some(lib.N(e.Revision))
			}
		}
		return lib.App("ROEvents", lib.N(ret.Newest.Revision), lib.N(ret.Oldest.Revision), lib.List(xs)), "events"
	}()
	rs := make([]string, len(revs))
	for i, rv := range revs {
		rs[i] = lib.N(rv)
	}
	w.Add(lib.Case{Kind: kind, Coq: lib.App("KRing", lib.N(uint64(l)), lib.List(rs), lib.N(S), obsStr),
		JSON:    map[string]interface{}{"op": "ring", "l": l, "revs": revs, "S": S, "obs": obsStr, "invalid": l < 1 || !increasing(revs)},
		Trivial: len(revs) == 0, Outcomes: []string{"ring:" + outcome}})
}

func ringCases(w *coll, rnd *lib.Rand, tier string) {
	// exhaustive: l <= 4, e <= 3l, revision gaps alternate 1,2 (so that S can fall between two events)
	for l := 1; l <= 4; l++ {
		for e := 0; e <= 3*l; e++ {
			revs := make([]uint64, e)
			cur := uint64(10)
			for i := range revs {
				cur += uint64(1 + (i+l)%2)
				revs[i] = cur
			}
			lo, hi := uint64(9), cur+2
			for S := lo; S <= hi; S++ {
				ringCase(w, l, revs, S, "ring-exhaustive")
			}
			ringCase(w, l, revs, 0, "ring-exhaustive")
		}
	}
	n := 150
	if tier != "quick" {
		n = 3000
	}
	for i := 0; i < n; i++ {
		l := 1 + rnd.Intn(9)
		e := rnd.Intn(4*l + 2)
		revs := make([]uint64, e)
		cur := uint64(rnd.Intn(5))
		for j := range revs {
			cur += uint64(1 + rnd.Intn(3))
			revs[j] = cur
		}
		S := uint64(rnd.Intn(int(cur) + 4))
		ringCase(w, l, revs, S, "ring-random")
	}
}


func increasing(revs []uint64) bool {
	for i := 1; i < len(revs); i++ {
		if revs[i-1] >= revs[i] {
			return false
		}
	}
	return true
}
