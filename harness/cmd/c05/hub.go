package main

import (
	"context"
	"fmt"
	"sync"
	"sync/atomic"
	"time"

	proto "github.com/kubewharf/kubebrain-client/api/v2rpc"

	"github.com/kubewharf/kubebrain/pkg/backend"
	"github.com/kubewharf/kubebrain/pkg/metrics"

	"kbverif/lib"
)

// ---------------------------------------------------------------- metrics hook shared by (b) and (c)

type hooks struct {
	mu           sync.Mutex
	drops        int32
	parkDeleters int32 // when set, goroutines entering DeleteWatcher (other than exempt ones) park
	parked       int32
	release      chan struct{}
	exempt       sync.Map // goroutine ids that are never parked (the driver's own barrier calls)
}

func newHooks() *hooks { return &hooks{release: make(chan struct{})} }

func (h *hooks) metric(kind, name string, tags []metrics.T) {
	switch name {
	case "drop.slow.watcher":
		atomic.AddInt32(&h.drops, 1)
	case "watcher_hub.delete_watcher":
		if atomic.LoadInt32(&h.parkDeleters) == 1 {
			if _, ok := h.exempt.Load(lib.GoID()); ok {
				return
			}
			h.mu.Lock()
			rel := h.release
			h.mu.Unlock()
			atomic.AddInt32(&h.parked, 1)
			<-rel
		}
	}
}
func (h *hooks) releaseDeleters() {
	atomic.StoreInt32(&h.parkDeleters, 0)
	h.mu.Lock()
	close(h.release)
	h.release = make(chan struct{})
	h.mu.Unlock()
	atomic.StoreInt32(&h.parked, 0)
}

// ---------------------------------------------------------------- (b) hub alone

type hubSub struct {
	ch     <-chan []*proto.Event
	cancel context.CancelFunc
	got    []ev
	closed bool
}

type hubRig struct {
	hub   *backend.WatcherHub
	in    chan []*proto.Event
	hk    *hooks
	subs  []*hubSub
	nreg  int // registered, as the driver believes
	sc    *script
	rev   uint64
	c0    uint64
	fail  string
	eager []int
}

func newHubRig(c0 uint64) *hubRig {
	hk := newHooks()
	hk.exempt.Store(lib.GoID(), true)
	m := &lib.NopMetrics{Hook: hk.metric}
	r := &hubRig{hub: backend.VerifNewWatcherHub(m), in: make(chan []*proto.Event), hk: hk, sc: &script{}, rev: c0, c0: c0}
	go r.hub.Stream(r.in)
	return r
}

// keepUp makes subscriber w read every batch as soon as it has been fanned out (used for a sentinel subscriber:
// the fan-out of an item is then always observable, also when nobody else is registered).
func (r *hubRig) keepUp(w int) { r.eager = append(r.eager, w) }

// barrier: DeleteWatcher on an unknown channel takes the hub's write lock and changes nothing.
func (r *hubRig) barrier() {
	if r.fail != "" {
		return
	}
	done := make(chan struct{})
	go func() {
		r.hk.exempt.Store(lib.GoID(), true)
		r.hub.DeleteWatcher(make(chan []*proto.Event), true)
		close(done)
	}()
	select {
	case <-done:
	case <-time.After(20 * time.Second):
		r.fail = "the hub holds its read lock for more than 20s (blocked in a send to a subscriber?)"
	}
}

func (r *hubRig) add() int {
	ctx, cancel := context.WithCancel(context.Background())
	ch, _ := r.hub.AddWatcher(ctx)
	r.subs = append(r.subs, &hubSub{ch: ch, cancel: cancel})
	r.nreg++
	r.sc.labs(lSub(0, nil), lW("LWatchSpawn", len(r.subs)-1))
	r.sc.note("add w%d", len(r.subs)-1)
	return len(r.subs) - 1
}

func (r *hubRig) totalLen() int {
	t := 0
	for _, s := range r.subs {
		t += len(s.ch)
	}
	return t
}

// item sends one single-event batch and waits until the hub has offered it to every registered subscriber.
// registered = the number of subscribers in the hub's map right now.
func (r *hubRig) item(registered int, emit bool) uint64 { return r.itemB(registered, emit, nil) }

// itemB: onBlocked is called if the hub does not take the item within a second (it is then busy with something
// the driver holds back, e.g. a deleter that runs on the hub's own goroutine after a repair of C05-F1).
func (r *hubRig) itemB(registered int, emit bool, onBlocked func() int) uint64 {
	if r.fail != "" {
		return r.rev // the hub is already known to be stuck
	}
	r.rev++
	e := &proto.Event{Type: proto.Event_PUT, Revision: r.rev, Kv: &proto.KeyValue{Key: []byte("/h/k"), Value: []byte("v"), Revision: r.rev}}
	before := r.totalLen() + int(atomic.LoadInt32(&r.hk.drops))
	if onBlocked != nil {
		select {
		case r.in <- []*proto.Event{e}:
			goto sent
		case <-time.After(time.Second):
			registered = onBlocked()
		}
	}
	select {
	case r.in <- []*proto.Event{e}:
	case <-time.After(20 * time.Second):
		r.fail = fmt.Sprintf("the hub did not take item rev %d within 20s (blocked in a send?)", r.rev)
		return r.rev
	}
sent:
	if r.fail != "" {
		return r.rev
	}
	if !waitUntil(20*time.Second, func() bool {
		return r.totalLen()+int(atomic.LoadInt32(&r.hk.drops)) >= before+registered
	}) {
		r.fail = fmt.Sprintf("hub did not fan out item rev %d to %d subscribers within 5s", r.rev, registered)
	}
	if atomic.LoadInt32(&r.hk.parkDeleters) == 0 {
		r.barrier()
	}
	if emit {
		r.sc.labs(lTake(slot{rev: r.rev, prev: r.rev - 1, valid: true, verb: 1, key: []byte("/h/k"), val: []byte("v")}), "LSeqCache", "LSeqSend", lHubItem())
		for _, x := range r.eager {
			r.drain(x, 1)
		}
	}
	return r.rev
}

// drain reads up to k batches that are already buffered (never blocks); model: k x (recv, send, consume)
func (r *hubRig) drain(w, k int) {
	s := r.subs[w]
	n := 0
	emit := func() {
		three := []string{lW("LProc", w), lW("LProc", w), lW("LConsume", w)}
		if n > 6 {
			r.sc.steps = append(r.sc.steps, lib.App("RRep", lib.N(uint64(n)), lib.List(three)))
			r.sc.nlab += 3 * n
		} else {
			for i := 0; i < n; i++ {
				r.sc.labs(three...)
			}
		}
	}
	for n < k {
		select {
		case b, ok := <-s.ch:
			if !ok {
				s.closed = true
				emit()
				r.sc.labs(lW("LProc", w), lW("LConsume", w))
				r.sc.note("w%d sees close", w)
				return
			}
			for _, e := range b {
				s.got = append(s.got, fromProto(e))
			}
			n++
		default:
			emit()
			return
		}
	}
	emit()
}

func (r *hubRig) observe(w int, quiet bool) {
	s := r.subs[w]
	o := obs{w: w, got: s.got, hasGot: true, closed: bp(s.closed), quiet: quiet}
	if !s.closed {
		o.sublen = u64(uint64(len(s.ch)))
	}
	r.sc.obs(o)
}

func hubCorpus(w *coll) {
	hb := backend.VerifWatchBuffer
	key, val := []byte("/h/k"), []byte("v")
	// H1 (witness of the fixed defect C05-F1: deletion of the slow subscriber held back) and H2 (not held): a
	// subscriber that stops reading
	for variant := 0; variant < 2; variant++ {
		r := newHubRig(100)
		slow := r.add()
		fast := r.add()
		// fill the slow subscriber's buffer; the fast one reads along
		r0 := r.rev + 1
		for i := 0; i < hb && r.fail == ""; i++ {
			r.item(2, false)
			for len(r.subs[fast].ch) > 0 {
				b := <-r.subs[fast].ch
				r.subs[fast].got = append(r.subs[fast].got, fromProto(b[0]))
			}
		}
		if r.fail != "" {
			finishHub(w, r, "hub-overflow-stuck")
			continue
		}
		r.sc.bulk(r0, uint64(hb), key, val, []string{lHubItem(), lW("LProc", fast), lW("LProc", fast), lW("LConsume", fast)})
		r.observe(slow, false)
		r.observe(fast, true)
		if variant == 0 {
			atomic.StoreInt32(&r.hk.parkDeleters, 1)
		}
		r.item(2, true) // dropped for `slow`
		if r.fail != "" {
			r.drain(slow, 3) // unblock a hub stuck in a blocking send, so that its goroutine can end
			finishHub(w, r, "hub-overflow-stuck")
			continue
		}
		r.drain(fast, 1)
		if variant == 0 {
			waitUntil(20*time.Second, func() bool { return atomic.LoadInt32(&r.hk.parked) == 1 })
			// The deletion of the slow subscriber is held at its first metric emission. It runs on the hub's own
			// goroutine (Stream deletes slow subscribers before it takes the next item), so the hub is parked and
			// takes the next item only once the driver lets go. Should the deletion ever run on a goroutine of
			// its own again (C05-F1), the hub goes on, the next batch is accepted after the dropped one and the
			// observations below disagree with the model: an unlisted VIOLATION.
			r.sc.drops(int(atomic.LoadInt32(&r.hk.drops)))
			r.observe(slow, false)
			r.drain(slow, 1) // the consumer takes one batch: there would be room again
			syncDelete := false
			r.itemB(2, false, func() int {
				syncDelete = true
				r.hk.releaseDeleters()
				waitUntil(20*time.Second, func() bool { return r.hub.VerifSubs() == 1 })
				return 1
			})
			r.sc.labs(lTake(slot{rev: r.rev, prev: r.rev - 1, valid: true, verb: 1, key: key, val: val}), "LSeqCache", "LSeqSend", lHubItem())
			r.drain(fast, 1)
			r.observe(slow, false)
			if !syncDelete {
				r.hk.releaseDeleters()
				waitUntil(20*time.Second, func() bool { return r.hub.VerifSubs() == 1 })
			}
			r.sc.subs(r.hub.VerifSubs())
		} else {
			waitUntil(20*time.Second, func() bool { return r.hub.VerifSubs() == 1 })
			r.sc.drops(int(atomic.LoadInt32(&r.hk.drops)))
			r.sc.subs(r.hub.VerifSubs())
			r.drain(slow, 1)
			r.item(1, true)
			r.drain(fast, 1)
		}
		r.drain(slow, hb+5)
		r.observe(slow, false)
		r.observe(fast, true)
		name := "hub-overflow-deleter-held"
		if variant == 1 {
			name = "hub-overflow-prompt-delete"
		}
		close(r.in)
		finishHub(w, r, name)
	}
}

func hubCases(w *coll, rnd *lib.Rand, tier string) {
	n := 40
	if tier != "quick" {
		n = 600
	}
	for i := 0; i < n; i++ {
		r := newHubRig(uint64(50 + rnd.Intn(50)))
		steps := 6 + rnd.Intn(20)
		reg := map[int]bool{}
		reg[r.add()] = true // w0: sentinel, reads along, never cancelled
		r.keepUp(0)
		for st := 0; st < steps; st++ {
			switch c := rnd.Intn(10); {
			case c < 2 && len(r.subs) < 5:
				reg[r.add()] = true
			case c < 6:
				r.item(len(reg), true)
			case c < 8 && len(r.subs) > 1:
				r.drain(1+rnd.Intn(len(r.subs)-1), 1+rnd.Intn(3))
			case c == 8 && len(r.subs) > 1:
				x := 1 + rnd.Intn(len(r.subs)-1)
				r.subs[x].cancel()
				r.sc.lab(lW("LCancel", x))
				if reg[x] {
					waitUntil(20*time.Second, func() bool { return r.hub.VerifSubs() == len(reg)-1 })
					delete(reg, x)
				} else {
					time.Sleep(200 * time.Microsecond)
				}
				r.sc.lab(lW("LCtxDelete", x))
				r.sc.subs(r.hub.VerifSubs())
			default:
				if len(r.subs) > 0 {
					r.observe(rnd.Intn(len(r.subs)), false)
				}
			}
		}
		for x := range r.subs {
			r.drain(x, 1000)
			r.observe(x, true)
		}
		r.sc.subs(r.hub.VerifSubs())
		r.sc.drops(int(atomic.LoadInt32(&r.hk.drops)))
		for _, s := range r.subs {
			s.cancel()
		}
		close(r.in)
		finishHub(w, r, "hub-script")
	}
}

func finishHub(w *coll, r *hubRig, kind string) {
	c := lib.Case{Kind: kind, Coq: runCase(realParams, 4, r.c0, r.sc),
		JSON:     map[string]interface{}{"op": kind, "script": r.sc.human},
		Trivial:  r.sc.nlab < 6,
		Outcomes: []string{kind}}
	if atomic.LoadInt32(&r.hk.drops) > 0 {
		c.Outcomes = append(c.Outcomes, "slow-subscriber-dropped")
	}
	w.Add(c)
	if r.fail != "" {
		w.Fail(lib.ImplFailure{CaseID: w.Len() - 1, What: r.fail, Case: c.JSON})
	}
}

