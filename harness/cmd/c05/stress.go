package main

// Concurrent stress of the event ring (C05_ring's clause "FindEvents returns exactly the cached events with
// revision >= S, in order" under a concurrent appender). This clause is checked probabilistically: nothing but a
// race from outside can show a FindEvents that works on the ring while Add changes it. Failures are reported as
// ImplFailure with the offending result; there is no Coq case.

import (
	"context"
	"fmt"
	"runtime"
	"sync/atomic"
	"time"

	proto "github.com/kubewharf/kubebrain-client/api/v2rpc"

	"github.com/kubewharf/kubebrain/pkg/backend"

	"kbverif/lib"
)

// revsOf renders up to max revisions around the first position where evs stops being s, s+1, ...
func revsOf(evs []*proto.Event, max int) []uint64 {
	from := 0
	if len(evs) > 0 && evs[0] != nil {
		for i, e := range evs {
			if e == nil || e.Revision != evs[0].Revision+uint64(i) {
				if i > 2 {
					from = i - 2
				}
				break
			}
		}
	}
	var out []uint64
	for i, e := range evs[from:] {
		if i >= max {
			break
		}
		if e == nil {
			out = append(out, 0)
		} else {
			out = append(out, e.Revision)
		}
	}
	return out
}

// snapCase records one result as a Coq case KSnap S oldest newest revisions: c05_check / c05_oracle compare it with
// what an atomic FindEvents returns on a ring of consecutive revisions (snap_expect; theorem C05_ring_consecutive).
func snapCase(w *coll, kind string, S, od, nw uint64, evs []*proto.Event, ok bool) {
	xs := make([]string, len(evs))
	for i, e := range evs {
		if e == nil {
			xs[i] = "None"
		} else {
			xs[i] = lib.Some(lib.N(e.Revision))
		}
	}
	oc := "snapshot-consistent"
	if !ok {
		oc = "snapshot-inconsistent"
	}
	w.Add(lib.Case{Kind: kind, Coq: lib.App("KSnap", lib.N(S), lib.N(od), lib.N(nw), lib.List(xs)),
		JSON: map[string]interface{}{"op": kind, "S": S, "oldest": od, "newest": nw, "returned": len(evs),
			"around_first_break": revsOf(evs, 8)},
		Outcomes: []string{oc}})
}

// consecutiveFrom reports whether evs are the revisions s, s+1, s+2, ... (no nil entries).
func consecutiveFrom(evs []*proto.Event, s uint64) bool {
	for i, e := range evs {
		if e == nil || e.Revision != s+uint64(i) {
			return false
		}
	}
	return len(evs) > 0
}

// ringStress: one appender (consecutive revisions, paced), one reader asking for revisions just above the oldest
// cached one. Returns the number of FindEvents calls that returned events.
func ringStress(w *coll, size int, d time.Duration, pace int) (hits, calls int) {
	r := backend.NewRing(size)
	var next uint64
	add := func() {
		rev := atomic.AddUint64(&next, 1)
		r.Add(&proto.Event{Type: proto.Event_PUT, Revision: rev, Kv: &proto.KeyValue{Revision: rev}})
	}
	for i := 0; i < 3*size; i++ {
		add() // the ring has wrapped
	}
	var stop int32
	done := make(chan struct{})
	go func() {
		defer close(done)
		x := 0
		for atomic.LoadInt32(&stop) == 0 {
			add()
			for i := 0; i < pace; i++ {
				x += i
			}
			if x == -1 {
				runtime.Gosched()
			}
		}
	}()
	rnd := lib.NewRand(uint64(size)*7919 + uint64(pace))
	deadline := time.Now().Add(d)
	S := uint64(1)
	bad := ""
	sampled := 0
	func() {
		defer func() {
			if rec := recover(); rec != nil {
				bad = fmt.Sprintf("FindEvents(%d) panicked under a concurrent Add: %v", S, rec)
			}
		}()
		for time.Now().Before(deadline) && bad == "" {
			for k := 0; k < 64 && bad == ""; k++ {
				ret := r.VerifFind(S)
				calls++
				switch {
				case ret.Empty:
				case ret.Low:
					S = ret.Oldest.Revision + uint64(1+rnd.Intn(24))
				case ret.High:
					S = ret.Newest.Revision
				default:
					hits++
					ok := consecutiveFrom(ret.Events, S) && ret.Events[len(ret.Events)-1].Revision == ret.Newest.Revision
					if !ok {
						bad = fmt.Sprintf("ring of %d slots, concurrent appender: FindEvents(%d) returned %d events, around the first break %v (oldest %d, newest %d at the time of the call): not the cached events with revision >= %d in order",
							size, S, len(ret.Events), revsOf(ret.Events, 8), ret.Oldest.Revision, ret.Newest.Revision, S)
					}
					if !ok || (hits%997 == 1 && sampled < 12) {
						sampled++
						snapCase(w, fmt.Sprintf("ring-stress-%d", size), S, ret.Oldest.Revision, ret.Newest.Revision, ret.Events, ok)
					}
					S = ret.Oldest.Revision + uint64(1+rnd.Intn(24))
				}
			}
		}
	}()
	atomic.StoreInt32(&stop, 1)
	<-done
	// the inconsistent result is a Coq case as well (KSnap); its position among the cases depends on timing, so it is
	// also reported here under a stable id (bin/check confirms failures by id on a second run)
	if bad != "" {
		w.Fail(lib.ImplFailure{CaseID: -1, What: bad, Case: map[string]interface{}{"op": "ring-stress", "slots": size}})
	}
	return hits, calls
}

// bkStress: a small event cache, a back-to-back creator, watches started just above the oldest cached revision:
// the catch-up batch must be S, S+1, S+2, ...
func bkStress(w *coll, scratch string, cache int, d time.Duration) (hits, calls int) {
	kv, _, err := lib.NewEngine(lib.EngMem, scratch)
	if err != nil {
		return 0, 0
	}
	b := backend.NewBackend(kv, backend.Config{Prefix: "/", Identity: "c05", WatchCacheSize: cache}, &lib.NopMetrics{})
	b.SetCurrentRevision(100)
	if !ctl.waitSeen() {
		return 0, 0
	}
	defer ctl.retire()
	var stop int32
	done := make(chan struct{})
	go func() {
		defer close(done)
		for i := 0; atomic.LoadInt32(&stop) == 0; i++ {
			b.Create(context.Background(), &proto.CreateRequest{Key: []byte(fmt.Sprintf("/s/k%d", i)), Value: []byte("v")})
		}
	}()
	ring := backend.VerifWatchCache(b)
	waitUntil0(5*time.Second, func() bool { return !ring.VerifFind(1).Empty && ring.VerifFind(1).Newest.Revision > uint64(100+3*cache) })
	rnd := lib.NewRand(uint64(cache))
	deadline := time.Now().Add(d)
	bad := ""
	sampled := 0
	for time.Now().Before(deadline) && bad == "" {
		f := ring.VerifFind(1)
		if f.Empty || f.Oldest == nil {
			continue
		}
		S := f.Oldest.Revision + uint64(1+rnd.Intn(4))
		ctx, cancel := context.WithCancel(context.Background())
		var ch <-chan []*proto.Event
		var werr error
		func() {
			defer func() {
				if rec := recover(); rec != nil {
					werr = fmt.Errorf("panic")
					bad = fmt.Sprintf("Watch(S=%d) panicked under concurrent writes: %v", S, rec)
				}
			}()
			ch, werr = b.Watch(ctx, "", S)
		}()
		calls++
		if werr == nil {
			select {
			case batch, ok := <-ch:
				if ok && len(batch) > 0 {
					hits++
					good := consecutiveFrom(batch, S)
					if !good {
						bad = fmt.Sprintf("event cache of %d, back-to-back creator: Watch(S=%d) first delivered %d events, around the first break %v: not S, S+1, ...",
							cache, S, len(batch), revsOf(batch, 8))
					}
					if !good || (hits%97 == 1 && sampled < 12) {
						sampled++
						// the catch-up batch is the FindEvents result; its bounds are not visible here: S .. last delivered
						last := S
						if e := batch[len(batch)-1]; e != nil {
							last = e.Revision
						}
						snapCase(w, "backend-cache-stress", S, S, last, batch, good)
					}
				}
			case <-time.After(2 * time.Second):
			}
		}
		cancel()
	}
	atomic.StoreInt32(&stop, 1)
	<-done
	if bad != "" {
		w.Fail(lib.ImplFailure{CaseID: -1, What: bad, Case: map[string]interface{}{"op": "backend-cache-stress", "cache": cache}})
	}
	return hits, calls
}
