package main

// (c) the real Backend on memkv.

import (
	"bytes"
	"context"
	"errors"
	"fmt"
	"sync"
	"sync/atomic"
	"time"

	proto "github.com/kubewharf/kubebrain-client/api/v2rpc"

	"github.com/kubewharf/kubebrain/pkg/backend"

	"kbverif/lib"
)

// ---------------------------------------------------------------- sequencer control through the yield hook

type seqCtl struct {
	mu       sync.Mutex
	cond     *sync.Cond
	cur      int64 // goroutine id of the current backend's sequencer (0 = not seen yet)
	retired  map[int64]bool
	hold     map[string]bool
	skip     map[string]int // arrivals at a held point that are let through first
	parkedAt string
}

var ctl = func() *seqCtl {
	c := &seqCtl{retired: map[int64]bool{}, hold: map[string]bool{}, skip: map[string]int{}}
	c.cond = sync.NewCond(&c.mu)
	return c
}()

var sched = lib.NewSched()

// arrivals at the two yield points of Backend.Watch (also by goroutines the scheduler does not control, e.g. the
// watch handlers of the etcd front end): the driver learns from them that a registration has been done
var nSubscribed, nCacheRead int64

func yieldHook(point string) {
	switch point {
	case "watch.subscribed", "watch.cache_read":
		if point == "watch.subscribed" {
			atomic.AddInt64(&nSubscribed, 1)
		} else {
			atomic.AddInt64(&nCacheRead, 1)
		}
		sched.Yield(point)
	case "seq.idle", "seq.before_cache", "seq.before_broadcast":
		gid := lib.GoID()
		ctl.mu.Lock()
		if ctl.retired[gid] {
			ctl.mu.Unlock()
			select {} // a backend cannot be stopped: its sequencer is parked for good
		}
		if ctl.cur == 0 {
			ctl.cur = gid
			ctl.cond.Broadcast()
		}
		if ctl.hold[point] && ctl.skip[point] > 0 {
			ctl.skip[point]--
		} else if ctl.hold[point] {
			ctl.parkedAt = point
			ctl.cond.Broadcast()
			for ctl.hold[point] {
				ctl.cond.Wait()
			}
			ctl.parkedAt = ""
			ctl.mu.Unlock()
			return
		}
		ctl.mu.Unlock()
		if point == "seq.idle" {
			time.Sleep(50 * time.Microsecond)
		}
	}
}

func (c *seqCtl) holdAt(point string) { c.holdAtNth(point, 1) }

// holdAtNth parks the sequencer at its n-th arrival at point.
func (c *seqCtl) holdAtNth(point string, n int) {
	c.mu.Lock()
	c.hold[point] = true
	c.skip[point] = n - 1
	c.mu.Unlock()
}
func (c *seqCtl) waitParked(point string) bool {
	deadline := time.Now().Add(20 * time.Second)
	if atomic.LoadInt32(&slowFails) >= 2 {
		deadline = time.Now().Add(300 * time.Millisecond)
	}
	for {
		c.mu.Lock()
		ok := c.parkedAt == point
		c.mu.Unlock()
		if ok {
			return true
		}
		if time.Now().After(deadline) {
			atomic.AddInt32(&slowFails, 1)
			return false
		}
		time.Sleep(20 * time.Microsecond)
	}
}
func (c *seqCtl) release(point string) {
	c.mu.Lock()
	c.hold[point] = false
	c.cond.Broadcast()
	c.mu.Unlock()
}
func (c *seqCtl) retire() {
	c.mu.Lock()
	if c.cur != 0 {
		c.retired[c.cur] = true
	}
	c.cur = 0
	for k := range c.hold {
		c.hold[k] = false
	}
	c.cond.Broadcast()
	c.mu.Unlock()
}
func (c *seqCtl) waitSeen() bool {
	return waitUntil(20*time.Second, func() bool {
		c.mu.Lock()
		defer c.mu.Unlock()
		return c.cur != 0
	})
}

// ---------------------------------------------------------------- rig

type refKV struct {
	val []byte
	rev uint64
}

type bw struct {
	id     int
	S      uint64
	P      []byte
	base   int
	ch     <-chan []*proto.Event
	err    error
	cancel context.CancelFunc
	th     *lib.Thread
	mu     sync.Mutex
	got    []ev
	nbatch int
	closed bool
	wire   func() []ev // set for a watch carried by the etcd front end: the events on the wire for its watch id
	lazy   bool // the consumer reads only when told
	hubbed int  // hub items since the last drain emitted for this watcher
	dead   bool
}

func (w *bw) snapshot() ([]ev, bool) {
	if w.wire != nil {
		return w.wire(), false
	}
	w.mu.Lock()
	defer w.mu.Unlock()
	return append([]ev{}, w.got...), w.closed
}
func (w *bw) count() int {
	if w.wire != nil {
		return len(w.wire())
	}
	w.mu.Lock()
	defer w.mu.Unlock()
	return len(w.got)
}
// drainUntilClosed reads until the channel is closed; false if that does not happen within d.
func (w *bw) drainUntilClosed(d time.Duration) bool {
	if atomic.LoadInt32(&slowFails) >= 2 {
		d = 300 * time.Millisecond
	}
	done := make(chan struct{})
	go func() { w.pump(); close(done) }()
	select {
	case <-done:
		return true
	case <-time.After(d):
		atomic.AddInt32(&slowFails, 1)
		return false
	}
}

func (w *bw) pump() { // eager consumer
	for b := range w.ch {
		w.mu.Lock()
		for _, e := range b {
			w.got = append(w.got, fromProto(e))
		}
		w.nbatch++
		w.mu.Unlock()
	}
	w.mu.Lock()
	w.closed = true
	w.mu.Unlock()
}

// engGate holds one goroutine at its next engine batch (lib.Wrap.Before), so that writes with later
// revisions complete first.
type engGate struct {
	gid     int64
	reached chan struct{}
	release chan struct{}
}

func (g *engGate) before(kind string, key []byte) error {
	if kind == "batch" && atomic.LoadInt64(&g.gid) != 0 && lib.GoID() == atomic.LoadInt64(&g.gid) {
		atomic.StoreInt64(&g.gid, 0)
		close(g.reached)
		<-g.release
	}
	return nil
}

type bkRig struct {
	gate  *engGate
	b     backend.Backend
	hk    *hooks
	sc    *script
	l     int
	c0    uint64
	rev   uint64 // last allocated revision
	ref   map[string]refKV
	sigma []ev
	hubN  int // events the hub has fanned out (as far as the driver has waited for)
	ws    []*bw
	fresh int
	fail  string
	kinds map[string]bool
}

func newBkRig(l int, c0 uint64, scratch string) (*bkRig, error) {
	kv, _, err := lib.NewEngine(lib.EngMem, scratch)
	if err != nil {
		return nil, err
	}
	hk := newHooks()
	hk.exempt.Store(lib.GoID(), true)
	r := &bkRig{hk: hk, sc: &script{}, l: l, c0: c0, rev: c0, ref: map[string]refKV{}, kinds: map[string]bool{}, gate: &engGate{}}
	r.b = backend.NewBackend(&lib.Wrap{KvStorage: kv, Before: r.gate.before}, backend.Config{Prefix: "/", Identity: "c05", WatchCacheSize: l}, &lib.NopMetrics{Hook: hk.metric})
	r.b.SetCurrentRevision(c0)
	if !ctl.waitSeen() {
		return nil, fmt.Errorf("sequencer goroutine not seen")
	}
	// watcher 0: the monitor (S = 0, every key, reads at once); tells the driver when an event has been fanned out
	r.watch(0, nil, false, nil, nil)
	return r, nil
}

func (r *bkRig) failf(f string, a ...interface{}) {
	if r.fail == "" {
		r.fail = fmt.Sprintf(f, a...)
	}
}

func (r *bkRig) monitor() *bw { return r.ws[0] }

// ---------------------------------------------------------------- writes

type wop struct {
	kind int // 0 create, 1 update, 2 delete
	key  []byte
	val  []byte
	exp  uint64
}

// exec performs one write and returns its slot as the implementation resolved it.
func (r *bkRig) exec(o wop) slot {
	ctx := context.Background()
	r.rev++
	sl := slot{rev: r.rev, key: o.key}
	cur, live := r.ref[string(o.key)]
	switch o.kind {
	case 0:
		resp, err := r.b.Create(ctx, &proto.CreateRequest{Key: o.key, Value: o.val})
		sl.verb, sl.val, sl.prev = 0, o.val, 0
		sl.valid = err == nil && resp.Succeeded
		if err != nil {
			r.failf("create %q: unexpected error %v", o.key, err)
		} else if sl.valid != !live {
			r.failf("create %q: succeeded=%v but the key was live=%v", o.key, sl.valid, live)
		} else if sl.valid && resp.Header.Revision != r.rev {
			r.failf("create %q: revision %d, expected %d", o.key, resp.Header.Revision, r.rev)
		}
		if sl.valid {
			r.ref[string(o.key)] = refKV{o.val, r.rev}
		}
	case 1:
		resp, err := r.b.Update(ctx, &proto.UpdateRequest{Kv: &proto.KeyValue{Key: o.key, Value: o.val, Revision: o.exp}})
		sl.verb, sl.val, sl.prev = 1, o.val, o.exp
		if o.exp == 0 {
			sl.verb = 0
		}
		sl.valid = err == nil && resp.Succeeded
		want := (o.exp == 0 && !live) || (o.exp != 0 && live && cur.rev == o.exp)
		if err != nil && errors.Is(err, backend.ErrRevisionDriftBack) && o.exp > r.rev {
			// expected revision in the future: refused with an error, the allocated revision is resolved as failed
		} else if err != nil {
			r.failf("update %q: unexpected error %v", o.key, err)
		} else if sl.valid != want {
			r.failf("update %q exp %d: succeeded=%v, reference says %v", o.key, o.exp, sl.valid, want)
		} else if sl.valid && resp.Header.Revision != r.rev {
			r.failf("update %q: revision %d, expected %d", o.key, resp.Header.Revision, r.rev)
		}
		if sl.valid {
			r.ref[string(o.key)] = refKV{o.val, r.rev}
		}
	case 2:
		resp, err := r.b.Delete(ctx, &proto.DeleteRequest{Key: o.key, Revision: o.exp})
		sl.verb = 2
		sl.valid = err == nil && resp.Succeeded
		want := live && (o.exp == 0 || o.exp == cur.rev)
		if err != nil && errors.Is(err, backend.ErrRevisionDriftBack) && o.exp > r.rev {
		} else if err != nil {
			r.failf("delete %q: unexpected error %v", o.key, err)
		} else if sl.valid != want {
			r.failf("delete %q exp %d: succeeded=%v, reference says %v", o.key, o.exp, sl.valid, want)
		}
		if sl.valid {
			// the event must carry the previous value and its modification revision: taken from the
			// history of successful writes, cross-checked against the response
			sl.val, sl.prev = cur.val, cur.rev
			if resp.Kv == nil || !bytes.Equal(resp.Kv.Value, cur.val) || resp.Kv.Revision != cur.rev {
				r.failf("delete %q: response does not carry the previous value/revision", o.key)
			}
			if resp.Header.Revision != r.rev {
				r.failf("delete %q: revision %d, expected %d", o.key, resp.Header.Revision, r.rev)
			}
			delete(r.ref, string(o.key))
		}
	}
	if sl.valid {
		r.sigma = append(r.sigma, sl.event())
	}
	return sl
}

// through waits until the slot has gone through the whole pipeline (committed; if valid: fanned out).
func (r *bkRig) through(sl slot) {
	if r.fail != "" {
		return // the pipeline of this backend is already known to be broken: do not wait again
	}
	if !waitUntil(20*time.Second, func() bool { return r.b.GetCurrentRevision() >= sl.rev }) {
		r.failf("stalled: committed revision %d never reached %d", r.b.GetCurrentRevision(), sl.rev)
	}
	if sl.valid {
		want := len(r.sigma)
		if !waitUntil(20*time.Second, func() bool { return r.monitor().count() >= want }) {
			r.failf("the monitor watcher did not receive revision %d within 5s", sl.rev)
		}
	}
}

func (r *bkRig) hubItemDone(n int) {
	r.hubN += n
	for _, w := range r.ws {
		if !w.dead {
			w.hubbed++
		}
	}
}

// write performs ops one at a time, each in its own batch, waiting for each to be fanned out.
func (r *bkRig) write(ops []wop) {
	for _, o := range ops {
		sl := r.exec(o)
		r.through(sl)
		r.sc.lab(lTake(sl))
		if sl.valid {
			r.sc.labs("LSeqCache", "LSeqSend", lHubItem())
			r.hubItemDone(1)
		}
		r.sc.note("write %s -> rev %d valid=%v", opStr(o), sl.rev, sl.valid)
	}
}

// writeBatch performs the ops while the sequencer is parked at idle: they form one batch.
func (r *bkRig) writeBatch(ops []wop) {
	ctl.holdAt("seq.idle")
	if !ctl.waitParked("seq.idle") {
		r.failf("sequencer did not park at seq.idle")
	}
	var last slot
	nvalid := 0
	for _, o := range ops {
		sl := r.exec(o)
		last = sl
		r.sc.lab(lTake(sl))
		if sl.valid {
			r.sc.lab("LSeqCache")
			nvalid++
		}
		r.sc.note("write(batched) %s -> rev %d valid=%v", opStr(o), sl.rev, sl.valid)
	}
	ctl.release("seq.idle")
	if len(ops) > 0 {
		last.valid = nvalid > 0
		r.through(last)
	}
	if nvalid > 0 {
		r.sc.labs("LSeqSend", lHubItem())
		r.hubItemDone(nvalid)
	}
}

// writeHeld performs one valid write with the sequencer parked at `point` ("seq.before_cache": committed
// advanced, event not cached; "seq.before_broadcast": cached, not broadcast); the returned function
// lets it go and waits for the fan-out.
func (r *bkRig) writeHeld(o wop, point string) func() {
	ctl.holdAt(point)
	sl := r.exec(o)
	if !sl.valid {
		ctl.release(point)
		r.through(sl)
		r.sc.lab(lTake(sl))
		return func() {}
	}
	if !ctl.waitParked(point) {
		r.failf("sequencer did not park at %s", point)
	}
	r.sc.lab(lTake(sl))
	if point == "seq.before_broadcast" {
		r.sc.lab("LSeqCache")
	}
	r.sc.note("write(held at %s) %s -> rev %d", point, opStr(o), sl.rev)
	return func() {
		ctl.release(point)
		r.through(sl)
		if point == "seq.before_cache" {
			r.sc.lab("LSeqCache")
		}
		r.sc.labs("LSeqSend", lHubItem())
		r.hubItemDone(1)
		r.sc.note("released %s", point)
	}
}

// writeOutOfOrder: a create of a fresh key is held at the engine while the following writes (later revisions)
// complete; when it is let go the sequencer finds all slots filled and forms one batch with mixed keys.
func (r *bkRig) writeOutOfOrder(rnd *lib.Rand, n int) {
	r.fresh++
	key := []byte(fmt.Sprintf("/%s/n%d", []string{"a", "b"}[r.fresh%2], r.fresh))
	val := []byte(fmt.Sprintf("f%d", r.fresh))
	g := r.gate
	g.reached, g.release = make(chan struct{}), make(chan struct{})
	type res struct {
		resp *proto.CreateResponse
		err  error
	}
	done := make(chan res, 1)
	go func() {
		atomic.StoreInt64(&g.gid, lib.GoID())
		resp, err := r.b.Create(context.Background(), &proto.CreateRequest{Key: key, Value: val})
		done <- res{resp, err}
	}()
	select {
	case <-g.reached:
	case <-time.After(20 * time.Second):
		r.failf("held create did not reach the engine")
		return
	}
	r.rev++
	held := slot{rev: r.rev, verb: 0, key: key, val: val, valid: true}
	pos := len(r.sigma)
	var others []slot
	for i := 0; i < n; i++ {
		others = append(others, r.exec(r.genOp(rnd)))
	}
	close(g.release)
	x := <-done
	if x.err != nil || !x.resp.Succeeded || x.resp.Header.Revision != held.rev {
		r.failf("held create %q: err=%v resp=%v, expected success at revision %d", key, x.err, x.resp, held.rev)
		held.valid = false
	}
	if held.valid {
		r.ref[string(key)] = refKV{val, held.rev}
		r.sigma = append(r.sigma[:pos], append([]ev{held.event()}, r.sigma[pos:]...)...)
	}
	last := held
	nvalid := 0
	for _, sl := range append([]slot{held}, others...) {
		r.sc.lab(lTake(sl))
		if sl.valid {
			r.sc.lab("LSeqCache")
			nvalid++
		}
		last = sl
	}
	last.valid = nvalid > 0
	r.through(last)
	if nvalid > 0 {
		r.sc.labs("LSeqSend", lHubItem())
		r.hubItemDone(nvalid)
	}
	r.kinds["out-of-order-completion"] = true
	r.sc.note("out of order: create %q held at the engine (rev %d) while %d later writes completed; one batch of %d events", key, held.rev, n, nvalid)
}

// writeBatchPartial: k+m successful writes form one batch; the sequencer is parked before the cache insert of
// the (k+1)-th, i.e. with k events of the batch cached and none broadcast. The returned function lets it go.
func (r *bkRig) writeBatchPartial(rnd *lib.Rand, k, m int) func() {
	ctl.holdAt("seq.idle")
	if !ctl.waitParked("seq.idle") {
		r.failf("sequencer did not park at seq.idle")
	}
	var sls []slot
	for i := 0; i < k+m; i++ {
		sl := r.exec(r.validOp(rnd))
		if !sl.valid {
			r.failf("a write expected to succeed failed")
		}
		sls = append(sls, sl)
	}
	ctl.holdAtNth("seq.before_cache", k+1)
	ctl.release("seq.idle")
	if !ctl.waitParked("seq.before_cache") {
		r.failf("sequencer did not park at seq.before_cache")
	}
	for i, sl := range sls[:k+1] {
		r.sc.lab(lTake(sl))
		if i < k {
			r.sc.lab("LSeqCache")
		}
	}
	r.kinds["cache-read-inside-a-batch"] = true
	r.sc.note("batch of %d: %d cached, sequencer parked before caching rev %d", k+m, k, sls[k].rev)
	return func() {
		ctl.release("seq.before_cache")
		r.through(sls[len(sls)-1])
		r.sc.lab("LSeqCache")
		for _, sl := range sls[k+1:] {
			r.sc.labs(lTake(sl), "LSeqCache")
		}
		r.sc.labs("LSeqSend", lHubItem())
		r.hubItemDone(len(sls))
	}
}

func opStr(o wop) string {
	return fmt.Sprintf("%s(%q,%q,exp=%d)", []string{"create", "update", "delete"}[o.kind], o.key, o.val, o.exp)
}

// ---------------------------------------------------------------- watch

// watch starts Backend.Watch(P, S) in a scheduler thread; between is run while it is parked at
// watch.subscribed, after while it is parked at watch.cache_read (S != 0 only).
func (r *bkRig) watch(S uint64, P []byte, lazy bool, between, after func()) *bw {
	w := &bw{id: len(r.ws), S: S, P: P, lazy: lazy}
	r.ws = append(r.ws, w)
	ctx, cancel := context.WithCancel(context.Background())
	w.cancel = cancel
	w.th = sched.Go(fmt.Sprintf("watch-%p-%d", r, w.id), func() {
		defer func() {
			if rec := recover(); rec != nil {
				w.err = fmt.Errorf("panic: %v", rec)
				r.failf("Watch(S=%d, P=%q) panicked: %v", S, P, rec)
			}
		}()
		w.ch, w.err = r.b.Watch(ctx, string(P), S)
	})
	d := 20 * time.Second
	pt, done := sched.Step(w.th, d)
	if done || pt != "watch.subscribed" {
		r.failf("watch thread: expected to park at watch.subscribed, got %q done=%v", pt, done)
		return w
	}
	w.base = r.hubN
	r.sc.lab(lSub(S, P))
	r.sc.note("w%d: Watch(S=%d, P=%q) subscribed (hub had fanned out %d events)", w.id, S, P, w.base)
	if between != nil {
		between()
	}
	pt, done = sched.Step(w.th, d)
	if S != 0 {
		if done || pt != "watch.cache_read" {
			r.failf("watch thread: expected to park at watch.cache_read, got %q done=%v", pt, done)
			return w
		}
		r.sc.lab(lW("LWatchRead", w.id))
		r.sc.note("w%d: cache read", w.id)
		if after != nil {
			after()
		}
		pt, done = sched.Step(w.th, d)
	}
	if !done {
		r.failf("Watch(S=%d) did not return (parked/blocked at %q)", S, pt)
		return w
	}
	r.sc.lab(lW("LWatchSpawn", w.id))
	if w.err != nil {
		w.dead = true
		r.sc.lab(lW("LCtxDelete", w.id)) // Watch cancelled its context: the hub drops the subscription
		r.sc.obs(obs{w: w.id, S: w.S, P: w.P, status: u64(0), hasGot: true}) // refused: nothing has been received
		r.kinds["refused"] = true
		cancel()
		return w
	}
	r.kinds["accepted"] = true
	if !lazy {
		go w.pump()
	}
	return w
}

func idealGo(S uint64, P []byte, base int, sigma []ev) []ev {
	var out []ev
	for i, e := range sigma {
		if S == 0 {
			if i >= base && bytes.HasPrefix(e.key, P) {
				out = append(out, e)
			}
		} else if e.rev >= S && bytes.HasPrefix(e.key, P) {
			out = append(out, e)
		}
	}
	return out
}

// emitDrain writes the model labels that move everything in w's pipeline to the client
// (labels that are not enabled are no-ops in the model).
func (r *bkRig) emitDrain(w *bw) {
	n := w.hubbed + 2
	if n <= 6 {
		for i := 0; i < n; i++ {
			r.sc.labs(lW("LConsume", w.id), lW("LProc", w.id), lW("LProc", w.id), lW("LConsume", w.id))
		}
	} else {
		r.sc.steps = append(r.sc.steps, lib.App("RRep", lib.N(uint64(n)),
			lib.List([]string{lW("LConsume", w.id), lW("LProc", w.id), lW("LProc", w.id), lW("LConsume", w.id)})))
		r.sc.nlab += 4 * n
	}
	w.hubbed = 0
}

// settle waits until an eager consumer has received what the history so far calls for (bounded), then a
// little longer, and records the observation. quiet = the driver claims the stream is complete.
func (r *bkRig) settle(w *bw, quiet bool) {
	if w.dead || (w.ch == nil && w.wire == nil) {
		return
	}
	want := len(idealGo(w.S, w.P, w.base, r.sigma))
	waitUntil(15*time.Second, func() bool { return w.count() >= want })
	time.Sleep(300 * time.Microsecond)
	got, closed := w.snapshot()
	r.emitDrain(w)
	r.sc.obs(obs{w: w.id, S: w.S, P: w.P, status: u64(1), got: got, hasGot: true, closed: bp(closed), quiet: quiet, wire: w.wire != nil})
}

// finish cancels the watch and waits for the stream to end; everything fanned out before must have arrived.
func (r *bkRig) finish(w *bw, quiet bool) {
	if w.dead || w.ch == nil {
		return
	}
	w.cancel()
	r.sc.labs(lW("LCancel", w.id), lW("LCtxDelete", w.id))
	if w.lazy {
		if !w.drainUntilClosed(20 * time.Second) {
			r.failf("w%d: result channel not closed within 20s after cancel", w.id)
		}
	} else if !waitUntil(20*time.Second, func() bool { _, c := w.snapshot(); return c }) {
		r.failf("w%d: result channel not closed within 5s after cancel", w.id)
	}
	got, closed := w.snapshot()
	r.emitDrain(w)
	r.sc.labs(lW("LProc", w.id), lW("LConsume", w.id))
	r.sc.obs(obs{w: w.id, S: w.S, P: w.P, status: u64(1), got: got, hasGot: true, closed: bp(closed), quiet: quiet})
	w.dead = true
	r.sc.note("w%d cancelled", w.id)
}

func (r *bkRig) close(w *coll, kind string) {
	r.finish(r.monitor(), true)
	ctl.retire()
	c := lib.Case{Kind: kind, Coq: runCase(realParams, r.l, r.c0, r.sc),
		JSON:    map[string]interface{}{"op": kind, "cache_size": r.l, "initial_revision": r.c0, "script": r.sc.human},
		Trivial: len(r.sigma) == 0 || len(r.ws) < 2}
	for k := range r.kinds {
		c.Outcomes = append(c.Outcomes, k)
	}
	if atomic.LoadInt32(&r.hk.drops) > 0 {
		c.Outcomes = append(c.Outcomes, "slow-subscriber-dropped")
	}
	w.Add(c)
	if r.fail != "" {
		w.Fail(lib.ImplFailure{CaseID: w.Len() - 1, What: r.fail, Case: c.JSON})
	}
}

// ---------------------------------------------------------------- generators

// keys and prefixes are byte strings: the last entries contain bytes that are not valid UTF-8, and keys / prefixes
// that differ from them only after strings.ToValidUTF8(.., "?") (a run of invalid bytes becomes one '?')
var keyPool = [][]byte{[]byte("/a/x"), []byte("/a/y"), []byte("/b/x"), []byte("/a"), []byte("/ab"),
	[]byte("/u/\xff\xfe/k"), []byte("/u/?/k"), []byte("/u/\xc3/k")}
var prefixPool = [][]byte{nil, []byte("/a/"), []byte("/b/"), []byte("/a"), []byte("/a/x"), []byte("/c/"),
	[]byte("/u/\xff\xfe/"), []byte("/u/?/"), []byte("/u/")}

func (r *bkRig) genOp(rnd *lib.Rand) wop {
	k := rnd.PickB(keyPool)
	v := []byte(fmt.Sprintf("v%d", r.rev+1))
	cur, live := r.ref[string(k)]
	switch c := rnd.Intn(12); {
	case c < 3:
		return wop{kind: 0, key: k, val: v} // create: fails if live
	case c < 6:
		if live {
			return wop{kind: 1, key: k, val: v, exp: cur.rev}
		}
		return wop{kind: 1, key: k, val: v, exp: 0}
	case c == 6:
		return wop{kind: 1, key: k, val: v, exp: cur.rev + 1 + uint64(rnd.Intn(2))} // stale / missing: fails
	case c < 9:
		return wop{kind: 2, key: k, exp: 0}
	case c == 9:
		return wop{kind: 2, key: k, exp: cur.rev}
	case c == 10:
		return wop{kind: 2, key: k, exp: r.c0} // stale: fails (or not found)
	default:
		return wop{kind: 0, key: k, val: v}
	}
}

func (r *bkRig) genOps(rnd *lib.Rand, n int) []wop {
	ops := make([]wop, n)
	for i := range ops {
		ops[i] = r.genOp(rnd)
	}
	return ops
}

// validOp returns a write that is certain to succeed.
func (r *bkRig) validOp(rnd *lib.Rand) wop {
	k := rnd.PickB(keyPool[:3])
	v := []byte(fmt.Sprintf("h%d", r.rev+1))
	if cur, live := r.ref[string(k)]; live {
		if rnd.Bool() {
			return wop{kind: 2, key: k, exp: cur.rev}
		}
		return wop{kind: 1, key: k, val: v, exp: cur.rev}
	}
	return wop{kind: 0, key: k, val: v}
}

// pickS chooses a start revision relative to the cached window.
func (r *bkRig) pickS(rnd *lib.Rand, which int) (uint64, string) {
	committed := r.rev
	if len(r.sigma) == 0 {
		switch which % 5 {
		case 0:
			return 0, "S=0"
		case 1:
			return committed, "S=committed(empty cache)"
		case 2:
			return committed + 1, "S=committed+1(empty cache)"
		case 3:
			return committed + 3, "S>committed(empty cache)"
		default:
			if committed > 1 {
				return committed - 1, "S<committed(empty cache)"
			}
			return 1, "S=1(empty cache)"
		}
	}
	n := len(r.sigma)
	wl := r.l
	if n < wl {
		wl = n
	}
	win := r.sigma[n-wl:]
	oldest, newest := win[0].rev, win[len(win)-1].rev
	switch which % 9 {
	case 0:
		return 0, "S=0"
	case 1:
		if oldest > 1 {
			return oldest - 1, "S=oldest-1"
		}
		return oldest, "S=oldest"
	case 2:
		if oldest > 4 {
			return oldest - 1 - uint64(rnd.Intn(3)), "S<oldest"
		}
		return oldest, "S=oldest"
	case 3:
		return oldest, "S=oldest"
	case 4:
		return oldest + uint64(rnd.Intn(int(newest-oldest)+1)), "S inside"
	case 5:
		return newest, "S=newest"
	case 6:
		return newest + 1, "S=newest+1"
	case 7:
		return committed + 1, "S=committed+1"
	default:
		return committed + 2 + uint64(rnd.Intn(3)), "S>committed+1"
	}
}

func bkScenario(w *coll, rnd *lib.Rand, l int, scratch string, nWatch int, seq int) {
	r, err := newBkRig(l, uint64(100+rnd.Intn(3)*100), scratch)
	if err != nil {
		w.Fail(lib.ImplFailure{CaseID: -1, What: "cannot build backend: " + err.Error()})
		return
	}
	r.kinds[fmt.Sprintf("cache=%d", l)] = true
	for i := 0; i < nWatch && r.fail == ""; i++ {
		// stage A
		if rnd.Chance(1, 4) {
			r.writeBatch(r.genOps(rnd, 1+rnd.Intn(5)))
		} else if !(i == 0 && rnd.Chance(1, 5)) {
			r.write(r.genOps(rnd, rnd.Intn(2*l+3)))
		}
		S, what := r.pickS(rnd, seq*nWatch+i+rnd.Intn(2)*rnd.Intn(9))
		P := rnd.PickB(prefixPool)
		r.kinds[what] = true
		var relB, relC func()
		mkStage := func(rel *func()) func() {
			mode := rnd.Intn(6)
			return func() {
				switch mode {
				case 0:
				case 1, 2:
					r.write(r.genOps(rnd, 1+rnd.Intn(l+2)))
				case 3:
					r.kinds["held-before-broadcast"] = true
					*rel = r.writeHeld(r.validOp(rnd), "seq.before_broadcast")
				case 4:
					r.kinds["held-before-cache"] = true
					*rel = r.writeHeld(r.validOp(rnd), "seq.before_cache")
				case 5:
					r.writeBatch(r.genOps(rnd, 2+rnd.Intn(4)))
				}
			}
		}
		// a write held in stage B is let go right after the cache read, one held in stage C after Watch returned
		stB := mkStage(&relB)
		stC := mkStage(&relC)
		// the whole registration inside the window in which an event is committed but not cached / cached but
		// not broadcast (or a batch is half cached)
		var relA func()
		if rnd.Chance(1, 4) {
			switch rnd.Intn(3) {
			case 0:
				relA = r.writeHeld(r.validOp(rnd), "seq.before_cache")
			case 1:
				relA = r.writeHeld(r.validOp(rnd), "seq.before_broadcast")
			default:
				relA = r.writeBatchPartial(rnd, 1+rnd.Intn(2), 1+rnd.Intn(2))
			}
			r.kinds["registration-inside-producer-window"] = true
			stB, stC = func() {}, func() {}
			if rnd.Bool() {
				S, what = r.pickS(rnd, 4+rnd.Intn(3))
				r.kinds[what] = true
			}
		}
		wt := r.watch(S, P, false, stB, func() {
			if relB != nil {
				relB()
				relB = nil
			}
			stC()
		})
		if relB != nil {
			relB()
		}
		if relC != nil {
			relC()
		}
		if relA != nil {
			relA()
		}
		if wt.dead {
			continue
		}
		r.settle(wt, true)
		// stage D
		if rnd.Chance(2, 3) {
			r.write(r.genOps(rnd, 1+rnd.Intn(l+3)))
			r.settle(wt, true)
		}
		if rnd.Chance(1, 2) {
			r.finish(wt, true)
		}
	}
	for _, x := range r.ws[1:] {
		r.finish(x, true)
	}
	r.close(w, "backend-watch")
}

// bkBytes (fixed corpus): watch prefixes and keys are byte strings. Watchers on "/u/\xff\xfe/" (not valid UTF-8) and on
// "/u/?/" (what it becomes when sanitised for a log line or a metric label), each once live-only (S = 0) and once
// with catch-up from the cache followed by live events; writes under both prefixes before and after. Every watcher
// must get exactly the writes under its own raw prefix, in both phases.
func bkBytes(w *coll, scratch string, l int) {
	r, err := newBkRig(l, 100, scratch)
	if err != nil {
		w.Fail(lib.ImplFailure{CaseID: -1, What: "cannot build backend: " + err.Error()})
		return
	}
	raw, san := []byte("/u/\xff\xfe/"), []byte("/u/?/")
	key := func(p []byte, s string) []byte { return append(append([]byte{}, p...), []byte(s)...) }
	r.write([]wop{{kind: 0, key: key(raw, "a"), val: []byte("r1")}, {kind: 0, key: key(san, "a"), val: []byte("s1")},
		{kind: 0, key: key(raw, "b"), val: []byte("r2")}})
	first := r.sigma[0].rev
	var ws []*bw
	for _, P := range [][]byte{raw, san} {
		ws = append(ws, r.watch(0, P, false, nil, nil))     // live only
		ws = append(ws, r.watch(first, P, false, nil, nil)) // catch-up from the cache, then live
	}
	r.write([]wop{{kind: 0, key: key(raw, "c"), val: []byte("r3")}, {kind: 0, key: key(san, "c"), val: []byte("s3")},
		{kind: 1, key: key(raw, "a"), val: []byte("r4"), exp: r.ref[string(key(raw, "a"))].rev},
		{kind: 2, key: key(san, "a")}, {kind: 2, key: key(raw, "b")}})
	r.writeBatch([]wop{{kind: 0, key: key(san, "d"), val: []byte("s5")}, {kind: 0, key: key(raw, "d"), val: []byte("r5")}})
	for _, x := range ws {
		r.settle(x, true)
	}
	for _, x := range ws {
		r.finish(x, true)
	}
	r.kinds["non-utf8-prefix"] = true
	r.close(w, "backend-byte-prefixes")
}

// bkWindow (fixed corpus): write r+1; the sequencer is parked at `point` for write r+2; the hub has drained;
// Watch(prefix, start = r+1) registers completely inside that window; release; write r+3.
// The stream must be [r+1, r+2, r+3]: the cache insert precedes the broadcast.
func bkWindow(w *coll, scratch string, point string, l int) {
	r, err := newBkRig(l, 100, scratch)
	if err != nil {
		w.Fail(lib.ImplFailure{CaseID: -1, What: "cannot build backend: " + err.Error()})
		return
	}
	key := []byte("/a/x")
	r.write([]wop{{kind: 0, key: []byte("/b/x"), val: []byte("u")}, {kind: 0, key: key, val: []byte("v1")}})
	S := r.rev
	rel := r.writeHeld(wop{kind: 1, key: key, val: []byte("v2"), exp: r.rev}, point)
	wt := r.watch(S, []byte("/a/"), false, nil, nil)
	rel()
	r.write([]wop{{kind: 2, key: key, exp: 0}})
	r.settle(wt, true)
	r.finish(wt, true)
	r.kinds["registration-inside-producer-window"] = true
	r.close(w, "backend-window-"+point)
}

// bkMulti: several live watchers with different prefixes (and one on a common prefix) fed by batches that
// contain several events with mixed prefixes; every watcher must get exactly its own events.
func bkMulti(w *coll, rnd *lib.Rand, scratch string, l int) {
	r, err := newBkRig(l, 200, scratch)
	if err != nil {
		w.Fail(lib.ImplFailure{CaseID: -1, What: "cannot build backend: " + err.Error()})
		return
	}
	r.kinds[fmt.Sprintf("cache=%d", l)] = true
	r.kinds["multi-watcher"] = true
	r.write(r.genOps(rnd, 2+rnd.Intn(4)))
	var live []*bw
	start := func(P []byte, which int) {
		S, what := r.pickS(rnd, which)
		r.kinds[what] = true
		x := r.watch(S, P, false, nil, nil)
		if !x.dead {
			live = append(live, x)
		}
	}
	start([]byte("/a/"), 0)
	start([]byte("/b/"), 5+rnd.Intn(3))
	start([]byte("/"), 3+rnd.Intn(4))
	for round := 0; round < 3+rnd.Intn(3) && r.fail == ""; round++ {
		switch rnd.Intn(4) {
		case 0:
			r.writeBatch(r.genOps(rnd, 3+rnd.Intn(5)))
		case 1:
			r.writeOutOfOrder(rnd, 2+rnd.Intn(3))
		case 2:
			// a further watcher registers while a mixed batch is half cached: its revision filter cuts the batch
			rel := r.writeBatchPartial(rnd, 1+rnd.Intn(2), 1+rnd.Intn(3))
			S, what := r.pickS(rnd, 3+rnd.Intn(4))
			r.kinds[what] = true
			x := r.watch(S, rnd.PickB(prefixPool[:4]), false, nil, nil)
			rel()
			if !x.dead {
				live = append(live, x)
			}
		default:
			r.write(r.genOps(rnd, 1+rnd.Intn(3)))
		}
		for _, x := range live {
			r.settle(x, true)
		}
	}
	for _, x := range live {
		r.finish(x, true)
	}
	r.close(w, "backend-multi-watcher")
}

// overflow: a client that never reads. The hub buffer (10000), the batch processEvents holds and the
// result channel (100) fill up; the next batch is dropped and the subscription deleted asynchronously.
// parkDeleter = the spawned deleter is held at its first metric emission while the client takes one batch and
// one more write arrives. With the deletion on the hub's own goroutine (fix of C05-F1) that write is fanned out only
// after the subscription is gone; if a batch is ever accepted after the dropped one the case is an unlisted VIOLATION.
func bkOverflow(w *coll, scratch string, parkDeleter bool) {
	r, err := newBkRig(8, 100, scratch)
	if err != nil {
		w.Fail(lib.ImplFailure{CaseID: -1, What: "cannot build backend: " + err.Error()})
		return
	}
	key, val := []byte("/a/x"), []byte("v")
	r.write([]wop{{kind: 0, key: key, val: val}})
	wt := r.watch(0, []byte("/a/"), true, nil, nil)
	mon := r.monitor()
	hb, oc := backend.VerifWatchBuffer, backend.VerifResultChanLength
	total := hb + oc + 1 // accepted; the next one is dropped
	put := func() slot {
		sl := r.exec(wop{kind: 1, key: key, val: val, exp: r.ref[string(key)].rev})
		r.through(sl)
		return sl
	}
	mdrain := []string{lW("LProc", mon.id), lW("LProc", mon.id), lW("LConsume", mon.id)}
	one := func(sl slot) {
		r.sc.labs(lTake(sl), "LSeqCache", "LSeqSend", lHubItem())
		r.sc.labs(mdrain...)
	}
	r0 := r.rev + 1
	head := oc + 50
	for i := 0; i < total && r.fail == ""; i++ {
		put()
	}
	r.sc.bulk(r0, uint64(head), key, val, append([]string{lHubItem(), lW("LProc", wt.id), lW("LProc", wt.id)}, mdrain...))
	r.sc.bulk(r0+uint64(head), uint64(total-head), key, val, append([]string{lHubItem()}, mdrain...))
	if atomic.LoadInt32(&r.hk.drops) != 0 {
		r.failf("a batch was dropped although only %d batches were unread", total)
	}
	bail := func() bool {
		if r.fail == "" {
			return false
		}
		go wt.pump() // let a hub stuck in a blocking send go on
		wt.dead = true
		r.close(w, "backend-overflow-stuck")
		return true
	}
	if bail() {
		return
	}
	if parkDeleter {
		atomic.StoreInt32(&r.hk.parkDeleters, 1)
	}
	one(put()) // dropped
	if r.fail == "" && !waitUntil(20*time.Second, func() bool { return atomic.LoadInt32(&r.hk.drops) >= 1 }) {
		r.failf("no slow-subscriber drop after %d unread batches", total+1)
	}
	if bail() {
		return
	}
	r.sc.drops(int(atomic.LoadInt32(&r.hk.drops)))
	if parkDeleter {
		waitUntil(20*time.Second, func() bool { return atomic.LoadInt32(&r.hk.parked) >= 1 })
		// the client takes one batch; processEvents refills the result channel and takes the next batch from
		// the hub channel, which has room again
		b := <-wt.ch
		wt.got = append(wt.got, fromProto(b[0]))
		waitUntil(10*time.Second, func() bool { return len(wt.ch) == oc })
		time.Sleep(2 * time.Millisecond)
		sl := r.exec(wop{kind: 1, key: key, val: val, exp: r.ref[string(key)].rev})
		want := len(r.sigma)
		syncDelete := false
		if !waitUntil0(2*time.Second, func() bool { return r.monitor().count() >= want }) {
			// the hub itself is running the deleter (synchronous delete, i.e. C05-F1 repaired): let it finish
			syncDelete = true
			r.hk.releaseDeleters()
			r.sc.lab(lW("LConsume", wt.id))
		}
		r.through(sl)
		if syncDelete {
			one(sl)
		} else if atomic.LoadInt32(&r.hk.drops) == 1 {
			r.sc.labs(lW("LConsume", wt.id), lW("LProc", wt.id), lW("LProc", wt.id))
			one(sl) // accepted after a dropped batch
			r.kinds["accepted-after-drop"] = true
		} else {
			r.sc.lab(lW("LConsume", wt.id))
			one(sl)
		}
		r.sc.drops(int(atomic.LoadInt32(&r.hk.drops)))
		r.hk.releaseDeleters()
	}
	r.hubN += total + 2
	mon.hubbed = 0
	// the client now reads everything
	if !wt.drainUntilClosed(20 * time.Second) {
		r.failf("a batch was dropped for the never-reading client, but its stream was not closed within 20s")
	}
	got, closed := wt.snapshot()
	r.sc.steps = append(r.sc.steps, lib.App("RRep", lib.N(uint64(total+3)),
		lib.List([]string{lW("LConsume", wt.id), lW("LProc", wt.id), lW("LProc", wt.id)})))
	r.sc.nlab += 3 * (total + 3)
	r.sc.labs(lW("LProc", wt.id), lW("LConsume", wt.id))
	r.sc.obs(obs{w: wt.id, S: wt.S, P: wt.P, status: u64(1), got: got, hasGot: true, closed: bp(closed), quiet: false})
	wt.dead = true
	wt.cancel()
	r.sc.labs(lW("LCancel", wt.id), lW("LCtxDelete", wt.id))
	r.kinds["overflow"] = true
	kind := "backend-overflow-prompt-delete"
	if parkDeleter {
		kind = "backend-overflow-deleter-held"
	}
	r.close(w, kind)
}
