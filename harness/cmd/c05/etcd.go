package main

// The pipeline cases carried by the etcd front end: etcd.RPCServer.Watch on an in-memory stream, several watches
// multiplexed on one stream, the handler held up between receiving a batch and sending it. What a watch receives
// on the wire is judged by the same per-watcher oracle.

import (
	"bytes"
	"fmt"
	"io"
	"sync"
	"sync/atomic"
	"time"

	"go.etcd.io/etcd/api/v3/etcdserverpb"
	"go.etcd.io/etcd/api/v3/mvccpb"

	"github.com/kubewharf/kubebrain/pkg/metrics"
	"github.com/kubewharf/kubebrain/pkg/server/etcd"
	"github.com/kubewharf/kubebrain/pkg/server/service/etcdproxy"
	"github.com/kubewharf/kubebrain/pkg/server/service/leader"

	"kbverif/lib"
)

type nopSyncer struct{}

func (nopSyncer) SyncReadRevision() error { return nil }
func (nopSyncer) Close() error            { return nil }

type leaderPeers struct {
	*leader.Stub
	nopSyncer
	etcdproxy.EtcdProxy
}

// wireStream is an in-memory etcdserverpb.Watch_WatchServer. Send serialises the response (as gRPC does) and keeps
// the copy.
type wireStream struct {
	lib.MemStream
	in  chan *etcdserverpb.WatchRequest
	mu  sync.Mutex
	out []*etcdserverpb.WatchResponse
}

func (m *wireStream) Send(r *etcdserverpb.WatchResponse) error {
	b, err := r.Marshal()
	if err != nil {
		return err
	}
	c := &etcdserverpb.WatchResponse{}
	if err := c.Unmarshal(b); err != nil {
		return err
	}
	m.mu.Lock()
	m.out = append(m.out, c)
	m.mu.Unlock()
	return nil
}
func (m *wireStream) Recv() (*etcdserverpb.WatchRequest, error) {
	select {
	case r := <-m.in:
		return r, nil
	case <-m.Ctx.Done():
		return nil, io.EOF
	}
}
func (m *wireStream) snapshot() []*etcdserverpb.WatchResponse {
	m.mu.Lock()
	defer m.mu.Unlock()
	return append([]*etcdserverpb.WatchResponse{}, m.out...)
}

type etcdFront struct {
	r      *bkRig
	st     *wireStream
	slow   int32 // the handler is held up between receive and Send (at its metric emission) while set
	served chan struct{}
}

func newEtcdFront(r *bkRig) *etcdFront {
	f := &etcdFront{r: r, st: &wireStream{MemStream: lib.NewMemStream(), in: make(chan *etcdserverpb.WatchRequest, 8)}, served: make(chan struct{})}
	m := &lib.NopMetrics{Hook: func(kind, name string, tags []metrics.T) {
		if name == "watch.watch_stream.push" && atomic.LoadInt32(&f.slow) == 1 {
			time.Sleep(3 * time.Millisecond)
		}
	}}
	p := &leaderPeers{Stub: &leader.Stub{ElectionInfo: leader.ElectionInfo{LeaderAddress: "127.0.0.1:0", IsLeader: true}},
		EtcdProxy: etcdproxy.NewDisabledEtcdProxy()}
	srv := etcd.New(r.b, m, p)
	go func() {
		defer close(f.served)
		defer func() {
			if rec := recover(); rec != nil {
				r.failf("etcd RPCServer.Watch panicked: %v", rec)
			}
		}()
		_ = srv.Watch(f.st)
	}()
	return f
}

func (f *etcdFront) close() {
	f.st.Cancel()
	select {
	case <-f.served:
	case <-time.After(10 * time.Second):
	}
}

func (f *etcdFront) eventsOf(id int64) []ev {
	var out []ev
	for _, resp := range f.st.snapshot() {
		if resp.WatchId != id || resp.Created || resp.Canceled {
			continue
		}
		for _, e := range resp.Events {
			x := ev{}
			if e.Kv != nil {
				x.rev, x.key = uint64(e.Kv.ModRevision), e.Kv.Key
			}
			if e.Type == mvccpb.DELETE {
				x.ty = 2
				if e.PrevKv != nil {
					x.val, x.kvrev = e.PrevKv.Value, uint64(e.PrevKv.ModRevision)
				}
			} else {
				x.ty = 1 // the wire format has one PUT for create and update; the Coq side compares modulo that (wire_ev)
				if e.Kv != nil {
					x.val, x.kvrev = e.Kv.Value, uint64(e.Kv.ModRevision)
				}
			}
			out = append(out, x)
		}
	}
	return out
}

func (f *etcdFront) canceled(id int64) int {
	n := 0
	for _, resp := range f.st.snapshot() {
		if resp.WatchId == id && resp.Canceled {
			n++
		}
	}
	return n
}

// watch creates one more watch on the stream and waits until Backend.Watch has registered it (both yield points of
// Backend.Watch are passed by the handler goroutine) — no write is in flight meanwhile.
func (f *etcdFront) watch(S uint64, P []byte) *bw {
	r := f.r
	w := &bw{id: len(r.ws), S: S, P: P}
	r.ws = append(r.ws, w)
	sub0, rd0 := atomic.LoadInt64(&nSubscribed), atomic.LoadInt64(&nCacheRead)
	known := map[int64]bool{}
	for _, resp := range f.st.snapshot() {
		if resp.Created {
			known[resp.WatchId] = true
		}
	}
	f.st.in <- &etcdserverpb.WatchRequest{RequestUnion: &etcdserverpb.WatchRequest_CreateRequest{
		CreateRequest: &etcdserverpb.WatchCreateRequest{Key: P, RangeEnd: []byte{}, StartRevision: int64(S)}}}
	var wid int64 = -1
	if !waitUntil(20*time.Second, func() bool {
		for _, resp := range f.st.snapshot() {
			if resp.Created && !known[resp.WatchId] {
				wid = resp.WatchId
				return true
			}
		}
		return false
	}) {
		r.failf("etcd front end: no Created response for Watch(%q, %d)", P, S)
		w.dead = true
		return w
	}
	ok := waitUntil(20*time.Second, func() bool { return atomic.LoadInt64(&nSubscribed) > sub0 })
	if ok && S != 0 {
		ok = waitUntil(20*time.Second, func() bool { return atomic.LoadInt64(&nCacheRead) > rd0 })
	}
	if !ok {
		r.failf("etcd front end: Watch(%q, %d) did not reach the backend", P, S)
		w.dead = true
		return w
	}
	time.Sleep(500 * time.Microsecond) // decision, catch-up and start of processEvents: no hook; nothing else runs
	w.base = r.hubN
	w.wire = func() []ev { return f.eventsOf(wid) }
	w.cancel = func() {
		f.st.in <- &etcdserverpb.WatchRequest{RequestUnion: &etcdserverpb.WatchRequest_CancelRequest{
			CancelRequest: &etcdserverpb.WatchCancelRequest{WatchId: wid}}}
		waitUntil(10*time.Second, func() bool { return f.canceled(wid) >= 2 })
	}
	r.sc.lab(lSub(S, P))
	if S != 0 {
		r.sc.lab(lW("LWatchRead", w.id))
	}
	r.sc.lab(lW("LWatchSpawn", w.id))
	r.sc.note("w%d: etcd watch id %d on the shared stream: Watch(S=%d, P=%q) (hub had fanned out %d events)", w.id, wid, S, P, w.base)
	if f.canceled(wid) > 0 {
		w.dead = true
		r.sc.lab(lW("LCtxDelete", w.id))
		r.sc.obs(obs{w: w.id, S: w.S, P: w.P, status: u64(0), hasGot: true, wire: true})
		r.kinds["refused"] = true
		return w
	}
	r.kinds["accepted"] = true
	return w
}

// finishEtcd cancels the watch through the stream; what was delivered is observed once more afterwards.
func (r *bkRig) finishEtcd(w *bw) {
	if w.dead || w.wire == nil {
		return
	}
	w.cancel()
	r.sc.labs(lW("LCancel", w.id), lW("LCtxDelete", w.id))
	r.emitDrain(w)
	r.sc.labs(lW("LProc", w.id), lW("LConsume", w.id))
	r.sc.obs(obs{w: w.id, S: w.S, P: w.P, status: u64(1), got: w.wire(), hasGot: true, wire: true})
	w.dead = true
}

// bkEtcd (fixed corpus + seeded): two or three watches multiplexed on ONE etcd stream — a live one, one resumed from
// an older revision that its sibling has already passed, one on another prefix — fed by back-to-back writes while the
// stream handler is held up between receive and Send.
func bkEtcd(w *coll, rnd *lib.Rand, scratch string, l int) {
	r, err := newBkRig(l, 100, scratch)
	if err != nil {
		w.Fail(lib.ImplFailure{CaseID: -1, What: "cannot build backend: " + err.Error()})
		return
	}
	f := newEtcdFront(r)
	r.kinds["etcd-front-end"] = true
	r.write(r.genOps(rnd, 2+rnd.Intn(3)))
	r.write([]wop{r.validOp(rnd)})
	first := r.sigma[len(r.sigma)-1].rev
	r.write([]wop{r.validOp(rnd)})
	live := f.watch(0, []byte("/a/"))
	// back-to-back writes with the handler held up: batch N is still being pushed when batch N+1 is converted
	atomic.StoreInt32(&f.slow, 1)
	for i := 0; i < 4+rnd.Intn(4); i++ {
		r.write([]wop{r.validOp(rnd)})
	}
	r.settle(live, true)
	atomic.StoreInt32(&f.slow, 0)
	// a sibling on the same stream resumed from an older revision (catch-up from the cache below what `live` was pushed)
	old := f.watch(first, []byte("/"))
	var other *bw
	if rnd.Bool() {
		other = f.watch(0, []byte("/b/"))
	}
	if rnd.Bool() {
		atomic.StoreInt32(&f.slow, 1)
	}
	r.write(r.genOps(rnd, 2+rnd.Intn(4)))
	r.writeBatch([]wop{r.validOp(rnd), r.validOp(rnd), r.validOp(rnd)})
	atomic.StoreInt32(&f.slow, 0)
	for _, x := range []*bw{live, old, other} {
		if x != nil {
			r.settle(x, true)
		}
	}
	for _, x := range []*bw{old, live, other} {
		if x != nil {
			r.finishEtcd(x)
		}
	}
	f.close()
	r.close(w, "backend-watch-through-etcd")
}

var _ = bytes.Equal
var _ = fmt.Sprintf
