// Driver c05: runs the real Ring, WatcherHub and Backend.Watch and writes what it observed as Coq
// cases checked against Model/WatchSys.v (c05_check) and the C05 oracle (c05_oracle).
//
//	(a) ring alone: NewRing(l), Add, VerifFind — exhaustive for l <= 4, e <= 3l, all S; random larger ones
//	(b) hub alone (VerifNewWatcherHub): scripted subscriber speeds, incl. the full buffer (10000) with the
//	    deletion of the slow subscriber held at its first metric emission (witness of the fixed defect C05-F1) and not held
//	(c) the real NewBackend on memkv: writes through Create/Update/Delete (failed ones mixed in), Watch in a
//	    lib.Sched thread parked at watch.subscribed / watch.cache_read, the sequencer parked before the cache
//	    insert / before the broadcast, cache sizes {1,2,3,5,8}, start revisions relative to the window,
//	    consumers that read, never read (overflow) and cancel.
package main

import (
	"bytes"
	"fmt"
	"os"
	"runtime"
	"strings"
	"sync/atomic"
	"time"

	proto "github.com/kubewharf/kubebrain-client/api/v2rpc"

	"github.com/kubewharf/kubebrain/pkg/backend"

	"kbverif/lib"
)

// ---------------------------------------------------------------- Coq printing

type ev struct {
	ty    int
	rev   uint64
	key   []byte
	val   []byte
	kvrev uint64
}

var verbs = []string{"VCreate", "VPut", "VDelete"}

func fromProto(e *proto.Event) ev {
	x := ev{ty: int(e.Type), rev: e.Revision}
	if e.Kv != nil {
		x.key, x.val, x.kvrev = e.Kv.Key, e.Kv.Value, e.Kv.Revision
	}
	return x
}
func (e ev) coq() string {
	return lib.App("mkEv", verbs[e.ty], lib.N(e.rev), lib.Bytes(e.key), lib.Bytes(e.val), lib.N(e.kvrev))
}
func (e ev) eq(o ev) bool {
	return e.ty == o.ty && e.rev == o.rev && bytes.Equal(e.key, o.key) && bytes.Equal(e.val, o.val) && e.kvrev == o.kvrev
}

type slot struct {
	rev, prev uint64
	valid     bool
	verb      int
	key, val  []byte
}

func (s slot) coq() string {
	return lib.App("mkWe", lib.N(s.rev), lib.N(s.prev), lib.Bool(s.valid), verbs[s.verb], lib.Bytes(s.key), lib.Bytes(s.val))
}
func (s slot) event() ev {
	e := ev{ty: s.verb, rev: s.rev, key: s.key, val: s.val, kvrev: s.rev}
	if s.verb == 2 {
		e.kvrev = s.prev
	}
	return e
}

// got renders received events, compressing runs of consecutive PUTs on one key/value.
func coqGot(evs []ev) string {
	var segs []string
	for i := 0; i < len(evs); {
		e := evs[i]
		j := i + 1
		if e.ty == 1 && e.kvrev == e.rev {
			for j < len(evs) && evs[j].ty == 1 && evs[j].rev == evs[j-1].rev+1 && evs[j].kvrev == evs[j].rev &&
				bytes.Equal(evs[j].key, e.key) && bytes.Equal(evs[j].val, e.val) {
				j++
			}
		}
		if j-i >= 4 {
			segs = append(segs, lib.App("GRange", lib.N(e.rev), lib.N(uint64(j-i)), lib.Bytes(e.key), lib.Bytes(e.val)))
		} else {
			j = i + 1
			segs = append(segs, lib.App("GE", e.coq()))
		}
		i = j
	}
	return lib.List(segs)
}

type script struct {
	steps []string
	nlab  int
	human []string
}

func (s *script) lab(l string)  { s.steps = append(s.steps, "(RL "+l+")"); s.nlab++ }
func (s *script) labs(ls ...string) {
	for _, l := range ls {
		s.lab(l)
	}
}
func (s *script) note(f string, a ...interface{}) { s.human = append(s.human, fmt.Sprintf(f, a...)) }

func lTake(sl slot) string        { return lib.App("LSeqTake", sl.coq()) }
func lHubItem() string            { return "(LHubItem [])" }
func lW(name string, w int) string { return lib.App(name, lib.Nat(w)) }
func lSub(S uint64, P []byte) string {
	return lib.App("LWatchSub", lib.N(S), lib.Bytes(P))
}

type obs struct {
	w      int
	S      uint64 // the request: start revision and prefix
	P      []byte
	status *uint64
	sublen *uint64
	got    []ev
	hasGot bool
	closed *bool
	quiet  bool
	wire   bool // read off the etcd wire format (one PUT for create and update): compared modulo that in Coq
}

func optN(p *uint64) string {
	if p == nil {
		return "None"
	}
	return lib.Some(lib.N(*p))
}
func optB(p *bool) string {
	if p == nil {
		return "None"
	}
	return lib.Some(lib.Bool(*p))
}
func (s *script) obs(o obs) {
	g := "None"
	if o.hasGot {
		g = lib.Some(coqGot(o.got))
	}
	s.steps = append(s.steps, "(RObs "+lib.App("mkObs", lib.Nat(o.w), lib.N(o.S), lib.Bytes(o.P), optN(o.status), optN(o.sublen), g, optB(o.closed), lib.Bool(o.quiet), lib.Bool(o.wire))+")")
	st := "-"
	if o.status != nil {
		st = fmt.Sprint(*o.status)
	}
	cl := "-"
	if o.closed != nil {
		cl = fmt.Sprint(*o.closed)
	}
	revs := []string{}
	for i, e := range o.got {
		if i >= 12 {
			revs = append(revs, fmt.Sprintf("…(%d)", len(o.got)))
			break
		}
		revs = append(revs, fmt.Sprint(e.rev))
	}
	s.note("obs w%d status=%s closed=%s quiet=%v got=[%s]", o.w, st, cl, o.quiet, strings.Join(revs, ","))
}
func (s *script) subs(n int)  { s.steps = append(s.steps, lib.App("RSubs", lib.N(uint64(n)))); s.note("subs=%d", n) }
func (s *script) drops(n int) { s.steps = append(s.steps, lib.App("RDrops", lib.N(uint64(n)))); s.note("drops=%d", n) }
func (s *script) bulk(r0, n uint64, k, v []byte, after []string) {
	s.steps = append(s.steps, lib.App("RBulk", lib.N(r0), lib.N(n), lib.Bytes(k), lib.Bytes(v), lib.List(after)))
	s.nlab += int(n) * (3 + len(after))
	s.note("bulk %d puts of %q from rev %d", n, k, r0)
}

func u64(v uint64) *uint64 { return &v }
func bp(v bool) *bool      { return &v }

func runCase(pa string, l int, c0 uint64, s *script) string {
	return lib.App("KRun", pa, lib.N(uint64(l)), lib.N(c0), lib.List(s.steps))
}

const realParams = "real_params"


// slowFails counts waits that ran into their (generous) bound. After two of them the bounds shrink: the
// pipeline is then broken rather than slow, and the run must still end in time to report it.
var slowFails int32

// waitUntil polls cond: spinning (with Gosched) for the first 300µs, then sleeping 100µs between polls.
func waitUntil(d time.Duration, cond func() bool) bool {
	if atomic.LoadInt32(&slowFails) >= 2 && d > 300*time.Millisecond {
		d = 300 * time.Millisecond
	}
	ok := waitUntil0(d, cond)
	if !ok {
		atomic.AddInt32(&slowFails, 1)
	}
	return ok
}

func waitUntil0(d time.Duration, cond func() bool) bool {
	start := time.Now()
	for i := 0; ; i++ {
		if cond() {
			return true
		}
		el := time.Since(start)
		if el > d {
			return false
		}
		if el < 300*time.Microsecond {
			runtime.Gosched()
		} else {
			time.Sleep(100 * time.Microsecond)
		}
	}
}

// ---------------------------------------------------------------- case collection and main

// coll buffers cases so that the four heavy ones (10000-batch overflows) can be spread over the shards.
type coll struct {
	cases []lib.Case
	fails []lib.ImplFailure
}

func (c *coll) Add(x lib.Case)         { c.cases = append(c.cases, x) }
func (c *coll) Len() int               { return len(c.cases) }
func (c *coll) Fail(f lib.ImplFailure) { c.fails = append(c.fails, f) }

// invalidCases counts the cases outside c05_validb (cache size 0, ring case with non-increasing revisions): the
// generators never produce one; the Coq side counts such a case as a disagreement.
func invalidCases(c *coll) int {
	n := 0
	for _, x := range c.cases {
		if v, ok := x.JSON.(map[string]interface{}); ok {
			if inv, ok := v["invalid"].(bool); ok && inv {
				n++
			}
		}
	}
	return n
}

const perShard = 120

func main() {
	lib.QuietLogs()
	args := lib.ParseArgs()
	rnd := lib.NewRand(args.Seed)
	backend.VerifYieldHook = yieldHook
	w := lib.NewWriter(args, "C05", "c05", "From KB Require Import Model.C05Cases.", "c05_case", "c05_check", "c05_oracle", perShard)
	scratch := args.Scratch

	heavy := &coll{}
	light := &coll{}
	// fixed corpus first
	hubCorpus(heavy)
	bkOverflow(heavy, scratch, true)
	bkOverflow(heavy, scratch, false)
	for _, l := range []int{1, 3} {
		bkWindow(light, scratch, "seq.before_cache", l)
		bkWindow(light, scratch, "seq.before_broadcast", l)
		bkBytes(light, scratch, l+4)
		bkEtcd(light, rnd.Fork(), scratch, 5*l+15)
	}
	ringCases(light, rnd.Fork(), args.Tier)
	hubCases(light, rnd.Fork(), args.Tier)
	nb := 10
	if args.Tier == "thorough" {
		nb = 40
	} else if args.Tier == "search" {
		nb = 30
	}
	br := rnd.Fork()
	seq := 0
	for i := 0; i < nb; i++ {
		for _, l := range []int{1, 2, 3, 5, 8} {
			bkScenario(light, br, l, scratch, 3, seq)
			seq++
		}
		for _, l := range []int{2, 8} {
			bkMulti(light, br, scratch, l)
		}
		bkEtcd(light, br, scratch, 16+i)
	}
	// concurrent stress of the ring and of the backend's event cache (probabilistic; failures are ImplFailures)
	sd := 100 * time.Millisecond
	if args.Tier != "quick" {
		sd = 1500 * time.Millisecond
	}
	sh, sc := 0, 0
	for _, cfg := range [][2]int{{64, 20}, {256, 20}, {512, 60}} {
		h, c := ringStress(light, cfg[0], sd, cfg[1])
		sh, sc = sh+h, sc+c
	}
	bh, bc := bkStress(light, scratch, 64, 3*sd)
	w.Stats.Extra["invalid_cases"] = invalidCases(light) + invalidCases(heavy)
	w.Stats.Extra["ring_stress"] = map[string]int{"find_events_calls": sc, "calls_returning_events": sh,
		"backend_watches": bc, "backend_watches_with_catch_up": bh}
	// heavy cases go to positions 0, perShard, 2*perShard, ...
	order := []lib.Case{}
	failAt := map[int][]lib.ImplFailure{}
	hi, li := 0, 0
	put := func(c *coll, idx int) {
		for _, f := range c.fails {
			if f.CaseID == idx {
				failAt[len(order)] = append(failAt[len(order)], f)
			}
		}
		order = append(order, c.cases[idx])
	}
	for hi < len(heavy.cases) || li < len(light.cases) {
		if hi < len(heavy.cases) && (len(order)%perShard == 0 || li >= len(light.cases)) {
			put(heavy, hi)
			hi++
		} else {
			put(light, li)
			li++
		}
	}
	for i, c := range order {
		w.Add(c)
		for _, f := range failAt[i] {
			f.CaseID = i
			w.Fail(f)
		}
	}
	for _, c := range []*coll{heavy, light} {
		for _, f := range c.fails {
			if f.CaseID < 0 {
				w.Fail(f)
			}
		}
	}
	if err := w.Finish("trivial = ring with no event / hub script with < 6 labels / backend run with no successful write or no watcher besides the monitor"); err != nil {
		fmt.Fprintln(os.Stderr, err)
		os.Exit(2)
	}
}
