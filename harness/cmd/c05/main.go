// Driver c05: runs the real Ring, WatcherHub and Backend.Watch and writes what it observed as Coq
// cases checked against Model/WatchSys.v (c05_check) and the C05 oracle (c05_oracle).
//
//	(a) ring alone: NewRing(l), Add, VerifFind — exhaustive for l <= 4, e <= 3l, all S; random larger ones
//	(b) hub alone (VerifNewWatcherHub): scripted subscriber speeds, incl. the full buffer (10000) with the
//	    spawned deleter parked at its first metric emission (finding C05-F1) and not parked
//	(c) the real NewBackend on memkv: writes through Create/Update/Delete (failed ones mixed in), Watch in a
//	    lib.Sched thread parked at watch.subscribed / watch.cache_read, the sequencer parked before the cache
//	    insert / before the broadcast, cache sizes {1,2,3,5,8}, start revisions relative to the window,
//	    consumers that read, never read (overflow) and cancel.
package main

import (
	"bytes"
	"context"
	"fmt"
	"os"
	"strings"
	"sync"
	"sync/atomic"
	"time"

	proto "github.com/kubewharf/kubebrain-client/api/v2rpc"

	"github.com/kubewharf/kubebrain/pkg/backend"
	"github.com/kubewharf/kubebrain/pkg/metrics"

	"kbverif/lib"
)

// ---------------------------------------------------------------- Coq printing

type ev struct {
	ty    int
	rev   uint64
	key   []byte
	val   []byte
	kvrev uint64
}

var verbs = []string{"VCreate", "VPut", "VDelete"}

func fromProto(e *proto.Event) ev {
	x := ev{ty: int(e.Type), rev: e.Revision}
	if e.Kv != nil {
		x.key, x.val, x.kvrev = e.Kv.Key, e.Kv.Value, e.Kv.Revision
	}
	return x
}
func (e ev) coq() string {
	return lib.App("mkEv", verbs[e.ty], lib.N(e.rev), lib.Bytes(e.key), lib.Bytes(e.val), lib.N(e.kvrev))
}
func (e ev) eq(o ev) bool {
	return e.ty == o.ty && e.rev == o.rev && bytes.Equal(e.key, o.key) && bytes.Equal(e.val, o.val) && e.kvrev == o.kvrev
}

type slot struct {
	rev, prev uint64
	valid     bool
	verb      int
	key, val  []byte
}

func (s slot) coq() string {
	return lib.App("mkWe", lib.N(s.rev), lib.N(s.prev), lib.Bool(s.valid), verbs[s.verb], lib.Bytes(s.key), lib.Bytes(s.val))
}
func (s slot) event() ev {
	e := ev{ty: s.verb, rev: s.rev, key: s.key, val: s.val, kvrev: s.rev}
	if s.verb == 2 {
		e.kvrev = s.prev
	}
	return e
}

// got renders received events, compressing runs of consecutive PUTs on one key/value.
func coqGot(evs []ev) string {
	var segs []string
	for i := 0; i < len(evs); {
		e := evs[i]
		j := i + 1
		if e.ty == 1 && e.kvrev == e.rev {
			for j < len(evs) && evs[j].ty == 1 && evs[j].rev == evs[j-1].rev+1 && evs[j].kvrev == evs[j].rev &&
				bytes.Equal(evs[j].key, e.key) && bytes.Equal(evs[j].val, e.val) {
				j++
			}
		}
		if j-i >= 4 {
			segs = append(segs, lib.App("GRange", lib.N(e.rev), lib.N(uint64(j-i)), lib.Bytes(e.key), lib.Bytes(e.val)))
		} else {
			j = i + 1
			segs = append(segs, lib.App("GE", e.coq()))
		}
		i = j
	}
	return lib.List(segs)
}

type script struct {
	steps []string
	nlab  int
	human []string
}

func (s *script) lab(l string)  { s.steps = append(s.steps, "(RL "+l+")"); s.nlab++ }
func (s *script) labs(ls ...string) {
	for _, l := range ls {
		s.lab(l)
	}
}
func (s *script) note(f string, a ...interface{}) { s.human = append(s.human, fmt.Sprintf(f, a...)) }

func lTake(sl slot) string        { return lib.App("LSeqTake", sl.coq()) }
func lHubItem() string            { return "(LHubItem [])" }
func lW(name string, w int) string { return lib.App(name, lib.Nat(w)) }
func lSub(S uint64, P []byte) string {
	return lib.App("LWatchSub", lib.N(S), lib.Bytes(P))
}

type obs struct {
	w      int
	status *uint64
	sublen *uint64
	got    []ev
	hasGot bool
	closed *bool
	quiet  bool
}

func optN(p *uint64) string {
	if p == nil {
		return "None"
	}
	return lib.Some(lib.N(*p))
}
func optB(p *bool) string {
	if p == nil {
		return "None"
	}
	return lib.Some(lib.Bool(*p))
}
func (s *script) obs(o obs) {
	g := "None"
	if o.hasGot {
		g = lib.Some(coqGot(o.got))
	}
	s.steps = append(s.steps, "(RObs "+lib.App("mkObs", lib.Nat(o.w), optN(o.status), optN(o.sublen), g, optB(o.closed), lib.Bool(o.quiet))+")")
	st := "-"
	if o.status != nil {
		st = fmt.Sprint(*o.status)
	}
	cl := "-"
	if o.closed != nil {
		cl = fmt.Sprint(*o.closed)
	}
	revs := []string{}
	for i, e := range o.got {
		if i >= 12 {
			revs = append(revs, fmt.Sprintf("…(%d)", len(o.got)))
			break
		}
		revs = append(revs, fmt.Sprint(e.rev))
	}
	s.note("obs w%d status=%s closed=%s quiet=%v got=[%s]", o.w, st, cl, o.quiet, strings.Join(revs, ","))
}
func (s *script) subs(n int)  { s.steps = append(s.steps, lib.App("RSubs", lib.N(uint64(n)))); s.note("subs=%d", n) }
func (s *script) drops(n int) { s.steps = append(s.steps, lib.App("RDrops", lib.N(uint64(n)))); s.note("drops=%d", n) }
func (s *script) bulk(r0, n uint64, k, v []byte, after []string) {
	s.steps = append(s.steps, lib.App("RBulk", lib.N(r0), lib.N(n), lib.Bytes(k), lib.Bytes(v), lib.List(after)))
	s.nlab += int(n) * (3 + len(after))
	s.note("bulk %d puts of %q from rev %d", n, k, r0)
}

func u64(v uint64) *uint64 { return &v }
func bp(v bool) *bool      { return &v }

func runCase(pa string, l int, c0 uint64, s *script) string {
	return lib.App("KRun", pa, lib.N(uint64(l)), lib.N(c0), lib.List(s.steps))
}

const realParams = "real_params"

// ---------------------------------------------------------------- (a) ring alone

func ringCase(w *lib.Writer, l int, revs []uint64, S uint64, kind string) {
	r := backend.NewRing(l)
	for _, rv := range revs {
		r.Add(&proto.Event{Type: proto.Event_PUT, Revision: rv, Kv: &proto.KeyValue{Revision: rv}})
	}
	obsStr, outcome := func() (o string, oc string) {
		defer func() {
			if rec := recover(); rec != nil {
				o, oc = "ROPanic", "panic"
			}
		}()
		ret := r.VerifFind(S)
		switch {
		case ret.Empty:
			return "ROEmpty", "empty"
		case ret.High:
			return lib.App("ROHigh", lib.N(ret.Newest.Revision), lib.N(ret.Oldest.Revision)), "high"
		case ret.Low:
			return lib.App("ROLow", lib.N(ret.Newest.Revision), lib.N(ret.Oldest.Revision)), "low"
		}
		xs := make([]string, len(ret.Events))
		for i, e := range ret.Events {
			if e == nil {
				xs[i] = "None"
			} else {
				xs[i] = lib.Some(lib.N(e.Revision))
			}
		}
		return lib.App("ROEvents", lib.N(ret.Newest.Revision), lib.N(ret.Oldest.Revision), lib.List(xs)), "events"
	}()
	rs := make([]string, len(revs))
	for i, rv := range revs {
		rs[i] = lib.N(rv)
	}
	w.Add(lib.Case{Kind: kind, Coq: lib.App("KRing", lib.N(uint64(l)), lib.List(rs), lib.N(S), obsStr),
		JSON:    map[string]interface{}{"op": "ring", "l": l, "revs": revs, "S": S, "obs": obsStr},
		Trivial: len(revs) == 0, Outcomes: []string{"ring:" + outcome}})
}

func ringCases(w *lib.Writer, rnd *lib.Rand, tier string) {
	// exhaustive: l <= 4, e <= 3l, revision gaps alternate 1,2 (so that S can fall between two events)
	for l := 1; l <= 4; l++ {
		for e := 0; e <= 3*l; e++ {
			revs := make([]uint64, e)
			cur := uint64(10)
			for i := range revs {
				cur += uint64(1 + (i+l)%2)
				revs[i] = cur
			}
			lo, hi := uint64(9), cur+2
			for S := lo; S <= hi; S++ {
				ringCase(w, l, revs, S, "ring-exhaustive")
			}
			ringCase(w, l, revs, 0, "ring-exhaustive")
		}
	}
	n := 150
	if tier != "quick" {
		n = 3000
	}
	for i := 0; i < n; i++ {
		l := 1 + rnd.Intn(9)
		e := rnd.Intn(4*l + 2)
		revs := make([]uint64, e)
		cur := uint64(rnd.Intn(5))
		for j := range revs {
			cur += uint64(1 + rnd.Intn(3))
			revs[j] = cur
		}
		S := uint64(rnd.Intn(int(cur) + 4))
		ringCase(w, l, revs, S, "ring-random")
	}
}

// ---------------------------------------------------------------- metrics hook shared by (b) and (c)

type hooks struct {
	mu           sync.Mutex
	drops        int32
	parkDeleters int32 // when set, goroutines entering DeleteWatcher (other than exempt ones) park
	parked       int32
	release      chan struct{}
	exempt       sync.Map // goroutine ids that are never parked (the driver's own barrier calls)
}

func newHooks() *hooks { return &hooks{release: make(chan struct{})} }

func (h *hooks) metric(kind, name string, tags []metrics.T) {
	switch name {
	case "drop.slow.watcher":
		atomic.AddInt32(&h.drops, 1)
	case "watcher_hub.delete_watcher":
		if atomic.LoadInt32(&h.parkDeleters) == 1 {
			if _, ok := h.exempt.Load(lib.GoID()); ok {
				return
			}
			h.mu.Lock()
			rel := h.release
			h.mu.Unlock()
			atomic.AddInt32(&h.parked, 1)
			<-rel
		}
	}
}
func (h *hooks) releaseDeleters() {
	atomic.StoreInt32(&h.parkDeleters, 0)
	h.mu.Lock()
	close(h.release)
	h.release = make(chan struct{})
	h.mu.Unlock()
	atomic.StoreInt32(&h.parked, 0)
}

// ---------------------------------------------------------------- (b) hub alone

type hubSub struct {
	ch     <-chan []*proto.Event
	cancel context.CancelFunc
	got    []ev
	closed bool
}

type hubRig struct {
	hub   *backend.WatcherHub
	in    chan []*proto.Event
	hk    *hooks
	subs  []*hubSub
	nreg  int // registered, as the driver believes
	sc    *script
	rev   uint64
	fail  string
}

func newHubRig(c0 uint64) *hubRig {
	hk := newHooks()
	hk.exempt.Store(lib.GoID(), true)
	m := &lib.NopMetrics{Hook: hk.metric}
	r := &hubRig{hub: backend.VerifNewWatcherHub(m), in: make(chan []*proto.Event), hk: hk, sc: &script{}, rev: c0}
	go r.hub.Stream(r.in)
	return r
}

// barrier: DeleteWatcher on an unknown channel takes the hub's write lock and changes nothing.
func (r *hubRig) barrier() { r.hub.DeleteWatcher(make(chan []*proto.Event), true) }

func (r *hubRig) add() int {
	ctx, cancel := context.WithCancel(context.Background())
	ch, _ := r.hub.AddWatcher(ctx)
	r.subs = append(r.subs, &hubSub{ch: ch, cancel: cancel})
	r.nreg++
	r.sc.labs(lSub(0, nil), lW("LWatchSpawn", len(r.subs)-1))
	r.sc.note("add w%d", len(r.subs)-1)
	return len(r.subs) - 1
}

func (r *hubRig) totalLen() int {
	t := 0
	for _, s := range r.subs {
		t += len(s.ch)
	}
	return t
}

// item sends one single-event batch and waits until the hub has offered it to every registered subscriber.
// registered = the number of subscribers in the hub's map right now.
func (r *hubRig) item(registered int, emit bool) uint64 {
	r.rev++
	e := &proto.Event{Type: proto.Event_PUT, Revision: r.rev, Kv: &proto.KeyValue{Key: []byte("/h/k"), Value: []byte("v"), Revision: r.rev}}
	before := r.totalLen() + int(atomic.LoadInt32(&r.hk.drops))
	r.in <- []*proto.Event{e}
	if !lib.WaitUntil(5*time.Second, func() bool {
		return r.totalLen()+int(atomic.LoadInt32(&r.hk.drops)) >= before+registered
	}) {
		r.fail = fmt.Sprintf("hub did not fan out item rev %d to %d subscribers within 5s", r.rev, registered)
	}
	if atomic.LoadInt32(&r.hk.parkDeleters) == 0 {
		r.barrier()
	}
	if emit {
		r.sc.labs(lTake(slot{rev: r.rev, prev: r.rev - 1, valid: true, verb: 1, key: []byte("/h/k"), val: []byte("v")}), "LSeqCache", "LSeqSend", lHubItem())
	}
	return r.rev
}

// drain reads up to k batches that are already buffered (never blocks); model: k x (recv, send, consume)
func (r *hubRig) drain(w, k int) {
	s := r.subs[w]
	n := 0
	for n < k {
		select {
		case b, ok := <-s.ch:
			if !ok {
				s.closed = true
				r.sc.labs(lW("LProc", w), lW("LConsume", w))
				r.sc.note("w%d sees close", w)
				return
			}
			for _, e := range b {
				s.got = append(s.got, fromProto(e))
			}
			r.sc.labs(lW("LProc", w), lW("LProc", w), lW("LConsume", w))
			n++
		default:
			return
		}
	}
}

func (r *hubRig) observe(w int, quiet bool) {
	s := r.subs[w]
	o := obs{w: w, got: s.got, hasGot: true, closed: bp(s.closed), quiet: quiet}
	if !s.closed {
		o.sublen = u64(uint64(len(s.ch)))
	}
	r.sc.obs(o)
}

func hubCases(w *lib.Writer, rnd *lib.Rand, tier string) {
	hb := backend.VerifWatchBuffer
	key, val := []byte("/h/k"), []byte("v")
	// H1 (finding C05-F1) and H2 (deleter runs at once): a subscriber that stops reading
	for variant := 0; variant < 2; variant++ {
		r := newHubRig(100)
		slow := r.add()
		fast := r.add()
		// fill the slow subscriber's buffer; the fast one reads along
		r0 := r.rev + 1
		for i := 0; i < hb; i++ {
			r.item(2, false)
			for len(r.subs[fast].ch) > 0 {
				b := <-r.subs[fast].ch
				r.subs[fast].got = append(r.subs[fast].got, fromProto(b[0]))
			}
		}
		r.sc.bulk(r0, uint64(hb), key, val, []string{lHubItem(), lW("LProc", fast), lW("LProc", fast), lW("LConsume", fast)})
		r.observe(slow, false)
		r.observe(fast, true)
		if variant == 0 {
			atomic.StoreInt32(&r.hk.parkDeleters, 1)
		}
		r.item(2, true) // dropped for `slow`
		r.drain(fast, 1)
		if variant == 0 {
			lib.WaitUntil(5*time.Second, func() bool { return atomic.LoadInt32(&r.hk.parked) == 1 })
			r.sc.drops(int(atomic.LoadInt32(&r.hk.drops)))
			r.sc.subs(r.hub.VerifSubs())
			r.observe(slow, false)
			r.drain(slow, 1) // the consumer takes one batch: there is room again
			r.item(2, true)  // accepted although the previous batch was dropped
			r.drain(fast, 1)
			r.observe(slow, false)
			r.hk.releaseDeleters()
			lib.WaitUntil(5*time.Second, func() bool { return r.hub.VerifSubs() == 1 })
			r.sc.lab(lW("LHubDelete", slow))
			r.sc.subs(r.hub.VerifSubs())
		} else {
			lib.WaitUntil(5*time.Second, func() bool { return r.hub.VerifSubs() == 1 })
			r.sc.lab(lW("LHubDelete", slow))
			r.sc.drops(int(atomic.LoadInt32(&r.hk.drops)))
			r.sc.subs(r.hub.VerifSubs())
			r.drain(slow, 1)
			r.item(1, true)
			r.drain(fast, 1)
		}
		r.drain(slow, hb+5)
		r.observe(slow, false)
		r.observe(fast, true)
		name := "hub-overflow-async-delete"
		if variant == 1 {
			name = "hub-overflow-prompt-delete"
		}
		close(r.in)
		finishHub(w, r, name)
	}
	n := 40
	if tier != "quick" {
		n = 600
	}
	for i := 0; i < n; i++ {
		r := newHubRig(uint64(50 + rnd.Intn(50)))
		steps := 6 + rnd.Intn(20)
		reg := map[int]bool{}
		for st := 0; st < steps; st++ {
			switch c := rnd.Intn(10); {
			case c < 2 && len(r.subs) < 4:
				reg[r.add()] = true
			case c < 6:
				r.item(len(reg), true)
			case c < 8 && len(r.subs) > 0:
				r.drain(rnd.Intn(len(r.subs)), 1+rnd.Intn(3))
			case c == 8 && len(r.subs) > 0:
				x := rnd.Intn(len(r.subs))
				r.subs[x].cancel()
				r.sc.lab(lW("LCancel", x))
				if reg[x] {
					lib.WaitUntil(5*time.Second, func() bool { return r.hub.VerifSubs() == len(reg)-1 })
					delete(reg, x)
				} else {
					time.Sleep(200 * time.Microsecond)
				}
				r.sc.lab(lW("LCtxDelete", x))
				r.sc.subs(r.hub.VerifSubs())
			default:
				if len(r.subs) > 0 {
					r.observe(rnd.Intn(len(r.subs)), false)
				}
			}
		}
		for x := range r.subs {
			r.drain(x, 1000)
			r.observe(x, true)
		}
		r.sc.subs(r.hub.VerifSubs())
		r.sc.drops(int(atomic.LoadInt32(&r.hk.drops)))
		for _, s := range r.subs {
			s.cancel()
		}
		close(r.in)
		finishHub(w, r, "hub-script")
	}
}

func finishHub(w *lib.Writer, r *hubRig, kind string) {
	c := lib.Case{Kind: kind, Coq: runCase(realParams, 4, 100-100+r0of(r), r.sc),
		JSON:     map[string]interface{}{"op": kind, "script": r.sc.human},
		Trivial:  r.sc.nlab < 6,
		Outcomes: []string{kind}}
	if atomic.LoadInt32(&r.hk.drops) > 0 {
		c.Outcomes = append(c.Outcomes, "slow-subscriber-dropped")
	}
	w.Add(c)
	if r.fail != "" {
		w.Fail(lib.ImplFailure{CaseID: w.Len() - 1, What: r.fail, Case: c.JSON})
	}
}

func r0of(r *hubRig) uint64 { return r.c0() }
func (r *hubRig) c0() uint64 {
	// initial committed revision of the model = the revision before the first item
	return r.first
}
