// gen_accesses: translator for C19. For every struct type and package variable of the node's
// packages it lists every read and write site of every field with the locks lexically held
// (Lock/RLock ... Unlock incl. defer, propagated through static same-module calls by intersection
// over call sites), whether the access goes through sync/atomic, the construction phase, and a
// confinement class, and writes
//
//	$VERIF_DIR/coq/Gen/Accesses.v     (the table: always compiles)
//	$VERIF_DIR/coq/Gen/AccessesOk.v   (Theorem accesses_ok : unlisted c19_known accesses = [])
//	$VERIF_DIR/build/gen/accesses.json (sites with source positions, annotations and their premises)
//
// Non-lexical protocols are annotations whose premises are checked against the source here; an
// annotation whose premise fails is dropped (and the locations it covered get flagged).
package main

import (
	"encoding/json"
	"fmt"
	"go/ast"
	"go/token"
	"go/types"
	"os"
	"path/filepath"
	"sort"
	"strings"

	"kbverif/srcload"
)

var scopePrefixes = []string{"/pkg/backend", "/pkg/storage/memkv", "/pkg/storage/metrics", "/pkg/storage/tikv", "/pkg/metrics/prometheus", "/pkg/server"}

var selfTest string // directory of the fixture module; every package of it is in scope

func inScope(p *types.Package) bool {
	if p == nil || prog == nil {
		return false
	}
	if selfTest != "" {
		return strings.HasPrefix(p.Path(), prog.Module)
	}
	if !strings.HasPrefix(p.Path(), prog.Module) {
		return false
	}
	rel := strings.TrimPrefix(p.Path(), prog.Module)
	for _, s := range scopePrefixes {
		if rel == s || strings.HasPrefix(rel, s+"/") {
			return true
		}
	}
	return false
}

// ---------- tables of library behaviour ----------

// types that synchronise themselves (documented safe for concurrent use) or are not memory we model
var selfSync = map[string]bool{
	"sync.Mutex": true, "sync.RWMutex": true, "sync.WaitGroup": true, "sync.Once": true, "sync.Map": true,
	"sync/atomic.Value": true, "golang.org/x/sync/singleflight.Group": true, "net/http.Client": true,
	"google.golang.org/grpc/health.Server": true, "go.etcd.io/etcd/client/v3.Client": true,
	"github.com/prometheus/client_golang/prometheus.CounterVec": true, "github.com/prometheus/client_golang/prometheus.GaugeVec": true,
	"github.com/prometheus/client_golang/prometheus.HistogramVec": true, "crypto/tls.Config": true,
}

// methods of opaque library objects that only read; every other method writes
var opaqueReaders = map[string]map[string]bool{
	"github.com/huandu/skiplist.SkipList": {"Get": true, "GetValue": true, "MustGetValue": true, "Find": true, "FindNext": true, "Front": true, "Back": true, "Len": true, "MaxLevel": true},
	"container/list.List":                 {"Front": true, "Back": true, "Len": true},
}

func typeKey(t types.Type) string {
	if p, ok := t.(*types.Pointer); ok {
		t = p.Elem()
	}
	if nt, ok := t.(*types.Named); ok && nt.Obj().Pkg() != nil {
		return nt.Obj().Pkg().Path() + "." + nt.Obj().Name()
	}
	return ""
}

// ---------- data ----------

type lockHeld struct {
	Path string // expression path of the mutex, e.g. "it.store.mu"
	Mode string // R | W
	Why  string // lexical | callers | annotation:<id>
}

type siteOut struct {
	ID       int      `json:"id"`
	Loc      string   `json:"loc"`
	Pos      string   `json:"pos"`
	Func     string   `json:"func"`
	Kind     string   `json:"kind"` // KRd KWr KAtR KAtW
	Phase    string   `json:"phase"`
	Locks    []string `json:"locks"` // "name:mode[:why]"
	Expr     string   `json:"expr"`
	InGo     bool     `json:"in_go_closure,omitempty"`
	lockList [][2]string
	goPos    token.Pos
	fn       *fnInfo
}

type goInfo struct {
	stmt *ast.GoStmt
	fn   *fnInfo
}

var goStmts = map[token.Pos]goInfo{}
var pseudoRoot = map[*types.Func]string{} // methods only a library's single goroutine calls
var initEdge = map[*ast.CallExpr]bool{}   // calls on a fresh, unpublished receiver

type locOut struct {
	Name    string   `json:"name"`
	Class   string   `json:"class"`
	Why     string   `json:"class_why"`
	Type    string   `json:"type"`
	Sites   []int    `json:"sites"`
	Flagged bool     `json:"flagged"`
	Pairs   []string `json:"unprotected_pairs,omitempty"`
}

type annotation struct {
	ID       string   `json:"id"`
	What     string   `json:"what"`
	Premises []string `json:"premises"`
	Holds    bool     `json:"holds"`
	Failed   string   `json:"failed,omitempty"`
}

type fnInfo struct {
	obj  *types.Func
	decl *ast.FuncDecl
	pkg  *srcload.Pkg
	recv string // receiver identifier
}

var (
	prog        *srcload.Program
	fns         = map[*types.Func]*fnInfo{}
	fnList      []*fnInfo
	sites       []*siteOut
	entry       = map[*types.Func]map[string]string{} // lock path (callee namespace) -> mode ; nil = top (not yet constrained)
	entryTop    = map[*types.Func]bool{}
	annots      []*annotation
	annotEntry  = map[*types.Func]map[string]string{} // locks granted at entry by an annotation
	condLock    = map[*types.Func]condLockInfo{}
	pseudoLocks = map[*ast.FuncLit]lockHeld{} // closures running under a singleflight key
	joinVars    = map[*types.Var]bool{}       // captured variables covered by a checked fork-join annotation
	shortPkg    = map[string]string{}
)

type condLockInfo struct {
	param *types.Var
	path  string
	from  token.Pos
	to    token.Pos
	guard bool // written as `if !param { ...; return }` before the Lock: the lock is held inside the guard only
}

func exprPath(e ast.Expr) string {
	switch x := ast.Unparen(e).(type) {
	case *ast.Ident:
		return x.Name
	case *ast.SelectorExpr:
		b := exprPath(x.X)
		if b == "" {
			return ""
		}
		return b + "." + x.Sel.Name
	case *ast.StarExpr:
		return exprPath(x.X)
	case *ast.IndexExpr:
		b := exprPath(x.X)
		if b == "" {
			return ""
		}
		return b + "[]"
	case *ast.CallExpr: // type conversion / accessor: not a stable path
		return ""
	}
	return ""
}

func typeName(t types.Type) string {
	if p, ok := t.(*types.Pointer); ok {
		t = p.Elem()
	}
	if nt, ok := t.(*types.Named); ok && nt.Obj().Pkg() != nil {
		return pkgShort(nt.Obj().Pkg()) + "." + nt.Obj().Name()
	}
	return t.String()
}

func pkgShort(p *types.Package) string {
	if s, ok := shortPkg[p.Path()]; ok {
		return s
	}
	rel := strings.TrimPrefix(strings.TrimPrefix(p.Path(), prog.Module), "/pkg/")
	rel = strings.TrimPrefix(rel, "/")
	s := strings.ReplaceAll(rel, "/", "_")
	shortPkg[p.Path()] = s
	return s
}

// owner struct of a field
var fieldOwner = map[*types.Var]*types.Named{}

func indexTypes() {
	for _, pkg := range prog.Pkgs {
		sc := pkg.Types.Scope()
		for _, n := range sc.Names() {
			tn, ok := sc.Lookup(n).(*types.TypeName)
			if !ok {
				continue
			}
			nt, ok := tn.Type().(*types.Named)
			if !ok {
				continue
			}
			if st, ok := nt.Underlying().(*types.Struct); ok {
				for i := 0; i < st.NumFields(); i++ {
					fieldOwner[st.Field(i)] = nt
				}
			}
		}
	}
	prog.FuncDecls(func(pkg *srcload.Pkg, fd *ast.FuncDecl) {
		obj, ok := pkg.Info.Defs[fd.Name].(*types.Func)
		if !ok || fd.Body == nil {
			return
		}
		fi := &fnInfo{obj: obj, decl: fd, pkg: pkg}
		if fd.Recv != nil && len(fd.Recv.List) == 1 && len(fd.Recv.List[0].Names) == 1 {
			fi.recv = fd.Recv.List[0].Names[0].Name
		}
		fns[obj] = fi
		fnList = append(fnList, fi)
	})
}

// ---------- mutex call recognition ----------

// lockCall returns (path of the mutex, op) for X.Lock() / RLock / Unlock / RUnlock on sync.Mutex/RWMutex
func lockCall(info *types.Info, call *ast.CallExpr) (string, string) {
	se, ok := call.Fun.(*ast.SelectorExpr)
	if !ok {
		return "", ""
	}
	op := se.Sel.Name
	if op != "Lock" && op != "Unlock" && op != "RLock" && op != "RUnlock" {
		return "", ""
	}
	sel, ok := info.Selections[se]
	if !ok {
		return "", ""
	}
	fn, ok := sel.Obj().(*types.Func)
	if !ok || fn.Pkg() == nil || fn.Pkg().Path() != "sync" {
		return "", ""
	}
	base := exprPath(se.X)
	if base == "" {
		return "", ""
	}
	// promoted through an embedded mutex: add the embedded field's name
	rt := info.Types[se.X].Type
	k := typeKey(rt)
	if k != "sync.Mutex" && k != "sync.RWMutex" {
		recvT := fn.Type().(*types.Signature).Recv().Type()
		base += "." + strings.TrimPrefix(typeKey(recvT), "sync.")
	}
	return base, op
}

// ---------- per-function walk ----------

type held map[string]lockHeld

func (h held) clone() held {
	c := held{}
	for k, v := range h {
		c[k] = v
	}
	return c
}

func intersect(a, b held) held {
	c := held{}
	for k, v := range a {
		if w, ok := b[k]; ok {
			if v.Mode == "R" || w.Mode == "R" {
				v.Mode = "R"
			}
			if v.Mode != w.Mode && (v.Mode == "R" || w.Mode == "R") {
				v.Mode = "R"
			}
			c[k] = v
		}
	}
	return c
}

func terminates(stmts []ast.Stmt) bool {
	if len(stmts) == 0 {
		return false
	}
	switch s := stmts[len(stmts)-1].(type) {
	case *ast.ReturnStmt:
		return true
	case *ast.BranchStmt:
		return s.Tok == token.CONTINUE || s.Tok == token.BREAK || s.Tok == token.GOTO
	case *ast.ExprStmt:
		if c, ok := s.X.(*ast.CallExpr); ok {
			if id, ok := c.Fun.(*ast.Ident); ok && id.Name == "panic" {
				return true
			}
		}
	case *ast.BlockStmt:
		return terminates(s.List)
	}
	return false
}

type callRec struct {
	caller *fnInfo
	call   *ast.CallExpr
	held   held
	inGo   bool
	goPos  token.Pos
}

var callsTo = map[*types.Func][]callRec{}

// functions that run the closure they are given synchronously in the calling goroutine
func syncHigherOrder(info *types.Info, call *ast.CallExpr) bool {
	se, ok := call.Fun.(*ast.SelectorExpr)
	if !ok {
		return false
	}
	fn, ok := info.Uses[se.Sel].(*types.Func)
	if !ok || fn.Pkg() == nil {
		return false
	}
	switch fn.Pkg().Path() + "." + fn.Name() {
	case "sort.Slice", "sort.SliceStable", "sort.Search", "k8s.io/apimachinery/pkg/util/wait.ExponentialBackoff":
		return true
	}
	return fn.Pkg().Path() == "golang.org/x/sync/singleflight" && fn.Name() == "Do"
}

type walker struct {
	fn     *fnInfo
	info   *types.Info
	record bool                     // second pass: record sites
	fresh  map[*types.Var]token.Pos // fresh local object -> position where it is first published
	inGo   bool
	goPos  token.Pos
	goStmt *ast.GoStmt
}

func (w *walker) stmts(list []ast.Stmt, h held) held {
	for _, s := range list {
		h = w.stmt(s, h)
	}
	return h
}

func (w *walker) stmt(s ast.Stmt, h held) held {
	switch x := s.(type) {
	case nil:
		return h
	case *ast.BlockStmt:
		return w.stmts(x.List, h)
	case *ast.ExprStmt:
		if call, ok := x.X.(*ast.CallExpr); ok {
			if p, op := lockCall(w.info, call); p != "" {
				w.expr(call.Fun.(*ast.SelectorExpr).X, h, ctxRead)
				switch op {
				case "Lock":
					h = h.clone()
					h[p] = lockHeld{p, "W", "lexical"}
				case "RLock":
					h = h.clone()
					h[p] = lockHeld{p, "R", "lexical"}
				default:
					h = h.clone()
					delete(h, p)
				}
				return h
			}
		}
		w.expr(x.X, h, ctxRead)
		return h
	case *ast.DeferStmt:
		if p, op := lockCall(w.info, x.Call); p != "" && (op == "Unlock" || op == "RUnlock") {
			return h // released at function exit
		}
		if fl, ok := x.Call.Fun.(*ast.FuncLit); ok {
			// deferred closure: runs at exit with the locks still held; unlocks inside it release at its point
			w.stmts(fl.Body.List, h)
			return h
		}
		w.expr(x.Call, h, ctxRead)
		return h
	case *ast.GoStmt:
		if fl, ok := x.Call.Fun.(*ast.FuncLit); ok {
			for _, a := range x.Call.Args {
				w.expr(a, h, ctxRead)
			}
			sub := *w
			sub.inGo = true
			sub.goPos = x.Pos()
			sub.goStmt = x
			sub.stmts(fl.Body.List, held{})
			return h
		}
		// go f(args): arguments are evaluated here, the call runs with no locks
		for _, a := range x.Call.Args {
			w.expr(a, h, ctxRead)
		}
		if se, ok := x.Call.Fun.(*ast.SelectorExpr); ok {
			w.expr(se.X, h, ctxRead)
		}
		save, saveS := w.goPos, w.goStmt
		w.goPos, w.goStmt = x.Pos(), x
		w.noteCall(x.Call, held{}, true)
		w.goPos, w.goStmt = save, saveS
		return h
	case *ast.AssignStmt:
		for _, r := range x.Rhs {
			w.expr(r, h, ctxRead)
		}
		for _, l := range x.Lhs {
			w.expr(l, h, ctxWrite)
			// *p = T{...} / *p = v overwrites every field of the pointed-to struct
			if st, ok := ast.Unparen(l).(*ast.StarExpr); ok {
				w.wholeStructWrite(st, h)
			}
		}
		return h
	case *ast.IncDecStmt:
		w.expr(x.X, h, ctxWrite)
		return h
	case *ast.DeclStmt:
		if gd, ok := x.Decl.(*ast.GenDecl); ok {
			for _, sp := range gd.Specs {
				if vs, ok := sp.(*ast.ValueSpec); ok {
					for _, v := range vs.Values {
						w.expr(v, h, ctxRead)
					}
				}
			}
		}
		return h
	case *ast.ReturnStmt:
		for _, r := range x.Results {
			w.expr(r, h, ctxRead)
			// returning a slice or map that is held in a field hands out a reference that outlives the
			// critical section: whatever the caller does with it is outside the lock
			if se, ok := ast.Unparen(r).(*ast.SelectorExpr); ok {
				if sel, ok := w.info.Selections[se]; ok && sel.Kind() == types.FieldVal {
					switch sel.Type().Underlying().(type) {
					case *types.Slice, *types.Map:
						w.selectorEscape(se)
					}
				}
			}
		}
		return h
	case *ast.SendStmt:
		w.expr(x.Chan, h, ctxRead)
		w.expr(x.Value, h, ctxRead)
		return h
	case *ast.IfStmt:
		h = w.stmt(x.Init, h)
		w.expr(x.Cond, h, ctxRead)
		// conditional locking on a bool parameter (checked annotation)
		if ci, ok := condLock[w.fn.obj]; ok && ci.guard && x.Pos() == ci.from {
			hb := h.clone()
			hb[ci.path] = lockHeld{ci.path, "W", "annotation:cond-lock"}
			w.stmts(x.Body.List, hb)
			return h
		}
		if ci, ok := condLock[w.fn.obj]; ok && !ci.guard && (x.Pos() == ci.from || x.Pos() == ci.to) {
			h = h.clone()
			if x.Pos() == ci.from {
				h[ci.path] = lockHeld{ci.path, "W", "annotation:cond-lock"}
			} else {
				delete(h, ci.path)
			}
			return h
		}
		ht := w.stmts(x.Body.List, h)
		var outs []held
		if !terminates(x.Body.List) {
			outs = append(outs, ht)
		}
		if x.Else != nil {
			he := w.stmt(x.Else, h)
			term := false
			if b, ok := x.Else.(*ast.BlockStmt); ok {
				term = terminates(b.List)
			}
			if !term {
				outs = append(outs, he)
			}
		} else {
			outs = append(outs, h)
		}
		if len(outs) == 0 {
			return h
		}
		r := outs[0]
		for _, o := range outs[1:] {
			r = intersect(r, o)
		}
		return r
	case *ast.ForStmt:
		h = w.stmt(x.Init, h)
		if x.Cond != nil {
			w.expr(x.Cond, h, ctxRead)
		}
		hb := w.stmts(x.Body.List, h)
		w.stmt(x.Post, hb)
		return intersect(h, hb)
	case *ast.RangeStmt:
		w.expr(x.X, h, ctxRead)
		if x.Key != nil && x.Tok == token.ASSIGN {
			w.expr(x.Key, h, ctxWrite)
		}
		if x.Value != nil && x.Tok == token.ASSIGN {
			w.expr(x.Value, h, ctxWrite)
		}
		hb := w.stmts(x.Body.List, h)
		return intersect(h, hb)
	case *ast.SwitchStmt:
		h = w.stmt(x.Init, h)
		if x.Tag != nil {
			w.expr(x.Tag, h, ctxRead)
		}
		return w.clauses(x.Body, h)
	case *ast.TypeSwitchStmt:
		h = w.stmt(x.Init, h)
		w.stmt(x.Assign, h)
		return w.clauses(x.Body, h)
	case *ast.SelectStmt:
		return w.clauses(x.Body, h)
	case *ast.LabeledStmt:
		return w.stmt(x.Stmt, h)
	case *ast.BranchStmt, *ast.EmptyStmt:
		return h
	}
	return h
}

func (w *walker) clauses(body *ast.BlockStmt, h held) held {
	r := h
	for _, c := range body.List {
		var list []ast.Stmt
		switch cc := c.(type) {
		case *ast.CaseClause:
			for _, e := range cc.List {
				w.expr(e, h, ctxRead)
			}
			list = cc.Body
		case *ast.CommClause:
			w.stmt(cc.Comm, h)
			list = cc.Body
		}
		hc := w.stmts(list, h)
		if !terminates(list) {
			r = intersect(r, hc)
		}
	}
	return r
}

const (
	ctxRead = iota
	ctxWrite
)

func (w *walker) noteCall(call *ast.CallExpr, h held, inGo bool) {
	var id *ast.Ident
	switch f := ast.Unparen(call.Fun).(type) {
	case *ast.Ident:
		id = f
	case *ast.SelectorExpr:
		id = f.Sel
	default:
		return
	}
	fn, ok := w.info.Uses[id].(*types.Func)
	if !ok {
		return
	}
	if _, ok := fns[fn]; !ok {
		return
	}
	if !w.record {
		callsTo[fn] = append(callsTo[fn], callRec{caller: w.fn, call: call, held: h.clone(), inGo: inGo || w.inGo, goPos: w.goPos})
		if w.goStmt != nil {
			goStmts[w.goPos] = goInfo{w.goStmt, w.fn}
		}
	}
}

func (w *walker) expr(e ast.Expr, h held, ctx int) {
	switch x := e.(type) {
	case nil:
		return
	case *ast.ParenExpr:
		w.expr(x.X, h, ctx)
	case *ast.Ident:
		w.ident(x, h, ctx)
	case *ast.SelectorExpr:
		w.selector(x, h, ctx, "")
		w.expr(x.X, h, ctxRead)
	case *ast.IndexExpr:
		// element access: a write to x.f[k] is a write to location f
		if ctx == ctxWrite {
			w.expr(x.X, h, ctxWrite)
		} else {
			w.expr(x.X, h, ctxRead)
		}
		w.expr(x.Index, h, ctxRead)
	case *ast.SliceExpr:
		w.expr(x.X, h, ctxRead)
		w.expr(x.Low, h, ctxRead)
		w.expr(x.High, h, ctxRead)
		w.expr(x.Max, h, ctxRead)
	case *ast.StarExpr:
		w.expr(x.X, h, ctxRead)
	case *ast.UnaryExpr:
		if x.Op == token.AND {
			// address taken outside sync/atomic: the pointer may be written through
			if se, ok := ast.Unparen(x.X).(*ast.SelectorExpr); ok {
				w.selector(se, h, ctxWrite, "addr")
				w.expr(se.X, h, ctxRead)
				return
			}
			if id, ok := ast.Unparen(x.X).(*ast.Ident); ok {
				w.identKind(id, h, "KWr", "addr")
				return
			}
		}
		w.expr(x.X, h, ctxRead)
	case *ast.BinaryExpr:
		w.expr(x.X, h, ctxRead)
		w.expr(x.Y, h, ctxRead)
	case *ast.KeyValueExpr:
		w.expr(x.Value, h, ctxRead)
	case *ast.TypeAssertExpr:
		w.expr(x.X, h, ctxRead)
	case *ast.CompositeLit:
		w.complit(x, h)
	case *ast.FuncLit:
		// a closure that is not known to run synchronously: no locks assumed
		if pl, ok := pseudoLocks[x]; ok {
			hh := h.clone()
			hh[pl.Path] = pl
			w.stmts(x.Body.List, hh)
			return
		}
		sub := *w
		sub.stmts(x.Body.List, held{})
	case *ast.CallExpr:
		w.call(x, h)
	}
}

func (w *walker) call(x *ast.CallExpr, h held) {
	// sync/atomic on &x.f
	if se, ok := x.Fun.(*ast.SelectorExpr); ok {
		if fn, ok := w.info.Uses[se.Sel].(*types.Func); ok && fn.Pkg() != nil && fn.Pkg().Path() == "sync/atomic" && len(x.Args) > 0 {
			if ue, ok := ast.Unparen(x.Args[0]).(*ast.UnaryExpr); ok && ue.Op == token.AND {
				kind := "KAtW"
				if strings.HasPrefix(fn.Name(), "Load") {
					kind = "KAtR"
				}
				switch t := ast.Unparen(ue.X).(type) {
				case *ast.SelectorExpr:
					w.selector(t, h, ctxRead, kind)
					w.expr(t.X, h, ctxRead)
				case *ast.Ident:
					w.identKind(t, h, kind, "")
				}
				for _, a := range x.Args[1:] {
					w.expr(a, h, ctxRead)
				}
				return
			}
		}
	}
	// builtins that modify their first argument
	if id, ok := x.Fun.(*ast.Ident); ok {
		if _, isB := w.info.Uses[id].(*types.Builtin); isB && (id.Name == "delete" || id.Name == "copy" || id.Name == "close") && len(x.Args) > 0 {
			if id.Name == "close" {
				w.expr(x.Args[0], h, ctxRead)
			} else {
				w.expr(x.Args[0], h, ctxWrite)
			}
			for _, a := range x.Args[1:] {
				w.expr(a, h, ctxRead)
			}
			return
		}
	}
	// method call on a field holding an opaque library object
	if se, ok := x.Fun.(*ast.SelectorExpr); ok {
		if inner, ok := ast.Unparen(se.X).(*ast.SelectorExpr); ok {
			if tv, ok := w.info.Types[inner]; ok {
				if readers, ok := opaqueReaders[typeKey(tv.Type)]; ok {
					if readers[se.Sel.Name] {
						w.selector(inner, h, ctxRead, "")
					} else {
						w.selector(inner, h, ctxWrite, "")
					}
					w.expr(inner.X, h, ctxRead)
					for _, a := range x.Args {
						w.expr(a, h, ctxRead)
					}
					return
				}
			}
		}
	}
	w.noteCall(x, h, false)
	syncHO := syncHigherOrder(w.info, x)
	w.expr(x.Fun, h, ctxRead)
	for _, a := range x.Args {
		if fl, ok := a.(*ast.FuncLit); ok && syncHO {
			hh := h
			if pl, ok := pseudoLocks[fl]; ok {
				hh = h.clone()
				hh[pl.Path] = pl
			}
			w.stmts(fl.Body.List, hh)
			continue
		}
		w.expr(a, h, ctxRead)
	}
	if fl, ok := x.Fun.(*ast.FuncLit); ok { // immediately invoked
		w.stmts(fl.Body.List, h)
	}
}

func (w *walker) complit(x *ast.CompositeLit, h held) {
	t := w.info.Types[x].Type
	var nt *types.Named
	if t != nil {
		if p, ok := t.(*types.Pointer); ok {
			t = p.Elem()
		}
		nt, _ = t.(*types.Named)
	}
	var st *types.Struct
	if nt != nil {
		st, _ = nt.Underlying().(*types.Struct)
	}
	for i, el := range x.Elts {
		if kv, ok := el.(*ast.KeyValueExpr); ok {
			if id, ok := kv.Key.(*ast.Ident); ok && st != nil {
				if fv, ok := w.info.Uses[id].(*types.Var); ok && fv.IsField() {
					w.addSite(fv, id.Pos(), "KWr", "PInit", h, "", typeName(nt)+"{"+id.Name+":}")
				}
			} else {
				w.expr(kv.Key, h, ctxRead)
			}
			w.expr(kv.Value, h, ctxRead)
			continue
		}
		if st != nil && i < st.NumFields() {
			w.addSite(st.Field(i), el.Pos(), "KWr", "PInit", h, "", typeName(nt)+"{#"+fmt.Sprint(i)+"}")
		}
		w.expr(el, h, ctxRead)
	}
}

// package-level variables
func (w *walker) ident(id *ast.Ident, h held, ctx int) {
	kind := "KRd"
	if ctx == ctxWrite {
		kind = "KWr"
	}
	w.identKind(id, h, kind, "")
}

func (w *walker) identKind(id *ast.Ident, h held, kind, note string) {
	v, ok := w.info.Uses[id].(*types.Var)
	if !ok || v.IsField() || v.Pkg() == nil || v.Parent() != v.Pkg().Scope() || !inScope(v.Pkg()) {
		return
	}
	if selfSync[typeKey(v.Type())] {
		return
	}
	w.addVarSite(v, id.Pos(), kind, h)
}

func rootIdent(e ast.Expr) *ast.Ident {
	for {
		switch x := ast.Unparen(e).(type) {
		case *ast.Ident:
			return x
		case *ast.SelectorExpr:
			e = x.X
		case *ast.StarExpr:
			e = x.X
		case *ast.IndexExpr:
			e = x.X
		default:
			return nil
		}
	}
}

func (w *walker) selector(se *ast.SelectorExpr, h held, ctx int, kindOverride string) {
	sel, ok := w.info.Selections[se]
	if !ok || sel.Kind() != types.FieldVal {
		return
	}
	fv, ok := sel.Obj().(*types.Var)
	if !ok || !fv.IsField() {
		return
	}
	owner := fieldOwner[fv]
	if owner == nil || !inScope(owner.Obj().Pkg()) {
		return
	}
	if skipField(fv) {
		return
	}
	kind := "KRd"
	if ctx == ctxWrite {
		kind = "KWr"
	}
	if kindOverride == "KAtR" || kindOverride == "KAtW" {
		kind = kindOverride
	}
	phase := "PRun"
	if root := rootIdent(se.X); root != nil {
		if rv, ok := w.info.Uses[root].(*types.Var); ok {
			if pub, ok := w.fresh[rv]; ok && se.Pos() < pub {
				phase = "PInit"
			}
		}
	}
	base := exprPath(se.X)
	// promoted field: the owning object is the embedded struct
	if idx := sel.Index(); len(idx) > 1 {
		t := w.info.Types[se.X].Type
		for _, i := range idx[:len(idx)-1] {
			if p, ok := t.(*types.Pointer); ok {
				t = p.Elem()
			}
			st, ok := t.Underlying().(*types.Struct)
			if !ok {
				break
			}
			base += "." + st.Field(i).Name()
			t = st.Field(i).Type()
		}
	}
	w.addSite(fv, se.Sel.Pos(), kind, phase, h, base, exprPath(se))
}

func locName(fv *types.Var) string {
	o := fieldOwner[fv]
	return typeName(o) + "." + fv.Name()
}

// lock names relative to the accessed object
func relLocks(base string, h held, info *types.Info) [][2]string {
	var out [][2]string
	for _, l := range h {
		switch {
		case base != "" && strings.HasPrefix(l.Path, base+"."):
			out = append(out, [2]string{strings.TrimPrefix(l.Path, base+"."), l.Mode})
		case strings.HasPrefix(l.Path, "#"): // pseudo lock (singleflight key): one instance per owner object
			out = append(out, [2]string{l.Path, l.Mode})
		default:
			// the lock's owner is a prefix of the access path: the object is reached through the lock's owner
			if i := strings.LastIndex(l.Path, "."); i > 0 {
				ownerPath := l.Path[:i]
				if base != "" && (base == ownerPath || strings.HasPrefix(base, ownerPath+".")) && base != ownerPath {
					out = append(out, [2]string{"up:" + l.Path[i+1:], l.Mode})
				}
			}
		}
	}
	sort.Slice(out, func(i, j int) bool { return out[i][0] < out[j][0] })
	return out
}

func (w *walker) addSite(fv *types.Var, pos token.Pos, kind, phase string, h held, base, expr string) {
	if !w.record {
		return
	}
	if o := fieldOwner[fv]; o == nil || !inScope(o.Obj().Pkg()) || skipField(fv) {
		return
	}
	s := &siteOut{ID: len(sites), Loc: locName(fv), Pos: prog.Rel(pos), Func: w.fn.obj.FullName(), Kind: kind, Phase: phase, Expr: expr, InGo: w.inGo, goPos: w.goPos, fn: w.fn}
	s.lockList = relLocks(base, h, w.info)
	for _, l := range s.lockList {
		s.Locks = append(s.Locks, l[0]+":"+l[1])
	}
	sites = append(sites, s)
}

func (w *walker) addVarSite(v *types.Var, pos token.Pos, kind string, h held) {
	if !w.record {
		return
	}
	s := &siteOut{ID: len(sites), Loc: pkgShort(v.Pkg()) + "." + v.Name(), Pos: prog.Rel(pos), Func: w.fn.obj.FullName(), Kind: kind, Phase: "PRun", Expr: v.Name(), InGo: w.inGo, goPos: w.goPos, fn: w.fn}
	sites = append(sites, s)
}

// fresh local objects of a function: v := &T{...} / T{...} / new(T) / var v T, with the position where v
// is first handed to another goroutine or stored where another goroutine can find it
func freshLocals(fi *fnInfo) map[*types.Var]token.Pos {
	info := fi.pkg.Info
	fresh := map[*types.Var]token.Pos{}
	isFreshExpr := func(e ast.Expr) bool {
		switch x := ast.Unparen(e).(type) {
		case *ast.CompositeLit:
			return true
		case *ast.UnaryExpr:
			_, ok := ast.Unparen(x.X).(*ast.CompositeLit)
			return ok && x.Op == token.AND
		case *ast.CallExpr:
			if id, ok := x.Fun.(*ast.Ident); ok && id.Name == "new" {
				return true
			}
		}
		return false
	}
	ast.Inspect(fi.decl.Body, func(n ast.Node) bool {
		switch x := n.(type) {
		case *ast.AssignStmt:
			if len(x.Lhs) == len(x.Rhs) {
				for i, l := range x.Lhs {
					if id, ok := l.(*ast.Ident); ok && isFreshExpr(x.Rhs[i]) {
						if v, ok := info.Defs[id].(*types.Var); ok {
							fresh[v] = token.Pos(1 << 40)
						} else if v, ok := info.Uses[id].(*types.Var); ok && v.Parent() != v.Pkg().Scope() {
							// named result or re-assigned local: fresh from here
							if _, seen := fresh[v]; !seen {
								fresh[v] = token.Pos(1 << 40)
							}
						}
					}
				}
			}
		}
		return true
	})
	for _, f := range fi.decl.Type.Params.List {
		for _, n := range f.Names {
			if v, ok := info.Defs[n].(*types.Var); ok {
				if nt, ok := v.Type().(*types.Named); ok {
					if _, isStruct := nt.Underlying().(*types.Struct); isStruct {
						fresh[v] = token.Pos(1 << 40) // a by-value struct parameter is a private copy
					}
				}
			}
		}
	}
	if len(fresh) == 0 {
		return fresh
	}
	// publication points
	publish := func(v *types.Var, pos token.Pos) {
		if p, ok := fresh[v]; ok && pos < p {
			fresh[v] = pos
		}
	}
	mentions := func(n ast.Node, pos token.Pos) {
		ast.Inspect(n, func(m ast.Node) bool {
			if id, ok := m.(*ast.Ident); ok {
				if v, ok := info.Uses[id].(*types.Var); ok {
					publish(v, pos)
				}
			}
			return true
		})
	}
	ast.Inspect(fi.decl.Body, func(n ast.Node) bool {
		switch x := n.(type) {
		case *ast.GoStmt:
			mentions(x, x.Pos())
			return false
		case *ast.FuncLit:
			mentions(x, x.Pos()) // captured by a closure that may run later / elsewhere
			return false
		case *ast.SendStmt:
			mentions(x.Value, x.Pos())
		case *ast.AssignStmt:
			// stored into a field, an element or a package variable
			for i, l := range x.Lhs {
				if _, isIdent := l.(*ast.Ident); isIdent {
					if id := l.(*ast.Ident); true {
						if v, ok := info.Uses[id].(*types.Var); ok && v.Pkg() != nil && v.Parent() == v.Pkg().Scope() && i < len(x.Rhs) {
							mentions(x.Rhs[i], x.Pos())
						}
					}
					continue
				}
				if i < len(x.Rhs) {
					// v.f = other is not a publication of v; other.f = v is a publication of v
					if root := rootIdent(l); root != nil {
						if rv, ok := info.Uses[root].(*types.Var); ok {
							if _, isFresh := fresh[rv]; isFresh {
								continue
							}
						}
					}
					mentions(x.Rhs[i], x.Pos())
				}
			}
		case *ast.CallExpr:
			// method values / the object itself passed to a function of another package or stored by a
			// constructor: treated as published when the callee is not a plain accessor of ours
			for _, a := range x.Args {
				if id, ok := ast.Unparen(a).(*ast.Ident); ok {
					if v, ok := info.Uses[id].(*types.Var); ok {
						if _, isFresh := fresh[v]; isFresh {
							publish(v, x.Pos())
						}
					}
				}
			}
		}
		return true
	})
	return fresh
}

// ---------- interprocedural entry locksets ----------

func implementsSomeInterface(f *types.Func, ifaces []*types.Interface) bool {
	sig := f.Type().(*types.Signature)
	if sig.Recv() == nil {
		return false
	}
	rt := sig.Recv().Type()
	for _, it := range ifaces {
		for i := 0; i < it.NumMethods(); i++ {
			m := it.Method(i)
			if m.Name() != f.Name() || (!m.Exported() && m.Pkg() != f.Pkg()) {
				continue
			}
			if types.Implements(rt, it) || types.Implements(types.NewPointer(rt), it) {
				return true
			}
		}
	}
	return false
}

// translate a lock path of the caller into the callee's namespace
func translate(path string, call *ast.CallExpr, callee *fnInfo) (string, bool) {
	if strings.HasPrefix(path, "#") {
		return path, true
	}
	if se, ok := ast.Unparen(call.Fun).(*ast.SelectorExpr); ok && callee.recv != "" {
		rp := exprPath(se.X)
		if rp != "" && (path == rp || strings.HasPrefix(path, rp+".")) {
			return callee.recv + strings.TrimPrefix(path, rp), true
		}
	}
	params := []string{}
	for _, f := range callee.decl.Type.Params.List {
		for _, n := range f.Names {
			params = append(params, n.Name)
		}
	}
	for i, a := range call.Args {
		if i >= len(params) {
			break
		}
		ap := exprPath(a)
		if ap != "" && (path == ap || strings.HasPrefix(path, ap+".")) {
			return params[i] + strings.TrimPrefix(path, ap), true
		}
	}
	return "", false
}

func main() {
	repo := srcload.RepoDir()
	vdir := srcload.VerifDir()
	var err error
	if len(os.Args) == 3 && os.Args[1] == "-selftest" {
		// translator self-test: run the same analysis on the fixture module and compare with expected.json
		selfTest, _ = filepath.Abs(os.Args[2])
		repo = selfTest
		prog, err = srcload.Load(repo, "./...")
	} else {
		prog, err = srcload.Load(repo, "./cmd/...", "./pkg/storage/memkv", "./pkg/storage/metrics")
	}
	if err != nil {
		fmt.Fprintln(os.Stderr, "gen_accesses:", err)
		os.Exit(2)
	}
	indexTypes()

	var ifaces []*types.Interface
	seenI := map[*types.Interface]bool{}
	valueUse := map[*types.Func]bool{}
	for _, pkg := range prog.Pkgs {
		for _, tv := range pkg.Info.Types {
			if tv.Type == nil {
				continue
			}
			if it, ok := tv.Type.Underlying().(*types.Interface); ok && !seenI[it] && it.NumMethods() > 0 {
				seenI[it] = true
				ifaces = append(ifaces, it)
			}
		}
		for _, file := range pkg.Files {
			callee := map[*ast.Ident]bool{}
			ast.Inspect(file, func(n ast.Node) bool {
				switch x := n.(type) {
				case *ast.CallExpr:
					switch f := ast.Unparen(x.Fun).(type) {
					case *ast.Ident:
						callee[f] = true
					case *ast.SelectorExpr:
						callee[f.Sel] = true
					}
				case *ast.Ident:
					if fn, ok := pkg.Info.Uses[x].(*types.Func); ok && !callee[x] {
						valueUse[fn] = true
					}
				}
				return true
			})
		}
	}

	checkAnnotations()

	// pass 1: call sites with their held sets, iterated to a fixpoint of entry sets
	openCallers := map[*types.Func]bool{}
	for _, fi := range fnList {
		if exportedAPI(fi.obj) || valueUse[fi.obj] || implementsSomeInterface(fi.obj, ifaces) || fi.obj.Name() == "init" || fi.obj.Name() == "main" {
			openCallers[fi.obj] = true
		}
	}
	computeEntries(openCallers)
	if verifyCondLock() {
		entry = map[*types.Func]map[string]string{}
		entryTop = map[*types.Func]bool{}
		computeEntries(openCallers)
	}

	// pass 2: record sites
	freshOf := map[*fnInfo]map[*types.Var]token.Pos{}
	for _, fi := range fnList {
		freshOf[fi] = freshLocals(fi)
	}
	// a method with a closed set of callers that is only called on fresh, not yet published objects
	// works on a fresh receiver itself (Config.complete on NewBackend's private copy)
	for _, fi := range fnList {
		if len(callsTo[fi.obj]) == 0 || fi.recv == "" {
			continue
		}
		all := !openCallers[fi.obj]
		for _, c := range callsTo[fi.obj] {
			se, ok := ast.Unparen(c.call.Fun).(*ast.SelectorExpr)
			if !ok {
				all = false
				continue
			}
			root := rootIdent(se.X)
			if root == nil {
				all = false
				continue
			}
			rv, _ := c.caller.pkg.Info.Uses[root].(*types.Var)
			pub, isFresh := freshOf[c.caller][rv]
			if rv == nil || !isFresh || c.call.Pos() >= pub || c.inGo {
				all = false
				continue
			}
			initEdge[c.call] = true
		}
		if all {
			if rv, ok := fi.pkg.Info.Defs[fi.decl.Recv.List[0].Names[0]].(*types.Var); ok {
				freshOf[fi][rv] = token.Pos(1 << 40)
			}
		}
	}
	for _, fi := range fnList {
		w := &walker{fn: fi, info: fi.pkg.Info, record: true, fresh: freshOf[fi]}
		w.stmts(fi.decl.Body.List, entryHeld(fi))
	}

	// ---------- classes
	shared, sharedWhy := sharedTypes(ifaces)
	locs := map[string]*locOut{}
	var order []string
	for _, s := range sites {
		l, ok := locs[s.Loc]
		if !ok {
			l = &locOut{Name: s.Loc, Class: "CShared"}
			locs[s.Loc] = l
			order = append(order, s.Loc)
		}
		l.Sites = append(l.Sites, s.ID)
	}
	for fv, owner := range fieldOwner {
		n := locName(fv)
		l, ok := locs[n]
		if !ok {
			continue
		}
		l.Type = fv.Type().String()
		if !shared[owner] {
			l.Class, l.Why = "CConfined", "no value of "+typeName(owner)+" is captured by a go statement, sent on a channel, stored in a sync/atomic.Value, or stored in a field of a shared struct or a package variable"
		} else {
			l.Why = sharedWhy[owner]
		}
	}
	for v := range joinVars {
		_ = v
	}
	applyJoinAnnotation(locs)
	applySingleGoroutine(locs, openCallers)
	sort.Strings(order)

	// flagged locations (same rule as Model/Lockset.check_location)
	byID := map[int]*siteOut{}
	for _, s := range sites {
		byID[s.ID] = s
	}
	conflict := func(a, b string) bool {
		w := func(k string) bool { return k == "KWr" || k == "KAtW" }
		at := func(k string) bool { return k == "KAtR" || k == "KAtW" }
		return (w(a) || w(b)) && !(at(a) && at(b))
	}
	common := func(a, b *siteOut) bool {
		for _, x := range a.lockList {
			for _, y := range b.lockList {
				if x[0] == y[0] && (x[1] == "W" || y[1] == "W") {
					return true
				}
			}
		}
		return false
	}
	nFlag := 0
	for _, n := range order {
		l := locs[n]
		if l.Class != "CShared" {
			continue
		}
		for _, i := range l.Sites {
			for _, j := range l.Sites {
				a, b := byID[i], byID[j]
				if i <= j && a.Phase == "PRun" && b.Phase == "PRun" && conflict(a.Kind, b.Kind) && !common(a, b) {
					l.Flagged = true
					if len(l.Pairs) < 6 {
						l.Pairs = append(l.Pairs, fmt.Sprintf("%s %s [%s]  ||  %s %s [%s]", a.Kind, a.Pos, strings.Join(a.Locks, ","), b.Kind, b.Pos, strings.Join(b.Locks, ",")))
					}
				}
			}
		}
		if l.Flagged {
			nFlag++
		}
	}

	if selfTest != "" {
		os.Exit(compareSelfTest(locs, order))
	}

	// ---------- outputs
	gen := filepath.Join(vdir, "coq", "Gen")
	_ = os.MkdirAll(gen, 0o755)
	_ = os.MkdirAll(filepath.Join(vdir, "build", "gen"), 0o755)
	var sb strings.Builder
	fmt.Fprintf(&sb, "(* generated by harness/cmd/gen_accesses from %s; regenerated on every check, never committed.\n   Checked annotations:\n", repo)
	for _, a := range annots {
		fmt.Fprintf(&sb, "     - %s: %s [premises hold: %v]\n", a.ID, strings.NewReplacer("(*", "(", "*)", ")").Replace(a.What), a.Holds)
	}
	sb.WriteString("*)\nFrom KB Require Import Base.Bytes Model.Lockset.\nOpen Scope N_scope.\n\nDefinition accesses : table := [\n")
	for li, n := range order {
		l := locs[n]
		if li > 0 {
			sb.WriteString(";\n")
		}
		fmt.Fprintf(&sb, "  (* %s *)\n  {| l_name := %s; l_class := %s; l_sites := [", n, srcload.CoqBytes(n), l.Class)
		for k, id := range l.Sites {
			s := byID[id]
			if k > 0 {
				sb.WriteString("; ")
			}
			var ls []string
			for _, lk := range s.lockList {
				m := "MR"
				if lk[1] == "W" {
					m = "MW"
				}
				ls = append(ls, fmt.Sprintf("(%s, %s)", srcload.CoqBytes(lk[0]), m))
			}
			fmt.Fprintf(&sb, "{| s_id := %d; s_kind := %s; s_locks := [%s]; s_phase := %s |}", s.ID, s.Kind, strings.Join(ls, "; "), s.Phase)
		}
		sb.WriteString("] |}")
	}
	sb.WriteString("\n].\n")
	must(os.WriteFile(filepath.Join(gen, "Accesses.v"), []byte(sb.String()), 0o644))
	ok := "(* generated by harness/cmd/gen_accesses; the obligation a code edit breaks *)\n" +
		"From KB Require Import Base.Bytes Model.Lockset Model.C19Cases Proofs.Lockset Gen.Accesses.\n" +
		"Theorem accesses_ok : unlisted c19_known accesses = [].\nProof. vm_compute. reflexivity. Qed.\n" +
		"(* the soundness theorem instantiated to the table regenerated from the repository: every well-formed trace that\n" +
		"   conforms to it is free of data races *)\n" +
		"Theorem C19_repo_no_race : forall tr, wf tr -> conforms accesses tr -> ~ race tr.\n" +
		"Proof.\n  intros tr Hwf Hc [[o n] Hr].\n" +
		"  pose proof (lockset_sound_except c19_known accesses tr o n Hwf Hc accesses_ok Hr) as H.\n" +
		"  vm_compute in H. discriminate.\nQed.\nPrint Assumptions C19_repo_no_race.\n"
	must(os.WriteFile(filepath.Join(gen, "AccessesOk.v"), []byte(ok), 0o644))
	var locList []*locOut
	for _, n := range order {
		locList = append(locList, locs[n])
	}
	b, _ := json.MarshalIndent(map[string]interface{}{"repo": repo, "locations": locList, "sites": sites, "annotations": annots}, "", " ")
	must(os.WriteFile(filepath.Join(vdir, "build", "gen", "accesses.json"), b, 0o644))
	nConf := 0
	for _, n := range order {
		if locs[n].Class == "CConfined" {
			nConf++
		}
	}
	fmt.Printf("gen_accesses: %d locations (%d confined), %d sites, %d flagged, annotations:", len(order), nConf, len(sites), nFlag)
	for _, a := range annots {
		fmt.Printf(" %s=%v", a.ID, a.Holds)
	}
	fmt.Println()
}

func must(err error) {
	if err != nil {
		fmt.Fprintln(os.Stderr, err)
		os.Exit(2)
	}
}

func sameMap(a, b map[string]string) bool {
	if len(a) != len(b) {
		return false
	}
	for k, v := range a {
		if b[k] != v {
			return false
		}
	}
	return true
}

func entryHeld(fi *fnInfo) held {
	h := held{}
	for p, m := range entry[fi.obj] {
		h[p] = lockHeld{p, m, "callers"}
	}
	for p, m := range annotEntry[fi.obj] {
		h[p] = lockHeld{p, m, "annotation"}
	}
	return h
}

// ---------- sharing ----------

// a struct type is shared when one of its values can be reached by two goroutines
func sharedTypes(ifaces []*types.Interface) (map[*types.Named]bool, map[*types.Named]string) {
	shared := map[*types.Named]bool{}
	why := map[*types.Named]string{}
	named := func(t types.Type) *types.Named {
		for {
			switch x := t.(type) {
			case *types.Pointer:
				t = x.Elem()
				continue
			case *types.Slice:
				t = x.Elem()
				continue
			case *types.Array:
				t = x.Elem()
				continue
			case *types.Map:
				t = x.Elem()
				continue
			case *types.Chan:
				t = x.Elem()
				continue
			}
			break
		}
		nt, _ := t.(*types.Named)
		return nt
	}
	var structs []*types.Named
	seen := map[*types.Named]bool{}
	for _, o := range fieldOwner {
		if !seen[o] {
			seen[o] = true
			structs = append(structs, o)
		}
	}
	// every struct type a value of static type t may hold
	holders := func(t types.Type) []*types.Named {
		nt := named(t)
		if nt == nil {
			if it, ok := t.Underlying().(*types.Interface); ok {
				return implementers(it, structs)
			}
			return nil
		}
		if it, ok := nt.Underlying().(*types.Interface); ok {
			return implementers(it, structs)
		}
		if _, ok := nt.Underlying().(*types.Struct); ok && seen[nt] {
			return []*types.Named{nt}
		}
		return nil
	}
	mark := func(t types.Type, reason string) bool {
		ch := false
		for _, nt := range holders(t) {
			if !shared[nt] {
				shared[nt], why[nt] = true, reason
				ch = true
			}
		}
		return ch
	}
	// (1) captured by / passed to a go statement, sent on a channel, stored in an atomic.Value, package variables
	for _, pkg := range prog.Pkgs {
		info := pkg.Info
		for _, file := range pkg.Files {
			ast.Inspect(file, func(n ast.Node) bool {
				switch x := n.(type) {
				case *ast.GoStmt:
					pos := prog.Rel(x.Pos())
					if fl, ok := x.Call.Fun.(*ast.FuncLit); ok {
						// free variables of the closure
						ast.Inspect(fl.Body, func(m ast.Node) bool {
							if id, ok := m.(*ast.Ident); ok {
								if v, ok := info.Uses[id].(*types.Var); ok && !v.IsField() && (v.Pos() < fl.Pos() || v.Pos() > fl.End()) {
									if joinVars[v] || handedOver(info, x, v) {
										return true
									}
									mark(v.Type(), "captured by the go statement at "+pos)
								}
							}
							return true
						})
					} else if se, ok := x.Call.Fun.(*ast.SelectorExpr); ok {
						if tv, ok := info.Types[se.X]; ok {
							mark(tv.Type, "receiver of the go statement at "+pos)
						}
					}
					for _, a := range x.Call.Args {
						if tv, ok := info.Types[a]; ok {
							mark(tv.Type, "argument of the go statement at "+pos)
						}
					}
				case *ast.SendStmt:
					if tv, ok := info.Types[x.Value]; ok {
						mark(tv.Type, "sent on a channel at "+prog.Rel(x.Pos()))
					}
				case *ast.CallExpr:
					if se, ok := x.Fun.(*ast.SelectorExpr); ok && (se.Sel.Name == "Store" || se.Sel.Name == "AfterFunc") {
						for _, a := range x.Args {
							if tv, ok := info.Types[a]; ok {
								mark(tv.Type, "stored / scheduled at "+prog.Rel(x.Pos()))
							}
						}
					}
					// closures handed to other packages may run on another goroutine: their free variables are shared
					if fn := calleeOf(info, x); fn != nil && !syncHigherOrder(info, x) {
						for _, a := range x.Args {
							if fl, ok := a.(*ast.FuncLit); ok {
								markFree(info, fl, mark, "captured by a callback at "+prog.Rel(fl.Pos()))
							}
						}
					}
				case *ast.KeyValueExpr:
					if fl, ok := x.Value.(*ast.FuncLit); ok {
						markFree(info, fl, mark, "captured by a callback at "+prog.Rel(fl.Pos()))
					}
				}
				return true
			})
		}
		sc := pkg.Types.Scope()
		for _, n := range sc.Names() {
			if v, ok := sc.Lookup(n).(*types.Var); ok {
				mark(v.Type(), "held by package variable "+v.Name())
			}
		}
	}
	// method values bound to an object and passed on (b.notify): the receiver is shared
	for _, pkg := range prog.Pkgs {
		info := pkg.Info
		for se, sel := range info.Selections {
			if sel.Kind() == types.MethodVal {
				if tv, ok := info.Types[se]; ok && tv.IsValue() {
					// method value used as a value (not called): detected by its parent not being a call; approximated
					// by marking receivers of method values that appear as call arguments
					_ = tv
				}
			}
		}
		for _, file := range pkg.Files {
			ast.Inspect(file, func(n ast.Node) bool {
				if call, ok := n.(*ast.CallExpr); ok {
					for _, a := range call.Args {
						if se, ok := ast.Unparen(a).(*ast.SelectorExpr); ok {
							if sel, ok := info.Selections[se]; ok && sel.Kind() == types.MethodVal {
								mark(sel.Recv(), "method value passed as a callback at "+prog.Rel(se.Pos()))
							}
						}
					}
				}
				return true
			})
		}
	}
	// (2) stored in a field of a shared struct: fixpoint
	for changed := true; changed; {
		changed = false
		for fv, owner := range fieldOwner {
			if shared[owner] {
				if mark(fv.Type(), "reachable from a field of shared "+typeName(owner)) {
					changed = true
				}
			}
		}
	}
	return shared, why
}

func calleeOf(info *types.Info, call *ast.CallExpr) *types.Func {
	switch f := ast.Unparen(call.Fun).(type) {
	case *ast.Ident:
		fn, _ := info.Uses[f].(*types.Func)
		return fn
	case *ast.SelectorExpr:
		fn, _ := info.Uses[f.Sel].(*types.Func)
		return fn
	}
	return nil
}

func markFree(info *types.Info, fl *ast.FuncLit, mark func(types.Type, string) bool, reason string) {
	ast.Inspect(fl.Body, func(m ast.Node) bool {
		if id, ok := m.(*ast.Ident); ok {
			if v, ok := info.Uses[id].(*types.Var); ok && !v.IsField() && (v.Pos() < fl.Pos() || v.Pos() > fl.End()) {
				if !joinVars[v] {
					mark(v.Type(), reason)
				}
			}
		}
		return true
	})
}

func implementers(it *types.Interface, structs []*types.Named) []*types.Named {
	var out []*types.Named
	for _, nt := range structs {
		if types.Implements(nt, it) || types.Implements(types.NewPointer(nt), it) {
			// a struct that gets all of the interface's methods from one embedded interface value and
			// declares none of them itself (worker embeds coder.Coder) is not what is stored behind it
			declares := it.NumMethods() == 0
			for i := 0; i < nt.NumMethods(); i++ {
				for j := 0; j < it.NumMethods(); j++ {
					if nt.Method(i).Name() == it.Method(j).Name() {
						declares = true
					}
				}
			}
			if !declares {
				viaOne := false
				if st, ok := nt.Underlying().(*types.Struct); ok {
					for i := 0; i < st.NumFields(); i++ {
						f := st.Field(i)
						if !f.Embedded() {
							continue
						}
						if ft, ok := f.Type().Underlying().(*types.Interface); ok && types.Implements(f.Type(), it) {
							_ = ft
							viaOne = true
						}
					}
				}
				declares = !viaOne
			}
			if declares {
				out = append(out, nt)
			}
		}
	}
	return out
}

func computeEntries(openCallers map[*types.Func]bool) {
	for iter := 0; iter < 12; iter++ {
		callsTo = map[*types.Func][]callRec{}
		for _, fi := range fnList {
			w := &walker{fn: fi, info: fi.pkg.Info, fresh: map[*types.Var]token.Pos{}}
			w.stmts(fi.decl.Body.List, entryHeld(fi))
		}
		changed := false
		for _, fi := range fnList {
			var e map[string]string
			if openCallers[fi.obj] || len(callsTo[fi.obj]) == 0 {
				e = map[string]string{}
			} else {
				first := true
				for _, c := range callsTo[fi.obj] {
					cur := map[string]string{}
					if !c.inGo || true {
						for _, l := range c.held {
							if p, ok := translate(l.Path, c.call, fi); ok {
								cur[p] = l.Mode
							}
						}
					}
					if first {
						e, first = cur, false
					} else {
						for k := range e {
							if m2, ok := cur[k]; !ok {
								delete(e, k)
							} else if m2 == "R" {
								e[k] = "R"
							}
						}
					}
				}
			}
			if !sameMap(entry[fi.obj], e) || !entryTop[fi.obj] {
				changed = true
			}
			entry[fi.obj] = e
			entryTop[fi.obj] = true
		}
		if !changed {
			break
		}
	}

}

// a local object that its creator does not use any more after the go statement that captures it
// is handed over to the new goroutine (the go statement orders the accesses), not shared
func handedOver(info *types.Info, gs *ast.GoStmt, v *types.Var) bool {
	fi := enclosingFn(gs.Pos())
	if fi == nil || v.Pos() < fi.decl.Body.Pos() || v.Pos() > fi.decl.Body.End() {
		return false // parameter, receiver or outer variable
	}
	inLoop, later := false, false
	var stack []ast.Node
	ast.Inspect(fi.decl.Body, func(n ast.Node) bool {
		if n == nil {
			stack = stack[:len(stack)-1]
			return true
		}
		if n == ast.Node(gs) {
			for _, a := range stack {
				switch a.(type) {
				case *ast.ForStmt, *ast.RangeStmt:
					inLoop = true
				}
			}
		}
		if id, ok := n.(*ast.Ident); ok && info.Uses[id] == v && id.Pos() > gs.End() {
			later = true
		}
		stack = append(stack, n)
		return true
	})
	return !inLoop && !later
}

// a field that is itself a self-synchronising object (not a pointer to one) is not a location
func skipField(fv *types.Var) bool {
	if _, isPtr := fv.Type().(*types.Pointer); isPtr {
		return false
	}
	return selfSync[typeKey(fv.Type())]
}

// ---------- goroutine roots ----------

// roots of a function: the go statements and external entry points it can be reached from;
// a call on a fresh, unpublished receiver is the constructor ("init") and does not count
func rootsOf(fn *types.Func, open map[*types.Func]bool, memo map[*types.Func]map[string]bool, depth int) map[string]bool {
	if r, ok := memo[fn]; ok {
		return r
	}
	r := map[string]bool{}
	memo[fn] = r
	if pr, ok := pseudoRoot[fn]; ok {
		r[pr] = true
		return r
	}
	if open[fn] {
		r["ext"] = true
	}
	if len(callsTo[fn]) == 0 && !open[fn] {
		r["ext"] = true // unreferenced: be conservative
	}
	if depth > 12 {
		r["ext"] = true
		return r
	}
	for _, c := range callsTo[fn] {
		switch {
		case initEdge[c.call]:
			r["init"] = true
		case c.goPos != token.NoPos:
			r["go@"+prog.Rel(c.goPos)] = true
		default:
			for k := range rootsOf(c.caller.obj, open, memo, depth+1) {
				r[k] = true
			}
		}
	}
	return r
}

// a shared struct's field whose run-phase accesses all happen in one goroutine that is started once
// per object (by its constructor) is confined to that goroutine
func applySingleGoroutine(locs map[string]*locOut, open map[*types.Func]bool) {
	memo := map[*types.Func]map[string]bool{}
	byLoc := map[string][]*siteOut{}
	for _, s := range sites {
		byLoc[s.Loc] = append(byLoc[s.Loc], s)
	}
	for name, l := range locs {
		if l.Class != "CShared" {
			continue
		}
		all := map[string]bool{}
		for _, s := range byLoc[name] {
			if s.Phase != "PRun" || s.fn == nil {
				continue
			}
			if s.goPos != token.NoPos {
				all["go@"+prog.Rel(s.goPos)] = true
				continue
			}
			for k := range rootsOf(s.fn.obj, open, memo, 0) {
				all[k] = true
			}
		}
		delete(all, "init")
		if len(all) != 1 {
			continue
		}
		var root string
		for k := range all {
			root = k
		}
		if strings.HasPrefix(root, "elector:") {
			l.Class = "CConfined"
			l.Why = "all run-phase accesses happen in methods that only client-go's leader elector loop calls (one goroutine per lock object): " + strings.TrimPrefix(root, "elector:")
			continue
		}
		if !strings.HasPrefix(root, "go@") {
			continue
		}
		// the go statement must start once per object: not in a loop, in a function where the object is fresh
		var gi goInfo
		found := false
		for pos, g := range goStmts {
			if "go@"+prog.Rel(pos) == root {
				gi, found = g, true
			}
		}
		if !found || inLoopStmt(gi.fn, gi.stmt) {
			continue
		}
		fresh := freshLocals(gi.fn)
		okFresh := false
		ast.Inspect(gi.stmt, func(n ast.Node) bool {
			if id, ok := n.(*ast.Ident); ok {
				if v, ok := gi.fn.pkg.Info.Uses[id].(*types.Var); ok {
					if _, isFresh := fresh[v]; isFresh && strings.HasPrefix(name, typeName(v.Type())+".") {
						okFresh = true
					}
				}
			}
			return true
		})
		if !okFresh {
			continue
		}
		l.Class = "CConfined"
		l.Why = "all run-phase accesses happen in the goroutine started once per object at " + strings.TrimPrefix(root, "go@") + " (and in the constructor before it)"
	}
}

func inLoopStmt(fi *fnInfo, target ast.Node) bool {
	in := false
	var stack []ast.Node
	ast.Inspect(fi.decl.Body, func(n ast.Node) bool {
		if n == nil {
			stack = stack[:len(stack)-1]
			return true
		}
		if n == target {
			for _, a := range stack {
				switch a.(type) {
				case *ast.ForStmt, *ast.RangeStmt:
					in = true
				}
			}
		}
		stack = append(stack, n)
		return true
	})
	return in
}

// exportedAPI: callable by name from another package. An exported method of an unexported type is not
// (other packages reach it only through an interface, which implementsSomeInterface covers)
func exportedAPI(f *types.Func) bool {
	if !f.Exported() {
		return false
	}
	sig := f.Type().(*types.Signature)
	if sig.Recv() == nil {
		return true
	}
	t := sig.Recv().Type()
	if p, ok := t.(*types.Pointer); ok {
		t = p.Elem()
	}
	if nt, ok := t.(*types.Named); ok {
		return nt.Obj().Exported()
	}
	return true
}

// wholeStructWrite records a write of every field for an assignment through a struct pointer
func (w *walker) wholeStructWrite(st *ast.StarExpr, h held) {
	tv, ok := w.info.Types[st.X]
	if !ok {
		return
	}
	pt, ok := tv.Type.Underlying().(*types.Pointer)
	if !ok {
		return
	}
	nt, ok := pt.Elem().(*types.Named)
	if !ok {
		return
	}
	str, ok := nt.Underlying().(*types.Struct)
	if !ok || !inScope(nt.Obj().Pkg()) {
		return
	}
	phase := "PRun"
	if root := rootIdent(st.X); root != nil {
		if rv, ok := w.info.Uses[root].(*types.Var); ok {
			if pub, ok := w.fresh[rv]; ok && st.Pos() < pub {
				phase = "PInit"
			}
		}
	}
	base := exprPath(st.X)
	for i := 0; i < str.NumFields(); i++ {
		w.addSite(str.Field(i), st.Pos(), "KWr", phase, h, base, "*"+base+" = ... ("+str.Field(i).Name()+")")
	}
}

// selectorEscape records the use of a returned field-held slice/map by the callers: an access of the
// field's contents with no lock (KWr: the repository's callers sort and rewrite such slices in place)
func (w *walker) selectorEscape(se *ast.SelectorExpr) {
	sel := w.info.Selections[se]
	fv, ok := sel.Obj().(*types.Var)
	if !ok || !fv.IsField() {
		return
	}
	phase := "PRun"
	if root := rootIdent(se.X); root != nil {
		if rv, ok := w.info.Uses[root].(*types.Var); ok {
			if pub, ok := w.fresh[rv]; ok && se.Pos() < pub {
				phase = "PInit"
			}
		}
	}
	w.addSite(fv, se.Sel.Pos(), "KWr", phase, held{}, exprPath(se.X), "returned reference to "+exprPath(se)+" (used by callers outside the lock)")
}

func compareSelfTest(locs map[string]*locOut, order []string) int {
	var exp struct {
		Flagged  []string `json:"flagged"`
		Confined []string `json:"confined"`
		Accepted []string `json:"accepted_shared"`
	}
	b, err := os.ReadFile(filepath.Join(selfTest, "expected.json"))
	if err == nil {
		err = json.Unmarshal(b, &exp)
	}
	if err != nil {
		fmt.Fprintln(os.Stderr, "gen_accesses -selftest:", err)
		return 2
	}
	got := map[string]string{}
	for _, n := range order {
		l := locs[n]
		switch {
		case l.Flagged:
			got[n] = "flagged"
		case l.Class == "CConfined":
			got[n] = "confined"
		default:
			got[n] = "accepted_shared"
		}
	}
	bad := 0
	want := map[string]string{}
	for _, n := range exp.Flagged {
		want[n] = "flagged"
	}
	for _, n := range exp.Confined {
		want[n] = "confined"
	}
	for _, n := range exp.Accepted {
		want[n] = "accepted_shared"
	}
	for n, w := range want {
		if got[n] != w {
			fmt.Printf("SELFTEST MISMATCH %s: expected %s, translator says %q %v\n", n, w, got[n], pairsOf(locs[n]))
			bad++
		}
	}
	for n, g := range got {
		if _, ok := want[n]; !ok && g == "flagged" {
			fmt.Printf("SELFTEST MISMATCH %s: flagged but not expected %v\n", n, pairsOf(locs[n]))
			bad++
		}
	}
	if bad > 0 {
		return 1
	}
	fmt.Printf("gen_accesses -selftest: %d expectations hold (%d flagged, %d confined, %d accepted)\n", len(want), len(exp.Flagged), len(exp.Confined), len(exp.Accepted))
	return 0
}

func pairsOf(l *locOut) []string {
	if l == nil {
		return nil
	}
	return l.Pairs
}
