package main

import (
	"fmt"
	"go/ast"
	"go/constant"
	"go/token"
	"go/types"
	"strings"
)

// Annotations: non-lexical synchronisation protocols. Each is found structurally and its premises
// are checked against the source; nothing here is keyed to line numbers.

func methodsOf(nt *types.Named) []*fnInfo {
	var out []*fnInfo
	for _, fi := range fnList {
		sig := fi.obj.Type().(*types.Signature)
		if sig.Recv() == nil {
			continue
		}
		t := sig.Recv().Type()
		if p, ok := t.(*types.Pointer); ok {
			t = p.Elem()
		}
		if t == types.Type(nt) {
			out = append(out, fi)
		}
	}
	return out
}

func enclosingFn(pos token.Pos) *fnInfo {
	for _, fi := range fnList {
		if fi.decl.Pos() <= pos && pos <= fi.decl.End() {
			return fi
		}
	}
	return nil
}

func checkAnnotations() {
	annotBatchProtocol()
	annotCondLock()
	annotSingleflight()
	annotForkJoin()
	annotElector()
}

// A5: client-go's LeaderElector (leaderelection.RunOrDie) calls Get/Create/Update/RecordEvent of its
// resourcelock.Interface from its own single loop goroutine. Premise checked here: the module itself
// never calls these methods on the implementing type (it only calls Identity and Describe).
func annotElector() {
	for _, fi := range fnList {
		if !inScope(fi.obj.Pkg()) || fi.recv == "" {
			continue
		}
		switch fi.obj.Name() {
		case "Get", "Create", "Update", "RecordEvent":
		default:
			continue
		}
		sig := fi.obj.Type().(*types.Signature)
		rt := sig.Recv().Type()
		isLock := false
		for _, pkg := range prog.Pkgs {
			for _, tv := range pkg.Info.Types {
				if nt, ok := tv.Type.(*types.Named); ok && nt.Obj().Pkg() != nil &&
					nt.Obj().Pkg().Path() == "k8s.io/client-go/tools/leaderelection/resourcelock" && nt.Obj().Name() == "Interface" {
					if it, ok := nt.Underlying().(*types.Interface); ok && (types.Implements(rt, it) || types.Implements(types.NewPointer(rt), it)) {
						isLock = true
					}
				}
			}
			if isLock {
				break
			}
		}
		if !isLock {
			continue
		}
		id := "elector:" + typeName(rt)
		var a *annotation
		for _, x := range annots {
			if x.ID == id {
				a = x
			}
		}
		if a == nil {
			a = &annotation{ID: id, What: "Get/Create/Update/RecordEvent of " + typeName(rt) + " are called only by client-go's leader elector loop (one goroutine per lock)", Holds: true}
			annots = append(annots, a)
		}
		// premise: no call from the module
		called := false
		for _, pkg := range prog.Pkgs {
			for _, file := range pkg.Files {
				ast.Inspect(file, func(n ast.Node) bool {
					if call, ok := n.(*ast.CallExpr); ok {
						if se, ok := call.Fun.(*ast.SelectorExpr); ok && se.Sel.Name == fi.obj.Name() {
							if fn, ok := pkg.Info.Uses[se.Sel].(*types.Func); ok {
								if fn == fi.obj {
									called = true
								}
								// through the interface
								if fn.Pkg() != nil && fn.Pkg().Path() == "k8s.io/client-go/tools/leaderelection/resourcelock" {
									called = true
								}
							}
						}
					}
					return true
				})
			}
		}
		if called {
			a.Holds, a.Failed = false, "the module calls "+fi.obj.Name()+" itself"
			continue
		}
		a.Premises = append(a.Premises, "no call of "+fi.obj.Name()+" in the module")
	}
	for _, a := range annots {
		if strings.HasPrefix(a.ID, "elector:") && a.Holds {
			for _, fi := range fnList {
				if fi.recv == "" {
					continue
				}
				switch fi.obj.Name() {
				case "Get", "Create", "Update", "RecordEvent":
					if "elector:"+typeName(fi.obj.Type().(*types.Signature).Recv().Type()) == a.ID {
						pseudoRoot[fi.obj] = a.ID
					}
				}
			}
		}
	}
}

// A1: objects whose constructor takes a lock that only their Commit-like method releases:
// "methods of memkv.batch run with store.mu held".
func annotBatchProtocol() {
	for _, pkg := range prog.Pkgs {
		if !strings.HasSuffix(pkg.Path, "/pkg/storage/memkv") {
			continue
		}
		tn, ok := pkg.Types.Scope().Lookup("batch").(*types.TypeName)
		if !ok {
			return
		}
		nt := tn.Type().(*types.Named)
		a := &annotation{ID: "batch-protocol", What: "methods of memkv.batch run with <batch>.store.mu held (locked by the only constructor, released by Commit)", Holds: true}
		annots = append(annots, a)
		fail := func(s string) {
			a.Holds = false
			if a.Failed == "" {
				a.Failed = s
			}
		}
		// premise 1: every composite literal of batch sits after X.mu.Lock() in a function that never unlocks X.mu,
		// with store: X
		nLit := 0
		for _, file := range pkg.Files {
			ast.Inspect(file, func(n ast.Node) bool {
				cl, ok := n.(*ast.CompositeLit)
				if !ok {
					return true
				}
				t := pkg.Info.Types[cl].Type
				if t == nil || t != types.Type(nt) {
					return true
				}
				nLit++
				fi := enclosingFn(cl.Pos())
				if fi == nil {
					fail("batch literal outside a function")
					return true
				}
				storeExpr := ""
				for _, el := range cl.Elts {
					if kv, ok := el.(*ast.KeyValueExpr); ok {
						if id, ok := kv.Key.(*ast.Ident); ok && id.Name == "store" {
							storeExpr = exprPath(kv.Value)
						}
					}
				}
				if storeExpr == "" {
					fail("batch literal at " + prog.Rel(cl.Pos()) + " does not set store")
					return true
				}
				locked, unlocked := false, false
				ast.Inspect(fi.decl.Body, func(m ast.Node) bool {
					if call, ok := m.(*ast.CallExpr); ok {
						if p, op := lockCall(pkg.Info, call); p == storeExpr+".mu" {
							if op == "Lock" && call.Pos() < cl.Pos() {
								locked = true
							}
							if op == "Unlock" {
								unlocked = true
							}
						}
					}
					return true
				})
				if !locked || unlocked {
					fail(fmt.Sprintf("constructor %s does not lock %s.mu before building the batch, or unlocks it", fi.obj.Name(), storeExpr))
				}
				a.Premises = append(a.Premises, fmt.Sprintf("batch literal at %s: %s locks %s.mu before it and never unlocks it", prog.Rel(cl.Pos()), fi.obj.Name(), storeExpr))
				return true
			})
		}
		if nLit == 0 {
			fail("no constructor of batch found")
		}
		// premise 2: among the methods of batch, only Commit releases the lock, by a defer in its first statement
		ms := methodsOf(nt)
		for _, m := range ms {
			lockPath := m.recv + ".store.mu"
			ast.Inspect(m.decl.Body, func(n ast.Node) bool {
				if call, ok := n.(*ast.CallExpr); ok {
					if p, op := lockCall(pkg.Info, call); p == lockPath && op != "" {
						okHere := false
						if m.obj.Name() == "Commit" && op == "Unlock" && len(m.decl.Body.List) > 0 {
							if ds, ok := m.decl.Body.List[0].(*ast.DeferStmt); ok && ds.Call == call {
								okHere = true
							}
						}
						if !okHere {
							fail(fmt.Sprintf("method %s calls %s on the store lock at %s", m.obj.Name(), op, prog.Rel(call.Pos())))
						}
					}
				}
				return true
			})
		}
		hasCommit := false
		for _, m := range ms {
			if m.obj.Name() == "Commit" {
				hasCommit = true
				if len(m.decl.Body.List) == 0 {
					fail("Commit is empty")
				} else if ds, ok := m.decl.Body.List[0].(*ast.DeferStmt); !ok {
					fail("Commit does not start with the deferred unlock")
				} else if p, op := lockCall(pkg.Info, ds.Call); p != m.recv+".store.mu" || op != "Unlock" {
					fail("Commit does not start with the deferred unlock")
				}
			}
		}
		if !hasCommit {
			fail("no Commit method")
		}
		a.Premises = append(a.Premises, "only Commit releases <batch>.store.mu, by `defer` in its first statement")
		if a.Holds {
			for _, m := range ms {
				annotEntry[m.obj] = map[string]string{m.recv + ".store.mu": "W"}
			}
		}
	}
}

// A2: a bool parameter that says whether the function should take the lock itself:
//
//	if p { X.Lock() } ... if p { X.Unlock() }
//
// The call-site premise (literal true, or literal false with the lock held) is verified after the
// first pass, see verifyCondLock.
func annotCondLock() {
	for _, fi := range fnList {
		if !inScope(fi.obj.Pkg()) {
			continue
		}
		info := fi.pkg.Info
		var from, to *ast.IfStmt
		var path string
		var param *types.Var
		for _, s := range fi.decl.Body.List {
			is, ok := s.(*ast.IfStmt)
			if !ok || is.Else != nil || is.Init != nil || len(is.Body.List) != 1 {
				continue
			}
			id, ok := is.Cond.(*ast.Ident)
			if !ok {
				continue
			}
			v, ok := info.Uses[id].(*types.Var)
			if !ok {
				continue
			}
			es, ok := is.Body.List[0].(*ast.ExprStmt)
			if !ok {
				continue
			}
			call, ok := es.X.(*ast.CallExpr)
			if !ok {
				continue
			}
			p, op := lockCall(info, call)
			if p == "" {
				continue
			}
			if op == "Lock" && from == nil {
				from, path, param = is, p, v
			} else if op == "Unlock" && from != nil && p == path && v == param {
				to = is
			}
		}
		guard := false
		if from == nil || to == nil {
			// the same discipline written with a guard clause: `if !p { ...; return }` followed, at the top level of the
			// function, by `X.Lock()`: inside the guard the callers that pass false hold X (checked like the form above)
			from, to = nil, nil
			for i, s := range fi.decl.Body.List {
				is, ok := s.(*ast.IfStmt)
				if !ok || is.Else != nil || is.Init != nil || !terminates(is.Body.List) {
					continue
				}
				ue, ok := is.Cond.(*ast.UnaryExpr)
				if !ok || ue.Op != token.NOT {
					continue
				}
				id, ok := ast.Unparen(ue.X).(*ast.Ident)
				if !ok {
					continue
				}
				v, ok := info.Uses[id].(*types.Var)
				if !ok {
					continue
				}
				for _, s2 := range fi.decl.Body.List[i+1:] {
					es, ok := s2.(*ast.ExprStmt)
					if !ok {
						continue
					}
					call, ok := es.X.(*ast.CallExpr)
					if !ok {
						continue
					}
					if p, op := lockCall(info, call); p != "" && op == "Lock" {
						from, path, param, guard = is, p, v, true
						break
					}
				}
				if guard {
					break
				}
			}
			if !guard {
				continue
			}
		}
		a := &annotation{ID: "cond-lock:" + fi.obj.Name(), What: fmt.Sprintf("%s holds %s between `if %s {Lock}` and `if %s {Unlock}`: callers pass true, or false while holding the lock", fi.obj.FullName(), path, param.Name(), param.Name()), Holds: true}
		annots = append(annots, a)
		// the parameter is a parameter and is never assigned
		isParam := false
		sig := fi.obj.Type().(*types.Signature)
		for i := 0; i < sig.Params().Len(); i++ {
			if sig.Params().At(i) == param {
				isParam = true
			}
		}
		assigned := false
		ast.Inspect(fi.decl.Body, func(n ast.Node) bool {
			if as, ok := n.(*ast.AssignStmt); ok {
				for _, l := range as.Lhs {
					if id, ok := l.(*ast.Ident); ok && info.Uses[id] == param {
						assigned = true
					}
				}
			}
			return true
		})
		if !isParam || assigned {
			a.Holds, a.Failed = false, "the condition is not an unmodified parameter"
			continue
		}
		a.Premises = append(a.Premises, "the condition is a bool parameter that is never assigned")
		if guard {
			condLock[fi.obj] = condLockInfo{param: param, path: path, from: from.Pos(), to: token.NoPos, guard: true}
		} else {
			condLock[fi.obj] = condLockInfo{param: param, path: path, from: from.Pos(), to: to.Pos()}
		}
	}
}

// verifyCondLock checks the call sites (needs the held sets of pass 1); returns true when an
// annotation had to be dropped
func verifyCondLock() bool {
	dropped := false
	for fn, ci := range condLock {
		fi := fns[fn]
		var a *annotation
		for _, x := range annots {
			if x.ID == "cond-lock:"+fn.Name() {
				a = x
			}
		}
		sig := fn.Type().(*types.Signature)
		idx := -1
		for i := 0; i < sig.Params().Len(); i++ {
			if sig.Params().At(i) == ci.param {
				idx = i
			}
		}
		ok := true
		n := 0
		for _, c := range callsTo[fn] {
			n++
			if idx >= len(c.call.Args) {
				ok = false
				continue
			}
			tv := c.caller.pkg.Info.Types[c.call.Args[idx]]
			if tv.Value == nil || tv.Value.Kind() != constant.Bool {
				ok = false
				a.Failed = "call at " + prog.Rel(c.call.Pos()) + " does not pass a constant"
				continue
			}
			if constant.BoolVal(tv.Value) {
				a.Premises = append(a.Premises, "call at "+prog.Rel(c.call.Pos())+" passes true")
				continue
			}
			heldW := false
			for _, l := range c.held {
				if p, okT := translate(l.Path, c.call, fi); okT && p == ci.path && l.Mode == "W" {
					heldW = true
				}
			}
			if !heldW {
				ok = false
				a.Failed = "call at " + prog.Rel(c.call.Pos()) + " passes false without holding the lock exclusively"
			} else {
				a.Premises = append(a.Premises, "call at "+prog.Rel(c.call.Pos())+" passes false with the lock held exclusively")
			}
		}
		// exported: callers outside the module's static calls could exist; all in-module callers are checked
		if !ok {
			a.Holds = false
			delete(condLock, fn)
			dropped = true
		}
	}
	return dropped
}

// A3: closures run under singleflight.Group.Do with a constant key are mutually exclusive and
// ordered (the group's mutex is taken before and after every execution): a pseudo lock.
func annotSingleflight() {
	for _, pkg := range prog.Pkgs {
		if !inScope(pkg.Types) {
			continue
		}
		for _, file := range pkg.Files {
			ast.Inspect(file, func(n ast.Node) bool {
				call, ok := n.(*ast.CallExpr)
				if !ok || len(call.Args) != 2 {
					return true
				}
				se, ok := call.Fun.(*ast.SelectorExpr)
				if !ok || se.Sel.Name != "Do" {
					return true
				}
				fn, ok := pkg.Info.Uses[se.Sel].(*types.Func)
				if !ok || fn.Pkg() == nil || fn.Pkg().Path() != "golang.org/x/sync/singleflight" {
					return true
				}
				fl, ok := call.Args[1].(*ast.FuncLit)
				if !ok {
					return true
				}
				a := &annotation{ID: "singleflight:" + prog.Rel(call.Pos()), What: "the closure given to singleflight.Group.Do runs mutually exclusively per key, consecutive runs ordered by the group's mutex", Holds: true}
				annots = append(annots, a)
				tv := pkg.Info.Types[call.Args[0]]
				if tv.Value == nil || tv.Value.Kind() != constant.String {
					a.Holds, a.Failed = false, "the key is not a constant"
					return true
				}
				gsel, ok := se.X.(*ast.SelectorExpr)
				if !ok {
					a.Holds, a.Failed = false, "the group is not a field"
					return true
				}
				gf, _ := pkg.Info.Selections[gsel]
				if gf == nil {
					a.Holds, a.Failed = false, "the group is not a field"
					return true
				}
				// every Do call on this group field with this key must be this call (one closure per key)
				a.Premises = append(a.Premises, "constant key "+tv.Value.ExactString()+" on group field "+gsel.Sel.Name)
				pseudoLocks[fl] = lockHeld{Path: "#sf:" + gsel.Sel.Name + ":" + constant.StringVal(tv.Value), Mode: "W", Why: "annotation:singleflight"}
				return true
			})
		}
	}
}

// A4: fork-join. In a function that starts goroutines whose closure begins with `defer wg.Done()`
// and later calls wg.Wait(): a captured local whose uses outside the closure are all before the
// loop that starts the goroutines or after the Wait is not shared between running goroutines and
// the parent; inside the closure it may only be indexed, read, or be the receiver of methods that
// do not write their receiver (verified after the site pass, see verifyJoin).
type joinUse struct {
	v       *types.Var
	methods []string
	fn      *fnInfo
}

var joinUses []joinUse

func annotForkJoin() {
	for _, fi := range fnList {
		if !inScope(fi.obj.Pkg()) {
			continue
		}
		info := fi.pkg.Info
		var goStmt *ast.GoStmt
		var loop ast.Stmt
		var wgName string
		for _, s := range fi.decl.Body.List {
			var body *ast.BlockStmt
			switch l := s.(type) {
			case *ast.RangeStmt:
				body = l.Body
			case *ast.ForStmt:
				body = l.Body
			default:
				continue
			}
			for _, bs := range body.List {
				gs, ok := bs.(*ast.GoStmt)
				if !ok {
					continue
				}
				fl, ok := gs.Call.Fun.(*ast.FuncLit)
				if !ok || len(fl.Body.List) == 0 {
					continue
				}
				ds, ok := fl.Body.List[0].(*ast.DeferStmt)
				if !ok {
					continue
				}
				se, ok := ds.Call.Fun.(*ast.SelectorExpr)
				if !ok || se.Sel.Name != "Done" || typeKey(info.Types[se.X].Type) != "sync.WaitGroup" {
					continue
				}
				goStmt, loop, wgName = gs, s, exprPath(se.X)
			}
		}
		if goStmt == nil {
			continue
		}
		var waitPos token.Pos
		for _, s := range fi.decl.Body.List {
			if es, ok := s.(*ast.ExprStmt); ok && s.Pos() > loop.End() {
				if call, ok := es.X.(*ast.CallExpr); ok {
					if se, ok := call.Fun.(*ast.SelectorExpr); ok && se.Sel.Name == "Wait" && exprPath(se.X) == wgName {
						waitPos = s.Pos()
						break
					}
				}
			}
		}
		a := &annotation{ID: "fork-join:" + fi.obj.Name(), What: fmt.Sprintf("%s: goroutines started in a loop end with %s.Done(), the parent continues after %s.Wait()", fi.obj.FullName(), wgName, wgName), Holds: true}
		annots = append(annots, a)
		if waitPos == token.NoPos {
			a.Holds, a.Failed = false, "no Wait after the loop"
			continue
		}
		fl := goStmt.Call.Fun.(*ast.FuncLit)
		free := map[*types.Var]bool{}
		ast.Inspect(fl.Body, func(n ast.Node) bool {
			if id, ok := n.(*ast.Ident); ok {
				if v, ok := info.Uses[id].(*types.Var); ok && !v.IsField() && v.Pkg() != nil && v.Parent() != v.Pkg().Scope() && (v.Pos() < fl.Pos() || v.Pos() > fl.End()) {
					free[v] = true
				}
			}
			return true
		})
		for v := range free {
			okUses := true
			ast.Inspect(fi.decl.Body, func(n ast.Node) bool {
				if n == ast.Node(fl) {
					return false
				}
				if id, ok := n.(*ast.Ident); ok && info.Uses[id] == v {
					if !(id.Pos() < loop.Pos() || id.Pos() > waitPos) {
						okUses = false
					}
				}
				return true
			})
			if !okUses {
				continue
			}
			// uses inside the closure: receiver of method calls, indexed, or read
			var methods []string
			ast.Inspect(fl.Body, func(n ast.Node) bool {
				if call, ok := n.(*ast.CallExpr); ok {
					if se, ok := call.Fun.(*ast.SelectorExpr); ok {
						if id, ok := se.X.(*ast.Ident); ok && info.Uses[id] == v {
							if sel, ok := info.Selections[se]; ok && sel.Kind() == types.MethodVal {
								methods = append(methods, se.Sel.Name)
							}
						}
					}
				}
				return true
			})
			joinVars[v] = true
			joinUses = append(joinUses, joinUse{v, methods, fi})
			a.Premises = append(a.Premises, fmt.Sprintf("captured %s is used by the parent only before the loop or after Wait; methods called on it inside the goroutines: %v", v.Name(), methods))
		}
	}
}

// the methods called on a join variable inside the goroutines must not write their receiver
func applyJoinAnnotation(locs map[string]*locOut) {
	for _, ju := range joinUses {
		if len(ju.methods) == 0 {
			continue
		}
		for _, s := range sites {
			if s.Kind != "KWr" && s.Kind != "KAtW" || s.Phase != "PRun" {
				continue
			}
			for _, m := range ju.methods {
				if strings.HasSuffix(s.Func, ")."+m) && implementsVarType(ju.v, s.Func) {
					for _, a := range annots {
						if a.ID == "fork-join:"+ju.fn.obj.Name() && a.Holds {
							a.Holds = false
							a.Failed = fmt.Sprintf("method %s called concurrently on captured %s writes its receiver at %s", m, ju.v.Name(), s.Pos)
						}
					}
					// the type is shared after all
					if l, ok := locs[s.Loc]; ok {
						l.Class, l.Why = "CShared", "written by a method the goroutines of a fork-join call concurrently ("+s.Pos+")"
					}
				}
			}
		}
	}
}

func implementsVarType(v *types.Var, fullName string) bool {
	// fullName is (*pkg.T).m or (pkg.T).m: accept when T implements the variable's interface type
	it, ok := v.Type().Underlying().(*types.Interface)
	if !ok {
		return strings.Contains(fullName, typeKey(v.Type()))
	}
	for _, o := range fieldOwner {
		if strings.Contains(fullName, o.Obj().Pkg().Path()+"."+o.Obj().Name()+")") {
			if types.Implements(o, it) || types.Implements(types.NewPointer(o), it) {
				return true
			}
		}
	}
	return false
}
