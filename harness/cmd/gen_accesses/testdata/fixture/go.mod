module fixture

go 1.14
