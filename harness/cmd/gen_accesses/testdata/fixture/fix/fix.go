// Package fix is the self-test corpus of gen_accesses: small types that exercise each translator rule, with
// the locations the table must flag listed in ../expected.json. It is never built into anything.
package fix

import (
	"sync"
	"sync/atomic"
)

// every type below is reachable from a package variable, i.e. shared between goroutines
var (
	G  = NewGood()
	B  = &Bad{}
	R  = &RW{}
	A  = &At{}
	C  = &Cache{}
	H  = &Holder{}
	He = &Helper{}
	L  = &Leaky{}
	Cf = NewConf()
	CL = &CondLock{m: map[int]int{}}
	CG = &CondGuard{m: map[int]int{}}
	CB = &CondGuardBad{m: map[int]int{}}
)

// Good: a mutex held at every access (defer and explicit unlock), map element writes included.
type Good struct {
	mu sync.Mutex
	n  int
	m  map[string]int
}

func NewGood() *Good { return &Good{m: map[string]int{}} }
func (g *Good) Inc() {
	g.mu.Lock()
	defer g.mu.Unlock()
	g.n++
	g.m["a"] = g.n
}
func (g *Good) Get() int {
	g.mu.Lock()
	n := g.n + g.m["a"]
	g.mu.Unlock()
	return n
}

// Bad: one writer forgets the lock.
type Bad struct {
	mu sync.Mutex
	n  int
}

func (b *Bad) Inc() { b.n++ }
func (b *Bad) Get() int {
	b.mu.Lock()
	defer b.mu.Unlock()
	return b.n
}

// RW: v is written under the read lock (flagged); w is written under the write lock and read under the read lock.
type RW struct {
	mu sync.RWMutex
	v  int
	w  int
}

func (r *RW) Set(x int) {
	r.mu.RLock()
	r.v = x
	r.mu.RUnlock()
}
func (r *RW) Get() int {
	r.mu.RLock()
	defer r.mu.RUnlock()
	return r.v
}
func (r *RW) SetW(x int) {
	r.mu.Lock()
	r.w = x
	r.mu.Unlock()
}
func (r *RW) GetW() int {
	r.mu.RLock()
	defer r.mu.RUnlock()
	return r.w
}

// At: c only through sync/atomic; d mixes an atomic add with a plain read (flagged).
type At struct {
	c int64
	d int64
}

func (a *At) Inc() int64   { return atomic.AddInt64(&a.c, 1) }
func (a *At) Load() int64  { return atomic.LoadInt64(&a.c) }
func (a *At) IncD() int64  { return atomic.AddInt64(&a.d, 1) }
func (a *At) ReadD() int64 { return a.d }

// Cache: hands out the slice it holds; the reference outlives the critical section (flagged).
type Cache struct {
	mu    sync.Mutex
	items []int
	hits  int
}

func (c *Cache) Put(x []int) {
	c.mu.Lock()
	c.items = x
	c.mu.Unlock()
}
func (c *Cache) Items() []int {
	c.mu.Lock()
	defer c.mu.Unlock()
	c.hits++
	return c.items
}

// Rec / Holder: a recycled record is overwritten through its pointer while a reader still refers to it
// (both fields flagged: `*r = Rec{...}` writes every field).
type Rec struct {
	a int
	b string
}

var pool = sync.Pool{New: func() interface{} { return new(Rec) }}

type Holder struct {
	mu  sync.Mutex
	cur *Rec
}

func (h *Holder) Publish() {
	r := pool.Get().(*Rec)
	*r = Rec{a: 1, b: "x"}
	h.mu.Lock()
	old := h.cur
	h.cur = r
	h.mu.Unlock()
	if old != nil {
		pool.Put(old)
	}
}
func (h *Holder) Read() int {
	h.mu.Lock()
	r := h.cur
	h.mu.Unlock()
	if r == nil {
		return 0
	}
	return r.a + len(r.b)
}

// Helper: an unexported helper inherits the lock of its only callers.
type Helper struct {
	mu sync.Mutex
	x  int
}

func (h *Helper) Set(v int) {
	h.mu.Lock()
	defer h.mu.Unlock()
	h.set(v)
}
func (h *Helper) Reset() {
	h.mu.Lock()
	h.set(0)
	h.mu.Unlock()
}
func (h *Helper) set(v int) { h.x = v }
func (h *Helper) Get() int {
	h.mu.Lock()
	defer h.mu.Unlock()
	return h.x
}

// Leaky: the same, but one caller of the helper does not hold the lock (flagged).
type Leaky struct {
	mu sync.Mutex
	x  int
}

func (l *Leaky) Set(v int) {
	l.mu.Lock()
	defer l.mu.Unlock()
	l.set(v)
}
func (l *Leaky) Fast(v int) { l.set(v) }
func (l *Leaky) set(v int)  { l.x = v }
func (l *Leaky) Get() int {
	l.mu.Lock()
	defer l.mu.Unlock()
	return l.x
}

// Conf: written only by its constructor before it is published.
type Conf struct {
	a int
	b []int
}

func NewConf() *Conf {
	c := &Conf{}
	c.a = 3
	c.b = append(c.b, 1)
	return c
}
func (c *Conf) A() int { return c.a + len(c.b) }

// CondLock: a bool parameter says whether the callee takes the lock; the false call holds it (accepted).
type CondLock struct {
	mu sync.RWMutex
	m  map[int]int
}

func (c *CondLock) Del(k int, lock bool) {
	if lock {
		c.mu.Lock()
	}
	delete(c.m, k)
	if lock {
		c.mu.Unlock()
	}
}
func (c *CondLock) Clear() {
	c.mu.Lock()
	for k := range c.m {
		c.Del(k, false)
	}
	c.mu.Unlock()
}
func (c *CondLock) One(k int) { c.Del(k, true) }
func (c *CondLock) Has(k int) bool {
	c.mu.RLock()
	defer c.mu.RUnlock()
	_, ok := c.m[k]
	return ok
}

// CondGuard: the same discipline written with a guard clause and a helper that needs the lock held (accepted).
type CondGuard struct {
	mu sync.RWMutex
	m  map[int]int
}

func (c *CondGuard) Del(k int, lock bool) {
	if !lock {
		c.drop(k)
		return
	}
	c.mu.Lock()
	c.drop(k)
	c.mu.Unlock()
}
func (c *CondGuard) drop(k int) { delete(c.m, k) }
func (c *CondGuard) Clear() {
	c.mu.Lock()
	for k := range c.m {
		c.Del(k, false)
	}
	c.mu.Unlock()
}
func (c *CondGuard) One(k int) { c.Del(k, true) }

// CondGuardBad: one caller passes false without holding the lock (flagged).
type CondGuardBad struct {
	mu sync.RWMutex
	m  map[int]int
}

func (c *CondGuardBad) Del(k int, lock bool) {
	if !lock {
		c.drop(k)
		return
	}
	c.mu.Lock()
	c.drop(k)
	c.mu.Unlock()
}
func (c *CondGuardBad) drop(k int) { delete(c.m, k) }
func (c *CondGuardBad) Sloppy(k int) { c.Del(k, false) }
func (c *CondGuardBad) One(k int)    { c.Del(k, true) }

// Local: never leaves the goroutine that created it (confined: not flagged whatever it does).
type Local struct{ n int }

func UseLocal() int {
	l := &Local{}
	l.n++
	l.n++
	return l.n
}

// Shared: captured by a go statement and used afterwards by its creator (flagged).
type Shared struct{ n int }

func Run() int {
	s := &Shared{}
	go func() { s.n++ }()
	s.n++
	return s.n
}

// Handed: captured by a go statement and not used again by its creator: handed over, not shared.
type Handed struct{ n int }

func Start() {
	h := &Handed{}
	h.n = 1
	go func() { h.n++ }()
}
